(* C14 - proofs: the schema goa documents for an attribute accepts exactly the values
   the design's validations accept, on the faithful fragment. *)
From Coq Require Import QArith Lia.
From Validation Require Import Model Schema Lemmas.
Close Scope Q_scope.
Open Scope nat_scope.

Lemma forallb_opt_kw {A} (o : option A) (g : A -> kw) (f : kw -> bool) :
  forallb f (opt_kw o g) = opt_all o (fun x => f (g x)).
Proof. destruct o; cbn; [apply andb_true_r|reflexivity]. Qed.

Lemma opt_all_true {A} (o : option A) : opt_all o (fun _ => true) = true.
Proof. now destruct o. Qed.

Section SchemaProofs.
Variable fmt_ok pat_ok : nat -> str -> bool.
Notation kw_sat := (kw_sat fmt_ok pat_ok).
Notation skw_ok := (skw_ok fmt_ok pat_ok).

Definition sat_all (vl : validation) (v : value) : bool := forallb (fun k => kw_sat k v) (kws_of vl).

Lemma kw_viols_nil_iff ks v p : kw_viols fmt_ok pat_ok spec_err_of ks v p = [] <-> forallb (fun k => kw_sat k v) ks = true.
Proof.
  unfold kw_viols. induction ks as [|k ks IH]; cbn [flat_map forallb]; [tauto|].
  destruct (kw_sat k v); cbn [app andb]; [exact IH|split; discriminate].
Qed.

Ltac crush_opts :=
  repeat match goal with |- context [opt_all ?o ?f] => destruct (opt_all o f) end; reflexivity.

Lemma sat_all_unfold vl v :
  sat_all vl v =
  opt_all (v_enum vl) (fun l => kw_sat (KEnum l) v) && (opt_all (v_format vl) (fun f => kw_sat (KFormat f) v) &&
  (opt_all (v_pattern vl) (fun p => kw_sat (KPattern p) v) && (opt_all (v_xmin vl) (fun m => kw_sat (KXMin m) v) &&
  (opt_all (v_min vl) (fun m => kw_sat (KMin m) v) && (opt_all (v_xmax vl) (fun m => kw_sat (KXMax m) v) &&
  (opt_all (v_max vl) (fun m => kw_sat (KMax m) v) && (opt_all (v_minlen vl) (fun n => kw_sat (KMinLen n) v) &&
   opt_all (v_maxlen vl) (fun n => kw_sat (KMaxLen n) v)))))))).
Proof. unfold sat_all, kws_of. now rewrite !forallb_app, !forallb_opt_kw. Qed.

(* scalars: the documented keywords are the design's keywords *)
Lemma skw_scalar vl v :
  match v with VArr _ | VMap _ | VObj _ | VNull => False | VBytes _ => v_minlen vl = None /\ v_maxlen vl = None | _ => True end ->
  skw_ok (skw_of false vl) v = sat_all vl v.
Proof.
  intro Hv. rewrite sat_all_unfold. unfold skw_ok, skw_of. cbn [s_enum s_format s_pattern s_minimum s_maximum s_xmin s_xmax s_minlength s_maxlength s_minitems s_maxitems].
  destruct v; try contradiction; cbn [Model.kw_sat spec_len]; rewrite ?opt_all_true, ?andb_true_r.
  - reflexivity.
  - crush_opts.
  - crush_opts.
  - destruct Hv as [-> ->]. cbn [opt_all]. now rewrite ?andb_true_r.
  - reflexivity.
Qed.

Lemma skw_array vl l : vl_collection_ok vl = true -> skw_ok (skw_of true vl) (VArr l) = sat_all vl (VArr l).
Proof.
  intro Hc. rewrite sat_all_unfold. unfold skw_ok, skw_of, vl_collection_ok in *.
  cbn [s_enum s_format s_pattern s_minimum s_maximum s_xmin s_xmax s_minlength s_maxlength s_minitems s_maxitems].
  destruct (v_enum vl), (v_format vl), (v_pattern vl), (v_xmin vl), (v_min vl), (v_xmax vl), (v_max vl); try discriminate.
  cbn [opt_all andb Model.kw_sat spec_len]. reflexivity.
Qed.

Lemma skw_map vl l : vl_collection_ok vl = true -> v_minlen vl = None -> v_maxlen vl = None ->
  skw_ok (skw_of false vl) (VMap l) = true /\ sat_all vl (VMap l) = true.
Proof.
  intros Hc Hm HM. rewrite sat_all_unfold. unfold skw_ok, skw_of, vl_collection_ok in *.
  cbn [s_enum s_format s_pattern s_minimum s_maximum s_xmin s_xmax s_minlength s_maxlength s_minitems s_maxitems].
  destruct (v_enum vl), (v_format vl), (v_pattern vl), (v_xmin vl), (v_min vl), (v_xmax vl), (v_max vl); try discriminate.
  rewrite Hm, HM. split; reflexivity.
Qed.

Lemma skw_any vl v : vl_ok PAny vl = true -> skw_ok (skw_of false vl) v = sat_all vl v.
Proof.
  intro Hok. rewrite sat_all_unfold. unfold skw_ok, skw_of. cbn [vl_ok] in Hok.
  cbn [s_enum s_format s_pattern s_minimum s_maximum s_xmin s_xmax s_minlength s_maxlength s_minitems s_maxitems].
  destruct (v_format vl), (v_pattern vl), (v_minlen vl), (v_maxlen vl), (v_xmin vl), (v_min vl), (v_xmax vl), (v_max vl); try discriminate.
  cbn [opt_all]. rewrite ?andb_true_r. destruct v; cbn [Model.kw_sat]; now rewrite ?andb_true_r.
Qed.

Variable E : env.
Variable fc : ctx.
Variable refA : nat -> value -> bool.
Variable callS : nat -> value -> list viol.
Hypothesis Hcall : forall id x, x <> VNull -> dense x = true -> wt E fc fc true (user_body E id) x ->
  (refA id x = true <-> callS id x = []).

Notation accepts := (accepts fmt_ok pat_ok E refA).
Notation spec_viol := (spec_viol fmt_ok pat_ok E callS).

Definition J (a : att) : Prop :=
  forall c req v p, wf_att E a = true -> schema_faithful E a = true -> wt E fc c req a v -> v <> VNull -> dense v = true ->
    (accepts (schema_of E a) v = true <-> spec_viol a v p = []).

Lemma leaf_struct t k v : accepts (SNode t k [] [] None None) v = type_ok t v && skw_ok k v.
Proof. cbn [Schema.accepts]. destruct v; cbn; now rewrite ?andb_true_r. Qed.

Lemma prim_type_ok pr v : prim_value pr v = true -> type_ok (jtype_of pr) v = true.
Proof. destruct pr as [|k| | |]; destruct v; cbn; try discriminate; try reflexivity; destruct k; reflexivity. Qed.

Lemma J_prim_gen pr vl v p : vl_ok pr vl = true -> prim_value pr v = true ->
  (pr = PBytes -> v_minlen vl = None /\ v_maxlen vl = None) ->
  (accepts (SNode (jtype_of pr) (skw_of false vl) [] [] None None) v = true <->
   kw_viols fmt_ok pat_ok spec_err_of (kws_of vl) v p = []).
Proof.
  intros Hok Hpv Hb. rewrite leaf_struct, (prim_type_ok pr v Hpv), kw_viols_nil_iff. cbn [andb].
  fold (sat_all vl v).
  destruct pr.
  - rewrite skw_scalar; [tauto|]. destruct v; try discriminate; exact I.
  - rewrite skw_scalar; [tauto|]. destruct v; try discriminate; exact I.
  - rewrite skw_scalar; [tauto|]. destruct v; try discriminate; exact I.
  - rewrite skw_scalar; [tauto|]. destruct v; try discriminate. now apply Hb.
  - rewrite skw_any by assumption. tauto.
Qed.

Lemma J_prim vl def pr : J (APrim vl def pr).
Proof.
  intros c req v p Hwf Hsf Hwt Hv _. cbn [wf_att schema_faithful schema_of] in *.
  inversion Hwt as [|c' r' vl' d' p' v' Hpv| | | | |]; subst; [congruence|].
  assert (Hs : spec_viol (APrim vl def pr) v p = kw_viols fmt_ok pat_ok spec_err_of (kws_of vl) v p) by (destruct v; congruence || reflexivity).
  rewrite Hs. apply J_prim_gen; try assumption.
  intros ->. destruct (v_minlen vl), (v_maxlen vl); try discriminate. now split.
Qed.

Lemma J_alias id : J (AAlias id).
Proof.
  intros c req v p Hwf Hsf Hwt Hv _. cbn [wf_att schema_of] in *. unfold alias_vl.
  destruct (alias_def E id) as [pr vl] eqn:Ea. apply andb_prop in Hwf. destruct Hwf as [Hok Hnn].
  inversion Hwt as [| |c' r' id' v' Hpv Hnat| | | |]; subst; [congruence|]. rewrite Ea in Hpv, Hnat. cbn [fst] in *.
  assert (Hs : spec_viol (AAlias id) v p = kw_viols fmt_ok pat_ok spec_err_of (kws_of vl) v p).
  { destruct v; try congruence; cbn [Model.spec_viol]; unfold alias_vl; now rewrite Ea. }
  rewrite Hs. apply J_prim_gen; try assumption. intros ->. discriminate.
Qed.

Lemma forallb_flat_map_iff {A} (f : A -> bool) (g : A -> list viol) l :
  (forall x, In x l -> (f x = true <-> g x = [])) -> (forallb f l = true <-> flat_map g l = []).
Proof.
  intro H. induction l as [|x l IH]; cbn [forallb flat_map]; [tauto|].
  rewrite andb_true_iff. split.
  - intros [H1 H2]. apply (H x (or_introl eq_refl)) in H1. rewrite H1. apply IH; [|assumption]. intros y Hy. apply H. now right.
  - intro Hn. apply app_eq_nil in Hn. destruct Hn as [H1 H2]. split; [now apply (H x (or_introl eq_refl))|].
    apply IH; [|assumption]. intros y Hy. apply H. now right.
Qed.

Lemma J_arr vl e : J e -> J (AArray vl e).
Proof.
  intros IH c req v p Hwf Hsf Hwt Hv Hd. cbn [wf_att schema_faithful schema_of] in *.
  apply andb_prop in Hwf. destruct Hwf as [Hok Hwe].
  inversion Hwt as [| | |c' r' vl' e' l Hall| | |]; subst; [congruence|].
  cbn [Schema.accepts type_ok andb Model.spec_viol dense] in *.
  rewrite andb_true_iff, (skw_array vl l Hok). unfold sat_all. rewrite <- (kw_viols_nil_iff (kws_of vl) (VArr l) p).
  rewrite forallb_forall in Hd.
  split.
  - intros [H1 H2]. rewrite H1. cbn [app]. eapply forallb_flat_map_iff; [|exact H2].
    intros x Hx. specialize (Hd x Hx). apply andb_prop in Hd. destruct Hd as [Hn Hdx].
    apply IH with (c := elem_ctx c e) (req := true); try assumption; [now apply Hall|].
    intro; subst x; discriminate.
  - intro Hn. apply app_eq_nil in Hn. destruct Hn as [H1 H2]. split; [assumption|].
    eapply forallb_flat_map_iff; [|exact H2].
    intros x Hx. specialize (Hd x Hx). apply andb_prop in Hd. destruct Hd as [Hnx Hdx].
    apply IH with (c := elem_ctx c e) (req := true); try assumption; [now apply Hall|].
    intro; subst x; discriminate.
Qed.

Lemma vl_empty_kws vl : vl_empty vl = true -> kws_of vl = [].
Proof. unfold vl_empty. destruct (kws_of vl); [reflexivity|discriminate]. Qed.

Definition plain_string_key (k : att) : bool :=
  match k with APrim kvl _ PString => vl_empty kvl | _ => false end.

Lemma plain_key_spec k x p : plain_string_key k = true -> spec_viol k x p = [].
Proof.
  destruct k as [kvl kd kp| | | | |]; try discriminate. destruct kp; try discriminate. cbn [plain_string_key]. intro H.
  destruct x; cbn [Model.spec_viol]; rewrite ?(vl_empty_kws kvl H); reflexivity.
Qed.

Lemma plain_key_string k : plain_string_key k = true -> is_string_key E k = true.
Proof. destruct k as [kvl kd kp| | | | |]; try discriminate. now destruct kp. Qed.

Lemma J_map vl k e : J e -> J (AMap vl k e).
Proof.
  intros IH c req v p Hwf Hsf Hwt Hv Hd. cbn [wf_att schema_faithful schema_of] in *.
  apply andb_prop in Hwf. destruct Hwf as [Hwf Hwe]. apply andb_prop in Hwf. destruct Hwf as [Hok Hwk].
  apply andb_prop in Hsf. destruct Hsf as [Hsf Hfe]. apply andb_prop in Hsf. destruct Hsf as [Hsf Hna].
  apply andb_prop in Hsf. destruct Hsf as [Hlen Hkey]. fold (plain_string_key k) in Hkey.
  destruct (v_minlen vl) eqn:Em; [discriminate|]. destruct (v_maxlen vl) eqn:EM; [discriminate|].
  inversion Hwt as [| | | |c' r' vl' k' e' l Hall| |]; subst; [congruence|].
  rewrite (plain_key_string k Hkey), Hna. cbn [andb].
  cbn [Schema.accepts type_ok andb dense] in *.
  destruct (skw_map vl l Hok Em EM) as [Hs1 Hs2]. rewrite Hs1. cbn [andb].
  assert (Hown : kw_viols fmt_ok pat_ok spec_err_of (kws_of vl) (VMap l) p = []) by now apply kw_viols_nil_iff.
  assert (Hsp : spec_viol (AMap vl k e) (VMap l) p =
                kw_viols fmt_ok pat_ok spec_err_of (kws_of vl) (VMap l) p ++
                flat_map (fun kv => spec_viol k (fst kv) (p ++ [PKey]) ++ spec_viol e (snd kv) (p ++ [PVal])) l) by reflexivity.
  rewrite Hsp, Hown. cbn [app]. rewrite forallb_forall in Hd.
  apply forallb_flat_map_iff. intros kv Hx.
  specialize (Hd kv Hx). apply andb_prop in Hd. destruct Hd as [Hn Hdx].
  rewrite (plain_key_spec k (fst kv) (p ++ [PKey]) Hkey). cbn [app].
  apply IH with (c := map_ctx c e) (req := true); try assumption; [now apply (Hall kv Hx)|].
  intro Heq; rewrite Heq in Hn; discriminate.
Qed.

Fixpoint props_of (fs : list (nat * bool * att)) : list schema :=
  match fs with [] => [] | (_, _, fa) :: fs' => schema_of E fa :: props_of fs' end.

Lemma schema_of_obj fs :
  schema_of E (AObject fs) = SNode JObject (skw_of false no_validation) (required_positions 0 fs) (props_of fs) None None.
Proof.
  reflexivity.
Qed.

Fixpoint each (ps : list schema) (l : list value) : bool :=
  match ps, l with
  | ps1 :: ps', x :: l' => (if is_null x then true else accepts ps1 x) && each ps' l'
  | _, _ => true
  end.

Lemma accepts_obj k req ps l :
  accepts (SNode JObject k req ps None None) (VObj l) =
  skw_ok k (VObj l) && (forallb (fun i => negb (is_null (nth i l VNull))) req && each ps l).
Proof.
  reflexivity.
Qed.

Lemma reqs_pos p fs : forall pre l, length l = length fs ->
  (forallb (fun i => negb (is_null (nth i (pre ++ l) VNull))) (required_positions (length pre) fs) = true <->
   reqs_spec p fs l = []).
Proof.
  induction fs as [|[[n r] fa] fs IH]; intros pre l Hl; destruct l as [|x l]; try discriminate; [cbn; tauto|].
  cbn [required_positions reqs_spec]. rewrite forallb_app, andb_true_iff.
  injection Hl as Hl. specialize (IH (pre ++ [x]) l Hl). rewrite app_length, Nat.add_1_r, <- app_assoc in IH. cbn [app] in IH.
  rewrite IH. destruct r; cbn [forallb andb].
  - rewrite nth_middle. destruct (is_null x); cbn; split; try tauto; try (intros [H _]; discriminate); intro H; discriminate.
  - tauto.
Qed.

Lemma spec_viol_null a p : spec_viol a VNull p = [].
Proof. destruct a; reflexivity. Qed.

Lemma wt_fields_len c fs l : wt_fields E fc c fs l -> length l = length fs.
Proof. induction 1; cbn; congruence. Qed.

Lemma fields_pos c p fs : Forall (fun f => J (snd f)) fs ->
  forallb (fun f => wf_att E (snd f)) fs = true -> forallb (fun f => schema_faithful E (snd f)) fs = true ->
  forall l, wt_fields E fc c fs l -> forallb dense l = true ->
  (each (props_of fs) l = true <-> fields_spec fmt_ok pat_ok E callS p fs l = []).
Proof.
  induction 1 as [|[[n r] fa] fs Hfa _ IH]; intros Hwf Hsf l Hwt Hd;
    inversion Hwt as [|c' n' r' fa' fs' x l' Hx Hrest]; subst; [cbn; tauto|].
  cbn [forallb snd] in *. apply andb_prop in Hwf. destruct Hwf as [Hwf1 Hwf2].
  apply andb_prop in Hsf. destruct Hsf as [Hsf1 Hsf2]. apply andb_prop in Hd. destruct Hd as [Hd1 Hd2].
  cbn [props_of each fields_spec]. rewrite andb_true_iff. specialize (IH Hwf2 Hsf2 l' Hrest Hd2).
  assert (Hh : (if is_null x then true else accepts (schema_of E fa) x) = true <-> spec_viol fa x (p ++ [PField n]) = []).
  { destruct x; try (cbn [is_null]; apply Hfa with (c := c) (req := r); try assumption; discriminate).
    rewrite spec_viol_null. cbn. tauto. }
  rewrite Hh, IH. split.
  - intros [H1 H2]. now rewrite H1, H2.
  - intro Hn. apply app_eq_nil in Hn. exact Hn.
Qed.

Lemma J_obj fs : Forall (fun f => J (snd f)) fs -> J (AObject fs).
Proof.
  intros HJ c req v p Hwf Hsf Hwt Hv Hd. cbn [wf_att schema_faithful] in *.
  inversion Hwt as [| | | | |c' r' fs' l Hf|]; subst; [congruence|].
  rewrite schema_of_obj, accepts_obj, spec_viol_obj. cbn [dense] in Hd.
  assert (Hk : skw_ok (skw_of false no_validation) (VObj l) = true) by reflexivity.
  rewrite Hk. cbn [andb]. rewrite andb_true_iff.
  pose proof (reqs_pos p fs [] l (wt_fields_len c fs l Hf)) as H1. cbn [app length] in H1.
  pose proof (fields_pos c p fs HJ Hwf Hsf l Hf Hd) as H2.
  rewrite H1, H2. split.
  - intros [A B]. now rewrite A, B.
  - intro Hn. apply app_eq_nil in Hn. exact Hn.
Qed.

Lemma J_user id : J (AUser id).
Proof.
  intros c req v p _ _ Hwt Hv Hd. cbn [schema_of Schema.accepts].
  inversion Hwt as [| | | | | |c' r' id' v' Hnn Hb]; subst; [congruence|].
  destruct v; try congruence; cbn [Model.spec_viol]; apply Hcall; assumption.
Qed.

Lemma J_all a : J a.
Proof.
  induction a as [vl def pr|id|vl e IHe|vl k e IHk IHe|fs IH|id] using att_ind'.
  - apply J_prim.
  - apply J_alias.
  - now apply J_arr.
  - now apply J_map.
  - now apply J_obj.
  - apply J_user.
Qed.
End SchemaProofs.

Section SchemaTop.
Variable fmt_ok pat_ok : nat -> str -> bool.
Variable E : env.
Variable fc : ctx.
Hypothesis HwfE : wf_env E = true.
Hypothesis HsfE : env_schema_faithful E = true.

Lemma env_body_faithful id : schema_faithful E (user_body E id) = true.
Proof.
  unfold user_body. destruct (assoc (e_users E) id) as [a|] eqn:Ea; [|reflexivity].
  apply assoc_in in Ea. unfold env_schema_faithful in HsfE. rewrite forallb_forall in HsfE. exact (HsfE _ Ea).
Qed.

Lemma accepts_user_iff : forall n id x, x <> VNull -> dense x = true -> wt E fc fc true (user_body E id) x ->
  (accepts_user fmt_ok pat_ok E n id x = true <-> spec_user fmt_ok pat_ok E n id x = []).
Proof.
  induction n as [|n IH]; intros id x Hx Hd Hwt; [cbn; tauto|].
  cbn [accepts_user spec_user]. unfold component.
  destruct (wf_user_body E id HwfE) as [Hwf _].
  exact (J_all fmt_ok pat_ok E fc (accepts_user fmt_ok pat_ok E n) (spec_user fmt_ok pat_ok E n) IH (user_body E id)
           fc true x [] Hwf (env_body_faithful id) Hwt Hx Hd).
Qed.

Theorem schema_matches n c req a v :
  wf_att E a = true -> schema_faithful E a = true -> wt E fc c req a v -> v <> VNull -> dense v = true ->
  (schema_accepts fmt_ok pat_ok E n a v = true <-> violations fmt_ok pat_ok E n a v = []).
Proof.
  intros Hwf Hsf Hwt Hv Hd. unfold schema_accepts, violations.
  exact (J_all fmt_ok pat_ok E fc (accepts_user fmt_ok pat_ok E n) (spec_user fmt_ok pat_ok E n) (accepts_user_iff n) a
           c req v [] Hwf Hsf Hwt Hv Hd).
Qed.
End SchemaTop.
