(* Validation engine (C04, C14) - definitions only, all computable.

   SPEC       violations / satisfies : what a design's validations require of a value
              (a constraint binds an attribute when it is present).
   GOA SPEC   violations_goa : the same, with the three places where goa's generated
              code is known to differ stated declaratively (nil collection has length 0;
              the exclusive maximum is replaced by a second exclusive-minimum test when
              both exclusive bounds are set; Validate<T> calls are elided according to
              codegen.hasValidations evaluated in the CURRENT attribute context).
   GENERATOR  gen / validate_attribute : a model of codegen/validation.go
              (recurseValidationCode, validateAttribute, validationCode,
              generatedRequiredValidation, hasValidations) producing a small AST of the
              emitted Go code, and exec, an interpreter of that AST over value trees in
              which dereferencing a nil pointer is a crash (None).
   The comparison operators, length functions, nil-guard shapes and error constructors
   come from Generated_valops.v (extracted from the template constants of the source). *)
From Coq Require Export List Bool Arith NArith ZArith.
From Coq Require Import QArith.
Export ListNotations.
From Validation Require Export Generated_valops Utf8.
Close Scope Q_scope.
Open Scope nat_scope.

(* ------------------------------------------------------------------ types *)
Inductive numk := KInt | KInt32 | KInt64 | KUInt | KUInt32 | KUInt64 | KFloat32 | KFloat64.
Inductive prim := PBool | PNum (k : numk) | PString | PBytes | PAny.

Inductive lit := LNum (q : Q) | LStr (s : str) | LBool (b : bool).

Record validation := mkV {
  v_enum : option (list lit);
  v_format : option nat;
  v_pattern : option nat;
  v_xmin : option Q;
  v_min : option Q;
  v_xmax : option Q;
  v_max : option Q;
  v_minlen : option nat;
  v_maxlen : option nat }.

Definition no_validation : validation := mkV None None None None None None None None None.

(* attributes: each node carries its own validation; object fields carry their name
   (an index chosen by the harness), the required flag and the attribute; `def` says
   whether a primitive attribute has a default value *)
Inductive att :=
| APrim (vl : validation) (def : bool) (p : prim)
| AAlias (id : nat)
| AArray (vl : validation) (e : att)
| AMap (vl : validation) (k e : att)
| AObject (fs : list (nat * bool * att))
| AUser (id : nat).

(* user types (object / array / map bodies) and alias types (primitive + validation,
   alias chains already merged by goa), both by id *)
Record env := mkEnv {
  e_users : list (nat * att);
  e_aliases : list (nat * (prim * validation)) }.

Fixpoint assoc {A} (l : list (nat * A)) (k : nat) : option A :=
  match l with
  | [] => None
  | (k', x) :: r => if Nat.eqb k k' then Some x else assoc r k
  end.

Definition user_body (E : env) (id : nat) : att :=
  match assoc (e_users E) id with Some a => a | None => AObject [] end.
Definition alias_def (E : env) (id : nat) : prim * validation :=
  match assoc (e_aliases E) id with Some a => a | None => (PString, no_validation) end.

(* attribute context of codegen (AttributeContext): Pointer, IgnoreRequired, UseDefault *)
Record ctx := mkCtx { c_ptr : bool; c_ignreq : bool; c_usedef : bool }.
Definition ctx_server_request : ctx := mkCtx true false false.   (* unmarshalling transport types *)
Definition ctx_service : ctx := mkCtx false false true.          (* service types, params / headers *)
Definition ctx_view : ctx := mkCtx true false true.
Definition set_ptr (c : ctx) (b : bool) : ctx := mkCtx b (c_ignreq c) (c_usedef c).

(* ------------------------------------------------------------------ values *)
Inductive value :=
| VNull                                  (* nil pointer / nil slice / nil map / absent *)
| VBool (b : bool)
| VNum (q : Q)
| VStr (s : str)
| VBytes (s : str)
| VAny
| VArr (l : list value)
| VMap (l : list (value * value))
| VObj (l : list value).                 (* one value per field of the object type, in order *)

Definition is_null (v : value) : bool := match v with VNull => true | _ => false end.

(* nesting depth of a value *)
Fixpoint vdepth (v : value) : nat :=
  match v with
  | VArr l => S (fold_right (fun x m => Nat.max (vdepth x) m) 0 l)
  | VMap l => S (fold_right (fun kv m => Nat.max (Nat.max (vdepth (fst kv)) (vdepth (snd kv))) m) 0 l)
  | VObj l => S (fold_right (fun x m => Nat.max (vdepth x) m) 0 l)
  | _ => 0
  end.

Inductive pseg := PField (n : nat) | PElem | PKey | PVal.
Definition path := list pseg.
Definition viol := (errname * path)%type.

(* ------------------------------------------------------------------ keywords *)
Inductive kw :=
| KEnum (l : list lit) | KFormat (f : nat) | KPattern (p : nat)
| KXMin (q : Q) | KMin (q : Q) | KXMax (q : Q) | KMax (q : Q)
| KMinLen (n : nat) | KMaxLen (n : nat).

Definition opt_kw {A} (o : option A) (f : A -> kw) : list kw :=
  match o with Some x => [f x] | None => [] end.

(* the keywords of a validation, in the order validationCode emits them *)
Definition kws_of (vl : validation) : list kw :=
  opt_kw (v_enum vl) KEnum ++ opt_kw (v_format vl) KFormat ++ opt_kw (v_pattern vl) KPattern ++
  opt_kw (v_xmin vl) KXMin ++ opt_kw (v_min vl) KMin ++ opt_kw (v_xmax vl) KXMax ++
  opt_kw (v_max vl) KMax ++ opt_kw (v_minlen vl) KMinLen ++ opt_kw (v_maxlen vl) KMaxLen.

(* what validationCode really emits: data["isExclMin"] stays true after the exclusive
   minimum template ran, so the exclusive-maximum slot repeats the exclusive-minimum test *)
Definition xmax_slot (vl : validation) : list kw :=
  match v_xmax vl with
  | None => []
  | Some M => match v_xmin vl with
              | Some m => if sticky_exclmin then [KXMin m] else [KXMax M]
              | None => [KXMax M]
              end
  end.

Definition kws_goa (vl : validation) : list kw :=
  opt_kw (v_enum vl) KEnum ++ opt_kw (v_format vl) KFormat ++ opt_kw (v_pattern vl) KPattern ++
  opt_kw (v_xmin vl) KXMin ++ opt_kw (v_min vl) KMin ++ xmax_slot vl ++
  opt_kw (v_max vl) KMax ++ opt_kw (v_minlen vl) KMinLen ++ opt_kw (v_maxlen vl) KMaxLen.

Definition err_of (k : kw) : errname :=
  match k with
  | KEnum _ => err_enum | KFormat _ => err_format | KPattern _ => err_pattern
  | KXMin _ | KXMax _ => err_exclminmax
  | KMin _ | KMax _ => err_minmax
  | KMinLen _ | KMaxLen _ => err_length
  end.

(* the names the property gives the rules (pkg/error.go) *)
Definition spec_err_of (k : kw) : errname :=
  match k with
  | KEnum _ => EInvalidEnumValue | KFormat _ => EInvalidFormat | KPattern _ => EInvalidPattern
  | KXMin _ | KXMax _ | KMin _ | KMax _ => EInvalidRange
  | KMinLen _ | KMaxLen _ => EInvalidLength
  end.

Definition qle (a b : Q) : bool := Qle_bool a b.
Definition qlt (a b : Q) : bool := negb (Qle_bool b a).

Fixpoint str_eqb (a b : str) : bool :=
  match a, b with
  | [], [] => true
  | x :: a', y :: b' => N.eqb x y && str_eqb a' b'
  | _, _ => false
  end.

Definition lit_matches (v : value) (l : lit) : bool :=
  match v, l with
  | VNum q, LNum q' => Qeq_bool q q'
  | VStr s, LStr s' => str_eqb s s'
  | VBool b, LBool b' => Bool.eqb b b'
  | _, _ => false
  end.

Section Oracles.
(* Go's regexp and goa.ValidateFormat: any behaviour *)
Variable fmt_ok : nat -> str -> bool.
Variable pat_ok : nat -> str -> bool.

(* the length the property talks about: code points of a string, bytes of a byte
   string, elements of an array, entries of a map *)
Definition spec_len (v : value) : option nat :=
  match v with
  | VStr s => Some (rune_count s)
  | VBytes s => Some (length s)
  | VArr l => Some (length l)
  | VMap l => Some (length l)
  | _ => None
  end.

(* SPEC: does a present value satisfy one keyword? (keywords that do not apply to the
   kind of value hold vacuously) *)
Definition kw_sat (k : kw) (v : value) : bool :=
  match k with
  | KEnum l => existsb (lit_matches v) l
  | KFormat f => match v with VStr s => fmt_ok f s | _ => true end
  | KPattern p => match v with VStr s => pat_ok p s | _ => true end
  | KXMin m => match v with VNum q => qlt m q | _ => true end
  | KMin m => match v with VNum q => qle m q | _ => true end
  | KXMax M => match v with VNum q => qlt q M | _ => true end
  | KMax M => match v with VNum q => qle q M | _ => true end
  | KMinLen n => match spec_len v with Some len => n <=? len | None => true end
  | KMaxLen n => match spec_len v with Some len => len <=? n | None => true end
  end.

(* IMPLEMENTATION: the test the emitted code performs, with the operators and length
   functions read from the templates *)
Definition cmpq (o : cmpop) (a b : Q) : bool :=
  match o with OLt => qlt a b | OLe => qle a b | OGt => qlt b a | OGe => qle b a end.
Definition cmpn (o : cmpop) (a b : nat) : bool :=
  match o with OLt => a <? b | OLe => a <=? b | OGt => b <? a | OGe => b <=? a end.
Definition strlen (f : lenfn) (s : str) : nat :=
  match f with LenRunes => rune_count s | LenBytes => byte_len s end.

(* Go's len / utf8.RuneCountInString on the target; len(nil) = 0 *)
Definition impl_len (v : value) : option nat :=
  match v with
  | VStr s => Some (strlen len_string s)
  | VBytes s => Some (strlen len_other s)
  | VArr l => Some (length l)
  | VMap l => Some (length l)
  | VNull => Some 0
  | _ => None
  end.

Definition kw_fires (k : kw) (v : value) : bool :=
  match k with
  | KEnum l => if enum_negated then negb (existsb (lit_matches v) l) else existsb (lit_matches v) l
  | KFormat f => match v with VStr s => negb (fmt_ok f s) | _ => false end
  | KPattern p => match v with VStr s => negb (pat_ok p s) | _ => false end
  | KXMin m => match v with VNum q => cmpq op_xmin q m | _ => false end
  | KMin m => match v with VNum q => cmpq op_min q m | _ => false end
  | KXMax M => match v with VNum q => cmpq op_xmax q M | _ => false end
  | KMax M => match v with VNum q => cmpq op_max q M | _ => false end
  | KMinLen n => match impl_len v with Some len => cmpn op_minlen len n | None => false end
  | KMaxLen n => match impl_len v with Some len => cmpn op_maxlen len n | None => false end
  end.

(* ------------------------------------------------------------------ shared helpers *)
Definition is_prim (a : att) : bool := match a with APrim _ _ _ | AAlias _ => true | _ => false end.
Definition native_nilable (p : prim) : bool := match p with PBytes | PAny => true | _ => false end.
Definition att_def (a : att) : bool := match a with APrim _ d _ => d | _ => false end.

(* validationCode: isPointer *)
Definition is_pointer (c : ctx) (req def : bool) : bool :=
  c_ptr c || (negb req && (negb def || negb (c_usedef c))).

(* recurseValidationCode: contexts used for array elements and for map keys / values *)
Definition elem_ctx (c : ctx) (e : att) : ctx := if c_ptr c && is_prim e then set_ptr c false else c.
(* map keys / values: primitives, arrays and maps are validated with Pointer = false; user
   types (and inline objects) keep the context, or only primitives lose it, as the source
   says (map_ctx_mode, extracted by the translator from recurseValidationCode) *)
Definition map_ctx (c : ctx) (a : att) : ctx :=
  match map_ctx_mode with
  | MapClearAll => set_ptr c false
  | MapKeepUser => match a with AUser _ | AObject _ => c | _ => set_ptr c false end
  | MapClearPrimOnly => match a with APrim _ _ _ | AAlias _ => set_ptr c false | _ => c end
  end.

(* generatedRequiredValidation: is the required test emitted for this attribute? *)
Definition req_emitted (E : env) (c : ctx) (a : att) : bool :=
  let prim_non_native :=
    match a with
    | APrim _ _ p => negb (native_nilable p)
    | AAlias id => negb (native_nilable (fst (alias_def E id)))
    | _ => false
    end in
  negb ((negb (c_ptr c) && prim_non_native) || (c_ignreq c && is_prim a)).

Definition vl_empty (vl : validation) : bool :=
  match kws_of vl with [] => true | _ => false end.

(* codegen.hasValidations (Walk with a seen set over user types): is there, reachable
   from the attribute, a validation that generates code in context c? *)
Definition required_only_generates (E : env) (c : ctx) (fs : list (nat * bool * att)) : bool :=
  existsb (fun f => match f with (_, r, a) => r && req_emitted E c a end) fs.

(* the walk over one attribute tree (codegen.walk): structural on the attribute; `visit` is
   what happens when a user type that has not been seen yet is entered *)
Fixpoint hv_att (E : env) (c : ctx) (visit : list nat -> nat -> bool * list nat) (seen : list nat) (a : att)
  {struct a} : bool * list nat :=
  match a with
  | APrim vl _ _ => (negb (vl_empty vl), seen)
  | AAlias id => (negb (vl_empty (snd (alias_def E id))), seen)
  | AArray vl e => if negb (vl_empty vl) then (true, seen) else hv_att E c visit seen e
  | AMap vl k e =>
      if negb (vl_empty vl) then (true, seen)
      else let '(b, s1) := hv_att E c visit seen k in
           if b then (true, s1) else hv_att E c visit s1 e
  | AObject fs =>
      let own := if c_ptr c then existsb (fun f => match f with (_, r, _) => r end) fs
                 else required_only_generates E c fs in
      if own then (true, seen)
      else (fix flds (fs : list (nat * bool * att)) (seen : list nat) {struct fs} : bool * list nat :=
              match fs with
              | [] => (false, seen)
              | (_, _, fa) :: r =>
                  let '(b, s1) := hv_att E c visit seen fa in
                  if b then (true, s1) else flds r s1
              end) fs seen
  | AUser id =>
      if existsb (Nat.eqb id) seen then (false, seen) else visit (id :: seen) id
  end.

(* entering user types: every entry adds a type that was not seen before, so the number of
   nested entries is bounded by the number of declared user types (+ 1 for an undeclared
   one, whose body is empty); hv_fuel is that bound (hv_sound in Lemmas.v proves that it
   is never exhausted) *)
Fixpoint hv_user (E : env) (c : ctx) (fuel : nat) (seen : list nat) (id : nat) {struct fuel} : bool * list nat :=
  match fuel with
  | O => (false, seen)
  | S f => hv_att E c (hv_user E c f) seen (user_body E id)
  end.

Definition hv_fuel (E : env) : nat := length (e_users E) + 2.
Definition has_validations (E : env) (c : ctx) (id : nat) : bool :=
  fst (hv_user E c (hv_fuel E) [id] id).

(* ------------------------------------------------------------------ SPEC *)
Definition kw_viols (err : kw -> errname) (ks : list kw) (v : value) (p : path) : list viol :=
  flat_map (fun k => if kw_sat k v then [] else [(err k, p)]) ks.

(* what an attribute's own keywords say about a PRESENT value *)
Definition alias_vl (E : env) (id : nat) : validation := snd (alias_def E id).

Definition own_vl (E : env) (a : att) : validation :=
  match a with
  | APrim vl _ _ => vl
  | AAlias id => alias_vl E id
  | AArray vl _ => vl
  | AMap vl _ _ => vl
  | _ => no_validation
  end.

(* spec_viol call a v p: violations of value v against attribute a; `call id v` gives
   the violations of v against user type id (tied by fuel below). Paths restart at
   user-type boundaries, as goa's error fields do. *)
Fixpoint spec_viol (E : env) (call : nat -> value -> list viol) (a : att) (v : value) (p : path) {struct a} : list viol :=
  match v with
  | VNull => []
  | _ =>
    match a with
    | APrim vl _ _ => kw_viols spec_err_of (kws_of vl) v p
    | AAlias id => kw_viols spec_err_of (kws_of (alias_vl E id)) v p
    | AArray vl e =>
        kw_viols spec_err_of (kws_of vl) v p ++
        match v with VArr l => flat_map (fun x => spec_viol E call e x (p ++ [PElem])) l | _ => [] end
    | AMap vl k e =>
        kw_viols spec_err_of (kws_of vl) v p ++
        match v with
        | VMap l => flat_map (fun kv => spec_viol E call k (fst kv) (p ++ [PKey]) ++ spec_viol E call e (snd kv) (p ++ [PVal])) l
        | _ => []
        end
    | AObject fs =>
        match v with
        | VObj l =>
            (fix reqs (fs : list (nat * bool * att)) (l : list value) : list viol :=
               match fs, l with
               | (n, r, fa) :: fs', x :: l' =>
                   (if r && is_null x then [(EMissingField, p ++ [PField n])] else []) ++ reqs fs' l'
               | _, _ => []
               end) fs l ++
            (fix fields (fs : list (nat * bool * att)) (l : list value) : list viol :=
               match fs, l with
               | (n, r, fa) :: fs', x :: l' => spec_viol E call fa x (p ++ [PField n]) ++ fields fs' l'
               | _, _ => []
               end) fs l
        | _ => []
        end
    | AUser id => call id v
    end
  end.

Fixpoint spec_user (E : env) (fuel : nat) (id : nat) (v : value) : list viol :=
  match fuel with
  | O => []
  | S f => spec_viol E (spec_user E f) (user_body E id) v []
  end.

(* ------------------------------------------------------------------ GOA SPEC *)
Definition kw_viols_goa (ks : list kw) (v : value) (p : path) : list viol :=
  flat_map (fun k => if kw_sat k v then [] else [(spec_err_of k, p)]) ks.

Fixpoint goa_viol (E : env) (call : nat -> value -> list viol) (c : ctx) (a : att) (v : value) (p : path) {struct a} : list viol :=
  match v with
  | VNull => match a with      (* a nil array / map is tested as the empty collection *)
             | AArray vl _ => kw_viols_goa (kws_goa vl) (VArr []) p
             | AMap vl _ _ => kw_viols_goa (kws_goa vl) (VMap []) p
             | _ => []
             end
  | _ =>
    match a with
    | APrim vl _ _ => kw_viols_goa (kws_goa vl) v p
    | AAlias id => kw_viols_goa (kws_goa (alias_vl E id)) v p
    | AArray vl e =>
        kw_viols_goa (kws_goa vl) v p ++
        match v with VArr l => flat_map (fun x => goa_viol E call (elem_ctx c e) e x (p ++ [PElem])) l | _ => [] end
    | AMap vl k e =>
        kw_viols_goa (kws_goa vl) v p ++
        match v with
        | VMap l => flat_map (fun kv => goa_viol E call (map_ctx c k) k (fst kv) (p ++ [PKey]) ++
                                        goa_viol E call (map_ctx c e) e (snd kv) (p ++ [PVal])) l
        | _ => []
        end
    | AObject fs =>
        match v with
        | VObj l =>
            (fix reqs (fs : list (nat * bool * att)) (l : list value) : list viol :=
               match fs, l with
               | (n, r, fa) :: fs', x :: l' =>
                   (if r && negb (c_ignreq c && is_prim fa) && is_null x then [(EMissingField, p ++ [PField n])] else []) ++ reqs fs' l'
               | _, _ => []
               end) fs l ++
            (fix fields (fs : list (nat * bool * att)) (l : list value) : list viol :=
               match fs, l with
               | (n, r, fa) :: fs', x :: l' => goa_viol E call c fa x (p ++ [PField n]) ++ fields fs' l'
               | _, _ => []
               end) fs l
        | _ => []
        end
    | AUser id => if has_validations E c id then call id v else []
    end
  end.

(* Validate<T> functions are generated once per file, in the file's context fc *)
Fixpoint goa_user (E : env) (fc : ctx) (fuel : nat) (id : nat) (v : value) : list viol :=
  match fuel with
  | O => []
  | S f => goa_viol E (goa_user E fc f) fc (user_body E id) v []
  end.

(* ------------------------------------------------------------------ GENERATOR MODEL *)
Inductive code :=
| Skip
| Seq (a b : code)
| IfNotNil (c : code)                         (* if target != nil { c } *)
| Check (k : kw) (deref : bool) (p : path)    (* keyword test on target / *target *)
| ReqCheck (i : nat) (n : nat) (p : path)     (* if target.F_i == nil { missing_field } *)
| Field (i : nat) (c : code)                  (* c with target := target.F_i *)
| RangeArr (c : code)                         (* for _, e := range target { c on e } *)
| RangeMap (ck cv : code)                     (* for k, v := range target { ck on k; cv on v } *)
| Call (id : nat).                            (* err = MergeErrors(err, Validate<id>(target)) *)

Fixpoint is_empty (c : code) : bool :=
  match c with
  | Skip => true
  | Seq a b => is_empty a && is_empty b
  | _ => false
  end.

(* strings.HasPrefix(code, "if target != nil {") *)
Fixpoint starts_ifnotnil (c : code) : bool :=
  match c with
  | IfNotNil _ => true
  | Seq a b => if is_empty a then starts_ifnotnil b else starts_ifnotnil a
  | _ => false
  end.

Definition guard_on (g : guard) (isptr isstr : bool) : bool :=
  match g with GNone => false | GIsPointer => isptr | GIsPointerString => isptr && isstr end.

Definition guard_of (k : kw) : guard :=
  match k with
  | KEnum _ => guard_enum | KFormat _ => guard_format | KPattern _ => guard_pattern
  | KXMin _ | KXMax _ => guard_exclminmax
  | KMin _ | KMax _ => guard_minmax
  | KMinLen _ | KMaxLen _ => guard_length
  end.

Fixpoint seq_list (l : list code) : code :=
  match l with [] => Skip | c :: r => Seq c (seq_list r) end.

(* validationCode for the keywords of one attribute *)
Definition own_code (isptr isstr deref : bool) (vl : validation) (p : path) : code :=
  seq_list (map (fun k => let chk := Check k deref p in
                          if guard_on (guard_of k) isptr isstr then IfNotNil chk else chk) (kws_goa vl)).

Definition prim_code (c : ctx) (req def : bool) (pr : prim) (vl : validation) (p : path) : code :=
  let isptr := is_pointer c req def in
  own_code isptr (match pr with PString => true | _ => false end) (isptr && negb (native_nilable pr)) vl p.

(* validateAttribute, applied to the code recurseValidationCode produced for the child *)
Definition wrap (E : env) (c : ctx) (req : bool) (a : att) (cd : code) : code :=
  match a with
  | AUser id => if has_validations E c id then IfNotNil (Call id) else Skip
  | AAlias _ => cd
  | AArray _ _ | AMap _ _ _ => if is_empty cd then Skip else cd
  | APrim _ def _ =>
      if is_empty cd then Skip
      else if negb (c_ptr c) && (req || (def && c_usedef c)) then cd
      else if starts_ifnotnil cd then cd else IfNotNil cd
  | AObject _ =>
      if is_empty cd then Skip
      else if negb (c_ptr c) && req then cd
      else if starts_ifnotnil cd then cd else IfNotNil cd
  end.

(* gen = recurseValidationCode *)
Fixpoint gen (E : env) (c : ctx) (req : bool) (a : att) (p : path) {struct a} : code :=
  match a with
  | APrim vl def pr => prim_code c req def pr vl p
  | AAlias id => let '(pr, vl) := alias_def E id in prim_code c req false pr vl p
  | AArray vl e =>
      let own := own_code (is_pointer c req false) false false vl p in
      let body := wrap E (elem_ctx c e) true e (gen E (elem_ctx c e) true e (p ++ [PElem])) in
      Seq own (if is_empty body then Skip else RangeArr body)
  | AMap vl k e =>
      let own := own_code (is_pointer c req false) false false vl p in
      let ck := wrap E (map_ctx c k) true k (gen E (map_ctx c k) true k (p ++ [PKey])) in
      let cv := wrap E (map_ctx c e) true e (gen E (map_ctx c e) true e (p ++ [PVal])) in
      Seq own (if is_empty ck && is_empty cv then Skip else RangeMap ck cv)
  | AObject fs =>
      let reqs := (fix reqs (i : nat) (fs : list (nat * bool * att)) : code :=
                     match fs with
                     | [] => Skip
                     | (n, r, fa) :: fs' =>
                         Seq (if r && req_emitted E c fa then ReqCheck i n (p ++ [PField n]) else Skip) (reqs (S i) fs')
                     end) O fs in
      let fields := (fix fields (i : nat) (fs : list (nat * bool * att)) : code :=
                       match fs with
                       | [] => Skip
                       | (n, r, fa) :: fs' =>
                           Seq (Field i (wrap E c r fa (gen E c r fa (p ++ [PField n])))) (fields (S i) fs')
                       end) O fs in
      Seq reqs fields
  | AUser id => Skip      (* a user-type attribute is validated through wrap only *)
  end.

(* validateAttribute *)
Definition vattr (E : env) (c : ctx) (req : bool) (a : att) (p : path) : code :=
  wrap E c req a (gen E c req a p).

(* the body of Validate<id>, generated in the file context with req = true, target "body" *)
Definition prog (E : env) (fc : ctx) (id : nat) : code := gen E fc true (user_body E id) [].

(* interpreter: None = nil-pointer dereference (the server crashes, no response) *)
Definition bind {A B} (o : option A) (f : A -> option B) : option B :=
  match o with Some x => f x | None => None end.

Fixpoint all_elems (f : value -> option (list viol)) (l : list value) : option (list viol) :=
  match l with
  | [] => Some []
  | x :: r => bind (f x) (fun a => bind (all_elems f r) (fun b => Some (a ++ b)))
  end.

Fixpoint all_pairs (f g : value -> option (list viol)) (l : list (value * value)) : option (list viol) :=
  match l with
  | [] => Some []
  | (k, x) :: r => bind (f k) (fun a => bind (g x) (fun b => bind (all_pairs f g r) (fun d => Some (a ++ b ++ d))))
  end.

Fixpoint exec (call : nat -> value -> option (list viol)) (c : code) (v : value) {struct c} : option (list viol) :=
  match c with
  | Skip => Some []
  | Seq a b => bind (exec call a v) (fun x => bind (exec call b v) (fun y => Some (x ++ y)))
  | IfNotNil c' => if is_null v then Some [] else exec call c' v
  | Check k deref p =>
      if deref && is_null v then None
      else Some (if kw_fires k v then [(err_of k, p)] else [])
  | ReqCheck i n p =>
      match v with
      | VNull => None
      | VObj l => Some (if required_tests_nil && is_null (nth i l VNull) then [(err_required, p)] else [])
      | _ => Some []
      end
  | Field i c' =>
      match v with
      | VNull => None
      | VObj l => exec call c' (nth i l VNull)
      | _ => Some []
      end
  | RangeArr c' => match v with VArr l => all_elems (exec call c') l | _ => Some [] end
  | RangeMap ck cv => match v with VMap l => all_pairs (exec call ck) (exec call cv) l | _ => Some [] end
  | Call id => call id v
  end.

Fixpoint run_user (E : env) (fc : ctx) (fuel : nat) (id : nat) (v : value) : option (list viol) :=
  match fuel with
  | O => Some []
  | S f => exec (run_user E fc f) (prog E fc id) v
  end.

End Oracles.

(* ------------------------------------------------------------------ well-typed values *)
(* may the Go representation of this attribute be nil in context c? arrays, maps, user
   types and objects are nil-able; primitives are pointers exactly when isPointer *)
Definition nilable (c : ctx) (req : bool) (a : att) : bool :=
  match a with
  | AArray _ _ | AMap _ _ _ | AUser _ => true
  | APrim _ def _ => is_pointer c req def
  | AAlias _ => is_pointer c req false
  | AObject _ => is_pointer c req false
  end.

Definition prim_value (p : prim) (v : value) : bool :=
  match p, v with
  | PBool, VBool _ | PNum _, VNum _ | PString, VStr _ | PBytes, VBytes _ => true
  | PAny, VNull => false
  | PAny, _ => true
  | _, _ => false
  end.

Section WellTyped.
Variable E : env.
Variable fc : ctx.   (* the file context in which Validate<T> functions are generated *)

Inductive wt : ctx -> bool -> att -> value -> Prop :=
| wt_null c req a : nilable c req a = true -> wt c req a VNull
| wt_prim c req vl def p v : prim_value p v = true -> wt c req (APrim vl def p) v
| wt_alias c req id v : prim_value (fst (alias_def E id)) v = true ->
    native_nilable (fst (alias_def E id)) = false -> wt c req (AAlias id) v
| wt_arr c req vl e l : (forall x, In x l -> wt (elem_ctx c e) true e x) -> wt c req (AArray vl e) (VArr l)
| wt_map c req vl k e l : (forall kv, In kv l -> wt (map_ctx c k) true k (fst kv) /\ wt (map_ctx c e) true e (snd kv)) ->
    wt c req (AMap vl k e) (VMap l)
| wt_obj c req fs l : wt_fields c fs l -> wt c req (AObject fs) (VObj l)
| wt_user c req id v : v <> VNull -> wt fc true (user_body E id) v -> wt c req (AUser id) v
with wt_fields : ctx -> list (nat * bool * att) -> list value -> Prop :=
| wtf_nil c : wt_fields c [] []
| wtf_cons c n r fa fs x l : wt c r fa x -> wt_fields c fs l -> wt_fields c ((n, r, fa) :: fs) (x :: l).
End WellTyped.

(* keywords applicable to the kind of attribute (what the DSL accepts): strings take
   enum / format / pattern / lengths, numbers enum / bounds, booleans and any enum, byte
   strings and collections lengths *)
Definition vl_ok (p : prim) (vl : validation) : bool :=
  match p with
  | PString => match v_xmin vl, v_min vl, v_xmax vl, v_max vl with None, None, None, None => true | _, _, _, _ => false end
  | PNum _ => match v_format vl, v_pattern vl, v_minlen vl, v_maxlen vl with None, None, None, None => true | _, _, _, _ => false end
  | PBool | PAny =>
      match v_format vl, v_pattern vl, v_minlen vl, v_maxlen vl, v_xmin vl, v_min vl, v_xmax vl, v_max vl with
      | None, None, None, None, None, None, None, None => true | _, _, _, _, _, _, _, _ => false end
  | PBytes =>
      match v_enum vl, v_format vl, v_pattern vl, v_xmin vl, v_min vl, v_xmax vl, v_max vl with
      | None, None, None, None, None, None, None => true | _, _, _, _, _, _, _ => false end
  end.

Definition vl_collection_ok (vl : validation) : bool :=
  match v_enum vl, v_format vl, v_pattern vl, v_xmin vl, v_min vl, v_xmax vl, v_max vl with
  | None, None, None, None, None, None, None => true | _, _, _, _, _, _, _ => false end.

Fixpoint wf_att (E : env) (a : att) : bool :=
  match a with
  | APrim vl _ p => vl_ok p vl
  | AAlias id => let '(p, vl) := alias_def E id in vl_ok p vl && negb (native_nilable p)
  | AArray vl e => vl_collection_ok vl && wf_att E e
  | AMap vl k e => vl_collection_ok vl && wf_att E k && wf_att E e
  | AObject fs => forallb (fun f => wf_att E (snd f)) fs
  | AUser _ => true
  end.

Definition is_user (a : att) : bool := match a with AUser _ => true | _ => false end.

(* no user type occurs in the attribute (parameters, headers, cookies) *)
Fixpoint no_user (a : att) : bool :=
  match a with
  | APrim _ _ _ | AAlias _ => true
  | AArray _ e => no_user e
  | AMap _ k e => no_user k && no_user e
  | AObject fs => forallb (fun f => no_user (snd f)) fs
  | AUser _ => false
  end.

(* every user type is an object / array / map / primitive body, never a bare reference
   to another user type *)
Definition wf_env (E : env) : bool :=
  forallb (fun ua => wf_att E (snd ua) && negb (is_user (snd ua))) (e_users E).

(* ------------------------------------------------------------------ where goa and the spec may differ *)
(* the signatures of the recorded findings, as predicates on attributes *)
Definition vl_one_excl (vl : validation) : bool :=
  match v_xmin vl, v_xmax vl with Some _, Some _ => negb sticky_exclmin | _, _ => true end.

Fixpoint excl_ok (E : env) (a : att) : bool :=
  match a with
  | APrim vl _ _ => vl_one_excl vl
  | AAlias id => vl_one_excl (snd (alias_def E id))
  | AArray vl e => vl_one_excl vl && excl_ok E e
  | AMap vl k e => vl_one_excl vl && excl_ok E k && excl_ok E e
  | AObject fs => forallb (fun f => excl_ok E (snd f)) fs
  | AUser _ => true
  end.

Definition minlen_pos (vl : validation) : bool :=
  match v_minlen vl with Some (S _) => true | _ => false end.

(* pm_ok rp a: every array / map of a that carries a positive minimum length sits in a
   REQUIRED attribute position (rp says whether a itself does) *)
Fixpoint pm_ok (rp : bool) (a : att) : bool :=
  match a with
  | AArray vl e => (negb (minlen_pos vl) || rp) && pm_ok false e
  | AMap vl k e => (negb (minlen_pos vl) || rp) && pm_ok false k && pm_ok false e
  | AObject fs => forallb (fun f => match f with (_, r, fa) => pm_ok r fa end) fs
  | _ => true
  end.

Definition env_excl_ok (E : env) : bool := forallb (fun ua => excl_ok E (snd ua)) (e_users E).
Definition env_pm_ok (E : env) : bool := forallb (fun ua => pm_ok true (snd ua)) (e_users E).

(* ------------------------------------------------------------------ entry points *)
Section Entry.
Variable fmt_ok pat_ok : nat -> str -> bool.

(* the validation goa generates for an attribute held in context c (n bounds the
   nesting of user types followed; both sides of every theorem use the same n) *)
Definition validate (E : env) (fc : ctx) (n : nat) (c : ctx) (req : bool) (a : att) (v : value) : option (list viol) :=
  exec fmt_ok pat_ok (run_user fmt_ok pat_ok E fc n) (gen E c req a []) v.

Definition violations_goa (E : env) (fc : ctx) (n : nat) (c : ctx) (a : att) (v : value) : list viol :=
  goa_viol fmt_ok pat_ok E (goa_user fmt_ok pat_ok E fc n) c a v [].

Definition violations (E : env) (n : nat) (a : att) (v : value) : list viol :=
  spec_viol fmt_ok pat_ok E (spec_user fmt_ok pat_ok E n) a v [].

Definition satisfies (E : env) (n : nat) (a : att) (v : value) : Prop := violations E n a v = [].
Definition goa_satisfies (E : env) (fc : ctx) (n : nat) (c : ctx) (a : att) (v : value) : Prop :=
  violations_goa E fc n c a v = [].

(* ---- the server pipeline (request_decoder.go.tpl + server_handler_init.go.tpl):
   decode; validate the body (a failure returns at once); validate the parameters
   (failures merged); only then build the payload and call the endpoint *)
(* a parameter element: path / query / header parameter, or cookie. The decoder template
   reads a REQUIRED cookie with `c, err = r.Cookie(name)`: a plain assignment to the
   accumulated error, which discards every error collected before it. *)
Inductive pkind := PKParam | PKCookie.
Definition param := (pkind * ctx * bool * att * value)%type.
Definition resets (p : param) : bool := match p with (PKCookie, _, req, _, _) => req | _ => false end.

Inductive decoded := DecodeError (name : errname) | Decoded (body : option (ctx * att * value)) (params : list param).
Inductive response := Invoke | Refuse (status : nat) (name : errname) | Crash.

(* errors accumulated so far, then each parameter in decoder order *)
Fixpoint validate_params (E : env) (fc : ctx) (n : nat) (acc : list viol) (ps : list param) : option (list viol) :=
  match ps with
  | [] => Some acc
  | ((k, c, req, a, v) as p) :: r =>
      match validate E fc n c req a v with
      | Some x => validate_params E fc n ((if resets p then [] else acc) ++ x) r
      | None => None
      end
  end.

(* goa.MergeErrors keeps the first specific name; validation errors are not faults,
   timeouts or temporary: status 400 *)
Definition refuse (vs : list viol) : response :=
  match vs with (name, _) :: _ => Refuse 400 name | [] => Invoke end.

Definition serve (E : env) (fc : ctx) (n : nat) (d : decoded) : response :=
  match d with
  | DecodeError name => Refuse 400 name
  | Decoded body params =>
      match (match body with Some (c, a, v) => validate E fc n c true a v | None => Some [] end) with
      | None => Crash
      | Some (x :: r) => refuse (x :: r)
      | Some [] => match validate_params E fc n [] params with
                   | None => Crash
                   | Some l => refuse l
                   end
      end
  end.

(* ---- the client (response_decoder.go.tpl): decode, validate, only then return *)
Inductive client_outcome := ReturnResult | ReturnError (name : errname) | ClientCrash.

Definition client (E : env) (fc : ctx) (n : nat) (d : decoded) : client_outcome :=
  match serve E fc n d with
  | Invoke => ReturnResult
  | Refuse _ name => ReturnError name
  | Crash => ClientCrash
  end.
End Entry.
