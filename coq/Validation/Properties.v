(* C04 - property statements only. Every theorem is closed by a lemma of Lemmas.v (or
   by computation on a concrete witness) and followed by Print Assumptions.
   Oracles (Go's regexp, goa.ValidateFormat) are universally quantified. *)
From Coq Require Import QArith Lia.
From Coq Require Import List Permutation.
From Validation Require Import Model Utf8Lemmas Lemmas Routing LemmasRouting.
Import ListNotations.
Close Scope Q_scope.
Open Scope nat_scope.

(* HEADLINE. The Go code goa generates for the validations of an attribute (model gen of
   codegen/validation.go, interpreted by exec, operators and nil guards as read from the
   templates) computes, on every well-typed value, in every attribute context
   (Pointer / IgnoreRequired / UseDefault), without dereferencing a nil pointer, exactly
   the violations of the declarative goa reading: same errors, same order. Covers
   primitives with every keyword, required attributes and their elision, arrays, maps,
   aliases, nested and recursive user types. *)
Theorem gen_validate_correct :
  forall (fmt_ok pat_ok : nat -> str -> bool) E fc, wf_env E = true ->
  forall n c req a v p, wf_att E a = true -> wt E fc c req a v -> root_ok a v ->
    exec fmt_ok pat_ok (run_user fmt_ok pat_ok E fc n) (gen E c req a p) v =
    Some (goa_viol fmt_ok pat_ok E (goa_user fmt_ok pat_ok E fc n) c a v p).
Proof. exact gen_ok. Qed.
Print Assumptions gen_validate_correct.

(* the same for an attribute validated from its parent (validateAttribute: nil guard or
   Validate<T> call), nil values included *)
Theorem validate_attribute_correct :
  forall (fmt_ok pat_ok : nat -> str -> bool) E fc, wf_env E = true ->
  forall n c req a v p, wf_att E a = true -> wt E fc c req a v ->
    exec fmt_ok pat_ok (run_user fmt_ok pat_ok E fc n) (vattr E c req a p) v =
    Some (goa_viol fmt_ok pat_ok E (goa_user fmt_ok pat_ok E fc n) c a v p).
Proof. exact vattr_ok. Qed.
Print Assumptions validate_attribute_correct.

(* and for the generated Validate<T> functions, through any depth of nesting / recursion *)
Theorem validate_user_type_correct :
  forall (fmt_ok pat_ok : nat -> str -> bool) E fc, wf_env E = true ->
  forall n id v, v <> VNull -> wt E fc fc true (user_body E id) v ->
    run_user fmt_ok pat_ok E fc n id v = Some (goa_user fmt_ok pat_ok E fc n id v).
Proof. exact run_user_ok. Qed.
Print Assumptions validate_user_type_correct.

(* the bound n on the nesting of user types followed is immaterial once it exceeds the
   depth of the value: violations_goa is the same for every larger n *)
Theorem nesting_bound_immaterial :
  forall (fmt_ok pat_ok : nat -> str -> bool) E fc, wf_env E = true ->
  forall c a v n m, vdepth v < n -> vdepth v < m ->
    violations_goa fmt_ok pat_ok E fc n c a v = violations_goa fmt_ok pat_ok E fc m c a v.
Proof. exact violations_goa_stable. Qed.
Print Assumptions nesting_bound_immaterial.

Theorem gen_validate_accepts_iff :
  forall (fmt_ok pat_ok : nat -> str -> bool) E fc, wf_env E = true ->
  forall n c req a v, wf_att E a = true -> wt E fc c req a v -> root_ok a v ->
    (validate fmt_ok pat_ok E fc n c req a v = Some [] <-> goa_satisfies fmt_ok pat_ok E fc n c a v).
Proof.
  intros fmt_ok pat_ok E fc HE n c req a v Hwf Hwt Hr. unfold goa_satisfies.
  rewrite (validate_ok fmt_ok pat_ok E fc HE n c req a v Hwf Hwt Hr).
  split; intro H; [now injection H|now rewrite H].
Qed.
Print Assumptions gen_validate_accepts_iff.

(* the tests the templates emit fire exactly when the keyword is violated: breaks when a
   comparison operator or a length function of codegen/validation.go changes *)
Theorem template_operators_match_spec :
  forall (fmt_ok pat_ok : nat -> str -> bool) k v, v <> VNull ->
    kw_fires fmt_ok pat_ok k v = negb (kw_sat fmt_ok pat_ok k v) /\ err_of k = spec_err_of k.
Proof. intros fmt_ok pat_ok k v Hv. split; [now apply kw_fires_spec|apply err_of_spec]. Qed.
Print Assumptions template_operators_match_spec.

(* the server pipeline as generated (decode; validate the body; validate the parameters;
   only then call the endpoint): it never crashes on well-typed decoded values, it invokes
   user code whenever nothing is violated, a refusal is a 400 named after a violated rule,
   and a decode error is a 400 carrying the decoder's name *)
Theorem serve_sound_as_generated :
  forall (fmt_ok pat_ok : nat -> str -> bool) E fc, wf_env E = true ->
  forall n b ps, body_ok E fc b -> Forall (elem_ok E fc) ps ->
    (body_viols fmt_ok pat_ok E fc n b = [] /\ params_viols fmt_ok pat_ok E fc n ps = [] ->
       serve fmt_ok pat_ok E fc n (Decoded b ps) = Invoke) /\
    (forall st name, serve fmt_ok pat_ok E fc n (Decoded b ps) = Refuse st name ->
       st = 400 /\ In name (map fst (body_viols fmt_ok pat_ok E fc n b ++ params_viols fmt_ok pat_ok E fc n ps))) /\
    serve fmt_ok pat_ok E fc n (Decoded b ps) <> Crash /\
    (forall name, serve fmt_ok pat_ok E fc n (DecodeError name) = Refuse 400 name).
Proof.
  intros fmt_ok pat_ok E fc HE n b ps Hb Hp.
  destruct (serve_sound fmt_ok pat_ok E fc HE n b ps Hb Hp) as (H1 & H2 & H3).
  split; [exact H1|]. split; [exact H2|]. split; [exact H3|]. reflexivity.
Qed.
Print Assumptions serve_sound_as_generated.

(* user code runs IF AND ONLY IF nothing is violated - where the endpoint declares no
   required cookie (see serve_invokes_iff_valid_refuted) *)
Theorem serve_invokes_iff_valid_partial :
  forall (fmt_ok pat_ok : nat -> str -> bool) E fc, wf_env E = true ->
  forall n b ps, body_ok E fc b -> Forall (elem_ok E fc) ps -> no_required_cookie ps = true ->
    (serve fmt_ok pat_ok E fc n (Decoded b ps) = Invoke <->
       body_viols fmt_ok pat_ok E fc n b = [] /\ params_viols fmt_ok pat_ok E fc n ps = []).
Proof. exact serve_invokes_iff. Qed.
Print Assumptions serve_invokes_iff_valid_partial.

(* FINDING param-error-lost-by-required-cookie: the decoder template reads a required
   cookie with `c, err = r.Cookie(name)`, which overwrites the accumulated error: a query
   parameter violating Minimum(1) followed by a required cookie reaches user code *)
Theorem serve_invokes_iff_valid_refuted :
  exists E fc ps,
    wf_env E = true /\ Forall (elem_ok E fc) ps /\
    serve (fun _ _ => true) (fun _ _ => true) E fc 3 (Decoded None ps) = Invoke /\
    params_viols (fun _ _ => true) (fun _ _ => true) E fc 3 ps = [(EInvalidRange, [])].
Proof.
  exists (mkEnv [] []), ctx_server_request,
    [(PKParam, ctx_service, true, APrim (mkV None None None None (Some (1 # 1)%Q) None None None None) false (PNum KInt), VNum (0 # 1)%Q);
     (PKCookie, ctx_service, true, APrim no_validation false PString, VStr [97%N])].
  split; [reflexivity|]. split.
  - repeat constructor.
  - split; vm_compute; reflexivity.
Qed.
Print Assumptions serve_invokes_iff_valid_refuted.

(* symmetric: the generated client returns the decoded result only if goa's validation of
   the response finds nothing, and returns it whenever nothing is violated; otherwise an
   error named after a violated rule *)
Theorem client_rejects_invalid_result :
  forall (fmt_ok pat_ok : nat -> str -> bool) E fc, wf_env E = true ->
  forall n b ps, body_ok E fc b -> Forall (elem_ok E fc) ps -> no_required_cookie ps = true ->
    (client fmt_ok pat_ok E fc n (Decoded b ps) = ReturnResult <->
       body_viols fmt_ok pat_ok E fc n b = [] /\ params_viols fmt_ok pat_ok E fc n ps = []) /\
    (forall name, client fmt_ok pat_ok E fc n (Decoded b ps) = ReturnError name ->
       In name (map fst (body_viols fmt_ok pat_ok E fc n b ++ params_viols fmt_ok pat_ok E fc n ps))).
Proof.
  intros fmt_ok pat_ok E fc HE n b ps Hb Hp Hc.
  pose proof (serve_invokes_iff fmt_ok pat_ok E fc HE n b ps Hb Hp Hc) as H1.
  destruct (serve_sound fmt_ok pat_ok E fc HE n b ps Hb Hp) as (_ & H2 & H3).
  unfold client. split.
  - rewrite <- H1. destruct (serve fmt_ok pat_ok E fc n (Decoded b ps)); split; intro H; congruence.
  - intros name H. destruct (serve fmt_ok pat_ok E fc n (Decoded b ps)) as [|st nm|] eqn:Es; try discriminate.
    injection H as ->. exact (proj2 (H2 st name eq_refl)).
Qed.
Print Assumptions client_rejects_invalid_result.

(* string lengths are counted in code points: the length function the template applies to
   strings is Go's utf8.RuneCountInString, which on well-formed UTF-8 returns the number
   of encoded code points and is strictly smaller than the byte length as soon as one
   code point is not ASCII *)
Theorem length_counts_runes :
  (forall s, strlen len_string s = rune_count s) /\
  (forall cps, Forall (fun cp => scalar cp = true) cps -> rune_count (utf8_encode cps) = length cps) /\
  (forall cps, Forall (fun cp => scalar cp = true) cps -> Exists (fun cp => (128 <= cp)%N) cps ->
     rune_count (utf8_encode cps) < byte_len (utf8_encode cps)) /\
  (forall s, rune_count s <= byte_len s) /\
  (forall (fmt_ok pat_ok : nat -> str -> bool) n s,
     kw_fires fmt_ok pat_ok (KMaxLen n) (VStr s) = negb (rune_count s <=? n) /\
     kw_fires fmt_ok pat_ok (KMinLen n) (VStr s) = negb (n <=? rune_count s)).
Proof.
  split; [exact strlen_string|]. split; [exact rune_count_encode|]. split; [exact rune_count_multibyte_lt|].
  split; [exact rune_count_le_len|]. intros fmt_ok pat_ok n s.
  split; [rewrite (kw_fires_spec fmt_ok pat_ok (KMaxLen n) (VStr s))|rewrite (kw_fires_spec fmt_ok pat_ok (KMinLen n) (VStr s))];
    try discriminate; reflexivity.
Qed.
Print Assumptions length_counts_runes.

(* when codegen.hasValidations answers false for a user type in a Pointer context (server
   request bodies, client response bodies), the Validate call goa does not emit would have
   found nothing: no value of that type violates anything, at any depth. (The walk's seen
   set is closed and quiet, and its bound on nested entries, hv_fuel, is never reached.) *)
Theorem has_validations_false_sound :
  forall (fmt_ok pat_ok : nat -> str -> bool) E c id,
    c_ptr c = true -> has_validations E c id = false ->
    forall n x, spec_user fmt_ok pat_ok E n id x = [].
Proof. intros fmt_ok pat_ok E c id Hc H n x. exact (elide_vacuous fmt_ok pat_ok E c Hc id n x H). Qed.
Print Assumptions has_validations_false_sound.

(* REPAIRED (map-value-required-only-unvalidated, map-nested-collection-required-only-
   unvalidated): below an array and below a map, every child that is not a primitive - user
   types, objects, arrays, maps - is validated in the context of its parent; only primitive
   elements / keys / values are switched to the non-pointer layout. Stated unconditionally:
   it stops compiling when recurseValidationCode no longer has the repaired shape
   (map_ctx_mode is read from the source by the translator) *)
Theorem collection_children_keep_context :
  forall c a, is_prim a = false -> map_ctx c a = c /\ elem_ctx c a = c.
Proof.
  intros c a Ha. split.
  - unfold map_ctx. destruct a; try reflexivity; discriminate.
  - unfold elem_ctx. now rewrite Ha, andb_false_r.
Qed.
Print Assumptions collection_children_keep_context.

(* goa's reading agrees with the property's on acceptance wherever neither of the two
   recorded findings applies: no attribute carries both exclusive bounds (or the template no
   longer leaks isExclMin), and every array / map with a positive minimum length sits in a
   required position. No hypothesis on elided Validate calls is left: in Pointer contexts
   (c_ptr fc, c_ptr c) they are vacuous (has_validations_false_sound), and an attribute
   without user types (parameters, headers, cookies) has none *)
Theorem goa_eq_spec_partial :
  forall (fmt_ok pat_ok : nat -> str -> bool) E fc,
    wf_env E = true -> env_excl_ok E = true -> env_pm_ok E = true -> c_ignreq fc = false -> c_ptr fc = true ->
  forall n c rp a v,
    c_ignreq c = false -> (no_user a = true \/ c_ptr c = true) ->
    wf_att E a = true -> excl_ok E a = true -> pm_ok rp a = true -> (rp = true -> v <> VNull) ->
    (violations_goa fmt_ok pat_ok E fc n c a v = [] <-> violations fmt_ok pat_ok E n a v = []).
Proof.
  intros fmt_ok pat_ok E fc HE Hex Hpm Hfc Hfcp.
  exact (goa_iff_spec fmt_ok pat_ok E fc HE Hex Hpm Hfc eq_refl Hfcp).
Qed.
Print Assumptions goa_eq_spec_partial.

(* ---- the two places where goa's generated validation differs from the property *)
Definition oracle_true : nat -> str -> bool := fun _ _ => true.
Definition vl_minlen (n : nat) : validation := mkV None None None None None None None (Some n) None.
Definition vl_excl (m M : Q) : validation := mkV None None None (Some m) None (Some M) None None None.
Definition noenv : env := mkEnv [] [].

(* FINDING absent-collection-minlen: an ABSENT OPTIONAL array with MinLength(2) violates
   nothing, yet the generated code reports invalid_length *)
Theorem absent_collection_minlen_refuted :
  exists E fc c a v,
    wf_env E = true /\ wf_att E a = true /\ wt E fc c true a v /\
    violations oracle_true oracle_true E 3 a v = [] /\
    validate oracle_true oracle_true E fc 3 c true a v = Some [(EInvalidLength, [PField 0])] /\
    violations_goa oracle_true oracle_true E fc 3 c a v = [(EInvalidLength, [PField 0])].
Proof.
  exists noenv, ctx_server_request, ctx_server_request,
         (AObject [(0, false, AArray (vl_minlen 2) (APrim no_validation false PString))]), (VObj [VNull]).
  repeat split; try (vm_compute; reflexivity).
  apply wt_obj. apply wtf_cons; [apply wt_null; reflexivity|apply wtf_nil].
Qed.
Print Assumptions absent_collection_minlen_refuted.

(* FINDING exclusive-max-dropped-when-exclusive-min-present: with ExclusiveMinimum(0) and ExclusiveMaximum(10)
   the value 10 violates the maximum, yet the generated code accepts it (it tests the
   minimum twice) *)
Theorem exclusive_maximum_dropped_refuted :
  sticky_exclmin = true ->
  exists E fc c a v,
    wf_env E = true /\ wf_att E a = true /\ wt E fc c true a v /\
    violations oracle_true oracle_true E 3 a v = [(EInvalidRange, [])] /\
    validate oracle_true oracle_true E fc 3 c true a v = Some [] /\
    violations_goa oracle_true oracle_true E fc 3 c a v = [].
Proof.
  intro Hs.
  exists noenv, ctx_server_request, ctx_server_request,
         (APrim (vl_excl (0 # 1) (10 # 1)) false (PNum KInt)), (VNum (10 # 1)).
  refine (conj _ (conj _ (conj _ (conj _ (conj _ _))))).
  - reflexivity.
  - reflexivity.
  - now apply wt_prim.
  - vm_compute. reflexivity.
  - unfold validate, gen, prim_code, own_code, kws_goa, xmax_slot. cbn [v_xmin v_xmax vl_excl]. rewrite Hs. vm_compute. reflexivity.
  - unfold violations_goa, Model.goa_viol, kws_goa, xmax_slot. cbn [v_xmin v_xmax vl_excl]. rewrite Hs. vm_compute. reflexivity.
Qed.
Print Assumptions exclusive_maximum_dropped_refuted.

(* REPAIRED (map-value-required-only-unvalidated): a map whose values are a user type with
   only a required string is validated: the value lacking it is reported missing_field,
   exactly as the design says *)
Definition env_ro : env := mkEnv [(0, AObject [(0, true, APrim no_validation false PString)])] [].

Theorem map_value_user_type_validated :
  let E := env_ro in let c := ctx_server_request in
  let a := AObject [(0, false, AMap no_validation (APrim no_validation false PString) (AUser 0))] in
  let v := VObj [VMap [(VStr [107%N], VObj [VNull])]] in
  has_validations E (map_ctx c (AUser 0)) 0 = true /\
  validate oracle_true oracle_true E c 3 c true a v = Some [(EMissingField, [PField 0])] /\
  violations oracle_true oracle_true E 3 a v = [(EMissingField, [PField 0])].
Proof. cbn zeta. split; [|split]; vm_compute; reflexivity. Qed.
Print Assumptions map_value_user_type_validated.

Definition att_map_of_arrays : att :=
  AObject [(0, false, AMap no_validation (APrim no_validation false PString) (AArray no_validation (AUser 0)))].
Definition val_map_of_arrays : value := VObj [VMap [(VStr [107%N], VArr [VObj [VNull]])]].
Definition att_map_of_maps : att :=
  AObject [(0, false, AMap no_validation (APrim no_validation false PString)
                        (AMap no_validation (APrim no_validation false PString) (AUser 0)))].
Definition val_map_of_maps : value := VObj [VMap [(VStr [107%N], VMap [(VStr [107%N], VObj [VNull])])]].

Lemma wt_map_of_arrays : wt env_ro ctx_server_request ctx_server_request true att_map_of_arrays val_map_of_arrays.
Proof.
  apply wt_obj. apply wtf_cons; [|apply wtf_nil].
  apply wt_map. intros kv [<-|[]]. cbn [fst snd]. split; [now apply wt_prim|].
  apply wt_arr. intros x [<-|[]]. apply wt_user; [discriminate|].
  apply wt_obj. apply wtf_cons; [apply wt_null; reflexivity|apply wtf_nil].
Qed.

(* REPAIRED (map-nested-collection-required-only-unvalidated): a user type with only a
   required string met as ELEMENT OF AN ARRAY (or value of a map) THAT IS ITSELF A MAP VALUE
   gets its Validate call: the element lacking the attribute is reported missing_field by
   the generated code, as the design says *)
Theorem map_nested_collection_validated :
  wf_env env_ro = true /\ wf_att env_ro att_map_of_arrays = true /\
  wt env_ro ctx_server_request ctx_server_request true att_map_of_arrays val_map_of_arrays /\
  violations oracle_true oracle_true env_ro 3 att_map_of_arrays val_map_of_arrays = [(EMissingField, [PField 0])] /\
  validate oracle_true oracle_true env_ro ctx_server_request 3 ctx_server_request true att_map_of_arrays val_map_of_arrays
    = Some [(EMissingField, [PField 0])] /\
  violations oracle_true oracle_true env_ro 3 att_map_of_maps val_map_of_maps = [(EMissingField, [PField 0])] /\
  validate oracle_true oracle_true env_ro ctx_server_request 3 ctx_server_request true att_map_of_maps val_map_of_maps
    = Some [(EMissingField, [PField 0])].
Proof.
  refine (conj _ (conj _ (conj _ (conj _ (conj _ (conj _ _)))))); try exact wt_map_of_arrays; vm_compute; reflexivity.
Qed.
Print Assumptions map_nested_collection_validated.

(* non-vacuity: a recursive user type (id 0: {v: Int required Minimum(1); child: T;
   kids: [T]}) validated three levels deep; the generated code and the declarative reading
   report the same two violations *)
Definition vl_min (m : Q) : validation := mkV None None None None (Some m) None None None None.
Definition env_rec : env :=
  mkEnv [(0, AObject [(0, true, APrim (vl_min (1 # 1)) false (PNum KInt)); (1, false, AUser 0);
                      (2, false, AArray no_validation (AUser 0))])] [].
Example recursive_type_example :
  let v := VObj [VNum (5 # 1); VObj [VNum (0 # 1); VNull; VNull]; VArr [VObj [VNull; VNull; VNull]]] in
  run_user oracle_true oracle_true env_rec ctx_server_request 5 0 v =
    Some [(EInvalidRange, [PField 0]); (EMissingField, [PField 0])] /\
  goa_user oracle_true oracle_true env_rec ctx_server_request 5 0 v =
    [(EInvalidRange, [PField 0]); (EMissingField, [PField 0])].
Proof. split; vm_compute; reflexivity. Qed.

(* non-vacuity of the boundary semantics: Minimum(3) accepts 3 and rejects 2;
   ExclusiveMinimum(3) rejects 3; MaxLength(2) accepts "ee" written with two 2-byte code
   points (4 bytes) *)
Example boundary_example :
  kw_fires oracle_true oracle_true (KMin (3 # 1)) (VNum (3 # 1)) = false /\
  kw_fires oracle_true oracle_true (KMin (3 # 1)) (VNum (2 # 1)) = true /\
  kw_fires oracle_true oracle_true (KXMin (3 # 1)) (VNum (3 # 1)) = true /\
  kw_fires oracle_true oracle_true (KMaxLen 2) (VStr [195; 169; 195; 169]%N) = false /\
  kw_fires oracle_true oracle_true (KMaxLen 3) (VBytes [195; 169; 195; 169]%N) = true.
Proof. repeat split; vm_compute; reflexivity. Qed.

(* ================================================================== MODEL GROWTH: where the payload travels
   (Routing.v: httpRequestBody, removeAttribute(s), MappedAttributeExpr.Delete, Object.Delete,
   RemoveRequired, defaultRequestHeaderAttributes, initAttr). The theorems above speak of a
   request as a body and a list of elements; these tie both to the method PAYLOAD of the design. *)

(* httpRequestBody, on a payload with distinct attribute names: the body is the payload
   without the attributes the mapping routes elsewhere - same order, and the required names
   are the payload's required names that stay; no attribute left means no body *)
Theorem request_body_is_unrouted_payload :
  forall (A : Type) (m : mattr A) (r : routing),
    NoDup (map fst (ma_fields m)) -> NoDup (ma_required m) ->
    request_body (PObj m) r =
      (let b := mkMA (filter (fun f => in_body r (fst f)) (ma_fields m)) (filter (in_body r) (ma_required m)) in
       if is_nil (ma_fields b) then RBEmpty else RBObj b).
Proof. intros A m r Hf Hr. exact (request_body_obj A r m Hf Hr). Qed.
Print Assumptions request_body_is_unrouted_payload.

(* the invariant the fourth wave's seeded change broke: every name the body requires is a
   name the body defines (and names stay distinct), whatever is routed away *)
Theorem request_body_required_defined :
  forall (A : Type) (m : mattr A) (r : routing) b,
    NoDup (map fst (ma_fields m)) -> NoDup (ma_required m) -> incl (ma_required m) (map fst (ma_fields m)) ->
    request_body (PObj m) r = RBObj b ->
    incl (ma_required b) (map fst (ma_fields b)) /\ NoDup (map fst (ma_fields b)) /\ NoDup (ma_required b) /\
    (forall n, In n (map fst (ma_fields b)) <-> In n (map fst (ma_fields m)) /\ in_body r n = true).
Proof.
  intros A m r b Hf Hr Hi. rewrite (request_body_obj A r m Hf Hr). cbv zeta. cbn [ma_fields].
  destruct (is_nil _); [discriminate|]. intro H. injection H as <-. cbn [ma_fields ma_required].
  split; [now apply required_defined|]. split; [now apply NoDup_map_filter|]. split; [now apply NoDup_filter|].
  intro n. rewrite !in_map_iff. split.
  - intros ([k a] & Hk & Hin). cbn [fst] in Hk. subst k. apply filter_In in Hin. destruct Hin as [Hin Hb]. split; [now exists (n, a)|exact Hb].
  - intros [([k a] & Hk & Hin) Hb]. cbn [fst] in Hk. subst k. exists (n, a). split; [reflexivity|]. apply filter_In. now split.
Qed.
Print Assumptions request_body_required_defined.

(* the last group of names httpRequestBody deletes comes out of a Go map, in an order that
   changes from run to run: the result does not depend on it (no hypothesis) *)
Theorem removal_order_immaterial :
  forall (A : Type) (m : mattr A) ns ns', Permutation ns ns' -> remove_attributes m ns = remove_attributes m ns'.
Proof. intros A m ns ns' H. exact (remove_attributes_perm A ns ns' H m). Qed.
Print Assumptions removal_order_immaterial.

(* initAttr: an element routed to a header / cookie / parameter is validated with the type
   and the required flag the payload gives to the attribute of that name *)
Theorem routed_element_is_payload_attribute :
  forall (m : mattr att) (r : routing) f, NoDup (map fst (ma_fields m)) ->
    In f (pick_fields (fun n => negb (in_body r n)) (fields_of m)) ->
    memn (fst (fst f)) (routed r) = true /\
    snd (fst f) = elem_required (PObj m) (fst (fst f)) /\
    elem_content (PObj m) (fst (fst f)) = Some (snd f).
Proof.
  intros m r f Hn Hin. apply pick_fields_In in Hin. destruct Hin as [Hin Hk]. unfold in_body in Hk. rewrite negb_involutive in Hk.
  split; [exact Hk|]. unfold fields_of in Hin. apply in_map_iff in Hin. destruct Hin as ([k a] & <- & Hin). cbn [fst snd].
  split; [reflexivity|]. cbn [elem_content]. now apply assoc_NoDup.
Qed.
Print Assumptions routed_element_is_payload_attribute.

(* the body goa derives documents / validates exactly the attributes that stay *)
Theorem request_body_att :
  forall (m : mattr att) (r : routing), NoDup (map fst (ma_fields m)) -> NoDup (ma_required m) ->
    match request_body (PObj m) r with
    | RBObj b => att_of b = AObject (pick_fields (in_body r) (fields_of m)) /\ pick_fields (in_body r) (fields_of m) <> []
    | RBEmpty => pick_fields (in_body r) (fields_of m) = []
    | RBWhole _ => False
    end.
Proof.
  intros m r Hf Hr. pose proof (fields_of_filter (in_body r) m) as HF.
  rewrite (request_body_obj att r m Hf Hr). cbv zeta. cbn [ma_fields].
  destruct (filter (fun f => in_body r (fst f)) (ma_fields m)) as [|f0 fl] eqn:Ef; cbn [is_nil]; rewrite <- HF.
  - reflexivity.
  - split; [reflexivity|discriminate].
Qed.
Print Assumptions request_body_att.

(* HEADLINE of the growth round: the design constrains the PAYLOAD; the server checks a body
   and one element per routed attribute. A payload value satisfies every validation of the
   design exactly when the part that stays in the body satisfies the body's and every routed
   attribute, taken alone with its required flag, satisfies its own - for every mapping,
   every object payload, any number of attributes (no hypothesis) *)
Theorem payload_valid_iff_locations_valid :
  forall (fmt_ok pat_ok : nat -> str -> bool) E n (m : mattr att) (r : routing) l,
    violations fmt_ok pat_ok E n (att_of m) (VObj l) = [] <->
    violations fmt_ok pat_ok E n (AObject (pick_fields (in_body r) (fields_of m))) (VObj (pick_values (in_body r) (fields_of m) l)) = [] /\
    Forall (fun fx => violations fmt_ok pat_ok E n (AObject [fst fx]) (VObj [snd fx]) = [])
      (combine (pick_fields (fun k => negb (in_body r k)) (fields_of m)) (pick_values (fun k => negb (in_body r k)) (fields_of m) l)).
Proof.
  intros fmt_ok pat_ok E n m r l. unfold violations. rewrite att_of_fields.
  exact (obj_split fmt_ok pat_ok E (spec_user fmt_ok pat_ok E n) (in_body r) (fields_of m) l []).
Qed.
Print Assumptions payload_valid_iff_locations_valid.

(* non-vacuity: payload {0: required string, 1: integer >= 1, 2: required string, 3: boolean
   credential}; attribute 2 mapped to a header, 1 to a query parameter, 3 a credential with no
   explicit mapping: the body keeps attribute 0 alone and requires it; attribute 1 = 0 violates
   its minimum, which the payload-level and the per-location readings both report *)
Definition ex_str : att := APrim no_validation false PString.
Definition ex_int1 : att := APrim (mkV None None None None (Some (1 # 1)%Q) None None None None) false (PNum KInt).
Definition ex_payload : mattr att := mkMA [(0, ex_str); (1, ex_int1); (2, ex_str); (3, APrim no_validation false PBool)] [0; 2].
Definition ex_routing : routing := mkRt [2] [] [1] None [3].
Example routing_example :
  request_body (PObj ex_payload) ex_routing = RBObj (mkMA [(0, ex_str)] [0]) /\
    request_body (PObj ex_payload) (mkRt [2; 0] [3] [1] None []) = RBEmpty /\
    request_body (PNonObj ex_str) (mkRt [] [] [] None []) = RBWhole ex_str /\
    request_body (PNonObj ex_str) (mkRt [] [] [7] None []) = RBEmpty /\
    elem_required (PObj ex_payload) 2 = true /\ elem_required (PObj ex_payload) 1 = false /\
    violations oracle_true oracle_true noenv 3 (att_of ex_payload) (VObj [VStr [97%N]; VNum (0 # 1)%Q; VStr [98%N]; VNull]) = [(EInvalidRange, [PField 1])] /\
    violations oracle_true oracle_true noenv 3 (AObject [(1, false, ex_int1)]) (VObj [VNum (0 # 1)%Q]) = [(EInvalidRange, [PField 1])] /\
    violations oracle_true oracle_true noenv 3 (AObject (pick_fields (in_body ex_routing) (fields_of ex_payload)))
    (VObj (pick_values (in_body ex_routing) (fields_of ex_payload) [VStr [97%N]; VNum (0 # 1)%Q; VStr [98%N]; VNull])) = [].
Proof. repeat split; vm_compute; reflexivity. Qed.

