(* C14 - property statements only: the schema goa documents for an attribute (model
   schema_of of openapi/v3/types.go schemafy / json_schema.go initAttributeValidation) vs
   the design's validations and vs the validation goa generates. *)
From Coq Require Import QArith Lia.
From Coq Require Import List Bool.
From Validation Require Import Model Schema Lemmas LemmasSchema Routing LemmasRouting.
Import ListNotations.
Close Scope Q_scope.
Open Scope nat_scope.

(* On the faithful fragment (strings, numbers, booleans, arrays, objects with required
   attributes, nested / recursive user types, aliases, maps without size bounds or key
   validations, byte strings without length bounds) the documented schema accepts a
   well-typed JSON document exactly when it satisfies the design's validations. *)
Theorem schema_matches_validation_partial :
  forall (fmt_ok pat_ok : nat -> str -> bool) E fc, wf_env E = true -> env_schema_faithful E = true ->
  forall n c req a v, wf_att E a = true -> schema_faithful E a = true -> wt E fc c req a v -> v <> VNull -> dense v = true ->
    (schema_accepts fmt_ok pat_ok E n a v = true <-> violations fmt_ok pat_ok E n a v = []).
Proof. exact schema_matches. Qed.
Print Assumptions schema_matches_validation_partial.

(* ... and, where none of the recorded findings applies, exactly when the generated server
   code accepts it (transitivity with gen_validate_correct and goa_eq_spec_partial) *)
Theorem schema_iff_server_accepts_partial :
  forall (fmt_ok pat_ok : nat -> str -> bool) E fc,
    wf_env E = true -> env_schema_faithful E = true -> env_excl_ok E = true -> env_pm_ok E = true -> c_ignreq fc = false ->
    c_ptr fc = true ->
  forall n c req a v,
    wf_att E a = true -> schema_faithful E a = true -> excl_ok E a = true -> pm_ok true a = true -> c_ignreq c = false ->
    (no_user a = true \/ c_ptr c = true) ->
    wt E fc c req a v -> root_ok a v -> v <> VNull -> dense v = true ->
    (schema_accepts fmt_ok pat_ok E n a v = true <-> validate fmt_ok pat_ok E fc n c req a v = Some []).
Proof.
  intros fmt_ok pat_ok E fc HE Hsf Hex Hpm Hfc Hfcp n c req a v Hwf Hsfa Hexa Hpma Hc HP Hwt Hr Hv Hd.
  rewrite (schema_matches fmt_ok pat_ok E fc HE Hsf n c req a v Hwf Hsfa Hwt Hv Hd).
  rewrite <- (goa_iff_spec fmt_ok pat_ok E fc HE Hex Hpm Hfc eq_refl Hfcp n c true a v Hc HP Hwf Hexa Hpma (fun _ => Hv)).
  rewrite (validate_ok fmt_ok pat_ok E fc HE n c req a v Hwf Hwt Hr).
  split; intro H; [now rewrite H|now injection H].
Qed.
Print Assumptions schema_iff_server_accepts_partial.

(* the mapping of MinLength / MaxLength: items bounds for arrays, string bounds for
   everything else - maps included *)
Theorem length_keywords_mapping :
  forall vl,
    s_minitems (skw_of true vl) = v_minlen vl /\ s_maxitems (skw_of true vl) = v_maxlen vl /\
    s_minlength (skw_of true vl) = None /\ s_maxlength (skw_of true vl) = None /\
    s_minlength (skw_of false vl) = v_minlen vl /\ s_maxlength (skw_of false vl) = v_maxlen vl /\
    s_minitems (skw_of false vl) = None /\ s_maxitems (skw_of false vl) = None /\
    s_minimum (skw_of false vl) = v_min vl /\ s_maximum (skw_of false vl) = v_max vl /\
    s_xmin (skw_of false vl) = v_xmin vl /\ s_xmax (skw_of false vl) = v_xmax vl /\
    s_enum (skw_of false vl) = v_enum vl /\ s_pattern (skw_of false vl) = v_pattern vl /\ s_format (skw_of false vl) = v_format vl.
Proof. intro vl. repeat split. Qed.
Print Assumptions length_keywords_mapping.

Definition otrue : nat -> str -> bool := fun _ _ => true.
Definition vlen (m M : option nat) : validation := mkV None None None None None None None m M.
Definition e0 : env := mkEnv [] [].
Definition pstr : att := APrim no_validation false PString.

(* FINDING map-length-as-string-length: a map with MinLength(1) is documented with
   minLength 1, which says nothing about objects: the empty map conforms to the schema and
   violates the design *)
Theorem schema_matches_validation_refuted_map_length :
  exists E fc c a v, wf_env E = true /\ wf_att E a = true /\ wt E fc c true a v /\ v <> VNull /\ dense v = true /\
    schema_accepts otrue otrue E 3 a v = true /\ violations otrue otrue E 3 a v = [(EInvalidLength, [])] /\
    validate otrue otrue E fc 3 c true a v = Some [(EInvalidLength, [])].
Proof.
  exists e0, ctx_server_request, ctx_server_request, (AMap (vlen (Some 1) None) pstr pstr), (VMap []).
  repeat split; try (vm_compute; reflexivity); try discriminate.
  apply wt_map. intros kv [].
Qed.
Print Assumptions schema_matches_validation_refuted_map_length.

(* FINDING bytes-length-counts-base64: MinLength(2) on a byte string is documented as
   minLength 2 on its base64 form: one byte ("AA==", 4 characters) conforms and violates *)
Theorem schema_matches_validation_refuted_bytes_length :
  exists E fc c a v, wf_env E = true /\ wf_att E a = true /\ wt E fc c true a v /\ v <> VNull /\ dense v = true /\
    schema_accepts otrue otrue E 3 a v = true /\ violations otrue otrue E 3 a v = [(EInvalidLength, [])].
Proof.
  exists e0, ctx_server_request, ctx_server_request, (APrim (vlen (Some 2) None) false PBytes), (VBytes [0%N]).
  repeat split; try (vm_compute; reflexivity); try discriminate.
  now apply wt_prim.
Qed.
Print Assumptions schema_matches_validation_refuted_bytes_length.

(* FINDING map-key-validation-undocumented: validations of map keys are enforced by the
   server and absent from the document *)
Theorem schema_matches_validation_refuted_map_key :
  exists E fc c a v, wf_env E = true /\ wf_att E a = true /\ wt E fc c true a v /\ v <> VNull /\ dense v = true /\
    schema_accepts otrue otrue E 3 a v = true /\ violations otrue otrue E 3 a v = [(EInvalidLength, [PKey])].
Proof.
  exists e0, ctx_server_request, ctx_server_request,
         (AMap no_validation (APrim (vlen None (Some 1)) false PString) pstr), (VMap [(VStr [97; 98]%N, VStr [120]%N)]).
  repeat split; try (vm_compute; reflexivity); try discriminate.
  apply wt_map. intros kv [<-|[]]. split; now apply wt_prim.
Qed.
Print Assumptions schema_matches_validation_refuted_map_key.

(* FINDING non-string-key-map-values-undocumented: a map keyed by integers is documented
   as a free-form object, so the validations of its values are absent from the document *)
Theorem schema_matches_validation_refuted_non_string_key :
  exists E fc c a v, wf_env E = true /\ wf_att E a = true /\ wt E fc c true a v /\ v <> VNull /\ dense v = true /\
    schema_accepts otrue otrue E 3 a v = true /\ violations otrue otrue E 3 a v = [(EInvalidRange, [PVal])].
Proof.
  exists e0, ctx_server_request, ctx_server_request,
         (AMap no_validation (APrim no_validation false (PNum KInt))
               (APrim (mkV None None None None (Some (1 # 1)%Q) None None None None) false (PNum KInt))),
         (VMap [(VNum (7 # 1)%Q, VNum (0 # 1)%Q)]).
  repeat split; try (vm_compute; reflexivity); try discriminate.
  apply wt_map. intros kv [<-|[]]. split; now apply wt_prim.
Qed.
Print Assumptions schema_matches_validation_refuted_non_string_key.

(* FINDING absent-collection-minlen (shared with C04): the document lists the array as
   optional with minItems 2; leaving it out conforms, the server answers invalid_length *)
Theorem schema_vs_server_refuted_absent_collection :
  exists E fc c a v, wf_env E = true /\ wf_att E a = true /\ wt E fc c true a v /\ v <> VNull /\ dense v = true /\
    schema_accepts otrue otrue E 3 a v = true /\ violations otrue otrue E 3 a v = [] /\
    validate otrue otrue E fc 3 c true a v = Some [(EInvalidLength, [PField 0])].
Proof.
  exists e0, ctx_server_request, ctx_server_request, (AObject [(0, false, AArray (vlen (Some 2) None) pstr)]), (VObj [VNull]).
  repeat split; try (vm_compute; reflexivity); try discriminate.
  apply wt_obj. apply wtf_cons; [apply wt_null; reflexivity|apply wtf_nil].
Qed.
Print Assumptions schema_vs_server_refuted_absent_collection.

(* non-vacuity: an object with a required string (maxLength 2, counted in code points) and
   an optional array of integers >= 1 with at most 2 items *)
Definition ex_att : att :=
  AObject [(0, true, APrim (vlen None (Some 2)) false PString);
           (1, false, AArray (vlen None (Some 2)) (APrim (mkV None None None None (Some (1 # 1)%Q) None None None None) false (PNum KInt)))].
Example schema_example :
  schema_accepts otrue otrue e0 3 ex_att (VObj [VStr [195; 169; 195; 169]%N; VArr [VNum (1 # 1)%Q; VNum (7 # 1)%Q]]) = true /\
  schema_accepts otrue otrue e0 3 ex_att (VObj [VStr [97; 98; 99]%N; VNull]) = false /\
  schema_accepts otrue otrue e0 3 ex_att (VObj [VNull; VNull]) = false /\
  schema_accepts otrue otrue e0 3 ex_att (VObj [VStr [97]%N; VArr [VNum (0 # 1)%Q]]) = false /\
  violations otrue otrue e0 3 ex_att (VObj [VStr [97]%N; VArr [VNum (0 # 1)%Q]]) = [(EInvalidRange, [PField 1; PElem])].
Proof. repeat split; vm_compute; reflexivity. Qed.

(* ================================================================== MODEL GROWTH: the documented OPERATION
   An OpenAPI operation documents a request as a body schema plus one parameter object
   (schema + required flag) per attribute routed to a header, a cookie or a path / query
   parameter. With the routing model of Routing.v (httpRequestBody, initAttr): the body schema
   is the schema of the payload attributes that stay, a parameter object accepts a value the
   way a one-property object with the same required flag does. *)
Definition operation_accepts (fmt_ok pat_ok : nat -> str -> bool) (E : env) (n : nat)
    (m : mattr att) (r : routing) (l : list value) : bool :=
  schema_accepts fmt_ok pat_ok E n (AObject (pick_fields (in_body r) (fields_of m)))
                 (VObj (pick_values (in_body r) (fields_of m) l)) &&
  forallb (fun fx => schema_accepts fmt_ok pat_ok E n (AObject [fst fx]) (VObj [snd fx]))
          (combine (pick_fields (fun k => negb (in_body r k)) (fields_of m))
                   (pick_values (fun k => negb (in_body r k)) (fields_of m) l)).

(* On the faithful fragment, for every object payload and every mapping: the documented
   operation accepts a request exactly when the PAYLOAD it carries satisfies the design's
   validations - the contract is stated on the operation, the design on the payload *)
Theorem operation_accepts_iff_payload_valid_partial :
  forall (fmt_ok pat_ok : nat -> str -> bool) E fc, wf_env E = true -> env_schema_faithful E = true ->
  forall n c (m : mattr att) (r : routing) l,
    wf_att E (att_of m) = true -> schema_faithful E (att_of m) = true ->
    wt_fields E fc c (fields_of m) l -> forallb dense l = true ->
    (operation_accepts fmt_ok pat_ok E n m r l = true <-> violations fmt_ok pat_ok E n (att_of m) (VObj l) = []).
Proof.
  intros fmt_ok pat_ok E fc HE Hsf n c m r l Hwf Hfa Hwt Hd.
  rewrite att_of_fields in Hwf, Hfa. cbn [wf_att schema_faithful] in Hwf, Hfa.
  rewrite (payload_valid_iff_locations_valid_lemma fmt_ok pat_ok E n m r l).
  unfold operation_accepts. rewrite andb_true_iff.
  assert (H1 : schema_accepts fmt_ok pat_ok E n (AObject (pick_fields (in_body r) (fields_of m)))
                 (VObj (pick_values (in_body r) (fields_of m) l)) = true <->
               violations fmt_ok pat_ok E n (AObject (pick_fields (in_body r) (fields_of m)))
                 (VObj (pick_values (in_body r) (fields_of m) l)) = []).
  { apply (schema_matches fmt_ok pat_ok E fc HE Hsf n c true).
    - cbn [wf_att]. now apply forallb_pick.
    - cbn [schema_faithful]. now apply forallb_pick.
    - apply wt_obj. now apply wt_fields_pick.
    - discriminate.
    - cbn [dense]. now apply dense_pick. }
  rewrite H1. apply and_iff_compat_l. apply forallb_Forall_iff. intros fx Hin.
  pose proof (wt_fields_pick E fc c (fun k => negb (in_body r k)) (fields_of m) l Hwt) as Hwp.
  pose proof (dense_pick (fun k => negb (in_body r k)) (fields_of m) l Hd) as Hdp.
  assert (Hf : In (fst fx) (fields_of m)).
  { destruct fx as [f x]. apply in_combine_l in Hin. apply pick_fields_In in Hin. exact (proj1 Hin). }
  apply (schema_matches fmt_ok pat_ok E fc HE Hsf n c true).
  - cbn [wf_att forallb]. rewrite andb_true_r. exact (proj1 (forallb_forall _ _) Hwf _ Hf).
  - cbn [schema_faithful forallb]. rewrite andb_true_r. exact (proj1 (forallb_forall _ _) Hfa _ Hf).
  - apply wt_obj. exact (wt_fields_each E fc c _ _ Hwp fx Hin).
  - discriminate.
  - cbn [dense forallb]. rewrite andb_true_r. destruct fx as [f x]. apply in_combine_r in Hin.
    exact (proj1 (forallb_forall _ _) Hdp _ Hin).
Qed.
Print Assumptions operation_accepts_iff_payload_valid_partial.

(* non-vacuity: payload {0: required string, 1: integer >= 1 routed to a query parameter}:
   the operation accepts (a, 3), refuses (a, 0) (parameter below its minimum) and refuses a
   request without attribute 0 (required property of the body) *)
Definition op_payload : mattr att :=
  mkMA [(0, pstr); (1, APrim (mkV None None None None (Some (1 # 1)%Q) None None None None) false (PNum KInt))] [0].
Definition op_routing : routing := mkRt [] [] [1] None [].
Example operation_example :
  operation_accepts otrue otrue e0 3 op_payload op_routing [VStr [97%N]; VNum (3 # 1)%Q] = true /\
  operation_accepts otrue otrue e0 3 op_payload op_routing [VStr [97%N]; VNum (0 # 1)%Q] = false /\
  operation_accepts otrue otrue e0 3 op_payload op_routing [VNull; VNum (3 # 1)%Q] = false /\
  operation_accepts otrue otrue e0 3 op_payload op_routing [VStr [97%N]; VNull] = true /\
  violations otrue otrue e0 3 (att_of op_payload) (VObj [VNull; VNum (3 # 1)%Q]) = [(EMissingField, [PField 0])].
Proof. repeat split; vm_compute; reflexivity. Qed.

