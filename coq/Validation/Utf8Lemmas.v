(* Proofs about the UTF-8 model of Utf8.v: rune count vs byte length, ASCII strings,
   and well-formed encodings of Unicode scalar values. No axioms. *)
From Validation Require Import Utf8.
From Coq Require Import ZArith Lia ZifyBool ZifyNat ZifyN.
Ltac Zify.zify_post_hook ::= Z.to_euclidean_division_equations.
Local Open Scope N_scope.

(* destruct every boolean comparison in the goal, pruning impossible branches *)
Ltac dtest :=
  repeat (cbv beta iota; cbn [andb orb];
          match goal with
          | |- context [N.leb ?a ?b] => destruct (N.leb_spec a b)
          | |- context [N.ltb ?a ?b] => destruct (N.ltb_spec a b)
          | |- context [N.eqb ?a ?b] => destruct (N.eqb_spec a b)
          end; try lia);
  cbv beta iota; cbn [andb orb]; try reflexivity; try lia.

(* ---------- 1. runes <= bytes ---------- *)

Lemma rc_le_len : forall s k, (rc s k <= length s)%nat.
Proof.
  induction s as [|c r IH]; intros k; cbn [rc length].
  - lia.
  - destruct k as [|k].
    + specialize (IH (follow c r)). lia.
    + specialize (IH k). lia.
Qed.

Lemma rune_count_le_len : forall s, (rune_count s <= byte_len s)%nat.
Proof. intros s. unfold rune_count, byte_len. apply rc_le_len. Qed.

(* ---------- 2. ASCII ---------- *)

Lemma lead_info_ascii : forall c, c < 128 -> lead_info c = None.
Proof. intros c H. unfold lead_info, in_rng. timeout 60 dtest. Qed.

Lemma follow_ascii : forall c r, c < 128 -> follow c r = 0%nat.
Proof. intros c r H. unfold follow. rewrite (lead_info_ascii c H). reflexivity. Qed.

Lemma rune_count_ascii :
  forall s, Forall (fun c => (c < 128)%N) s -> rune_count s = byte_len s.
Proof.
  unfold rune_count, byte_len.
  induction 1 as [|c r Hc _ IH]; cbn [rc length].
  - reflexivity.
  - rewrite (follow_ascii c r Hc). rewrite IH. reflexivity.
Qed.

(* ---------- 3. well-formed encodings ---------- *)

Lemma follow_2 : forall c c1 r,
  194 <= c <= 223 -> 128 <= c1 <= 191 -> follow c (c1 :: r) = 1%nat.
Proof.
  intros c c1 r Hc H1. unfold follow, lead_info, in_rng. timeout 60 dtest.
Qed.

Lemma follow_3 : forall c c1 c2 r,
  224 <= c <= 239 -> 128 <= c1 <= 191 ->
  (c = 224 -> 160 <= c1) -> (c = 237 -> c1 <= 159) ->
  128 <= c2 <= 191 ->
  follow c (c1 :: c2 :: r) = 2%nat.
Proof.
  intros c c1 c2 r Hc H1 Hlo Hhi H2.
  unfold follow, lead_info, is_cont, in_rng. timeout 60 dtest.
Qed.

Lemma follow_4 : forall c c1 c2 c3 r,
  240 <= c <= 244 -> 128 <= c1 <= 191 ->
  (c = 240 -> 144 <= c1) -> (c = 244 -> c1 <= 143) ->
  128 <= c2 <= 191 -> 128 <= c3 <= 191 ->
  follow c (c1 :: c2 :: c3 :: r) = 3%nat.
Proof.
  intros c c1 c2 c3 r Hc H1 Hlo Hhi H2 H3.
  unfold follow, lead_info, is_cont, in_rng. timeout 60 dtest.
Qed.

Lemma scalar_spec : forall cp,
  scalar cp = true -> cp < 55296 \/ (57343 < cp /\ cp < 1114112).
Proof.
  intros cp H. unfold scalar in H.
  apply orb_true_iff in H. destruct H as [H|H].
  - left. apply N.ltb_lt. exact H.
  - right. apply andb_true_iff in H. destruct H as [H1 H2].
    split; apply N.ltb_lt; assumption.
Qed.

Lemma rc_encode_cp : forall cp rest,
  scalar cp = true -> rc (encode_cp cp ++ rest) 0 = S (rc rest 0).
Proof.
  intros cp rest Hs. apply scalar_spec in Hs. unfold encode_cp.
  destruct (N.ltb_spec cp 128) as [H1|H1].
  { cbn [app rc]. rewrite (follow_ascii cp rest H1). reflexivity. }
  destruct (N.ltb_spec cp 2048) as [H2|H2].
  { cbn [app rc]. rewrite follow_2 by (timeout 60 lia). reflexivity. }
  destruct (N.ltb_spec cp 65536) as [H3|H3].
  { cbn [app rc]. rewrite follow_3 by (timeout 60 lia). reflexivity. }
  cbn [app rc]. rewrite follow_4 by (timeout 60 lia). reflexivity.
Qed.

Lemma rune_count_encode :
  forall cps, Forall (fun cp => scalar cp = true) cps ->
              rune_count (utf8_encode cps) = length cps.
Proof.
  unfold rune_count, utf8_encode.
  induction 1 as [|cp cps Hcp _ IH]; cbn [flat_map length].
  - reflexivity.
  - rewrite (rc_encode_cp cp _ Hcp). rewrite IH. reflexivity.
Qed.

(* ---------- 4. a non-ASCII code point makes runes < bytes ---------- *)

Lemma encode_cp_len_pos : forall cp, (1 <= length (encode_cp cp))%nat.
Proof.
  intros cp. unfold encode_cp.
  destruct (cp <? 128); [cbn [length]; lia|].
  destruct (cp <? 2048); [cbn [length]; lia|].
  destruct (cp <? 65536); cbn [length]; lia.
Qed.

Lemma encode_cp_len_multi : forall cp, 128 <= cp -> (2 <= length (encode_cp cp))%nat.
Proof.
  intros cp H. unfold encode_cp.
  destruct (N.ltb_spec cp 128); [lia|].
  destruct (cp <? 2048); [cbn [length]; lia|].
  destruct (cp <? 65536); cbn [length]; lia.
Qed.

Lemma utf8_encode_len_ge : forall cps, (length cps <= length (utf8_encode cps))%nat.
Proof.
  unfold utf8_encode.
  induction cps as [|cp cps IH]; cbn [flat_map length].
  - lia.
  - rewrite app_length. pose proof (encode_cp_len_pos cp). lia.
Qed.

Lemma utf8_encode_len_gt : forall cps,
  Exists (fun cp => 128 <= cp) cps -> (length cps < length (utf8_encode cps))%nat.
Proof.
  induction 1 as [cp cps H|cp cps _ IH]; unfold utf8_encode in *;
    cbn [flat_map length]; rewrite app_length.
  - pose proof (encode_cp_len_multi cp H).
    pose proof (utf8_encode_len_ge cps) as G. unfold utf8_encode in G. lia.
  - pose proof (encode_cp_len_pos cp). lia.
Qed.

Lemma rune_count_multibyte_lt :
  forall cps, Forall (fun cp => scalar cp = true) cps ->
              Exists (fun cp => (128 <= cp)%N) cps ->
              (rune_count (utf8_encode cps) < byte_len (utf8_encode cps))%nat.
Proof.
  intros cps HF HE. rewrite (rune_count_encode cps HF). unfold byte_len.
  apply utf8_encode_len_gt. exact HE.
Qed.

(* ---------- 5. examples ---------- *)

Example rune_count_ee :
  rune_count [195; 169; 195; 169]%N = 2%nat /\ byte_len [195; 169; 195; 169]%N = 4%nat.
Proof. split; vm_compute; reflexivity. Qed.

Example rune_count_invalid : rune_count [255; 195]%N = 2%nat.
Proof. vm_compute; reflexivity. Qed.

Print Assumptions rune_count_le_len.
Print Assumptions rune_count_ascii.
Print Assumptions rune_count_encode.
Print Assumptions rune_count_multibyte_lt.
