(* C04 / C14 - proofs about the payload routing model (Routing.v). *)
From Coq Require Import List Arith Bool Permutation Lia.
From Validation Require Import Model Schema Routing Lemmas LemmasSchema.
Import ListNotations.

(* ------------------------------------------------------------------ lists *)
Lemma filter_all {B} (p : B -> bool) l : (forall x, In x l -> p x = true) -> filter p l = l.
Proof.
  induction l as [|x l IH]; intro H; [reflexivity|]. cbn [filter]. rewrite (H x (or_introl eq_refl)).
  f_equal. apply IH. intros y Hy. apply H. now right.
Qed.

Lemma filter_filter {B} (p q : B -> bool) l : filter q (filter p l) = filter (fun x => p x && q x) l.
Proof.
  induction l as [|x l IH]; [reflexivity|]. cbn [filter]. destruct (p x); cbn [filter andb]; [destruct (q x)|]; now rewrite IH.
Qed.

Lemma NoDup_map_filter {B} (p : nat * B -> bool) l : NoDup (map fst l) -> NoDup (map fst (filter p l)).
Proof.
  induction l as [|x l IH]; intro H; [constructor|]. cbn [map] in H. inversion H as [|y r Hn Hr]; subst.
  cbn [filter]. destruct (p x); [|now apply IH]. cbn [map]. constructor; [|now apply IH].
  intro Hin. apply Hn. apply in_map_iff in Hin. destruct Hin as (z & Hz & Hf). apply filter_In in Hf.
  apply in_map_iff. exists z. tauto.
Qed.

Lemma Forall_filter_split {B} (P : B -> Prop) (k : B -> bool) l :
  Forall P l <-> Forall P (filter k l) /\ Forall P (filter (fun x => negb (k x)) l).
Proof.
  induction l as [|x l IH]; [cbn; split; [intros _; split; constructor|intros _; constructor]|].
  cbn [filter]. split.
  - intro H. inversion H as [|y r Hx Hr]; subst. apply IH in Hr. destruct Hr as [H1 H2].
    destruct (k x); cbn [negb]; split; try constructor; assumption.
  - intros [H1 H2]. destruct (k x); cbn [negb] in *.
    + inversion H1; subst. constructor; [assumption|]. apply IH. now split.
    + inversion H2; subst. constructor; [assumption|]. apply IH. now split.
Qed.

(* ------------------------------------------------------------------ deletions *)
Section Del.
Variable A : Type.
Notation mattr := (mattr A).

Lemma obj_delete_comm a b (l : list (nat * A)) : obj_delete a (obj_delete b l) = obj_delete b (obj_delete a l).
Proof.
  induction l as [|[k x] l IH]; [reflexivity|]. cbn [obj_delete].
  destruct (Nat.eqb k b) eqn:Eb, (Nat.eqb k a) eqn:Ea; cbn [obj_delete]; rewrite ?Ea, ?Eb.
  - apply Nat.eqb_eq in Eb, Ea. subst. reflexivity.
  - reflexivity.
  - reflexivity.
  - now rewrite IH.
Qed.

Lemma rr_comm a b l : remove_required a (remove_required b l) = remove_required b (remove_required a l).
Proof.
  induction l as [|k l IH]; [reflexivity|]. cbn [remove_required].
  destruct (Nat.eqb k b) eqn:Eb, (Nat.eqb k a) eqn:Ea; cbn [remove_required]; rewrite ?Ea, ?Eb.
  - apply Nat.eqb_eq in Eb, Ea. subst. reflexivity.
  - reflexivity.
  - reflexivity.
  - now rewrite IH.
Qed.

Lemma remove_attribute_comm (m : mattr) a b :
  remove_attribute (remove_attribute m a) b = remove_attribute (remove_attribute m b) a.
Proof.
  unfold remove_attribute. cbn [ma_fields ma_required]. f_equal; [apply obj_delete_comm|].
  set (l := ma_required m).
  rewrite (rr_comm b a (remove_required a l)).
  rewrite (rr_comm b a l).
  rewrite (rr_comm b a (remove_required a (remove_required b l))).
  rewrite (rr_comm b a (remove_required b l)).
  reflexivity.
Qed.

Lemma remove_attributes_perm ns ns' : Permutation ns ns' ->
  forall m : mattr, remove_attributes m ns = remove_attributes m ns'.
Proof.
  induction 1 as [|x l l' _ IH|x y l|l l' l'' _ IH1 _ IH2]; intro m.
  - reflexivity.
  - cbn [remove_attributes fold_left]. apply IH.
  - cbn [remove_attributes fold_left]. now rewrite remove_attribute_comm.
  - now rewrite IH1.
Qed.

Lemma obj_delete_filter n (fs : list (nat * A)) : NoDup (map fst fs) ->
  obj_delete n fs = filter (fun f => negb (Nat.eqb (fst f) n)) fs.
Proof.
  induction fs as [|[k x] fs IH]; intro H; [reflexivity|]. cbn [map fst] in H. inversion H as [|y r Hn Hr]; subst.
  cbn [obj_delete filter fst]. destruct (Nat.eqb k n) eqn:Ek; cbn [negb].
  - apply Nat.eqb_eq in Ek. subst k. symmetry. apply filter_all. intros [j z] Hj. cbn [fst].
    destruct (Nat.eqb j n) eqn:Ej; [|reflexivity]. apply Nat.eqb_eq in Ej. subst j.
    exfalso. apply Hn. apply in_map_iff. now exists (n, z).
  - f_equal. now apply IH.
Qed.

Lemma rr_filter n rs : NoDup rs -> remove_required n rs = filter (fun k => negb (Nat.eqb k n)) rs.
Proof.
  induction rs as [|k rs IH]; intro H; [reflexivity|]. inversion H as [|y r Hn Hr]; subst.
  cbn [remove_required filter]. destruct (Nat.eqb k n) eqn:Ek; cbn [negb].
  - apply Nat.eqb_eq in Ek. subst k. symmetry. apply filter_all. intros j Hj.
    destruct (Nat.eqb j n) eqn:Ej; [|reflexivity]. apply Nat.eqb_eq in Ej. subst j. contradiction.
  - f_equal. now apply IH.
Qed.

Lemma rr2_filter n rs : NoDup rs ->
  remove_required n (remove_required n rs) = filter (fun k => negb (Nat.eqb k n)) rs.
Proof.
  intro H. rewrite (rr_filter n rs H). rewrite rr_filter by now apply NoDup_filter.
  rewrite filter_filter. apply filter_ext. intro k. now destruct (Nat.eqb k n).
Qed.

Lemma memn_cons x n ns : memn x (n :: ns) = Nat.eqb x n || memn x ns.
Proof. reflexivity. Qed.

(* with distinct names, deleting a list of names one at a time is filtering both lists *)
Lemma remove_attributes_filter ns : forall m : mattr,
  NoDup (map fst (ma_fields m)) -> NoDup (ma_required m) ->
  remove_attributes m ns =
  mkMA (filter (fun f => negb (memn (fst f) ns)) (ma_fields m)) (filter (fun k => negb (memn k ns)) (ma_required m)).
Proof.
  induction ns as [|n ns IH]; intros m Hf Hr.
  - cbn [remove_attributes fold_left memn existsb negb]. destruct m as [fs rs]. cbn [ma_fields ma_required].
    now rewrite !filter_all by reflexivity.
  - cbn [remove_attributes fold_left]. fold (remove_attributes (remove_attribute m n) ns).
    unfold remove_attribute at 1. rewrite (obj_delete_filter n _ Hf), (rr2_filter n _ Hr).
    rewrite IH; cbn [ma_fields ma_required]; [|now apply NoDup_map_filter|now apply NoDup_filter].
    rewrite !filter_filter. f_equal; apply filter_ext; intro x; rewrite memn_cons, negb_orb; reflexivity.
Qed.

Lemma memn_In x l : memn x l = true <-> In x l.
Proof.
  unfold memn. rewrite existsb_exists. split.
  - intros (y & Hy & E). apply Nat.eqb_eq in E. now subst.
  - intro H. exists x. split; [assumption|apply Nat.eqb_refl].
Qed.

End Del.

(* ------------------------------------------------------------------ the object the two lists stand for *)
Lemma memn_filter (p : nat -> bool) k rs : p k = true -> memn k (filter p rs) = memn k rs.
Proof.
  intro Hk. unfold memn. induction rs as [|x rs IH]; [reflexivity|]. cbn [filter]. destruct (p x) eqn:Ex; cbn [existsb].
  - now rewrite IH.
  - rewrite IH. destruct (Nat.eqb k x) eqn:E; [|reflexivity].
    apply Nat.eqb_eq in E. subst. congruence.
Qed.

Definition fields_of (m : mattr att) : list (nat * bool * att) :=
  map (fun f => (fst f, memn (fst f) (ma_required m), snd f)) (ma_fields m).

Lemma att_of_fields m : att_of m = AObject (fields_of m).
Proof. reflexivity. Qed.

Lemma fields_of_filter (keep : nat -> bool) (m : mattr att) :
  fields_of (mkMA (filter (fun f => keep (fst f)) (ma_fields m)) (filter keep (ma_required m))) =
  pick_fields keep (fields_of m).
Proof.
  unfold fields_of. cbn [ma_fields ma_required]. destruct m as [fs rs]. cbn [ma_fields ma_required].
  induction fs as [|[k a] fs IH]; [reflexivity|]. cbn [filter map fst snd pick_fields].
  destruct (keep k) eqn:Ek; [|exact IH]. cbn [map fst snd]. rewrite IH. now rewrite (memn_filter keep k rs Ek).
Qed.

Lemma pick_fields_names keep fs : map (fun f => fst (fst f)) (pick_fields keep fs) = filter keep (map (fun f => fst (fst f)) fs).
Proof.
  induction fs as [|[[n r] a] fs IH]; [reflexivity|]. cbn [pick_fields map fst filter].
  destruct (keep n); cbn [map fst]; now rewrite IH.
Qed.

(* ------------------------------------------------------------------ validations split along the routing *)
Lemma combine_pick keep fs : forall l,
  combine (pick_fields keep fs) (pick_values keep fs l) = filter (fun fx => keep (fst (fst (fst fx)))) (combine fs l).
Proof.
  induction fs as [|[[n r] a] fs IH]; intro l; [reflexivity|]. destruct l as [|x l].
  - cbn [pick_values combine filter]. now rewrite combine_nil.
  - cbn [pick_fields pick_values combine filter fst]. destruct (keep n); cbn [combine]; now rewrite IH.
Qed.

Section Split.
Variable fmt_ok pat_ok : nat -> str -> bool.
Variable E : env.
Variable callS : nat -> value -> list viol.
Notation spec_viol := (spec_viol fmt_ok pat_ok E callS).

(* one attribute of an object, on its own *)
Definition field_clean (p : path) (fx : (nat * bool * att) * value) : Prop :=
  spec_viol (AObject [fst fx]) (VObj [snd fx]) p = [].

Lemma obj_clean_iff fs : forall l p,
  spec_viol (AObject fs) (VObj l) p = [] <-> Forall (field_clean p) (combine fs l).
Proof.
  induction fs as [|[[n r] a] fs IH]; intros l p.
  - cbn. split; [constructor|reflexivity].
  - destruct l as [|x l].
    + cbn. split; [constructor|reflexivity].
    + specialize (IH l p). rewrite spec_viol_obj in *. cbn [combine]. cbn [reqs_spec fields_spec].
      split.
      * intro H. apply app_eq_nil in H. destruct H as [H1 H2].
        apply app_eq_nil in H1. destruct H1 as [H1 H1']. apply app_eq_nil in H2. destruct H2 as [H2 H2'].
        constructor.
        -- unfold field_clean. cbn [fst snd]. rewrite spec_viol_obj. cbn [reqs_spec fields_spec].
           rewrite H1, H2. reflexivity.
        -- apply IH. now rewrite H1', H2'.
      * intro H. inversion H as [|y rr Hx Hr]; subst. apply IH in Hr. apply app_eq_nil in Hr. destruct Hr as [Hr1 Hr2].
        unfold field_clean in Hx. cbn [fst snd] in Hx. rewrite spec_viol_obj in Hx. cbn [reqs_spec fields_spec] in Hx.
        rewrite !app_nil_r in Hx. apply app_eq_nil in Hx. destruct Hx as [Hx1 Hx2].
        now rewrite Hx1, Hx2, Hr1, Hr2.
Qed.

(* the object is clean exactly when the part that stays and every attribute that leaves are *)
Lemma obj_split keep fs l p :
  spec_viol (AObject fs) (VObj l) p = [] <->
  spec_viol (AObject (pick_fields keep fs)) (VObj (pick_values keep fs l)) p = [] /\
  Forall (field_clean p) (combine (pick_fields (fun n => negb (keep n)) fs) (pick_values (fun n => negb (keep n)) fs l)).
Proof.
  rewrite !obj_clean_iff, !combine_pick.
  apply (Forall_filter_split (field_clean p) (fun fx => keep (fst (fst (fst fx))))).
Qed.
End Split.

(* ------------------------------------------------------------------ httpRequestBody as a whole *)
Section Body.
Variable A : Type.

Lemma in_body_filter (r : routing) (m : mattr A) :
  NoDup (map fst (ma_fields m)) -> NoDup (ma_required m) ->
  remove_attributes m (routed r) =
  mkMA (filter (fun f => in_body r (fst f)) (ma_fields m)) (filter (in_body r) (ma_required m)).
Proof. intros Hf Hr. now rewrite (remove_attributes_filter A (routed r) m Hf Hr). Qed.

Lemma request_body_obj (r : routing) (m : mattr A) :
  NoDup (map fst (ma_fields m)) -> NoDup (ma_required m) ->
  request_body (PObj m) r =
  let b := mkMA (filter (fun f => in_body r (fst f)) (ma_fields m)) (filter (in_body r) (ma_required m)) in
  if is_nil (ma_fields b) then RBEmpty else RBObj b.
Proof. intros Hf Hr. unfold request_body. now rewrite (in_body_filter r m Hf Hr). Qed.

Lemma required_defined (p : nat -> bool) (fs : list (nat * A)) rs :
  incl rs (map fst fs) -> incl (filter p rs) (map fst (filter (fun f => p (fst f)) fs)).
Proof.
  intros H x Hx. apply filter_In in Hx. destruct Hx as [Hx Hp]. apply H in Hx. apply in_map_iff in Hx.
  destruct Hx as ([k a] & Hk & Hin). cbn [fst] in Hk. subst k. apply in_map_iff. exists (x, a). split; [reflexivity|].
  apply filter_In. now split.
Qed.

Lemma assoc_NoDup (fs : list (nat * A)) n a : NoDup (map fst fs) -> In (n, a) fs -> assoc fs n = Some a.
Proof.
  induction fs as [|[k x] fs IH]; intros Hn Hin; [contradiction|]. cbn [map fst] in Hn. inversion Hn as [|y rr Hk Hr]; subst.
  cbn [assoc]. destruct Hin as [Heq|Hin].
  - injection Heq as -> ->. now rewrite Nat.eqb_refl.
  - destruct (Nat.eqb n k) eqn:E; [|now apply IH]. apply Nat.eqb_eq in E. subst k.
    exfalso. apply Hk. apply in_map_iff. now exists (n, a).
Qed.
End Body.

Lemma pick_fields_In keep fs f : In f (pick_fields keep fs) <-> In f fs /\ keep (fst (fst f)) = true.
Proof.
  induction fs as [|[[n r] a] fs IH]; [cbn; tauto|]. cbn [pick_fields]. destruct (keep n) eqn:Ek; cbn [In]; rewrite IH.
  - split; [intros [<-|[H1 H2]]; [split; [now left|exact Ek]|split; [now right|exact H2]]|intros [[<-|H1] H2]; [now left|right; now split]].
  - split; [intros [H1 H2]; split; [now right|exact H2]|intros [[<-|H1] H2]; [cbn [fst] in H2; congruence|now split]].
Qed.

(* ------------------------------------------------------------------ the documented operation *)
Lemma forallb_pick (g : nat * bool * att -> bool) keep fs : forallb g fs = true -> forallb g (pick_fields keep fs) = true.
Proof.
  induction fs as [|[[n r] a] fs IH]; [reflexivity|]. cbn [forallb pick_fields]. intro H. apply andb_prop in H. destruct H as [H1 H2].
  destruct (keep n); [cbn [forallb]; now rewrite H1, IH|now apply IH].
Qed.

Lemma wt_fields_pick E fc c keep fs l : wt_fields E fc c fs l -> wt_fields E fc c (pick_fields keep fs) (pick_values keep fs l).
Proof.
  induction 1 as [c|c n r fa fs x l Hx _ IH]; [constructor|]. cbn [pick_fields pick_values].
  destruct (keep n); [now constructor|exact IH].
Qed.

Lemma dense_pick keep fs : forall l, forallb dense l = true -> forallb dense (pick_values keep fs l) = true.
Proof.
  induction fs as [|[[n r] a] fs IH]; intros l H; [reflexivity|]. destruct l as [|x l]; [reflexivity|].
  cbn [forallb] in H. apply andb_prop in H. destruct H as [H1 H2]. cbn [pick_values].
  destruct (keep n); [cbn [forallb]; now rewrite H1, IH|now apply IH].
Qed.

Lemma forallb_Forall_iff {B} (b : B -> bool) (P : B -> Prop) l :
  (forall x, In x l -> (b x = true <-> P x)) -> (forallb b l = true <-> Forall P l).
Proof.
  induction l as [|x l IH]; intro H; [cbn; split; [constructor|reflexivity]|].
  cbn [forallb]. rewrite andb_true_iff, (H x (or_introl eq_refl)), IH by (intros y Hy; apply H; now right).
  split; [intros [H1 H2]; now constructor|intro HF; inversion HF; now split].
Qed.

Lemma wt_fields_each E fc c fs l : wt_fields E fc c fs l ->
  forall fx, In fx (combine fs l) -> wt_fields E fc c [fst fx] [snd fx].
Proof.
  induction 1 as [c|c n r fa fs x l Hx _ IH]; intros fx Hin; [contradiction|]. cbn [combine] in Hin. destruct Hin as [<-|Hin].
  - cbn [fst snd]. constructor; [assumption|constructor].
  - now apply IH.
Qed.

Lemma payload_valid_iff_locations_valid_lemma (fmt_ok pat_ok : nat -> str -> bool) E n (m : mattr att) (r : routing) l :
  violations fmt_ok pat_ok E n (att_of m) (VObj l) = [] <->
  violations fmt_ok pat_ok E n (AObject (pick_fields (in_body r) (fields_of m))) (VObj (pick_values (in_body r) (fields_of m) l)) = [] /\
  Forall (fun fx => violations fmt_ok pat_ok E n (AObject [fst fx]) (VObj [snd fx]) = [])
    (combine (pick_fields (fun k => negb (in_body r k)) (fields_of m)) (pick_values (fun k => negb (in_body r k)) (fields_of m) l)).
Proof.
  unfold violations. rewrite att_of_fields.
  exact (obj_split fmt_ok pat_ok E (spec_user fmt_ok pat_ok E n) (in_body r) (fields_of m) l []).
Qed.

