(* Correspondence glue for C14 (tier A): the schema objects of the real OpenAPI builders
   (openapi3.json of the v3 builder; openapi.AttributeTypeSchema of json_schema.go), read by
   the harness with $ref resolved to a fixed depth, are compared field by field with the
   model's schema_of, inlined to the same depth. *)
From Coq Require Import QArith.
From Validation Require Import Model Schema.
Close Scope Q_scope.
Open Scope nat_scope.

(* inline d E s: replace $ref by the component, d levels deep; deeper references are cut
   to the marker SRef 0 (the harness cuts the real schema the same way) *)
Fixpoint inline (E : env) (d : nat) (s : schema) {struct d} : schema :=
  let fix go (s : schema) : schema :=
    match s with
    | SRef id => match d with O => SRef 0 | S d' => inline E d' (component E id) end
    | SNode t k req props items addl =>
        SNode t k req (map go props) (option_map go items) (option_map go addl)
    end in
  go s.

Definition opt_eqb {A} (f : A -> A -> bool) (a b : option A) : bool :=
  match a, b with Some x, Some y => f x y | None, None => true | _, _ => false end.

Fixpoint list_eqb {A} (f : A -> A -> bool) (a b : list A) : bool :=
  match a, b with
  | [], [] => true
  | x :: a', y :: b' => f x y && list_eqb f a' b'
  | _, _ => false
  end.

Definition lit_eqb (a b : lit) : bool :=
  match a, b with
  | LNum x, LNum y => Qeq_bool x y
  | LStr x, LStr y => str_eqb x y
  | LBool x, LBool y => Bool.eqb x y
  | _, _ => false
  end.

Definition jtype_eqb (a b : jtype) : bool :=
  match a, b with
  | JString, JString | JInteger, JInteger | JNumber, JNumber | JBoolean, JBoolean
  | JArray, JArray | JObject, JObject | JAny, JAny => true
  | _, _ => false
  end.

Definition skw_eqb (a b : skw) : bool :=
  opt_eqb (list_eqb lit_eqb) (s_enum a) (s_enum b) && opt_eqb Nat.eqb (s_format a) (s_format b) &&
  opt_eqb Nat.eqb (s_pattern a) (s_pattern b) && opt_eqb Qeq_bool (s_minimum a) (s_minimum b) &&
  opt_eqb Qeq_bool (s_maximum a) (s_maximum b) && opt_eqb Qeq_bool (s_xmin a) (s_xmin b) &&
  opt_eqb Qeq_bool (s_xmax a) (s_xmax b) && opt_eqb Nat.eqb (s_minlength a) (s_minlength b) &&
  opt_eqb Nat.eqb (s_maxlength a) (s_maxlength b) && opt_eqb Nat.eqb (s_minitems a) (s_minitems b) &&
  opt_eqb Nat.eqb (s_maxitems a) (s_maxitems b).

Fixpoint schema_eqb (a b : schema) {struct a} : bool :=
  match a, b with
  | SRef x, SRef y => Nat.eqb x y
  | SNode t k req props items addl, SNode t' k' req' props' items' addl' =>
      jtype_eqb t t' && skw_eqb k k' && list_eqb Nat.eqb req req' &&
      (fix each (l l' : list schema) : bool :=
         match l, l' with
         | [], [] => true
         | x :: r, y :: r' => schema_eqb x y && each r r'
         | _, _ => false
         end) props props' &&
      match items, items' with Some x, Some y => schema_eqb x y | None, None => true | _, _ => false end &&
      match addl, addl' with Some x, Some y => schema_eqb x y | None, None => true | _, _ => false end
  | _, _ => false
  end.

(* one documented schema: index, environment, the attribute it documents, the depth to
   which references were resolved, what the v3 builder wrote, what json_schema.go builds *)
Definition scase_t := (N * env * att * nat * schema * option schema)%type.

Definition schema_mismatches (cs : list scase_t) : list N :=
  flat_map (fun c => match c with (i, E, a, d, real3, real2) =>
     let m := inline E d (schema_of E a) in
     if schema_eqb m real3 && match real2 with Some r => schema_eqb m r | None => true end then [] else [i] end) cs.

Definition explain_schema (c : scase_t) : schema :=
  match c with (i, E, a, d, _, _) => inline E d (schema_of E a) end.
