(* Correspondence glue for the payload routing model (C04 and C14): for every endpoint of
   every compiled design the harness prints what goa's httpRequestBody and initAttr were
   given (the method payload as the two lists goa keeps, the names mapped to headers,
   cookies and parameters, MapParams, the credential attributes of the required schemes)
   and what they produced (the finalized request body: nothing / the whole payload / the
   two lists of the body type; per mapped element its IsRequired flag and the kind of its
   type). Attribute contents are abstracted to the kind of their type. *)
From Coq Require Import List Arith Bool NArith.
From Validation Require Import Model Routing RunSchema.
Import ListNotations.

Definition field_eqb (a b : nat * nat) : bool := Nat.eqb (fst a) (fst b) && Nat.eqb (snd a) (snd b).

Definition mattr_eqb (a b : mattr nat) : bool :=
  list_eqb field_eqb (ma_fields a) (ma_fields b) && list_eqb Nat.eqb (ma_required a) (ma_required b).

Definition rbody_eqb (a b : rbody nat) : bool :=
  match a, b with
  | RBEmpty, RBEmpty => true
  | RBWhole x, RBWhole y => Nat.eqb x y
  | RBObj x, RBObj y => mattr_eqb x y
  | _, _ => false
  end.

(* index, payload, mapping, observed body, observed elements (name, IsRequired, kind) *)
Definition rcase_t := (N * payload nat * routing * rbody nat * list (nat * bool * nat))%type.

Definition routing_ok (c : rcase_t) : bool :=
  match c with (_, p, r, ob, es) =>
    rbody_eqb (request_body p r) ob &&
    forallb (fun e => match e with (n, req, k) =>
               Bool.eqb (elem_required p n) req && opt_eqb Nat.eqb (elem_content p n) (Some k) end) es
  end.

Definition routing_mismatches (cs : list rcase_t) : list N :=
  flat_map (fun c => if routing_ok c then [] else [fst (fst (fst (fst c)))]) cs.
