(* Validation engine - proofs. *)
From Coq Require Import QArith Lia.
From Validation Require Import Model Utf8Lemmas.
Close Scope Q_scope.
Open Scope nat_scope.

(* ---------------------------------------------------------------- induction on attributes *)
Section AttInd.
Variable P : att -> Prop.
Hypothesis Hprim : forall vl def p, P (APrim vl def p).
Hypothesis Halias : forall id, P (AAlias id).
Hypothesis Harr : forall vl e, P e -> P (AArray vl e).
Hypothesis Hmap : forall vl k e, P k -> P e -> P (AMap vl k e).
Hypothesis Hobj : forall fs, Forall (fun f => P (snd f)) fs -> P (AObject fs).
Hypothesis Huser : forall id, P (AUser id).

Fixpoint att_ind' (a : att) : P a :=
  match a with
  | APrim vl def p => Hprim vl def p
  | AAlias id => Halias id
  | AArray vl e => Harr vl e (att_ind' e)
  | AMap vl k e => Hmap vl k e (att_ind' k) (att_ind' e)
  | AObject fs =>
      Hobj fs ((fix go (l : list (nat * bool * att)) : Forall (fun f => P (snd f)) l :=
                  match l with
                  | [] => Forall_nil _
                  | f :: r => Forall_cons f (att_ind' (snd f)) (go r)
                  end) fs)
  | AUser id => Huser id
  end.
End AttInd.

(* ---------------------------------------------------------------- operators (Generated_valops) *)
Section Ops.
Variable fmt_ok pat_ok : nat -> str -> bool.

Lemma strlen_string s : strlen len_string s = rune_count s.
Proof. reflexivity. Qed.

Lemma strlen_other s : strlen len_other s = length s.
Proof. reflexivity. Qed.

Lemma impl_len_spec v : v <> VNull -> impl_len v = spec_len v.
Proof. destruct v; intro H; try reflexivity; congruence. Qed.

Lemma ltb_negb_leb a b : (a <? b) = negb (b <=? a).
Proof. destruct (Nat.ltb_spec a b), (Nat.leb_spec b a); try reflexivity; lia. Qed.

(* the emitted test fires exactly when the keyword is not satisfied *)
Lemma kw_fires_spec k v : v <> VNull -> kw_fires fmt_ok pat_ok k v = negb (kw_sat fmt_ok pat_ok k v).
Proof.
  intro Hv. destruct k as [l|f|pp|q|q|q|q|n|n]; cbn [kw_fires kw_sat].
  - reflexivity.
  - destruct v; reflexivity.
  - destruct v; reflexivity.
  - destruct v; try reflexivity. unfold cmpq, op_xmin, qle, qlt. now rewrite negb_involutive.
  - destruct v; try reflexivity.
  - destruct v; try reflexivity. unfold cmpq, op_xmax, qle, qlt. now rewrite negb_involutive.
  - destruct v; try reflexivity.
  - rewrite (impl_len_spec v Hv). destruct (spec_len v); [|reflexivity].
    unfold cmpn, op_minlen. apply ltb_negb_leb.
  - rewrite (impl_len_spec v Hv). destruct (spec_len v); [|reflexivity].
    unfold cmpn, op_maxlen. apply ltb_negb_leb.
Qed.

Lemma err_of_spec k : err_of k = spec_err_of k.
Proof. destruct k; reflexivity. Qed.

(* a nil array / map is tested as the empty collection *)
Lemma existsb_lit_null l : existsb (lit_matches VNull) l = false.
Proof. induction l as [|x l IH]; [reflexivity|]. cbn. destruct x; exact IH. Qed.
Lemma existsb_lit_arr l : existsb (lit_matches (VArr [])) l = false.
Proof. induction l as [|x l IH]; [reflexivity|]. cbn. destruct x; exact IH. Qed.
Lemma existsb_lit_map l : existsb (lit_matches (VMap [])) l = false.
Proof. induction l as [|x l IH]; [reflexivity|]. cbn. destruct x; exact IH. Qed.

Lemma kw_fires_nil_arr k : kw_fires fmt_ok pat_ok k VNull = negb (kw_sat fmt_ok pat_ok k (VArr [])).
Proof.
  destruct k as [l|f|pp|q|q|q|q|n|n]; cbn [kw_fires kw_sat]; try reflexivity;
    try (unfold cmpn, op_minlen, op_maxlen; cbn [impl_len spec_len length]; apply ltb_negb_leb).
Qed.

Lemma kw_fires_nil_map k : kw_fires fmt_ok pat_ok k VNull = negb (kw_sat fmt_ok pat_ok k (VMap [])).
Proof.
  destruct k as [l|f|pp|q|q|q|q|n|n]; cbn [kw_fires kw_sat]; try reflexivity;
    try (unfold cmpn, op_minlen, op_maxlen; cbn [impl_len spec_len length]; apply ltb_negb_leb).
Qed.

End Ops.

(* ---------------------------------------------------------------- interpreter basics *)
Section Exec.
Variable fmt_ok pat_ok : nat -> str -> bool.
Variable E : env.
Variable call : nat -> value -> option (list viol).
Notation exec := (exec fmt_ok pat_ok call).

Lemma is_empty_exec c v : is_empty c = true -> exec c v = Some [].
Proof.
  induction c as [|a IHa b IHb| | | | | | |]; cbn [is_empty]; intro H; try discriminate; [reflexivity|].
  apply andb_prop in H. destruct H as [Ha Hb]. cbn [Model.exec]. now rewrite (IHa Ha), (IHb Hb).
Qed.

Lemma exec_seq a b v x y : exec a v = Some x -> exec b v = Some y -> exec (Seq a b) v = Some (x ++ y).
Proof. intros Ha Hb. cbn [Model.exec]. now rewrite Ha, Hb. Qed.

Definition emit_kw (isptr isstr deref : bool) (p : path) (k : kw) : code :=
  let chk := Check k deref p in if guard_on (guard_of k) isptr isstr then IfNotNil chk else chk.

Lemma own_code_unfold isptr isstr deref vl p :
  own_code isptr isstr deref vl p = seq_list (map (emit_kw isptr isstr deref p) (kws_goa vl)).
Proof. reflexivity. Qed.

Definition fires_list (ks : list kw) (v : value) (p : path) : list viol :=
  flat_map (fun k => if kw_fires fmt_ok pat_ok k v then [(err_of k, p)] else []) ks.

Lemma fires_list_goa ks v p : v <> VNull -> fires_list ks v p = kw_viols_goa fmt_ok pat_ok ks v p.
Proof.
  intro Hv. unfold fires_list, kw_viols_goa. induction ks as [|k ks IH]; [reflexivity|].
  cbn [flat_map]. rewrite IH, (kw_fires_spec fmt_ok pat_ok k v Hv), err_of_spec.
  now destruct (kw_sat fmt_ok pat_ok k v).
Qed.

Lemma fires_list_nil_arr ks p : fires_list ks VNull p = kw_viols_goa fmt_ok pat_ok ks (VArr []) p.
Proof.
  unfold fires_list, kw_viols_goa. induction ks as [|k ks IH]; [reflexivity|].
  cbn [flat_map]. rewrite IH, kw_fires_nil_arr, err_of_spec.
  now destruct (kw_sat fmt_ok pat_ok k (VArr [])).
Qed.

Lemma fires_list_nil_map ks p : fires_list ks VNull p = kw_viols_goa fmt_ok pat_ok ks (VMap []) p.
Proof.
  unfold fires_list, kw_viols_goa. induction ks as [|k ks IH]; [reflexivity|].
  cbn [flat_map]. rewrite IH, kw_fires_nil_map, err_of_spec.
  now destruct (kw_sat fmt_ok pat_ok k (VMap [])).
Qed.

(* on a non-nil target every keyword test runs, guarded or not *)
Lemma own_list_nonnull isptr isstr deref p ks v :
  v <> VNull -> exec (seq_list (map (emit_kw isptr isstr deref p) ks)) v = Some (fires_list ks v p).
Proof.
  intro Hv. assert (Hn : is_null v = false) by (destruct v; congruence || reflexivity).
  induction ks as [|k ks IH]; [reflexivity|].
  cbn [map seq_list]. unfold fires_list. cbn [flat_map]. apply exec_seq; [|exact IH].
  unfold emit_kw. destruct (guard_on (guard_of k) isptr isstr); cbn [Model.exec]; rewrite Hn, andb_false_r; reflexivity.
Qed.

(* unguarded tests without dereference run on any target, nil included *)
Lemma own_list_unguarded isptr isstr p ks v :
  (forall k, In k ks -> guard_on (guard_of k) isptr isstr = false) ->
  exec (seq_list (map (emit_kw isptr isstr false p) ks)) v = Some (fires_list ks v p).
Proof.
  induction ks as [|k ks IH]; intro Hg; [reflexivity|].
  cbn [map seq_list]. unfold fires_list. cbn [flat_map]. apply exec_seq.
  - unfold emit_kw. rewrite (Hg k (or_introl eq_refl)). reflexivity.
  - apply IH. intros k' Hk'. apply Hg. now right.
Qed.

(* guarded tests do nothing on a nil target *)
Lemma own_list_guarded_null isptr isstr deref p ks :
  (forall k, In k ks -> guard_on (guard_of k) isptr isstr = true) ->
  exec (seq_list (map (emit_kw isptr isstr deref p) ks)) VNull = Some [].
Proof.
  induction ks as [|k ks IH]; intro Hg; [reflexivity|].
  cbn [map seq_list]. change (@nil viol) with (@nil viol ++ []). apply exec_seq.
  - unfold emit_kw. rewrite (Hg k (or_introl eq_refl)). reflexivity.
  - apply IH. intros k' Hk'. apply Hg. now right.
Qed.

End Exec.

(* ---------------------------------------------------------------- keywords of a validation *)
Definition kw_field_set (vl : validation) (k : kw) : Prop :=
  match k with
  | KEnum _ => v_enum vl <> None | KFormat _ => v_format vl <> None | KPattern _ => v_pattern vl <> None
  | KXMin _ => v_xmin vl <> None | KMin _ => v_min vl <> None | KXMax _ => v_xmax vl <> None
  | KMax _ => v_max vl <> None | KMinLen _ => v_minlen vl <> None | KMaxLen _ => v_maxlen vl <> None
  end.

Lemma in_opt_kw {A} (o : option A) (f : A -> kw) k : In k (opt_kw o f) -> exists x, o = Some x /\ k = f x.
Proof. destruct o as [x|]; cbn; [intros [<-|[]]; eauto | intros []]. Qed.

Lemma kws_goa_in vl k : In k (kws_goa vl) -> kw_field_set vl k.
Proof.
  unfold kws_goa. intro H.
  repeat (apply in_app_or in H; destruct H as [H|H]);
    try (apply in_opt_kw in H; destruct H as (x & Hx & ->); cbn; congruence).
  unfold xmax_slot in H. destruct (v_xmax vl) eqn:EM; [|destruct H].
  destruct (v_xmin vl) eqn:Em.
  - destruct sticky_exclmin; destruct H as [<-|[]]; cbn; [rewrite Em|rewrite EM]; discriminate.
  - destruct H as [<-|[]]; cbn; rewrite EM; discriminate.
Qed.

Lemma kws_of_in vl k : In k (kws_of vl) -> kw_field_set vl k.
Proof.
  unfold kws_of. intro H.
  repeat (apply in_app_or in H; destruct H as [H|H]);
    apply in_opt_kw in H; destruct H as (x & Hx & ->); cbn; congruence.
Qed.

Definition is_len_kw (k : kw) : bool := match k with KMinLen _ | KMaxLen _ => true | _ => false end.

Lemma guard_nonlen k isptr isstr : is_len_kw k = false -> guard_on (guard_of k) isptr isstr = isptr.
Proof. destruct k; cbn; intro H; try discriminate; reflexivity. Qed.

Lemma guard_len k isptr isstr : is_len_kw k = true -> guard_on (guard_of k) isptr isstr = isptr && isstr.
Proof. destruct k; cbn; intro H; try discriminate; reflexivity. Qed.

Definition is_str (p : prim) : bool := match p with PString => true | _ => false end.

(* keywords of a non-string primitive other than bytes are never length keywords *)
Lemma vl_ok_nolen p vl k :
  vl_ok p vl = true -> p <> PString -> p <> PBytes -> In k (kws_goa vl) -> is_len_kw k = false.
Proof.
  intros Hok Hs Hb Hin. apply kws_goa_in in Hin.
  destruct k; try reflexivity; exfalso; cbn in Hin; apply Hin; clear Hin;
    destruct p; try congruence; cbn in Hok;
    destruct (v_format vl), (v_pattern vl), (v_minlen vl), (v_maxlen vl); try discriminate; reflexivity.
Qed.

Lemma vl_ok_bytes_len vl k : vl_ok PBytes vl = true -> In k (kws_goa vl) -> is_len_kw k = true.
Proof.
  intros Hok Hin. apply kws_goa_in in Hin. cbn in Hok.
  destruct k; try reflexivity; exfalso; cbn in Hin;
  destruct (v_enum vl), (v_format vl), (v_pattern vl), (v_xmin vl), (v_min vl), (v_xmax vl), (v_max vl); try discriminate;
  now apply Hin.
Qed.

Lemma vl_collection_len vl k : vl_collection_ok vl = true -> In k (kws_goa vl) -> is_len_kw k = true.
Proof.
  intros Hok Hin. apply kws_goa_in in Hin. unfold vl_collection_ok in Hok.
  destruct k; try reflexivity; exfalso; cbn in Hin;
  destruct (v_enum vl), (v_format vl), (v_pattern vl), (v_xmin vl), (v_min vl), (v_xmax vl), (v_max vl); try discriminate;
  now apply Hin.
Qed.

(* ---------------------------------------------------------------- loops *)
Lemma all_elems_ok (f : value -> option (list viol)) (g : value -> list viol) l :
  (forall x, In x l -> f x = Some (g x)) -> all_elems f l = Some (flat_map g l).
Proof.
  induction l as [|x l IH]; intro H; [reflexivity|].
  cbn [all_elems flat_map]. rewrite (H x (or_introl eq_refl)), IH; [reflexivity|].
  intros y Hy. apply H. now right.
Qed.

Lemma all_pairs_ok (f1 f2 : value -> option (list viol)) (g1 g2 : value -> list viol) l :
  (forall kv, In kv l -> f1 (fst kv) = Some (g1 (fst kv)) /\ f2 (snd kv) = Some (g2 (snd kv))) ->
  all_pairs f1 f2 l = Some (flat_map (fun kv => g1 (fst kv) ++ g2 (snd kv)) l).
Proof.
  induction l as [|[k x] l IH]; intro H; [reflexivity|].
  cbn [all_pairs flat_map]. destruct (H (k, x) (or_introl eq_refl)) as [H1 H2]. cbn [fst snd] in *.
  rewrite H1, H2, IH; [cbn [bind]; now rewrite app_assoc|].
  intros y Hy. apply H. now right.
Qed.

Lemma flat_map_nil {A B} (g : A -> list B) l : (forall x, In x l -> g x = []) -> flat_map g l = [].
Proof.
  induction l as [|x l IH]; intro H; [reflexivity|].
  cbn [flat_map]. rewrite (H x (or_introl eq_refl)), IH; [reflexivity|]. intros y Hy. apply H. now right.
Qed.

(* ---------------------------------------------------------------- the generator model is correct *)
Definition root_ok (a : att) (v : value) : Prop :=
  match a with
  | AUser _ => False
  | AObject _ => v <> VNull
  | APrim _ _ PBytes => v <> VNull
  | _ => True
  end.

Lemma is_null_false v : v <> VNull -> is_null v = false.
Proof. destruct v; congruence || reflexivity. Qed.

Lemma prim_value_null p : prim_value p VNull = false.
Proof. destruct p; reflexivity. Qed.

Lemma is_null_true v : is_null v = true -> v = VNull.
Proof. destruct v; cbn; congruence. Qed.

Section Correct.
Variable fmt_ok pat_ok : nat -> str -> bool.
Variable E : env.
Variable fc : ctx.
Variable callI : nat -> value -> option (list viol).
Variable callS : nat -> value -> list viol.
Hypothesis Hcall : forall id x, x <> VNull -> wt E fc fc true (user_body E id) x -> callI id x = Some (callS id x).

Notation exec := (exec fmt_ok pat_ok callI).
Notation goa_viol := (goa_viol fmt_ok pat_ok E callS).
Notation kvg := (kw_viols_goa fmt_ok pat_ok).

Definition M (a : att) : Prop :=
  forall c req v p, wf_att E a = true -> wt E fc c req a v -> root_ok a v ->
    exec (gen E c req a p) v = Some (goa_viol c a v p).

Definition W (a : att) : Prop :=
  forall c req v p, wf_att E a = true -> wt E fc c req a v ->
    exec (vattr E c req a p) v = Some (goa_viol c a v p).

Lemma prim_code_nonnull c req def pr vl p v :
  v <> VNull -> exec (prim_code c req def pr vl p) v = Some (kvg (kws_goa vl) v p).
Proof.
  intro Hv. unfold prim_code. rewrite own_code_unfold, (own_list_nonnull fmt_ok pat_ok callI _ _ _ _ _ v Hv).
  now rewrite fires_list_goa.
Qed.

Lemma prim_code_null c req def pr vl p :
  is_pointer c req def = true -> vl_ok pr vl = true -> pr <> PBytes ->
  exec (prim_code c req def pr vl p) VNull = Some [].
Proof.
  intros Hp Hok Hb. unfold prim_code. rewrite own_code_unfold, Hp.
  apply own_list_guarded_null. intros k Hin.
  destruct (is_len_kw k) eqn:El.
  - rewrite (guard_len _ _ _ El). destruct pr; try reflexivity;
      rewrite (vl_ok_nolen _ vl k Hok) in El; congruence || assumption.
  - now rewrite (guard_nonlen _ _ _ El).
Qed.

Lemma goa_viol_prim_nonnull c vl def pr v p : v <> VNull -> goa_viol c (APrim vl def pr) v p = kvg (kws_goa vl) v p.
Proof. destruct v; intro H; try reflexivity; congruence. Qed.

Lemma M_prim vl def pr : M (APrim vl def pr).
Proof.
  intros c req v p Hwf Hwt Hroot. cbn [gen]. cbn [wf_att] in Hwf.
  destruct v; try (rewrite prim_code_nonnull by discriminate; now rewrite goa_viol_prim_nonnull by discriminate).
  inversion Hwt as [c' r' a' Hn|c' r' vl' d' p' v' Hpv| | | | |]; subst;
    [|rewrite prim_value_null in Hpv; discriminate].
  cbn [nilable] in Hn.
  rewrite prim_code_null; [reflexivity|assumption|assumption|].
  intro Hb; subst pr. now apply Hroot.
Qed.

Lemma M_alias id : M (AAlias id).
Proof.
  intros c req v p Hwf Hwt _. cbn [gen wf_att] in *. unfold alias_vl.
  destruct (alias_def E id) as [pr vl] eqn:Ea. apply andb_prop in Hwf. destruct Hwf as [Hok Hnn].
  destruct v; try (rewrite prim_code_nonnull by discriminate; cbn [Model.goa_viol]; unfold alias_vl; now rewrite Ea).
  inversion Hwt as [c' r' a' Hn| |c' r' id' v' Hpv Hnat| | | |]; subst;
    [|rewrite prim_value_null in Hpv; discriminate].
  cbn [nilable] in Hn.
  rewrite prim_code_null; [reflexivity|assumption|assumption|].
  intro Hb; subst pr. discriminate.
Qed.


Lemma is_pointer_alt c req def : is_pointer c req def = negb (negb (c_ptr c) && (req || def && c_usedef c)).
Proof. unfold is_pointer. destruct (c_ptr c), req, def, (c_usedef c); reflexivity. Qed.

Lemma is_pointer_obj c req : is_pointer c req false = negb (negb (c_ptr c) && req).
Proof. unfold is_pointer. destruct (c_ptr c), req; reflexivity. Qed.

Lemma starts_unguarded isptr isstr deref p ks :
  (forall k, In k ks -> guard_on (guard_of k) isptr isstr = false) ->
  starts_ifnotnil (seq_list (map (emit_kw isptr isstr deref p) ks)) = false.
Proof.
  destruct ks as [|k ks]; intro Hg; [reflexivity|].
  cbn [map seq_list starts_ifnotnil]. unfold emit_kw. rewrite (Hg k (or_introl eq_refl)). reflexivity.
Qed.

Lemma bytes_code_no_prefix c req def vl p :
  vl_ok PBytes vl = true -> starts_ifnotnil (prim_code c req def PBytes vl p) = false.
Proof.
  intro Hok. unfold prim_code. rewrite own_code_unfold. apply starts_unguarded.
  intros k Hin. rewrite (guard_len _ _ _ (vl_ok_bytes_len vl k Hok Hin)). apply andb_false_r.
Qed.

Lemma goa_viol_null_prim c vl def pr p : goa_viol c (APrim vl def pr) VNull p = [].
Proof. reflexivity. Qed.

Lemma wrap_prim vl def pr : M (APrim vl def pr) -> W (APrim vl def pr).
Proof.
  intros HM c req v p Hwf Hwt. unfold vattr, wrap.
  assert (Hnn : v <> VNull -> exec (gen E c req (APrim vl def pr) p) v = Some (goa_viol c (APrim vl def pr) v p)).
  { intro Hv. apply HM; try assumption. cbn. now destruct pr. }
  destruct (is_empty (gen E c req (APrim vl def pr) p)) eqn:Ee.
  - destruct v; try (rewrite <- Hnn by discriminate; symmetry; now apply is_empty_exec). reflexivity.
  - destruct (negb (c_ptr c) && (req || def && c_usedef c)) eqn:Eb.
    + apply Hnn. intro; subst v.
      inversion Hwt as [c' r' a' Hn|c' r' vl' d' p' v' Hpv| | | | |]; subst;
        [|rewrite prim_value_null in Hpv; discriminate].
      cbn [nilable] in Hn. rewrite is_pointer_alt, Eb in Hn. discriminate.
    + destruct (starts_ifnotnil (gen E c req (APrim vl def pr) p)) eqn:Es.
      * destruct v; try (apply Hnn; discriminate).
        apply HM; try assumption. cbn. destruct pr; try exact I.
        cbn [gen] in Es. cbn [wf_att] in Hwf. rewrite bytes_code_no_prefix in Es by assumption. discriminate.
      * destruct v; try (cbn [Model.exec is_null]; apply Hnn; discriminate). reflexivity.
Qed.

Lemma wrap_alias id : M (AAlias id) -> W (AAlias id).
Proof. intros HM c req v p Hwf Hwt. unfold vattr, wrap. apply HM; try assumption. exact I. Qed.

Lemma wrap_arr vl e : M (AArray vl e) -> W (AArray vl e).
Proof.
  intros HM c req v p Hwf Hwt. unfold vattr, wrap.
  pose proof (HM c req v p Hwf Hwt I) as H.
  destruct (is_empty (gen E c req (AArray vl e) p)) eqn:Ee; [|exact H].
  rewrite <- H. symmetry. now apply is_empty_exec.
Qed.

Lemma wrap_map vl k e : M (AMap vl k e) -> W (AMap vl k e).
Proof.
  intros HM c req v p Hwf Hwt. unfold vattr, wrap.
  pose proof (HM c req v p Hwf Hwt I) as H.
  destruct (is_empty (gen E c req (AMap vl k e) p)) eqn:Ee; [|exact H].
  rewrite <- H. symmetry. now apply is_empty_exec.
Qed.

Lemma wrap_user id : W (AUser id).
Proof.
  intros c req v p Hwf Hwt. unfold vattr, wrap. cbn [gen].
  destruct v; try reflexivity;
  try (inversion Hwt as [| | | | | |c' r' id' v' Hv Hb]; subst;
       cbn [Model.goa_viol]; destruct (has_validations E c id); [|reflexivity];
       cbn [Model.exec is_null]; apply Hcall; assumption).
  cbn [Model.goa_viol]. destruct (has_validations E c id); reflexivity.
Qed.

Lemma collection_unguarded vl isptr k :
  vl_collection_ok vl = true -> In k (kws_goa vl) -> guard_on (guard_of k) isptr false = false.
Proof. intros Hok Hin. rewrite (guard_len _ _ _ (vl_collection_len vl k Hok Hin)). apply andb_false_r. Qed.

Lemma own_collection vl isptr p v :
  vl_collection_ok vl = true ->
  exec (own_code isptr false false vl p) v = Some (fires_list fmt_ok pat_ok (kws_goa vl) v p).
Proof.
  intro Hok. rewrite own_code_unfold. apply own_list_unguarded. intros k Hin. now apply (collection_unguarded vl).
Qed.

Lemma M_arr vl e : W e -> M (AArray vl e).
Proof.
  intros HW c req v p Hwf Hwt _. cbn [gen]. cbn [wf_att] in Hwf.
  apply andb_prop in Hwf. destruct Hwf as [Hok Hwe].
  fold (vattr E (elem_ctx c e) true e (p ++ [PElem])).
  set (body := vattr E (elem_ctx c e) true e (p ++ [PElem])).
  inversion Hwt as [c' r' a' Hn| | |c' r' vl' e' l Hall| | |]; subst.
  - (* nil array *)
    cbn [Model.goa_viol]. rewrite <- (app_nil_r (kvg _ _ _)). apply exec_seq.
    + rewrite own_collection by assumption. now rewrite fires_list_nil_arr.
    + destruct (is_empty body); reflexivity.
  - cbn [Model.goa_viol]. apply exec_seq.
    + rewrite own_collection by assumption. now rewrite fires_list_goa by discriminate.
    + assert (Hel : forall x, In x l -> exec body x = Some (goa_viol (elem_ctx c e) e x (p ++ [PElem]))).
      { intros x Hx. apply HW; [assumption|]. now apply Hall. }
      destruct (is_empty body) eqn:Ee.
      * cbn [Model.exec]. rewrite flat_map_nil; [reflexivity|].
        intros x Hx. pose proof (Hel x Hx) as H. rewrite (is_empty_exec fmt_ok pat_ok callI body x Ee) in H. now injection H.
      * cbn [Model.exec]. now apply all_elems_ok.
Qed.

Lemma M_map vl k e : W k -> W e -> M (AMap vl k e).
Proof.
  intros HWk HWe c req v p Hwf Hwt _. cbn [gen]. cbn [wf_att] in Hwf.
  apply andb_prop in Hwf. destruct Hwf as [Hwf Hwe]. apply andb_prop in Hwf. destruct Hwf as [Hok Hwk].
  fold (vattr E (map_ctx c k) true k (p ++ [PKey])). fold (vattr E (map_ctx c e) true e (p ++ [PVal])).
  set (ck := vattr E (map_ctx c k) true k (p ++ [PKey])). set (cv := vattr E (map_ctx c e) true e (p ++ [PVal])).
  inversion Hwt as [c' r' a' Hn| | | |c' r' vl' k' e' l Hall| |]; subst.
  - cbn [Model.goa_viol]. rewrite <- (app_nil_r (kvg _ _ _)). apply exec_seq.
    + rewrite own_collection by assumption. now rewrite fires_list_nil_map.
    + destruct (is_empty ck && is_empty cv); reflexivity.
  - cbn [Model.goa_viol]. apply exec_seq.
    + rewrite own_collection by assumption. now rewrite fires_list_goa by discriminate.
    + assert (Hel : forall kv, In kv l ->
                exec ck (fst kv) = Some (goa_viol (map_ctx c k) k (fst kv) (p ++ [PKey])) /\
                exec cv (snd kv) = Some (goa_viol (map_ctx c e) e (snd kv) (p ++ [PVal]))).
      { intros kv Hx. destruct (Hall kv Hx) as [H1 H2]. split; [apply HWk|apply HWe]; assumption. }
      destruct (is_empty ck && is_empty cv) eqn:Ee.
      * apply andb_prop in Ee. destruct Ee as [Ek Ev].
        cbn [Model.exec]. rewrite flat_map_nil; [reflexivity|].
        intros kv Hx. destruct (Hel kv Hx) as [H1 H2].
        rewrite (is_empty_exec fmt_ok pat_ok callI ck _ Ek) in H1. rewrite (is_empty_exec fmt_ok pat_ok callI cv _ Ev) in H2.
        injection H1 as <-. injection H2 as <-. reflexivity.
      * cbn [Model.exec].
        apply (all_pairs_ok (exec ck) (exec cv) (fun x => goa_viol (map_ctx c k) k x (p ++ [PKey])) (fun x => goa_viol (map_ctx c e) e x (p ++ [PVal]))).
        exact Hel.
Qed.

(* objects: the two passes of the generated code, as separate functions *)
Fixpoint reqs_code (c : ctx) (p : path) (i : nat) (fs : list (nat * bool * att)) : code :=
  match fs with
  | [] => Skip
  | (n, r, fa) :: fs' =>
      Seq (if r && req_emitted E c fa then ReqCheck i n (p ++ [PField n]) else Skip) (reqs_code c p (S i) fs')
  end.

Fixpoint fields_code (c : ctx) (p : path) (i : nat) (fs : list (nat * bool * att)) : code :=
  match fs with
  | [] => Skip
  | (n, r, fa) :: fs' => Seq (Field i (vattr E c r fa (p ++ [PField n]))) (fields_code c p (S i) fs')
  end.

Lemma gen_obj c req fs p : gen E c req (AObject fs) p = Seq (reqs_code c p 0 fs) (fields_code c p 0 fs).
Proof.
  cbn [gen]. f_equal.
  - generalize 0. induction fs as [|[[n r] fa] fs IH]; intro i; [reflexivity|]. cbn [reqs_code]. now rewrite <- IH.
  - generalize 0. induction fs as [|[[n r] fa] fs IH]; intro i; [reflexivity|]. cbn [fields_code]. now rewrite <- IH.
Qed.

Fixpoint reqs_goa (c : ctx) (p : path) (fs : list (nat * bool * att)) (l : list value) : list viol :=
  match fs, l with
  | (n, r, fa) :: fs', x :: l' =>
      (if r && negb (c_ignreq c && is_prim fa) && is_null x then [(EMissingField, p ++ [PField n])] else []) ++ reqs_goa c p fs' l'
  | _, _ => []
  end.

Fixpoint fields_goa (c : ctx) (p : path) (fs : list (nat * bool * att)) (l : list value) : list viol :=
  match fs, l with
  | (n, r, fa) :: fs', x :: l' => goa_viol c fa x (p ++ [PField n]) ++ fields_goa c p fs' l'
  | _, _ => []
  end.

Lemma goa_viol_obj c fs l p : goa_viol c (AObject fs) (VObj l) p = reqs_goa c p fs l ++ fields_goa c p fs l.
Proof.
  cbn [Model.goa_viol]. f_equal.
  - revert l. induction fs as [|[[n r] fa] fs IH]; intro l; [reflexivity|]. destruct l as [|x l]; [reflexivity|].
    cbn [reqs_goa]. now rewrite <- IH.
  - revert l. induction fs as [|[[n r] fa] fs IH]; intro l; [reflexivity|]. destruct l as [|x l]; [reflexivity|].
    cbn [fields_goa]. now rewrite <- IH.
Qed.

Lemma wt_null_nilable c r fa : wt E fc c r fa VNull -> nilable c r fa = true.
Proof.
  intro Hwt.
  inversion Hwt as [c' r' a' Hn|c' r' vl' d' p' v' Hpv|c' r' id' v' Hpv Hnat| | | |c' r' id' v' Hv Hb]; subst;
    try assumption; try (rewrite prim_value_null in Hpv; discriminate); congruence.
Qed.

Lemma req_agree c r fa x :
  wt E fc c r fa x ->
  (r && req_emitted E c fa && is_null x) = (r && negb (c_ignreq c && is_prim fa) && is_null x).
Proof.
  intro Hwt. destruct (is_null x) eqn:En; [|now rewrite !andb_false_r].
  apply is_null_true in En. subst x. destruct r; [|reflexivity]. cbn [andb]. rewrite !andb_true_r.
  pose proof (wt_null_nilable c true fa Hwt) as Hn.
  unfold req_emitted.
  destruct fa as [vl def pr|id|vl e|vl k e|fs|id]; cbn [nilable is_prim] in *;
    try (rewrite andb_false_r; reflexivity);
    unfold is_pointer in Hn; cbn [negb andb] in Hn; rewrite orb_false_r in Hn; rewrite Hn; reflexivity.
Qed.

Lemma reqs_exec c p fs : forall pre l, wt_fields E fc c fs l ->
  exec (reqs_code c p (length pre) fs) (VObj (pre ++ l)) = Some (reqs_goa c p fs l).
Proof.
  induction fs as [|[[n r] fa] fs IH]; intros pre l Hwt; inversion Hwt as [|c' n' r' fa' fs' x l' Hx Hrest]; subst; [reflexivity|].
  cbn [reqs_code reqs_goa]. apply exec_seq.
  - pose proof (req_agree c r fa x Hx) as Ha.
    destruct (r && req_emitted E c fa) eqn:Eq.
    + cbn [Model.exec]. rewrite nth_middle. cbn [andb] in Ha. change required_tests_nil with true. cbn [andb].
      change err_required with EMissingField. rewrite <- Ha. reflexivity.
    + cbn [Model.exec]. cbn [andb] in Ha. rewrite <- Ha. reflexivity.
  - specialize (IH (pre ++ [x]) l' Hrest). rewrite app_length, Nat.add_1_r, <- app_assoc in IH. exact IH.
Qed.

Lemma fields_exec c p fs : Forall (fun f => W (snd f)) fs -> forallb (fun f => wf_att E (snd f)) fs = true ->
  forall pre l, wt_fields E fc c fs l ->
  exec (fields_code c p (length pre) fs) (VObj (pre ++ l)) = Some (fields_goa c p fs l).
Proof.
  induction fs as [|[[n r] fa] fs IH]; intros HW Hwf pre l Hwt;
    inversion Hwt as [|c' n' r' fa' fs' x l' Hx Hrest]; subst; [reflexivity|].
  inversion HW as [|f0 fs0 HW1 HW2]; subst. cbn [forallb snd] in Hwf. apply andb_prop in Hwf. destruct Hwf as [Hwf1 Hwf2].
  cbn [fields_code fields_goa]. apply exec_seq.
  - cbn [Model.exec]. rewrite nth_middle. now apply HW1.
  - specialize (IH HW2 Hwf2 (pre ++ [x]) l' Hrest). rewrite app_length, Nat.add_1_r, <- app_assoc in IH. exact IH.
Qed.

Lemma M_obj fs : Forall (fun f => W (snd f)) fs -> M (AObject fs).
Proof.
  intros HW c req v p Hwf Hwt Hroot. cbn [root_ok] in Hroot. cbn [wf_att] in Hwf.
  inversion Hwt as [c' r' a' Hn| | | | |c' r' fs' l Hf|]; subst; [congruence|].
  rewrite gen_obj, goa_viol_obj. apply exec_seq.
  - exact (reqs_exec c p fs [] l Hf).
  - exact (fields_exec c p fs HW Hwf [] l Hf).
Qed.

Lemma reqs_no_prefix c p fs : forall i, starts_ifnotnil (reqs_code c p i fs) = false.
Proof.
  induction fs as [|[[n r] fa] fs IH]; intro i; [reflexivity|].
  cbn [reqs_code starts_ifnotnil]. destruct (r && req_emitted E c fa); cbn [is_empty starts_ifnotnil]; [reflexivity|apply IH].
Qed.

Lemma fields_no_prefix c p fs i : starts_ifnotnil (fields_code c p i fs) = false.
Proof. destruct fs as [|[[n r] fa] fs]; reflexivity. Qed.

Lemma obj_no_prefix c req fs p : starts_ifnotnil (gen E c req (AObject fs) p) = false.
Proof.
  rewrite gen_obj. cbn [starts_ifnotnil]. rewrite reqs_no_prefix, fields_no_prefix. now destruct (is_empty _).
Qed.

Lemma wrap_obj fs : M (AObject fs) -> W (AObject fs).
Proof.
  intros HM c req v p Hwf Hwt. unfold vattr, wrap.
  assert (Hnn : v <> VNull -> exec (gen E c req (AObject fs) p) v = Some (goa_viol c (AObject fs) v p)).
  { intro Hv. now apply HM. }
  destruct (is_empty (gen E c req (AObject fs) p)) eqn:Ee.
  - destruct v; try (rewrite <- Hnn by discriminate; symmetry; now apply is_empty_exec). reflexivity.
  - destruct (negb (c_ptr c) && req) eqn:Eb.
    + apply Hnn. intro; subst v.
      inversion Hwt as [c' r' a' Hn| | | | | |]; subst. cbn [nilable] in Hn. rewrite is_pointer_obj, Eb in Hn. discriminate.
    + rewrite obj_no_prefix. destruct v; try (cbn [Model.exec is_null]; apply Hnn; discriminate). reflexivity.
Qed.

(* ---- the induction *)
Lemma M_all a : M a /\ W a.
Proof.
  induction a as [vl def pr|id|vl e [_ IHe]|vl k e [_ IHk] [_ IHe]|fs IH|id] using att_ind'.
  - split; [apply M_prim|apply wrap_prim, M_prim].
  - split; [apply M_alias|apply wrap_alias, M_alias].
  - split; [now apply M_arr|now apply wrap_arr, M_arr].
  - split; [now apply M_map|now apply wrap_map, M_map].
  - assert (HW : Forall (fun f => W (snd f)) fs).
    { induction IH as [|f fs [_ Hf] _ IH']; constructor; assumption. }
    split; [now apply M_obj|now apply wrap_obj, M_obj].
  - split; [|apply wrap_user]. intros c req v p _ _ [].
Qed.
End Correct.

(* ---------------------------------------------------------------- tying the fuel *)
Lemma assoc_in {A} (l : list (nat * A)) k x : assoc l k = Some x -> In (k, x) l.
Proof.
  induction l as [|[k' y] l IH]; cbn; [discriminate|].
  destruct (Nat.eqb_spec k k') as [->|Hne]; intro H; [injection H as ->; now left|right; now apply IH].
Qed.

Lemma wf_user_body E id : wf_env E = true -> wf_att E (user_body E id) = true /\ is_user (user_body E id) = false.
Proof.
  intro Hwf. unfold user_body. destruct (assoc (e_users E) id) as [a|] eqn:Ea; [|split; reflexivity].
  apply assoc_in in Ea. unfold wf_env in Hwf. rewrite forallb_forall in Hwf. specialize (Hwf _ Ea). cbn [snd] in Hwf.
  apply andb_prop in Hwf. destruct Hwf as [H1 H2]. split; [assumption|]. now destruct (is_user a).
Qed.

Lemma root_ok_nonnull a v : is_user a = false -> v <> VNull -> root_ok a v.
Proof. destruct a as [vl def pr| | | | |]; cbn; intros H Hv; try exact I; try assumption; try discriminate. now destruct pr. Qed.

Section Top.
Variable fmt_ok pat_ok : nat -> str -> bool.
Variable E : env.
Variable fc : ctx.
Hypothesis HwfE : wf_env E = true.

Theorem run_user_ok : forall n id v, v <> VNull -> wt E fc fc true (user_body E id) v ->
  run_user fmt_ok pat_ok E fc n id v = Some (goa_user fmt_ok pat_ok E fc n id v).
Proof.
  induction n as [|n IH]; intros id v Hv Hwt; [reflexivity|].
  cbn [run_user goa_user]. unfold prog.
  destruct (wf_user_body E id HwfE) as [Hwf Hnu].
  apply (proj1 (M_all fmt_ok pat_ok E fc (run_user fmt_ok pat_ok E fc n) (goa_user fmt_ok pat_ok E fc n) IH (user_body E id)));
    try assumption. now apply root_ok_nonnull.
Qed.

Theorem gen_ok n c req a v p : wf_att E a = true -> wt E fc c req a v -> root_ok a v ->
  exec fmt_ok pat_ok (run_user fmt_ok pat_ok E fc n) (gen E c req a p) v =
  Some (goa_viol fmt_ok pat_ok E (goa_user fmt_ok pat_ok E fc n) c a v p).
Proof.
  apply (proj1 (M_all fmt_ok pat_ok E fc _ _ (run_user_ok n) a)).
Qed.

Theorem vattr_ok n c req a v p : wf_att E a = true -> wt E fc c req a v ->
  exec fmt_ok pat_ok (run_user fmt_ok pat_ok E fc n) (vattr E c req a p) v =
  Some (goa_viol fmt_ok pat_ok E (goa_user fmt_ok pat_ok E fc n) c a v p).
Proof.
  apply (proj2 (M_all fmt_ok pat_ok E fc _ _ (run_user_ok n) a)).
Qed.
End Top.

(* ---------------------------------------------------------------- goa's validation vs the spec *)
Lemma kws_goa_eq vl : vl_one_excl vl = true -> kws_goa vl = kws_of vl.
Proof.
  intro H. unfold kws_goa, kws_of. do 5 f_equal. unfold xmax_slot, vl_one_excl in *.
  destruct (v_xmax vl); [|reflexivity]. destruct (v_xmin vl); [|reflexivity].
  destruct sticky_exclmin; [discriminate|reflexivity].
Qed.

Lemma flat_map_nil_inv {A B} (g : A -> list B) l : flat_map g l = [] -> forall x, In x l -> g x = [].
Proof.
  induction l as [|y l IH]; cbn [flat_map]; intros H x Hx; [destruct Hx|].
  apply app_eq_nil in H. destruct H as [H1 H2]. destruct Hx as [<-|Hx]; [assumption|now apply IH].
Qed.

Lemma flat_map_nil_iff {A B} (g s : A -> list B) l :
  (forall x, In x l -> (g x = [] <-> s x = [])) -> (flat_map g l = [] <-> flat_map s l = []).
Proof.
  intro H. split; intro Hn; apply flat_map_nil; intros x Hx; apply (H x Hx); eapply flat_map_nil_inv; eassumption.
Qed.

Lemma app_nil_iff {A} (a b a' b' : list A) : (a = [] <-> a' = []) -> (b = [] <-> b' = []) -> (a ++ b = [] <-> a' ++ b' = []).
Proof.
  intros Ha Hb. split; intro H; apply app_eq_nil in H; destruct H as [H1 H2].
  - apply Ha in H1. apply Hb in H2. now subst.
  - apply Ha in H1. apply Hb in H2. now subst.
Qed.

Section SpecRel.
Variable fmt_ok pat_ok : nat -> str -> bool.
Variable E : env.
Variable callG callS : nat -> value -> list viol.
Hypothesis Hcall : forall id x, x <> VNull -> (callG id x = [] <-> callS id x = []).
(* Pc: the contexts in which user types are met (kept by the descent into every child that
   is not a primitive); every Validate call goa elides there is vacuous *)
Variable Pc : ctx -> Prop.
Hypothesis Helide : forall c id x, Pc c -> has_validations E c id = false -> callS id x = [].
Hypothesis Pelem : forall c e, Pc c -> is_prim e = false -> Pc (elem_ctx c e).
Hypothesis Pmap : forall c a, Pc c -> is_prim a = false -> Pc (map_ctx c a).

Notation goa_viol := (goa_viol fmt_ok pat_ok E callG).
Notation spec_viol := (spec_viol fmt_ok pat_ok E callS).
Notation kvg := (kw_viols_goa fmt_ok pat_ok).

Lemma nil_arr_ok vl p : vl_collection_ok vl = true -> vl_one_excl vl = true -> minlen_pos vl = false ->
  kvg (kws_goa vl) (VArr []) p = [] /\ kvg (kws_goa vl) (VMap []) p = [].
Proof.
  intros Hc He Hm. rewrite (kws_goa_eq vl He). unfold kws_of, vl_collection_ok, minlen_pos in *.
  destruct (v_enum vl), (v_format vl), (v_pattern vl), (v_xmin vl), (v_min vl), (v_xmax vl), (v_max vl); try discriminate.
  cbn [opt_kw app]. destruct (v_minlen vl) as [[|n]|]; try discriminate; destruct (v_maxlen vl); split; reflexivity.
Qed.

Fixpoint reqs_spec (p : path) (fs : list (nat * bool * att)) (l : list value) : list viol :=
  match fs, l with
  | (n, r, fa) :: fs', x :: l' => (if r && is_null x then [(EMissingField, p ++ [PField n])] else []) ++ reqs_spec p fs' l'
  | _, _ => []
  end.

Fixpoint fields_spec (p : path) (fs : list (nat * bool * att)) (l : list value) : list viol :=
  match fs, l with
  | (n, r, fa) :: fs', x :: l' => spec_viol fa x (p ++ [PField n]) ++ fields_spec p fs' l'
  | _, _ => []
  end.

Lemma spec_viol_obj fs l p : spec_viol (AObject fs) (VObj l) p = reqs_spec p fs l ++ fields_spec p fs l.
Proof.
  cbn [Model.spec_viol]. f_equal.
  - revert l. induction fs as [|[[n r] fa] fs IH]; intro l; [reflexivity|]. destruct l as [|x l]; [reflexivity|].
    cbn [reqs_spec]. now rewrite <- IH.
  - revert l. induction fs as [|[[n r] fa] fs IH]; intro l; [reflexivity|]. destruct l as [|x l]; [reflexivity|].
    cbn [fields_spec]. now rewrite <- IH.
Qed.

Definition Irel (a : att) : Prop :=
  forall c rp v p, c_ignreq c = false -> (no_user a = true \/ Pc c) ->
    wf_att E a = true -> excl_ok E a = true -> pm_ok rp a = true ->
    (rp = true /\ v = VNull) \/ (goa_viol c a v p = [] <-> spec_viol a v p = []).

Lemma prim_no_user a : is_prim a = true -> no_user a = true.
Proof. destruct a; cbn; congruence. Qed.

Lemma child_elem c e : (no_user e = true \/ Pc c) -> no_user e = true \/ Pc (elem_ctx c e).
Proof.
  intros [Hn|Hc]; [now left|]. destruct (is_prim e) eqn:Ep; [left; now apply prim_no_user|right; now apply Pelem].
Qed.

Lemma child_map c a : (no_user a = true \/ Pc c) -> no_user a = true \/ Pc (map_ctx c a).
Proof.
  intros [Hn|Hc]; [now left|]. destruct (is_prim a) eqn:Ep; [left; now apply prim_no_user|right; now apply Pmap].
Qed.

Lemma map_ctx_ignreq c a : c_ignreq (map_ctx c a) = c_ignreq c.
Proof. unfold map_ctx. destruct map_ctx_mode; try destruct a; reflexivity. Qed.

Lemma elem_ctx_ignreq c e : c_ignreq (elem_ctx c e) = c_ignreq c.
Proof. unfold elem_ctx. destruct (c_ptr c && is_prim e); reflexivity. Qed.

Lemma Irel_prim vl def pr : Irel (APrim vl def pr).
Proof.
  intros c rp v p _ _ _ He _. right. cbn [excl_ok] in He.
  destruct v; cbn [Model.goa_viol Model.spec_viol]; try rewrite (kws_goa_eq vl He); reflexivity.
Qed.

Lemma Irel_alias id : Irel (AAlias id).
Proof.
  intros c rp v p _ _ _ He _. right. cbn [excl_ok] in He. unfold alias_vl in *.
  destruct v; cbn [Model.goa_viol Model.spec_viol]; unfold alias_vl; try rewrite (kws_goa_eq _ He); reflexivity.
Qed.

Lemma Irel_nonnull (X : Prop) : X -> (true = true /\ X) \/ False -> True.
Proof. trivial. Qed.

Lemma Irel_arr vl e : Irel e -> Irel (AArray vl e).
Proof.
  intros IH c rp v p Hi HP Hwf He Hpm. cbn [wf_att excl_ok pm_ok no_user] in *.
  apply child_elem in HP.
  apply andb_prop in Hwf. destruct Hwf as [Hok Hwe]. apply andb_prop in He. destruct He as [He1 He2].
  apply andb_prop in Hpm. destruct Hpm as [Hp1 Hp2].
  destruct v; try (right; cbn [Model.goa_viol Model.spec_viol]; rewrite (kws_goa_eq vl He1); reflexivity).
  - (* nil *) destruct rp; [left; now split|right].
    rewrite orb_false_r in Hp1. apply negb_true_iff in Hp1.
    cbn [Model.goa_viol Model.spec_viol]. destruct (nil_arr_ok vl p Hok He1 Hp1) as [-> _]. tauto.
  - right. cbn [Model.goa_viol Model.spec_viol]. rewrite (kws_goa_eq vl He1).
    apply app_nil_iff; [tauto|]. apply flat_map_nil_iff. intros x Hx.
    assert (Hi' : c_ignreq (elem_ctx c e) = false) by now rewrite elem_ctx_ignreq.
    destruct (IH (elem_ctx c e) false x (p ++ [PElem]) Hi' HP Hwe He2 Hp2) as [[Hf _]|H]; [discriminate|exact H].
Qed.

Lemma Irel_map vl k e : Irel k -> Irel e -> Irel (AMap vl k e).
Proof.
  intros IHk IHe c rp v p Hi HP Hwf He Hpm. cbn [wf_att excl_ok pm_ok no_user] in *.
  assert (HPk : no_user k = true \/ Pc (map_ctx c k)).
  { apply child_map. destruct HP as [Hn|Hc]; [left; now apply andb_prop in Hn|now right]. }
  assert (HPe : no_user e = true \/ Pc (map_ctx c e)).
  { apply child_map. destruct HP as [Hn|Hc]; [left; now apply andb_prop in Hn|now right]. }
  apply andb_prop in Hwf. destruct Hwf as [Hwf Hwe]. apply andb_prop in Hwf. destruct Hwf as [Hok Hwk].
  apply andb_prop in He. destruct He as [He He3]. apply andb_prop in He. destruct He as [He1 He2].
  apply andb_prop in Hpm. destruct Hpm as [Hpm Hp3]. apply andb_prop in Hpm. destruct Hpm as [Hp1 Hp2].
  destruct v; try (right; cbn [Model.goa_viol Model.spec_viol]; rewrite (kws_goa_eq vl He1); reflexivity).
  - destruct rp; [left; now split|right].
    rewrite orb_false_r in Hp1. apply negb_true_iff in Hp1.
    cbn [Model.goa_viol Model.spec_viol]. destruct (nil_arr_ok vl p Hok He1 Hp1) as [_ ->]. tauto.
  - right. cbn [Model.goa_viol Model.spec_viol]. rewrite (kws_goa_eq vl He1).
    apply app_nil_iff; [tauto|]. apply flat_map_nil_iff. intros kv Hx.
    apply app_nil_iff.
    + destruct (IHk (map_ctx c k) false (fst kv) (p ++ [PKey]) (eq_trans (map_ctx_ignreq c k) Hi) HPk Hwk He2 Hp2) as [[Hf _]|H]; [discriminate|exact H].
    + destruct (IHe (map_ctx c e) false (snd kv) (p ++ [PVal]) (eq_trans (map_ctx_ignreq c e) Hi) HPe Hwe He3 Hp3) as [[Hf _]|H]; [discriminate|exact H].
Qed.

Lemma Irel_user id : Irel (AUser id).
Proof.
  intros c rp v p _ [Hn|HP] _ _ _; [discriminate|]. right.
  destruct v; cbn [Model.goa_viol Model.spec_viol]; try tauto;
    (destruct (has_validations E c id) eqn:Eh; [apply Hcall; discriminate|]; rewrite (Helide c id _ HP Eh); tauto).
Qed.

Lemma Irel_fields c p fs : c_ignreq c = false ->
  Forall (fun f => Irel (snd f)) fs ->
  (forallb (fun f => no_user (snd f)) fs = true \/ Pc c) ->
  forallb (fun f => wf_att E (snd f)) fs = true ->
  forallb (fun f => excl_ok E (snd f)) fs = true ->
  forallb (fun f => match f with (_, r, fa) => pm_ok r fa end) fs = true ->
  forall l, (reqs_goa c p fs l = [] /\ fields_goa fmt_ok pat_ok E callG c p fs l = []) <->
            (reqs_spec p fs l = [] /\ fields_spec p fs l = []).
Proof.
  intros Hi HI. induction HI as [|[[n r] fa] fs Hfa _ IH]; intros HP Hwf He Hpm l; [tauto|].
  cbn [forallb snd] in *.
  assert (HP1 : no_user fa = true \/ Pc c) by (destruct HP as [Hn|Hc]; [left; now apply andb_prop in Hn|now right]).
  assert (HP2 : forallb (fun f => no_user (snd f)) fs = true \/ Pc c) by (destruct HP as [Hn|Hc]; [left; now apply andb_prop in Hn|now right]).
  apply andb_prop in Hwf. destruct Hwf as [Hwf1 Hwf2].
  apply andb_prop in He. destruct He as [He1 He2]. apply andb_prop in Hpm. destruct Hpm as [Hp1 Hp2].
  destruct l as [|x l]; [tauto|]. cbn [reqs_goa fields_goa reqs_spec fields_spec]. rewrite Hi. cbn [andb negb]. rewrite andb_true_r.
  specialize (IH HP2 Hwf2 He2 Hp2 l).
  destruct (Hfa c r x (p ++ [PField n]) Hi HP1 Hwf1 He1 Hp1) as [[-> ->]|Hx].
  - cbn [is_null andb]. split; intros [H _]; discriminate.
  - split; intros [H1 H2]; apply app_eq_nil in H1; apply app_eq_nil in H2; destruct H1 as [H1 H1']; destruct H2 as [H2 H2'].
    + destruct IH as [IH _]. destruct (IH (conj H1' H2')) as [A B]. rewrite H1, A, B. apply Hx in H2. now rewrite H2.
    + destruct IH as [_ IH]. destruct (IH (conj H1' H2')) as [A B]. rewrite H1, A, B. apply Hx in H2. now rewrite H2.
Qed.

Lemma Irel_obj fs : Forall (fun f => Irel (snd f)) fs -> Irel (AObject fs).
Proof.
  intros HI c rp v p Hi HP Hwf He Hpm. right. cbn [wf_att excl_ok pm_ok no_user] in *.
  destruct v; try (cbn [Model.goa_viol Model.spec_viol]; tauto).
  rewrite goa_viol_obj, spec_viol_obj.
  pose proof (Irel_fields c p fs Hi HI HP Hwf He Hpm l) as H.
  split; intro Hn; apply app_eq_nil in Hn; [apply H in Hn|apply H in Hn]; destruct Hn as [-> ->]; reflexivity.
Qed.

Lemma Irel_all a : Irel a.
Proof.
  induction a as [vl def pr|id|vl e IHe|vl k e IHk IHe|fs IH|id] using att_ind'.
  - apply Irel_prim.
  - apply Irel_alias.
  - now apply Irel_arr.
  - now apply Irel_map.
  - now apply Irel_obj.
  - apply Irel_user.
Qed.
End SpecRel.

(* ---------------------------------------------------------------- hasValidations = false is sound *)
(* In a Pointer context, when the walk of codegen.hasValidations answers false, nothing
   reachable from the user type can be violated: the Validate call that goa does not emit
   would have returned nothing. The set of types the walk has seen is closed (every type in
   it has a body that is quiet up to types of the set), and the bound hv_fuel on the number
   of nested entries is never reached. *)
Section Quiet.
Variable fmt_ok pat_ok : nat -> str -> bool.
Variable E : env.
Variable c : ctx.
Hypothesis Hptr : c_ptr c = true.

Fixpoint quiet (S : list nat) (a : att) {struct a} : Prop :=
  match a with
  | APrim vl _ _ => vl_empty vl = true
  | AAlias id => vl_empty (snd (alias_def E id)) = true
  | AArray vl e => vl_empty vl = true /\ quiet S e
  | AMap vl k e => vl_empty vl = true /\ quiet S k /\ quiet S e
  | AObject fs =>
      existsb (fun f : nat * bool * att => match f with (_, r, _) => r end) fs = false /\
      (fix all (fs : list (nat * bool * att)) : Prop :=
         match fs with [] => True | f :: r => quiet S (snd f) /\ all r end) fs
  | AUser id => In id S
  end.

Lemma quiet_obj S fs : quiet S (AObject fs) <->
  existsb (fun f : nat * bool * att => match f with (_, r, _) => r end) fs = false /\ Forall (fun f => quiet S (snd f)) fs.
Proof.
  cbn [quiet]. split; intros [H1 H2]; (split; [exact H1|]); clear H1.
  - induction fs as [|f fs IH]; [constructor|]. destruct H2 as [Ha Hb]. constructor; [exact Ha|now apply IH].
  - induction H2 as [|f fs Ha _ IH]; [exact I|]. split; assumption.
Qed.

Lemma quiet_mono S S' a : incl S S' -> quiet S a -> quiet S' a.
Proof.
  intro Hi. induction a as [vl def pr|id|vl e IHe|vl k e IHk IHe|fs IH|id] using att_ind'; intro H.
  - exact H.
  - exact H.
  - destruct H as [H1 H2]. split; [exact H1|now apply IHe].
  - destruct H as (H1 & H2 & H3). split; [exact H1|split; [now apply IHk|now apply IHe]].
  - apply quiet_obj in H. apply quiet_obj. destruct H as [H1 H2]. split; [exact H1|].
    clear H1. induction IH as [|f fs Hf _ IH']; [constructor|]. inversion H2; subst. constructor; [now apply Hf|now apply IH'].
  - now apply Hi.
Qed.

(* seen' extends seen, and every type added has a body that is quiet up to seen' *)
Definition seen_ext (s s' : list nat) : Prop :=
  incl s s' /\ forall id, In id s' -> In id s \/ quiet s' (user_body E id).

Lemma seen_ext_refl s : seen_ext s s.
Proof. split; [apply incl_refl|intros id H; now left]. Qed.

Lemma seen_ext_trans s1 s2 s3 : seen_ext s1 s2 -> seen_ext s2 s3 -> seen_ext s1 s3.
Proof.
  intros [I1 C1] [I2 C2]. split; [eapply incl_tran; eassumption|]. intros id H.
  destruct (C2 id H) as [H2|H2]; [|now right]. destruct (C1 id H2) as [H1|H1]; [now left|right].
  eapply quiet_mono; eassumption.
Qed.

Lemma existsb_eqb_in id l : existsb (Nat.eqb id) l = true <-> In id l.
Proof.
  rewrite existsb_exists. split.
  - intros (x & Hx & He). apply Nat.eqb_eq in He. now subst.
  - intro H. exists id. split; [exact H|apply Nat.eqb_refl].
Qed.

Section Att.
Variable visit : list nat -> nat -> bool * list nat.
Variable seen0 : list nat.
Hypothesis Hvisit : forall s id s', incl seen0 s -> ~ In id s -> visit (id :: s) id = (false, s') ->
  seen_ext (id :: s) s' /\ quiet s' (user_body E id).

Fixpoint hv_flds (fs : list (nat * bool * att)) (seen : list nat) : bool * list nat :=
  match fs with
  | [] => (false, seen)
  | f :: r => let '(b, s1) := hv_att E c visit seen (snd f) in if b then (true, s1) else hv_flds r s1
  end.

Lemma hv_att_obj seen fs : hv_att E c visit seen (AObject fs) =
  if existsb (fun f : nat * bool * att => match f with (_, r, _) => r end) fs then (true, seen) else hv_flds fs seen.
Proof.
  cbn [hv_att]. rewrite Hptr. destruct (existsb _ fs); [reflexivity|].
  revert seen. induction fs as [|[[n r] fa] fs IH]; intro seen; [reflexivity|].
  cbn [hv_flds snd]. destruct (hv_att E c visit seen fa) as [b s1]. destruct b; [reflexivity|apply IH].
Qed.

Definition Hsound (a : att) : Prop :=
  forall seen seen', incl seen0 seen -> hv_att E c visit seen a = (false, seen') -> seen_ext seen seen' /\ quiet seen' a.

Lemma hv_att_sound a : Hsound a.
Proof.
  induction a as [vl def pr|id|vl e IHe|vl k e IHk IHe|fs IH|id] using att_ind'; intros seen seen' Hi H.
  - cbn [hv_att] in H. injection H as Hv <-. apply negb_false_iff in Hv. split; [apply seen_ext_refl|exact Hv].
  - cbn [hv_att] in H. injection H as Hv <-. apply negb_false_iff in Hv. split; [apply seen_ext_refl|exact Hv].
  - cbn [hv_att] in H. destruct (vl_empty vl) eqn:Ev; cbn [negb] in H; [|discriminate].
    destruct (IHe seen seen' Hi H) as [HQ Hq]. split; [exact HQ|]. cbn [quiet]. now split.
  - cbn [hv_att] in H. destruct (vl_empty vl) eqn:Ev; cbn [negb] in H; [|discriminate].
    destruct (hv_att E c visit seen k) as [b s1] eqn:Ek. destruct b; [discriminate|].
    destruct (IHk seen s1 Hi Ek) as [HQ1 Hq1].
    assert (Hi1 : incl seen0 s1) by (eapply incl_tran; [exact Hi|exact (proj1 HQ1)]).
    destruct (IHe s1 seen' Hi1 H) as [HQ2 Hq2]. split; [eapply seen_ext_trans; eassumption|].
    cbn [quiet]. split; [exact Ev|split; [|exact Hq2]]. eapply quiet_mono; [exact (proj1 HQ2)|exact Hq1].
  - rewrite hv_att_obj in H. destruct (existsb _ fs) eqn:Ex; [discriminate|].
    assert (HF : seen_ext seen seen' /\ Forall (fun f => quiet seen' (snd f)) fs).
    { clear Ex. revert seen seen' Hi H. induction IH as [|f fs Hf _ IH']; intros seen seen' Hi H.
      - cbn [hv_flds] in H. injection H as <-. split; [apply seen_ext_refl|constructor].
      - cbn [hv_flds] in H. destruct (hv_att E c visit seen (snd f)) as [b s1] eqn:Ef. destruct b; [discriminate|].
        destruct (Hf seen s1 Hi Ef) as [HQ1 Hq1].
        assert (Hi1 : incl seen0 s1) by (eapply incl_tran; [exact Hi|exact (proj1 HQ1)]).
        destruct (IH' s1 seen' Hi1 H) as [HQ2 Hq2]. split; [eapply seen_ext_trans; eassumption|].
        constructor; [|exact Hq2]. eapply quiet_mono; [exact (proj1 HQ2)|exact Hq1]. }
    destruct HF as [HQ HF]. split; [exact HQ|]. apply quiet_obj. now split.
  - cbn [hv_att] in H. destruct (existsb (Nat.eqb id) seen) eqn:Ex.
    + injection H as <-. split; [apply seen_ext_refl|]. cbn [quiet]. now apply existsb_eqb_in.
    + assert (Hn : ~ In id seen) by (intro Hin; apply existsb_eqb_in in Hin; congruence).
      destruct (Hvisit seen id seen' Hi Hn H) as [[HI HC] Hq]. split.
      * split; [intros x Hx; apply HI; now right|]. intros x Hx. destruct (HC x Hx) as [[<-|Hs]|Hr]; [now right|now left|now right].
      * cbn [quiet]. apply HI. now left.
Qed.
End Att.

(* user types not yet seen among the declared ones: the measure that bounds the nesting *)
Definition unseen (s : list nat) : nat :=
  length (filter (fun ua : nat * att => negb (existsb (Nat.eqb (fst ua)) s)) (e_users E)).

Lemma filter_len_le {A} (f g : A -> bool) l :
  (forall x, In x l -> f x = true -> g x = true) -> length (filter f l) <= length (filter g l).
Proof.
  induction l as [|a l IH]; intro H; [apply le_n|]. cbn [filter].
  assert (IH' : length (filter f l) <= length (filter g l)) by (apply IH; intros x Hx; apply H; now right).
  destruct (f a) eqn:Ef.
  - rewrite (H a (or_introl eq_refl) Ef). cbn [length]. lia.
  - destruct (g a); cbn [length]; lia.
Qed.

Lemma filter_len_lt {A} (f g : A -> bool) l y :
  (forall x, In x l -> f x = true -> g x = true) -> In y l -> f y = false -> g y = true ->
  length (filter f l) < length (filter g l).
Proof.
  induction l as [|a l IH]; intros H Hy Hf Hg; [destruct Hy|]. cbn [filter].
  assert (Hle : length (filter f l) <= length (filter g l)) by (apply filter_len_le; intros x Hx; apply H; now right).
  destruct Hy as [->|Hy].
  - rewrite Hf, Hg. cbn [length]. lia.
  - assert (IH' : length (filter f l) < length (filter g l)) by (apply IH; try assumption; intros x Hx; apply H; now right).
    destruct (f a) eqn:Ef.
    + rewrite (H a (or_introl eq_refl) Ef). cbn [length]. lia.
    + destruct (g a); cbn [length]; lia.
Qed.

Lemma filter_len_all {A} (f : A -> bool) l : length (filter f l) <= length l.
Proof. induction l as [|a l IH]; [apply le_n|]. cbn [filter]. destruct (f a); cbn [length]; lia. Qed.

Lemma unseen_mono s s' : incl s s' -> unseen s' <= unseen s.
Proof.
  intro Hi. apply filter_len_le. intros x _ Hx. apply negb_true_iff in Hx. apply negb_true_iff.
  destruct (existsb (Nat.eqb (fst x)) s) eqn:Ex; [|reflexivity].
  apply existsb_eqb_in in Ex. apply Hi in Ex. apply existsb_eqb_in in Ex. congruence.
Qed.

Lemma unseen_dec s id a : assoc (e_users E) id = Some a -> ~ In id s -> unseen (id :: s) < unseen s.
Proof.
  intros Ha Hn. apply (filter_len_lt _ _ (e_users E) (id, a)).
  - intros x _ Hx. apply negb_true_iff in Hx. apply negb_true_iff.
    destruct (existsb (Nat.eqb (fst x)) s) eqn:Ex; [|reflexivity].
    apply existsb_eqb_in in Ex. assert (In (fst x) (id :: s)) by now right. apply existsb_eqb_in in H. congruence.
  - now apply assoc_in.
  - cbn [fst existsb]. now rewrite Nat.eqb_refl.
  - cbn [fst]. apply negb_true_iff. destruct (existsb (Nat.eqb id) s) eqn:Ex; [|reflexivity].
    apply existsb_eqb_in in Ex. contradiction.
Qed.

Definition fuel_ok (fuel : nat) (s : list nat) (id : nat) : Prop :=
  unseen s + 2 <= fuel \/ (assoc (e_users E) id = None /\ 1 <= fuel).

Lemma hv_user_sound : forall fuel s id s', fuel_ok fuel s id ->
  hv_user E c fuel s id = (false, s') -> seen_ext s s' /\ quiet s' (user_body E id).
Proof.
  induction fuel as [|f IH]; intros s id s' Hf H.
  - destruct Hf as [Hf|[_ Hf]]; lia.
  - cbn [hv_user] in H. destruct (assoc (e_users E) id) as [a|] eqn:Ea.
    + destruct Hf as [Hf|[Hf _]]; [|congruence].
      refine (hv_att_sound (hv_user E c f) s _ (user_body E id) s s' (incl_refl _) H).
      intros s1 id1 s1' Hi Hn Hv. apply (IH (id1 :: s1) id1 s1'); [|exact Hv].
      pose proof (unseen_mono s s1 Hi) as Hm.
      destruct (assoc (e_users E) id1) as [a1|] eqn:Ea1.
      * left. pose proof (unseen_dec s1 id1 a1 Ea1 Hn). lia.
      * right. split; [exact Ea1|lia].
    + unfold user_body in *. rewrite Ea in *. rewrite hv_att_obj in H. cbn in H. injection H as <-. split; [apply seen_ext_refl|].
      cbn. split; [reflexivity|exact I].
Qed.

(* the walk answers false only when the user type sits in a closed set of quiet types *)
Lemma hv_closed id : has_validations E c id = false ->
  exists S, In id S /\ forall x, In x S -> quiet S (user_body E x).
Proof.
  unfold has_validations. destruct (hv_user E c (hv_fuel E) [id] id) as [b S] eqn:Eh. cbn [fst]. intros ->.
  assert (Hf : fuel_ok (hv_fuel E) [id] id).
  { left. unfold hv_fuel, unseen. pose proof (filter_len_all (fun ua : nat * att => negb (existsb (Nat.eqb (fst ua)) [id])) (e_users E)). lia. }
  destruct (hv_user_sound _ _ _ _ Hf Eh) as [[HI HC] Hq]. exists S. split; [apply HI; now left|].
  intros x Hx. destruct (HC x Hx) as [[<-|[]]|Hr]; assumption.
Qed.

Lemma flat_map_all_nil {A B} (f : A -> list B) l : (forall x, In x l -> f x = []) -> flat_map f l = [].
Proof.
  induction l as [|a l IH]; intro H; [reflexivity|]. cbn [flat_map]. rewrite (H a (or_introl eq_refl)). apply IH. intros x Hx. apply H. now right.
Qed.

Lemma vl_empty_kws vl : vl_empty vl = true -> kws_of vl = [].
Proof. unfold vl_empty. destruct (kws_of vl); [reflexivity|discriminate]. Qed.

Section QuietSpec.
Variable S : list nat.
Variable call : nat -> value -> list viol.
Hypothesis Hcall0 : forall id x, In id S -> call id x = [].

Lemma quiet_spec a : quiet S a -> forall v p, spec_viol fmt_ok pat_ok E call a v p = [].
Proof.
  induction a as [vl def pr|id|vl e IHe|vl k e IHk IHe|fs IH|id] using att_ind'; intros Hq v p.
  - cbn [quiet] in Hq. destruct v; cbn [Model.spec_viol]; try reflexivity; now rewrite (vl_empty_kws _ Hq).
  - cbn [quiet] in Hq. unfold alias_vl. destruct v; cbn [Model.spec_viol]; try reflexivity; unfold alias_vl; now rewrite (vl_empty_kws _ Hq).
  - destruct Hq as [H1 H2]. destruct v; cbn [Model.spec_viol]; try reflexivity; rewrite (vl_empty_kws _ H1); cbn [kw_viols flat_map app]; try reflexivity.
    apply flat_map_all_nil. intros x _. now apply IHe.
  - destruct Hq as (H1 & H2 & H3). destruct v; cbn [Model.spec_viol]; try reflexivity; rewrite (vl_empty_kws _ H1); cbn [kw_viols flat_map app]; try reflexivity.
    apply flat_map_all_nil. intros kv _. rewrite (IHk H2), (IHe H3). reflexivity.
  - apply quiet_obj in Hq. destruct Hq as [Hr Hf]. destruct v; try (cbn [Model.spec_viol]; reflexivity).
    rewrite (spec_viol_obj fmt_ok pat_ok E call).
    assert (Hreq : forall l, reqs_spec p fs l = []).
    { clear Hf IH. induction fs as [|[[n r] fa] fs IH]; intro l0; [reflexivity|]. cbn [existsb] in Hr. apply orb_false_iff in Hr. destruct Hr as [-> Hr].
      destruct l0 as [|x l0]; [reflexivity|]. cbn [reqs_spec andb app]. now apply IH. }
    assert (Hfld : forall l, fields_spec fmt_ok pat_ok E call p fs l = []).
    { clear Hr Hreq. induction IH as [|[[n r] fa] fs Ha _ IH']; intro l0; [reflexivity|]. inversion Hf; subst.
      destruct l0 as [|x l0]; [reflexivity|]. cbn [fields_spec]. cbn [snd] in *. rewrite (Ha H1). cbn [app]. now apply IH'. }
    now rewrite Hreq, Hfld.
  - cbn [quiet] in Hq. destruct v; cbn [Model.spec_viol]; try reflexivity; now apply Hcall0.
Qed.
End QuietSpec.

Lemma closed_spec S : (forall x, In x S -> quiet S (user_body E x)) ->
  forall n id x, In id S -> spec_user fmt_ok pat_ok E n id x = [].
Proof.
  intros Hc. induction n as [|n IH]; intros id x Hid; [reflexivity|]. cbn [spec_user].
  apply (quiet_spec S (spec_user fmt_ok pat_ok E n) IH). now apply Hc.
Qed.

(* every Validate call goa elides in a Pointer context is vacuous *)
Lemma elide_vacuous id n x : has_validations E c id = false -> spec_user fmt_ok pat_ok E n id x = [].
Proof.
  intro H. destruct (hv_closed id H) as (S & Hid & Hc). now apply (closed_spec S Hc).
Qed.
End Quiet.

Section SpecTop.
Variable fmt_ok pat_ok : nat -> str -> bool.
Variable E : env.
Variable fc : ctx.
Hypothesis HwfE : wf_env E = true.
Hypothesis HexE : env_excl_ok E = true.
Hypothesis HpmE : env_pm_ok E = true.
Hypothesis Hfc : c_ignreq fc = false.
(* the map case of recurseValidationCode clears Pointer for primitive keys / elements only, and
   Validate<T> functions are generated for a Pointer layout (server request bodies, client
   response bodies): user types are always met in the context they were entered with *)
Hypothesis Hmode : map_ctx_mode = MapClearPrimOnly.
Hypothesis Hfcp : c_ptr fc = true.

Definition Pptr (c : ctx) : Prop := c_ptr c = true.

Lemma Pptr_elem c e : Pptr c -> is_prim e = false -> Pptr (elem_ctx c e).
Proof. unfold Pptr, elem_ctx. intros Hc He. rewrite He, andb_false_r. exact Hc. Qed.

Lemma Pptr_map c a : Pptr c -> is_prim a = false -> Pptr (map_ctx c a).
Proof. unfold Pptr, map_ctx. rewrite Hmode. intros Hc Ha. destruct a; try exact Hc; discriminate. Qed.

Lemma Helide c id n x : Pptr c -> has_validations E c id = false -> spec_user fmt_ok pat_ok E n id x = [].
Proof. intros Hc H. exact (elide_vacuous fmt_ok pat_ok E c Hc id n x H). Qed.

Lemma env_body_ok id : excl_ok E (user_body E id) = true /\ pm_ok true (user_body E id) = true.
Proof.
  unfold user_body. destruct (assoc (e_users E) id) as [a|] eqn:Ea; [|split; reflexivity].
  apply assoc_in in Ea. unfold env_excl_ok, env_pm_ok in *. rewrite forallb_forall in HexE, HpmE.
  split; [apply (HexE _ Ea)|apply (HpmE _ Ea)].
Qed.

Lemma goa_user_iff_spec : forall n id x, x <> VNull ->
  (goa_user fmt_ok pat_ok E fc n id x = [] <-> spec_user fmt_ok pat_ok E n id x = []).
Proof.
  induction n as [|n IH]; intros id x Hx; [cbn; tauto|].
  cbn [goa_user spec_user]. destruct (wf_user_body E id HwfE) as [Hwf _]. destruct (env_body_ok id) as [He Hp].
  destruct (Irel_all fmt_ok pat_ok E (goa_user fmt_ok pat_ok E fc n) (spec_user fmt_ok pat_ok E n) IH Pptr
              (fun c id x => Helide c id n x) Pptr_elem Pptr_map (user_body E id) fc true x [] Hfc (or_intror Hfcp) Hwf He Hp) as [[_ Hn]|H]; [congruence|exact H].
Qed.

Theorem goa_iff_spec n c rp a v :
  c_ignreq c = false -> (no_user a = true \/ c_ptr c = true) ->
  wf_att E a = true -> excl_ok E a = true -> pm_ok rp a = true -> (rp = true -> v <> VNull) ->
  (violations_goa fmt_ok pat_ok E fc n c a v = [] <-> violations fmt_ok pat_ok E n a v = []).
Proof.
  intros Hc HP Hwf He Hp Hr. unfold violations_goa, violations.
  destruct (Irel_all fmt_ok pat_ok E (goa_user fmt_ok pat_ok E fc n) (spec_user fmt_ok pat_ok E n) (goa_user_iff_spec n) Pptr
              (fun c id x => Helide c id n x) Pptr_elem Pptr_map a c rp v [] Hc HP Hwf He Hp) as [[Hrp Hn]|H]; [|exact H].
  exfalso. now apply Hr.
Qed.
End SpecTop.

(* ---------------------------------------------------------------- the server / client pipeline *)
Section Serve.
Variable fmt_ok pat_ok : nat -> str -> bool.
Variable E : env.
Variable fc : ctx.
Hypothesis HwfE : wf_env E = true.

Definition elem_ok (e : param) : Prop :=
  match e with (k, c, req, a, v) => wf_att E a = true /\ wt E fc c req a v /\ root_ok a v end.

Definition body_ok (b : option (ctx * att * value)) : Prop :=
  match b with Some (c, a, v) => wf_att E a = true /\ wt E fc c true a v /\ root_ok a v | None => True end.

Definition body_viols (n : nat) (b : option (ctx * att * value)) : list viol :=
  match b with Some (c, a, v) => violations_goa fmt_ok pat_ok E fc n c a v | None => [] end.

Definition param_viols (n : nat) (e : param) : list viol :=
  match e with (k, c, req, a, v) => violations_goa fmt_ok pat_ok E fc n c a v end.

Definition params_viols (n : nat) (ps : list param) : list viol := flat_map (param_viols n) ps.

(* what the decoder is left with: a required cookie discards what was collected before it *)
Fixpoint params_kept (n : nat) (acc : list viol) (ps : list param) : list viol :=
  match ps with
  | [] => acc
  | p :: r => params_kept n ((if resets p then [] else acc) ++ param_viols n p) r
  end.

Definition no_required_cookie (ps : list param) : bool := forallb (fun p => negb (resets p)) ps.

Lemma validate_ok n c req a v : wf_att E a = true -> wt E fc c req a v -> root_ok a v ->
  validate fmt_ok pat_ok E fc n c req a v = Some (violations_goa fmt_ok pat_ok E fc n c a v).
Proof. intros Hwf Hwt Hr. unfold validate, violations_goa. now apply gen_ok. Qed.

Lemma validate_params_ok n ps : Forall elem_ok ps -> forall acc,
  validate_params fmt_ok pat_ok E fc n acc ps = Some (params_kept n acc ps).
Proof.
  induction 1 as [|[[[[k c] req] a] v] ps (Hwf & Hwt & Hr) _ IH]; intro acc; [reflexivity|].
  cbn [validate_params params_kept]. rewrite (validate_ok n c req a v Hwf Hwt Hr). apply IH.
Qed.

Lemma params_kept_incl n ps : forall acc x, In x (params_kept n acc ps) -> In x (acc ++ params_viols n ps).
Proof.
  induction ps as [|p ps IH]; intros acc x Hx; cbn [params_kept params_viols flat_map] in *; [now rewrite app_nil_r|].
  apply IH in Hx. apply in_app_or in Hx. destruct Hx as [Hx|Hx].
  - destruct (resets p); cbn [app] in Hx.
    + apply in_or_app. right. apply in_or_app. now left.
    + apply in_app_or in Hx. destruct Hx as [Hx|Hx]; apply in_or_app; [now left|right; apply in_or_app; now left].
  - apply in_or_app. right. apply in_or_app. now right.
Qed.

Lemma params_kept_nil n ps : params_viols n ps = [] -> params_kept n [] ps = [].
Proof.
  induction ps as [|p ps IH]; cbn [params_kept params_viols flat_map]; intro H; [reflexivity|].
  apply app_eq_nil in H. destruct H as [H1 H2]. rewrite H1. destruct (resets p); cbn [app]; now apply IH.
Qed.

Lemma params_kept_all n ps : no_required_cookie ps = true -> forall acc, params_kept n acc ps = acc ++ params_viols n ps.
Proof.
  induction ps as [|p ps IH]; cbn [no_required_cookie forallb params_kept params_viols flat_map]; intros H acc; [now rewrite app_nil_r|].
  apply andb_prop in H. destruct H as [H1 H2]. apply negb_true_iff in H1. rewrite H1.
  unfold no_required_cookie in IH. rewrite (IH H2). now rewrite app_assoc.
Qed.

Lemma serve_eq n b ps : body_ok b -> Forall elem_ok ps ->
  serve fmt_ok pat_ok E fc n (Decoded b ps) =
  match body_viols n b with
  | x :: r => refuse (x :: r)
  | [] => refuse (params_kept n [] ps)
  end.
Proof.
  intros Hb Hp. unfold serve. rewrite (validate_params_ok n ps Hp).
  destruct b as [[[c a] v]|]; cbn [body_viols]; [destruct Hb as (H1 & H2 & H3); rewrite (validate_ok n c true a v H1 H2 H3)|]; reflexivity.
Qed.

Lemma refuse_invoke l : refuse l = Invoke <-> l = [].
Proof. destruct l as [|[name p] l]; cbn; split; intro H; congruence. Qed.

Lemma refuse_name l st name : refuse l = Refuse st name -> st = 400 /\ In name (map fst l).
Proof. destruct l as [|[nm p] l]; cbn; intro H; [discriminate|]. injection H as <- <-. split; [reflexivity|now left]. Qed.

Lemma refuse_not_crash l : refuse l <> Crash.
Proof. destruct l as [|[nm p] l]; cbn; discriminate. Qed.

(* what holds of the pipeline as goa generates it *)
Theorem serve_sound n b ps : body_ok b -> Forall elem_ok ps ->
  (body_viols n b = [] /\ params_viols n ps = [] -> serve fmt_ok pat_ok E fc n (Decoded b ps) = Invoke) /\
  (forall st name, serve fmt_ok pat_ok E fc n (Decoded b ps) = Refuse st name ->
     st = 400 /\ In name (map fst (body_viols n b ++ params_viols n ps))) /\
  serve fmt_ok pat_ok E fc n (Decoded b ps) <> Crash.
Proof.
  intros Hb Hp. rewrite (serve_eq n b ps Hb Hp).
  destruct (body_viols n b) as [|x r] eqn:Eb.
  - split; [|split].
    + intros [_ H]. apply refuse_invoke. now apply params_kept_nil.
    + intros st name H. cbn [app]. apply refuse_name in H. destruct H as [Hs H]. split; [assumption|].
      apply in_map_iff in H. destruct H as (vv & Hf & Hin). apply in_map_iff. exists vv. split; [assumption|].
      apply params_kept_incl in Hin. exact Hin.
    + apply refuse_not_crash.
  - split; [|split].
    + intros [H _]. discriminate.
    + intros st name H. apply refuse_name in H. destruct H as [Hs H]. split; [assumption|].
      rewrite map_app. apply in_or_app. now left.
    + apply refuse_not_crash.
Qed.

(* and the full equivalence where no required cookie is declared *)
Theorem serve_invokes_iff n b ps : body_ok b -> Forall elem_ok ps -> no_required_cookie ps = true ->
  (serve fmt_ok pat_ok E fc n (Decoded b ps) = Invoke <-> body_viols n b = [] /\ params_viols n ps = []).
Proof.
  intros Hb Hp Hc. rewrite (serve_eq n b ps Hb Hp), (params_kept_all n ps Hc). cbn [app].
  destruct (body_viols n b) as [|x r]; rewrite refuse_invoke; [tauto|].
  split; [discriminate|intros [H _]; discriminate].
Qed.
End Serve.

(* ---------------------------------------------------------------- the nesting bound is immaterial once it exceeds the depth of the value *)
Lemma vdepth_arr_in x l : In x l -> vdepth x < vdepth (VArr l).
Proof.
  cbn [vdepth]. induction l as [|y l IH]; intro H; [destruct H|]. destruct H as [<-|H]; cbn [fold_right]; [lia|]. specialize (IH H). lia.
Qed.

Lemma vdepth_obj_in x l : In x l -> vdepth x < vdepth (VObj l).
Proof.
  cbn [vdepth]. induction l as [|y l IH]; intro H; [destruct H|]. destruct H as [<-|H]; cbn [fold_right]; [lia|]. specialize (IH H). lia.
Qed.

Lemma vdepth_map_in kv l : In kv l -> vdepth (fst kv) < vdepth (VMap l) /\ vdepth (snd kv) < vdepth (VMap l).
Proof.
  cbn [vdepth]. induction l as [|y l IH]; intro H; [destruct H|]. destruct H as [<-|H]; cbn [fold_right]; [lia|]. specialize (IH H). lia.
Qed.

Section Stable.
Variable fmt_ok pat_ok : nat -> str -> bool.
Variable E : env.
Variable call1 call2 : nat -> value -> list viol.
Notation gv1 := (goa_viol fmt_ok pat_ok E call1).
Notation gv2 := (goa_viol fmt_ok pat_ok E call2).

(* goa_viol only consults `call` on the value itself (when the attribute is a user type) or
   on strictly smaller values *)
Definition Ext (a : att) : Prop :=
  forall c v p,
    ((forall id x, vdepth x <= vdepth v -> call1 id x = call2 id x) -> gv1 c a v p = gv2 c a v p) /\
    (is_user a = false -> (forall id x, vdepth x < vdepth v -> call1 id x = call2 id x) -> gv1 c a v p = gv2 c a v p).

Lemma flat_map_ext_in {A B} (f g : A -> list B) l : (forall x, In x l -> f x = g x) -> flat_map f l = flat_map g l.
Proof. induction l as [|x l IH]; intro H; [reflexivity|]. cbn. rewrite (H x (or_introl eq_refl)), IH; [reflexivity|]. intros y Hy. apply H. now right. Qed.

Lemma Ext_weaken a : (forall c v p, is_user a = false -> (forall id x, vdepth x < vdepth v -> call1 id x = call2 id x) -> gv1 c a v p = gv2 c a v p) ->
  is_user a = false -> Ext a.
Proof.
  intros H Hu c v p. split; [|now apply H]. intro Hc. apply H; [assumption|]. intros id x Hx. apply Hc. lia.
Qed.

Lemma Ext_all a : Ext a.
Proof.
  induction a as [vl def pr|id|vl e IHe|vl k e IHk IHe|fs IH|id] using att_ind'.
  - apply Ext_weaken; [|reflexivity]. intros c v p _ _. destruct v; reflexivity.
  - apply Ext_weaken; [|reflexivity]. intros c v p _ _. destruct v; reflexivity.
  - apply Ext_weaken; [|reflexivity]. intros c v p _ Hc. destruct v; try reflexivity.
    cbn [Model.goa_viol]. f_equal. apply flat_map_ext_in. intros x Hx.
    apply (proj1 (IHe (elem_ctx c e) x (p ++ [PElem]))). intros id y Hy. apply Hc. pose proof (vdepth_arr_in x l Hx). lia.
  - apply Ext_weaken; [|reflexivity]. intros c v p _ Hc. destruct v; try reflexivity.
    cbn [Model.goa_viol]. f_equal. apply flat_map_ext_in. intros kv Hx. destruct (vdepth_map_in kv l Hx) as [H1 H2]. f_equal.
    + apply (proj1 (IHk (map_ctx c k) (fst kv) (p ++ [PKey]))). intros id y Hy. apply Hc. lia.
    + apply (proj1 (IHe (map_ctx c e) (snd kv) (p ++ [PVal]))). intros id y Hy. apply Hc. lia.
  - apply Ext_weaken; [|reflexivity]. intros c v p _ Hc. destruct v; try reflexivity.
    rewrite !goa_viol_obj. f_equal.
    assert (Hl : forall x, In x l -> forall id y, vdepth y <= vdepth x -> call1 id y = call2 id y).
    { intros x Hx id y Hy. apply Hc. pose proof (vdepth_obj_in x l Hx). lia. }
    clear Hc. revert l Hl. induction IH as [|[[n r] fa] fs Hfa _ IHfs]; intros l Hl; [reflexivity|].
    destruct l as [|x l]; [reflexivity|]. cbn [fields_goa]. f_equal.
    + apply (proj1 (Hfa c x (p ++ [PField n]))). apply Hl. now left.
    + apply IHfs. intros y Hy. apply Hl. now right.
  - intros c v p. split; [|discriminate]. intro Hc. destruct v; try reflexivity;
      cbn [Model.goa_viol]; destruct (has_validations E c id); try reflexivity; apply Hc; lia.
Qed.
End Stable.

Theorem goa_user_stable (fmt_ok pat_ok : nat -> str -> bool) E fc : wf_env E = true ->
  forall d v id n m, vdepth v <= d -> d < n -> d < m ->
    goa_user fmt_ok pat_ok E fc n id v = goa_user fmt_ok pat_ok E fc m id v.
Proof.
  intro HE. induction d as [d IHd] using lt_wf_ind. intros v id n m Hv Hn Hm.
  destruct n as [|n]; [lia|]. destruct m as [|m]; [lia|]. cbn [goa_user].
  destruct (wf_user_body E id HE) as [_ Hu].
  apply (proj2 (Ext_all fmt_ok pat_ok E _ _ (user_body E id) fc v [])); [assumption|].
  intros id' x Hx. apply (IHd (vdepth x)); lia.
Qed.

Theorem violations_goa_stable (fmt_ok pat_ok : nat -> str -> bool) E fc : wf_env E = true ->
  forall c a v n m, vdepth v < n -> vdepth v < m ->
    violations_goa fmt_ok pat_ok E fc n c a v = violations_goa fmt_ok pat_ok E fc m c a v.
Proof.
  intros HE c a v n m Hn Hm. unfold violations_goa.
  apply (proj1 (Ext_all fmt_ok pat_ok E _ _ a c v [])).
  intros id x Hx. apply (goa_user_stable fmt_ok pat_ok E fc HE (vdepth x)); lia.
Qed.
