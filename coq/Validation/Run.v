(* Correspondence glue for C04: the request (or response) elements the harness read
   from goa's finalized endpoint, the values they carried in one exchange, the
   observation made of the real generated code, and the comparison evaluated by
   vm_compute. Both the generator model (exec of gen) and the declarative
   violations_goa are evaluated; they must agree with each other and with the
   observation. *)
From Coq Require Import QArith.
From Validation Require Import Model.
Close Scope Q_scope.
Open Scope nat_scope.

(* oracle answers recorded by the harness: (id, string, answer); pattern ids are
   offset by 1000 *)
Definition orc := list (nat * str * bool).

Fixpoint orc_lookup (t : orc) (id : nat) (s : str) : bool :=
  match t with
  | [] => true
  | (i, s', b) :: r => if Nat.eqb i id && str_eqb s s' then b else orc_lookup r id s
  end.

Definition fmt_of (t : orc) : nat -> str -> bool := fun f s => orc_lookup t f s.
Definition pat_of (t : orc) : nat -> str -> bool := fun p s => orc_lookup t (1000 + p) s.

(* one element of a request / response: the body, or one parameter / header / cookie
   (validated by the decoder after it was parsed; a required one that is absent is
   reported missing_field by the decoder itself) *)
Inductive eloc := LBody | LParam | LCookie.
Definition elem_t := (eloc * ctx * bool * att)%type.

Definition run_fuel : nat := 40.

Definition elem_exec (t : orc) (E : env) (fc : ctx) (e : elem_t) (v : value) : option (list viol) :=
  match e with
  | (LBody, c, req, a) =>
      exec (fmt_of t) (pat_of t) (run_user (fmt_of t) (pat_of t) E fc run_fuel) (gen E c req a []) v
  | (_, c, req, a) =>
      if req && is_null v then Some [(EMissingField, [])]
      else exec (fmt_of t) (pat_of t) (run_user (fmt_of t) (pat_of t) E fc run_fuel) (gen E c req a []) v
  end.

Definition elem_goa (t : orc) (E : env) (fc : ctx) (e : elem_t) (v : value) : list viol :=
  match e with
  | (LBody, c, req, a) =>
      goa_viol (fmt_of t) (pat_of t) E (goa_user (fmt_of t) (pat_of t) E fc run_fuel) c a v []
  | (_, c, req, a) =>
      if req && is_null v then [(EMissingField, [])]
      else goa_viol (fmt_of t) (pat_of t) E (goa_user (fmt_of t) (pat_of t) E fc run_fuel) c a v []
  end.

Definition elem_spec (t : orc) (E : env) (e : elem_t) (v : value) : list viol :=
  match e with
  | (_, _, req, a) =>
      (if req && is_null v then [(EMissingField, [])] else []) ++
      spec_viol (fmt_of t) (pat_of t) E (spec_user (fmt_of t) (pat_of t) E run_fuel) a v []
  end.

Definition err_eqb (a b : errname) : bool :=
  match a, b with
  | EMissingField, EMissingField | EInvalidEnumValue, EInvalidEnumValue | EInvalidFormat, EInvalidFormat
  | EInvalidPattern, EInvalidPattern | EInvalidRange, EInvalidRange | EInvalidLength, EInvalidLength
  | EInvalidFieldType, EInvalidFieldType | EDecodePayload, EDecodePayload | EMissingPayload, EMissingPayload => true
  | _, _ => false
  end.

(* the decoder: body first (a body violation returns at once), then the parameters,
   whose errors are merged *)
(* exact = false: a required parameter was absent; the decoder then also reports what
   it makes of the empty string / zero value, so only the first error is predicted *)
Inductive verdict := MAccept | MReject (vs : list viol) (exact : bool) | MCrash.

Definition absent_required (ev : elem_t * value) : bool :=
  match ev with ((LBody, _, _, _), _) => false | ((_, _, req, _), v) => req && is_null v end.

(* a required cookie is read with `c, err = r.Cookie(name)`: the errors collected so far
   are overwritten *)
Definition elem_resets (e : elem_t) : bool := match e with (LCookie, _, req, _) => req | _ => false end.

Fixpoint split_body (es : list elem_t) (vs : list value) : list (elem_t * value) * list (elem_t * value) :=
  match es, vs with
  | e :: es', v :: vs' =>
      let '(b, p) := split_body es' vs' in
      match e with (LBody, _, _, _) => ((e, v) :: b, p) | _ => (b, (e, v) :: p) end
  | _, _ => ([], [])
  end.

Fixpoint exec_acc (t : orc) (E : env) (fc : ctx) (acc : list viol) (l : list (elem_t * value)) : option (list viol) :=
  match l with
  | [] => Some acc
  | (e, v) :: r => match elem_exec t E fc e v with
                   | Some a => exec_acc t E fc ((if elem_resets e then [] else acc) ++ a) r
                   | None => None
                   end
  end.
Definition exec_all (t : orc) (E : env) (fc : ctx) (l : list (elem_t * value)) : option (list viol) := exec_acc t E fc [] l.

Fixpoint goa_acc (t : orc) (E : env) (fc : ctx) (acc : list viol) (l : list (elem_t * value)) : list viol :=
  match l with
  | [] => acc
  | (e, v) :: r => goa_acc t E fc ((if elem_resets e then [] else acc) ++ elem_goa t E fc e v) r
  end.

(* after validation the decoder builds the payload: required primitive attributes are
   dereferenced unconditionally, so a nil one that validation let through (only possible
   where a Validate call was elided) crashes the server *)
Definition conversion_crashes (t : orc) (E : env) (l : list (elem_t * value)) : bool :=
  existsb (fun ev => match fst ev with
                     | (LBody, _, _, _) => existsb (fun x => err_eqb (fst x) EMissingField) (elem_spec t E (fst ev) (snd ev))
                     | _ => false
                     end) l.

Definition model_verdict (t : orc) (E : env) (fc : ctx) (es : list elem_t) (vs : list value) : verdict :=
  let '(b, p) := split_body es vs in
  match exec_all t E fc b with
  | None => MCrash
  | Some (x :: r) => MReject (x :: r) true
  | Some [] => match exec_all t E fc p with
               | None => MCrash
               | Some [] => if conversion_crashes t E (b ++ p) then MCrash else MAccept
               | Some l => MReject l (negb (existsb absent_required p))
               end
  end.

Definition goa_verdict (t : orc) (E : env) (fc : ctx) (es : list elem_t) (vs : list value) : verdict :=
  let '(b, p) := split_body es vs in
  match goa_acc t E fc [] b with
  | x :: r => MReject (x :: r) true
  | [] => match goa_acc t E fc [] p with
          | [] => if conversion_crashes t E (b ++ p) then MCrash else MAccept
          | l => MReject l (negb (existsb absent_required p))
          end
  end.

(* what the harness observed of the real code: the user code / client result was
   reached; or the exchange was refused with a named error made of n merged errors;
   or there was no response at all *)
Inductive obs := OAccept | ORefuse (name : errname) (n : nat) | ORefuseAny (n : nat) | ONoResponse.

Definition verdict_matches (m : verdict) (o : obs) : bool :=
  match m, o with
  | MAccept, OAccept => true
  | MReject vs exact, ORefuse name n =>
      match vs with
      | (first, _) :: _ => err_eqb first name && (negb exact || Nat.eqb (length vs) n)
      | [] => false
      end
  | MReject vs exact, ORefuseAny n => negb exact || Nat.eqb (length vs) n
  | MCrash, ONoResponse => true
  | _, _ => false
  end.

Definition verdict_same (a b : verdict) : bool :=
  match a, b with
  | MAccept, MAccept => true
  | MReject x _, MReject y _ =>
      Nat.eqb (length x) (length y) && forallb (fun p => err_eqb (fst (fst p)) (fst (snd p))) (combine x y)
  | MCrash, MCrash => true
  | _, _ => false
  end.

Definition case_t := (N * (env * ctx * list elem_t) * list value * orc * obs)%type.

(* indexes of the cases on which the generator model, the declarative goa spec and
   the observation do not all agree *)
Definition mismatches (cs : list case_t) : list N :=
  flat_map (fun c => match c with (i, (E, fc, es), vs, t, o) =>
     let m := model_verdict t E fc es vs in
     if verdict_matches m o && verdict_same m (goa_verdict t E fc es vs) then [] else [i] end) cs.

(* diagnostics: what the model says on one case *)
Definition explain (c : case_t) : verdict * verdict :=
  match c with (i, (E, fc, es), vs, t, o) => (model_verdict t E fc es vs, goa_verdict t E fc es vs) end.
