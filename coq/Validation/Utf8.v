(* UTF-8: a model of Go's utf8.RuneCountInString (unicode/utf8/utf8.go), an encoder
   for Unicode scalar values, and the byte length. Definitions only; proofs in
   Utf8Lemmas.v. Strings are lists of byte values (N, each < 256). *)
From Coq Require Export List Bool Arith NArith.
Export ListNotations.
Local Open Scope N_scope.

Definition str := list N.

Definition in_rng (lo hi c : N) : bool := (lo <=? c) && (c <=? hi).
Definition is_cont (c : N) : bool := in_rng 128 191 c.          (* locb .. hicb *)

(* utf8.first + acceptRanges: for a lead byte, the size of the sequence and the range
   accepted for the SECOND byte; None = ASCII or invalid lead byte (one byte, one rune) *)
Definition lead_info (c : N) : option (nat * N * N) :=
  if in_rng 194 223 c then Some (2%nat, 128, 191)
  else if c =? 224 then Some (3%nat, 160, 191)
  else if in_rng 225 236 c then Some (3%nat, 128, 191)
  else if c =? 237 then Some (3%nat, 128, 159)
  else if in_rng 238 239 c then Some (3%nat, 128, 191)
  else if c =? 240 then Some (4%nat, 144, 191)
  else if in_rng 241 243 c then Some (4%nat, 128, 191)
  else if c =? 244 then Some (4%nat, 128, 143)
  else None.

(* number of FOLLOWING bytes that belong to the rune starting with lead byte c, given
   the rest of the string: size-1 when the sequence is complete and well formed, else 0
   (Go then counts the lead byte alone as one rune and resumes at the next byte) *)
Definition follow (c : N) (r : str) : nat :=
  match lead_info c with
  | None => 0%nat
  | Some (2%nat, lo, hi) =>
      match r with c1 :: _ => if in_rng lo hi c1 then 1%nat else 0%nat | _ => 0%nat end
  | Some (3%nat, lo, hi) =>
      match r with c1 :: c2 :: _ => if in_rng lo hi c1 && is_cont c2 then 2%nat else 0%nat | _ => 0%nat end
  | Some (_, lo, hi) =>
      match r with c1 :: c2 :: c3 :: _ => if in_rng lo hi c1 && is_cont c2 && is_cont c3 then 3%nat else 0%nat | _ => 0%nat end
  end.

(* rc s skip: runes in s when the first `skip` bytes are continuation bytes already
   accounted for *)
Fixpoint rc (s : str) (skip : nat) : nat :=
  match s with
  | [] => 0%nat
  | c :: r => match skip with
              | S k => rc r k
              | O => S (rc r (follow c r))
              end
  end.

Definition rune_count (s : str) : nat := rc s 0.
Definition byte_len (s : str) : nat := length s.

(* Unicode scalar values and their UTF-8 encoding *)
Definition scalar (cp : N) : bool := (cp <? 55296) || ((57343 <? cp) && (cp <? 1114112)).

Definition encode_cp (cp : N) : str :=
  if cp <? 128 then [cp]
  else if cp <? 2048 then [192 + cp / 64; 128 + cp mod 64]
  else if cp <? 65536 then [224 + cp / 4096; 128 + (cp / 64) mod 64; 128 + cp mod 64]
  else [240 + cp / 262144; 128 + (cp / 4096) mod 64; 128 + (cp / 64) mod 64; 128 + cp mod 64].

Definition utf8_encode (cps : list N) : str := flat_map encode_cp cps.
