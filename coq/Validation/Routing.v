(* C04 / C14 - MODEL, continued: where each attribute of the method payload travels.
   Mirrors expr/http_body_types.go (httpRequestBody, removeAttributes, removeAttribute,
   defaultRequestHeaderAttributes), expr/mapped_attribute.go (MappedAttributeExpr.Delete),
   expr/types.go (Object.Delete), expr/attribute.go (ValidationExpr.RemoveRequired,
   AttributeExpr.IsRequired) and expr/http_endpoint.go (initAttr). Definitions only.

   goa keeps an object attribute as TWO lists: the named attributes (Object) and the names
   of the required ones (Validation.Required). The request body is computed from the
   payload by deleting, one name at a time, every attribute that is mapped to a header, a
   cookie, a path / query parameter, the MapParams attribute and the credentials that
   travel in the Authorization header by default. Attribute names are numbers chosen by
   the harness; the content of an attribute is a parameter A (att for the theorems, a
   tag for the correspondence). Explicit Body(...) and union payloads are not modelled. *)
From Coq Require Import List Arith Bool.
From Validation Require Import Model.
Import ListNotations.

Section Routing.
Variable A : Type.

Record mattr := mkMA { ma_fields : list (nat * A); ma_required : list nat }.

(* Object.Delete: the FIRST attribute with that name *)
Fixpoint obj_delete (n : nat) (fs : list (nat * A)) : list (nat * A) :=
  match fs with
  | [] => []
  | (k, a) :: r => if Nat.eqb k n then r else (k, a) :: obj_delete n r
  end.

(* ValidationExpr.RemoveRequired: the FIRST occurrence *)
Fixpoint remove_required (n : nat) (rs : list nat) : list nat :=
  match rs with
  | [] => []
  | k :: r => if Nat.eqb k n then r else k :: remove_required n r
  end.

(* removeAttribute: MappedAttributeExpr.Delete (Object.Delete + RemoveRequired) followed
   by a second RemoveRequired *)
Definition remove_attribute (m : mattr) (n : nat) : mattr :=
  mkMA (obj_delete n (ma_fields m)) (remove_required n (remove_required n (ma_required m))).

Definition remove_attributes (m : mattr) (ns : list nat) : mattr := fold_left remove_attribute ns m.

Definition memn (n : nat) (l : list nat) : bool := existsb (Nat.eqb n) l.

(* the HTTP mapping of an endpoint: names of the payload attributes mapped to headers,
   cookies, path and query parameters (e.Params holds both); MapParams: None = not used,
   Some None = the whole payload is the query map, Some (Some n) = attribute n is;
   rt_creds: the payload attributes tagged as credentials of the schemes the endpoint
   requires (security:username / password / token / apikey / accesstoken) *)
Record routing := mkRt {
  rt_headers : list nat; rt_cookies : list nat; rt_params : list nat;
  rt_mapq : option (option nat); rt_creds : list nat }.

(* defaultRequestHeaderAttributes: a credential with no explicit mapping (findKey looks in
   the parameters and in the headers) travels in the Authorization header *)
Definition default_headers (r : routing) : list nat :=
  filter (fun c => negb (memn c (rt_params r)) && negb (memn c (rt_headers r))) (rt_creds r).

(* the names httpRequestBody deletes, in its order (the last group comes out of a Go map,
   in any order: see removal_order_immaterial) *)
Definition routed (r : routing) : list nat :=
  rt_headers r ++ rt_cookies r ++ rt_params r ++
  (match rt_mapq r with Some (Some n) => [n] | _ => [] end) ++ default_headers r.

Definition is_nil {B} (l : list B) : bool := match l with [] => true | _ => false end.
Definition body_only (r : routing) : bool :=
  is_nil (rt_headers r) && is_nil (rt_params r) && is_nil (rt_cookies r) &&
  match rt_mapq r with None => true | Some _ => false end.

Inductive payload := PObj (m : mattr) | PNonObj (a : A).
Inductive rbody := RBEmpty | RBWhole (a : A) | RBObj (m : mattr).

(* httpRequestBody, steps 2 - 5 *)
Definition request_body (p : payload) (r : routing) : rbody :=
  match p with
  | PNonObj a => if body_only r then RBWhole a else RBEmpty
  | PObj m =>
      let b := remove_attributes m (routed r) in
      if is_nil (ma_fields b) then RBEmpty else RBObj b
  end.

(* initAttr: the element mapped to a header / cookie / parameter takes the type of the
   payload attribute of the same name and is required exactly when the payload requires
   it; with a payload that is not an object the (single) element is the payload itself
   and is required *)
Definition elem_required (p : payload) (n : nat) : bool :=
  match p with PObj m => memn n (ma_required m) | PNonObj _ => true end.
Definition elem_content (p : payload) (n : nat) : option A :=
  match p with PObj m => assoc (ma_fields m) n | PNonObj a => Some a end.

End Routing.

Arguments mkMA {A}. Arguments ma_fields {A}. Arguments ma_required {A}.
Arguments obj_delete {A}. Arguments remove_attribute {A}. Arguments remove_attributes {A}.
Arguments PObj {A}. Arguments PNonObj {A}. Arguments RBEmpty {A}. Arguments RBWhole {A}. Arguments RBObj {A}.
Arguments request_body {A}. Arguments elem_required {A}. Arguments elem_content {A}.

(* the object attribute goa's two lists stand for: attribute n is required exactly when
   its name is in the list *)
Definition att_of (m : mattr att) : att :=
  AObject (map (fun f => (fst f, memn (fst f) (ma_required m), snd f)) (ma_fields m)).

(* select from an object's fields / from the values held in parallel those whose name
   satisfies keep *)
Fixpoint pick_fields (keep : nat -> bool) (fs : list (nat * bool * att)) : list (nat * bool * att) :=
  match fs with
  | [] => []
  | (n, r, a) :: fs' => if keep n then (n, r, a) :: pick_fields keep fs' else pick_fields keep fs'
  end.
Fixpoint pick_values (keep : nat -> bool) (fs : list (nat * bool * att)) (l : list value) : list value :=
  match fs, l with
  | (n, _, _) :: fs', x :: l' => if keep n then x :: pick_values keep fs' l' else pick_values keep fs' l'
  | _, _ => []
  end.

(* an attribute of the payload travels in the body unless the mapping routes it elsewhere *)
Definition in_body (r : routing) (n : nat) : bool := negb (memn n (routed r)).
