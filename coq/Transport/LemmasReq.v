(* Transport engine — proofs, part 4: the request round trip.
   Every attribute is decoded from its own wire element (isolation), and the element
   of a wire-safe value decodes to the value. *)
From Transport Require Import Model LemmasCodec LemmasStrconv LemmasQuery.
From Coq Require Import Lia Permutation.

(* ------------------------------------------------------------ generic lists *)

Lemma nodup_map_inj {A B} (f : A -> B) l x y :
  NoDup (map f l) -> In x l -> In y l -> f x = f y -> x = y.
Proof.
  induction l as [|z l IH]; intros Hn Hx Hy E; [destruct Hx|].
  cbn [map] in Hn. inversion Hn as [|? ? Hz Hn']; subst.
  destruct Hx as [->|Hx], Hy as [->|Hy]; auto.
  - exfalso. apply Hz. rewrite E. now apply in_map.
  - exfalso. apply Hz. rewrite <- E. now apply in_map.
Qed.

Lemma nodup_filter {A} (f : A -> bool) l : NoDup l -> NoDup (filter f l).
Proof.
  induction l as [|x l IH]; intro H; [constructor|]. inversion H as [|? ? Hx Hl]; subst. cbn [filter].
  destruct (f x); [constructor; [rewrite filter_In; tauto|auto]|auto].
Qed.

Lemma flat_map_nil {A B} (g : A -> list B) (l : list A) : (forall x, In x l -> g x = []) -> flat_map g l = [].
Proof.
  induction l as [|x l IH]; intro H; [reflexivity|]. cbn [flat_map].
  rewrite (H x (or_introl eq_refl)). cbn [app]. apply IH. intros y I. apply H. now right.
Qed.

Lemma flat_map_isolated {A B} (g : A -> list B) (l : list A) a :
  NoDup l -> In a l -> (forall a', In a' l -> a' <> a -> g a' = []) -> flat_map g l = g a.
Proof.
  induction l as [|x l IH]; intros Hn Hi H; [destruct Hi|].
  inversion Hn as [|? ? Hx Hn']; subst. cbn [flat_map]. destruct Hi as [->|Hi].
  - rewrite <- (app_nil_r (g a)) at 2. f_equal. apply flat_map_nil.
    intros y I. apply H; [now right|]. intros ->. contradiction.
  - assert (x <> a) as Hne by (intros ->; contradiction).
    rewrite (H x (or_introl eq_refl) Hne). cbn [app]. apply IH; auto.
    intros a' I. apply H. now right.
Qed.

Lemma loc_eqb_eq a b : loc_eqb a b = true <-> a = b.
Proof. destruct a, b; cbn; split; congruence. Qed.

Lemma in_at_loc l e a : In a (at_loc l e) <-> In a (e_attrs e) /\ a_loc a = l.
Proof. unfold at_loc. rewrite filter_In, loc_eqb_eq. reflexivity. Qed.

Lemma find_some_unique {A} (f : A -> bool) l x :
  In x l -> f x = true -> (forall y, In y l -> f y = true -> y = x) -> find f l = Some x.
Proof.
  induction l as [|z l IH]; intros Hi Hf Hu; [destruct Hi|]. cbn [find].
  destruct (f z) eqn:E.
  - f_equal. apply Hu; [now left|assumption].
  - apply IH; auto.
    + destruct Hi as [->|Hi]; [congruence|assumption].
    + intros y Hy. apply Hu. now right.
Qed.

(* ------------------------------------------------------------------ collect *)

Definition dres_equiv (x y : dres) : Prop :=
  match x, y with
  | DVal a, DVal c => aval_equiv a c
  | DUnset, DUnset => True
  | _, _ => False
  end.

(* what the property asks of one attribute *)
Definition expected (a : attr) (p : payload) : dres :=
  match p (a_name a) with
  | Some v => DVal v
  | None => match a_def a with Some d => DVal d | None => DUnset end
  end.

Lemma aval_equiv_refl v : aval_equiv v v.
Proof. destruct v; cbn; auto. Qed.

Lemma with_defaults_expected attrs route whole p :
  with_defaults {| e_route := route; e_attrs := attrs; e_whole := whole |} p =
  flat_map (fun a => match expected a p with DVal v => [(a_name a, v)] | _ => [] end) attrs.
Proof.
  unfold with_defaults, expected. cbn [e_attrs]. apply flat_map_ext. intro a.
  destruct (p (a_name a)); [reflexivity|]. destruct (a_def a); reflexivity.
Qed.

Lemma collect_expected (f : attr -> dres) attrs p :
  (forall a, In a attrs -> dres_equiv (f a) (expected a p)) ->
  exists d, collect (map (fun a => (a_name a, f a)) attrs) = Delivered d /\
            plist_equiv d (flat_map (fun a => match expected a p with DVal v => [(a_name a, v)] | _ => [] end) attrs).
Proof.
  induction attrs as [|a l IH]; intro H.
  - exists []. split; [reflexivity|constructor].
  - destruct IH as (d & Hd & Hq); [intros a' I; apply H; now right|].
    specialize (H a (or_introl eq_refl)). cbn [map collect flat_map]. rewrite Hd.
    destruct (f a) as [v| |r], (expected a p) as [w| |r'] eqn:E; cbn in H; try contradiction.
    + exists ((a_name a, v) :: d). split; [reflexivity|]. constructor; [split; [reflexivity|exact H]|exact Hq].
    + exists d. split; [reflexivity|exact Hq].
Qed.

(* ------------------------------------------------- what an attribute contributes *)

Definition contrib (p : payload) (a : attr) : kvs :=
  match client_view a p with Some v => kv_of a v | None => [] end.

Lemma enc_kvs_contrib l e p : enc_kvs l e p = flat_map (contrib p) (at_loc l e).
Proof. reflexivity. Qed.

(* the value the client encodes for an attribute whose payload is valid *)
Lemma client_view_typed a p v :
  client_view a p = Some v ->
  (p (a_name a) = Some v) \/
  (p (a_name a) = None /\ exists t, a_ty a = TyPrim t /\ by_value a = true /\ v = APrim (zero_of t)).
Proof.
  unfold client_view. destruct (p (a_name a)) as [x|]; [intros [= <-]; now left|].
  destruct (a_ty a) as [t| | |]; try discriminate. destruct (by_value a) eqn:B; [|discriminate].
  intros [= <-]. right. split; [reflexivity|]. exists t. auto.
Qed.

(* keys written for a primitive / array attribute: its wire name *)
Lemma kv_of_keys_plain a v kv :
  (match v with APrim _ | AArr _ => True | _ => False end) -> In kv (kv_of a v) -> fst kv = a_wire a.
Proof.
  destruct v; cbn [kv_of]; try contradiction; intros _ H.
  - destruct H as [<-|[]]. reflexivity.
  - apply in_map_iff in H as (x & <- & _). reflexivity.
Qed.

Lemma kv_of_keys_map a l kv :
  In kv (kv_of a (AMap l)) -> exists kx, In kx l /\ fst kv = a_wire a ++ lbrack :: fst kx ++ [rbrack].
Proof. cbn [kv_of]. intro H. apply in_map_iff in H as (kx & <- & I). exists kx. split; [assumption|reflexivity]. Qed.

Lemma lookup_all_keys k l : (forall kv, In kv l -> fst kv = k) -> lookup_all k l = map snd l.
Proof.
  induction l as [|[x v] l IH]; intro H; [reflexivity|]. cbn [lookup_all map snd].
  pose proof (H (x, v) (or_introl eq_refl)) as E. cbn [fst] in E. subst x. rewrite beq_refl. f_equal. apply IH.
  intros kv I. apply H. now right.
Qed.

Lemma lookup_all_nokey k l : (forall kv, In kv l -> fst kv <> k) -> lookup_all k l = [].
Proof.
  intro H. apply lookup_all_none. intro I. apply in_map_iff in I as (kv & E & I). exact (H kv I E).
Qed.

(* ------------------------------------------------------------------ JSON body *)

Lemma jlookup_app k a b : jlookup k (a ++ b) = match jlookup k a with Some v => Some v | None => jlookup k b end.
Proof.
  induction a as [|[x v] a IH]; [reflexivity|]. cbn [app jlookup]. destruct (beq k x); [reflexivity|exact IH].
Qed.

Lemma jlookup_nokey k l : ~ In k (map fst l) -> jlookup k l = None.
Proof.
  induction l as [|[x v] l IH]; intro H; [reflexivity|]. cbn [jlookup].
  destruct (beq k x) eqn:E; [apply beq_eq in E; subst; exfalso; apply H; now left|].
  apply IH. intro I. apply H. now right.
Qed.

Lemma body_field_keys a p k : In k (map fst (body_field a p)) -> k = a_name a.
Proof.
  unfold body_field. destruct (p (a_name a)) as [v|]; [destruct v as [| | |j]|]; (destruct (a_def a) as [d|]; [destruct d as [| | |dj]|]);
    cbn [map fst In]; try tauto; try (intros [<-|[]]; reflexivity).
  destruct (negb (a_req a) && is_coll (a_ty a) && jempty j); cbn [map fst In]; [tauto|intros [<-|[]]; reflexivity].
Qed.

Lemma jlookup_fields (bs : list attr) a p :
  NoDup (map a_name bs) -> In a bs ->
  jlookup (a_name a) (flat_map (fun a' => body_field a' p) bs) = jlookup (a_name a) (body_field a p).
Proof.
  induction bs as [|x bs IH]; intros Hn Hi; [destruct Hi|].
  cbn [map] in Hn. inversion Hn as [|? ? Hx Hn']; subst. cbn [flat_map]. rewrite jlookup_app.
  destruct Hi as [->|Hi].
  - destruct (jlookup (a_name a) (body_field a p)) eqn:E; [reflexivity|].
    apply jlookup_nokey. intro I. apply in_map_iff in I as ([k v] & Ek & I). cbn in Ek. subst k.
    apply in_flat_map in I as (a' & Ha' & I).
    assert (a_name a = a_name a') as En by (apply (body_field_keys a' p); apply in_map_iff; exists (a_name a, v); auto).
    apply Hx. rewrite En. now apply in_map.
  - rewrite (jlookup_nokey (a_name a) (body_field x p)); [now apply IH|].
    intro I. apply body_field_keys in I. apply Hx. rewrite <- I. now apply in_map.
Qed.

Lemma enc_body_nonempty e p : at_loc LBody e <> [] ->
  enc_body e p = if e_whole e
                 then match at_loc LBody e with
                      | a :: _ => match p (a_name a) with Some (AJson j) => BWhole j | _ => BNone end
                      | [] => BNone
                      end
                 else BObj (flat_map (fun a => body_field a p) (at_loc LBody e)).
Proof. unfold enc_body. destruct (at_loc LBody e); [congruence|reflexivity]. Qed.

(* ------------------------------------------------- string-keyed maps in the query *)

Lemma in_lookup_all k v q : In v (lookup_all k q) <-> In (k, v) q.
Proof.
  induction q as [|[x y] q IH]; [reflexivity|]. cbn [lookup_all In]. destruct (beq k x) eqn:E.
  - apply beq_eq in E. subst x. cbn [In]. rewrite IH. split; [intros [->|I]; auto|intros [[= ->]|I]; auto].
  - apply beq_neq in E. rewrite IH. split; [now right|intros [[= -> ->]|I]; [congruence|assumption]].
Qed.

Lemma in_group kv q : In kv (group q) <-> In kv q.
Proof.
  destruct kv as [k v]. unfold group. rewrite in_flat_map. split.
  - intros (k' & Hk & H). apply in_map_iff in H as (v' & [= <- <-] & H). now apply in_lookup_all.
  - intro H. exists k. split; [apply sorted_keys_in; apply in_map_iff; exists (k, v); auto|].
    apply in_map_iff. exists v. split; [reflexivity|now apply in_lookup_all].
Qed.

Lemma filter_flat_map_keys (P : bstr -> bool) (g : bstr -> list bstr) ks :
  filter (fun kv : bstr * bstr => P (fst kv)) (flat_map (fun k => map (fun v => (k, v)) (g k)) ks) =
  flat_map (fun k => map (fun v => (k, v)) (g k)) (filter P ks).
Proof.
  induction ks as [|k ks IH]; [reflexivity|]. cbn [flat_map filter]. rewrite filter_app, IH.
  assert (filter (fun kv : bstr * bstr => P (fst kv)) (map (fun v => (k, v)) (g k)) = if P k then map (fun v => (k, v)) (g k) else []) as ->.
  { induction (g k) as [|v vs IHv]; [destruct (P k); reflexivity|]. cbn [map filter fst]. rewrite IHv. destruct (P k); reflexivity. }
  destruct (P k); reflexivity.
Qed.

Lemma has_prefix_app pre s : has_prefix pre (pre ++ s) = true.
Proof. induction pre as [|c pre IH]; [reflexivity|]. cbn. now rewrite byte_eqb_refl. Qed.

Lemma has_prefix_split pre s : has_prefix pre s = true -> exists r, s = pre ++ r.
Proof.
  revert s. induction pre as [|c pre IH]; intros s H; [exists s; reflexivity|].
  destruct s as [|d s]; [discriminate|]. cbn in H. apply andb_true_iff in H as [E H].
  apply byte_eqb_eq in E. subst d. destruct (IH s H) as (r & ->). exists r. reflexivity.
Qed.

Lemma take_until_app c w r : ~ In c w -> take_until c (w ++ c :: r) = w.
Proof.
  induction w as [|x w IH]; intro H; cbn [app take_until]; [now rewrite byte_eqb_refl|].
  destruct (Byte.eqb x c) eqn:E; [apply byte_eqb_eq in E; subst; exfalso; apply H; now left|].
  f_equal. apply IH. intro I. apply H. now right.
Qed.

Lemma drop_until_app c w r : ~ In c w -> drop_until c (w ++ c :: r) = r.
Proof.
  induction w as [|x w IH]; intro H; cbn [app drop_until]; [now rewrite byte_eqb_refl|].
  destruct (Byte.eqb x c) eqn:E; [apply byte_eqb_eq in E; subst; exfalso; apply H; now left|].
  apply IH. intro I. apply H. now right.
Qed.

Definition full_key (w k : bstr) : bstr := w ++ lbrack :: k ++ [rbrack].

Lemma sub_key_full w k : ~ In lbrack w -> ~ In rbrack k -> sub_key (full_key w k) = k.
Proof. intros Hw Hk. unfold sub_key, full_key. rewrite drop_until_app by assumption. now apply take_until_app. Qed.

Lemma full_key_inj w k k' : full_key w k = full_key w k' -> k = k'.
Proof.
  unfold full_key. intro E. apply app_inv_head in E. injection E as E. now apply app_inv_tail in E.
Qed.

Lemma first_of_each_nodup seen l :
  NoDup (map fst l) -> (forall k, In k seen -> ~ In k (map fst l)) -> first_of_each seen l = l.
Proof.
  revert seen. induction l as [|[k v] l IH]; intros seen Hn Hs; [reflexivity|].
  cbn [map fst] in Hn. inversion Hn as [|? ? Hk Hn']; subst. cbn [first_of_each].
  destruct (mem k seen) eqn:E.
  - apply mem_In in E. exfalso. apply (Hs k E). now left.
  - f_equal. apply IH; [assumption|]. intros k' [<-|I]; [assumption|]. intro J. apply (Hs k' I). now right.
Qed.

Lemma dec_map_entries_perm t l l' : Permutation l l' ->
  forall m, dec_map_entries t l = Some m -> exists m', dec_map_entries t l' = Some m' /\ Permutation m m'.
Proof.
  induction 1 as [|[k v] l l' Hp IH|[k v] [k' v'] l|l l' l'' H1 IH1 H2 IH2]; intros m Hm.
  - exists m. split; [assumption|apply Permutation_refl].
  - cbn [dec_map_entries] in *. destruct (parse_prim t v) as [x|]; [|discriminate].
    destruct (dec_map_entries t l) as [xs|] eqn:E; [|discriminate]. injection Hm as <-.
    destruct (IH xs eq_refl) as (m' & -> & Hp'). eexists. split; [reflexivity|now constructor].
  - cbn [dec_map_entries] in *. destruct (parse_prim t v') as [x'|]; [|discriminate].
    destruct (parse_prim t v) as [x|]; [|destruct (dec_map_entries t l); discriminate].
    destruct (dec_map_entries t l) as [xs|]; [|discriminate]. injection Hm as <-.
    eexists. split; [reflexivity|apply perm_swap].
  - destruct (IH1 m Hm) as (m1 & Hm1 & P1). destruct (IH2 m1 Hm1) as (m2 & Hm2 & P2).
    exists m2. split; [assumption|eapply Permutation_trans; eauto].
Qed.

Lemma get_first_cons k v l : get_first k ((k, v) :: l) = v.
Proof. unfold get_first. cbn [lookup_all]. now rewrite beq_refl. Qed.

Lemma keyed_self (C : kvs) : NoDup (map fst C) -> C = map (fun k => (k, get_first k C)) (map fst C).
Proof.
  induction C as [|[k v] C IH]; intro H; [reflexivity|]. cbn [map fst] in *. inversion H as [|? ? Hk Hn]; subst.
  rewrite get_first_cons. f_equal. rewrite (IH Hn) at 1. apply map_ext_in. intros k' Hk'.
  unfold get_first. cbn [lookup_all]. destruct (beq k' k) eqn:E; [apply beq_eq in E; subst; contradiction|reflexivity].
Qed.

Lemma lookup_all_single (C : kvs) k : NoDup (map fst C) -> In k (map fst C) -> lookup_all k C = [get_first k C].
Proof.
  induction C as [|[x v] C IH]; intros Hn Hi; [destruct Hi|]. cbn [map fst] in *. inversion Hn as [|? ? Hx Hn']; subst.
  unfold get_first. cbn [lookup_all]. destruct (beq k x) eqn:E.
  - apply beq_eq in E. subst x. rewrite (lookup_all_none k C Hx). reflexivity.
  - apply beq_neq in E. destruct Hi as [->|Hi]; [congruence|]. now apply IH.
Qed.

(* ------------------------------------------------------- the round trip proper *)

Section RoundTrip.
  Variable e : ep.
  Variable p : payload.
  Hypothesis Hwf : wf_ep e.
  Hypothesis Hvalid : valid e p.
  Hypothesis Hsafe : wire_safe e p.

  Lemma attrs_nodup : NoDup (e_attrs e).
  Proof. apply (NoDup_map_inv a_name). apply (wf_names e Hwf). Qed.

  Lemma at_loc_nodup l : NoDup (at_loc l e).
  Proof. unfold at_loc. apply nodup_filter, attrs_nodup. Qed.

  Lemma at_loc_names_nodup l : NoDup (map a_name (at_loc l e)).
  Proof.
    unfold at_loc. pose proof (wf_names e Hwf) as H. induction (e_attrs e) as [|x l' IH]; [constructor|].
    cbn [map] in H. inversion H as [|? ? Hx Hn]; subst. cbn [filter].
    destruct (loc_eqb (a_loc x) l); [|auto]. cbn [map]. constructor; [|auto].
    intro I. apply Hx. apply in_map_iff in I as (y & E & I). apply filter_In in I as [I _]. rewrite <- E. now apply in_map.
  Qed.

  (* ---- body ---- *)
  Lemma body_roundtrip a : In a (e_attrs e) -> a_loc a = LBody ->
    dres_equiv (dec_body a (e_whole e) (enc_body e p)) (expected a p).
  Proof.
    intros Hin Hloc.
    assert (In a (at_loc LBody e)) as Hat by (apply in_at_loc; auto).
    destruct (wf_attrs e Hwf a Hin) as (_ & Hdef & Hty). rewrite Hloc in Hty.
    destruct (a_ty a) eqn:Ety; try contradiction.
    pose proof (Hvalid a Hin) as Hv. pose proof (Hsafe a Hin) as Hs. unfold expected.
    rewrite enc_body_nonempty by (intro E0; rewrite E0 in Hat; destruct Hat).
    destruct (e_whole e) eqn:Ew.
    - (* the payload is the body *)
      destruct (wf_whole e Hwf Ew) as (a0 & Ea). rewrite Ea in Hin. destruct Hin as [<-|[]].
      assert (at_loc LBody e = [a0]) as Eat.
      { unfold at_loc. rewrite Ea. cbn [filter]. rewrite Hloc. reflexivity. }
      rewrite Eat. destruct (p (a_name a0)) as [v|] eqn:Ep.
      + destruct Hv as [Hok _]. try rewrite Ety in Hok. destruct v; try discriminate. cbn. reflexivity.
      + cbn [dec_body]. unfold absent. rewrite Hv. destruct (a_def a0); cbn; auto using aval_equiv_refl.
    - cbn [dec_body]. rewrite jlookup_fields by (auto using at_loc_names_nodup).
      unfold body_field, absent. destruct (p (a_name a)) as [v|] eqn:Ep.
      + destruct Hv as [Hok _]. try rewrite Ety in Hok. destruct v as [| | |j]; try discriminate.
        cbn in Hs. destruct Hs as [Hz He].
        destruct (a_def a) as [d|] eqn:Ed.
        * try rewrite Ety in Hdef. destruct d as [| | |dj]; try discriminate.
          rewrite (Hz ltac:(discriminate)). cbn [jlookup]. rewrite beq_refl. cbn. reflexivity.
        * destruct (a_req a) eqn:Er; cbn [negb andb].
          -- cbn [jlookup]. rewrite beq_refl. cbn. reflexivity.
          -- rewrite Ety in He |- *. destruct coll; cbn [is_coll andb] in *.
             ++ rewrite (He eq_refl eq_refl). cbn [jlookup]. rewrite beq_refl. cbn. reflexivity.
             ++ cbn [jlookup]. rewrite beq_refl. cbn. reflexivity.
      + rewrite Hv. destruct (a_def a) as [d|] eqn:Ed.
        * try rewrite Ety in Hdef. destruct d as [| | |dj]; try discriminate.
          cbn [jlookup]. rewrite beq_refl. cbn. reflexivity.
        * cbn. exact I.
  Qed.


  (* ---- a primitive travelling as one text ---- *)

  (* the text the client writes for a primitive attribute outside the body *)
  Definition raw_of (a : attr) : bstr :=
    match client_view a p with Some (APrim x) => fmt_prim x | _ => [] end.

  Lemma fmt_nonempty t x : prim_ok t x = true -> (forall s, x = VStr s -> s <> []) -> fmt_prim x <> [].
  Proof.
    intros Hok Hs. destruct x as [b|z|k|s].
    - apply (fmt_token (VBool b)). intros s' E. discriminate.
    - apply (fmt_token (VInt z)). intros s' E. discriminate.
    - apply (fmt_token (VFloat k)). intros s' E. discriminate.
    - cbn [fmt_prim]. now apply Hs.
  Qed.

  Lemma dec_single_ok a t : In a (e_attrs e) -> a_ty a = TyPrim t -> a_loc a <> LBody -> a_loc a <> LPath ->
    dres_equiv (dec_single a t (raw_of a)) (expected a p).
  Proof.
    intros Hin Ety Hnb Hnp. pose proof (Hvalid a Hin) as Hv. pose proof (Hsafe a Hin) as Hs.
    unfold raw_of, expected, client_view, dec_single. rewrite Ety.
    destruct (p (a_name a)) as [v|] eqn:Ep.
    - destruct Hv as [Hok _]. rewrite Ety in Hok. destruct v as [x| | |]; try discriminate. cbn [aval_ok] in Hok.
      assert (fmt_prim x <> []) as Hne.
      { apply (fmt_nonempty t x Hok). intros s -> ->. cbn in Hs. destruct (a_loc a); cbn in Hs; try tauto; congruence. }
      apply is_nil_false in Hne. rewrite Hne, (parse_fmt t x Hok). cbn. reflexivity.
    - unfold by_value. rewrite Hv. cbn [orb]. cbn in Hs. rewrite Ety in Hs. unfold absent. rewrite Hv.
      destruct (a_def a) as [d|] eqn:Ed.
      + assert (is_str t = true) as Hstr by (destruct (a_loc a); try congruence; exact Hs).
        destruct t; try discriminate. cbn. apply aval_equiv_refl.
      + cbn. exact I.
  Qed.

  Lemma dec_list_ok a t : In a (e_attrs e) -> a_ty a = TyArr t ->
    dres_equiv (dec_list a t (match p (a_name a) with Some (AArr es) => map fmt_prim es | _ => [] end)) (expected a p).
  Proof.
    intros Hin Ety. pose proof (Hvalid a Hin) as Hv. pose proof (Hsafe a Hin) as Hs. unfold expected, dec_list.
    destruct (p (a_name a)) as [v|] eqn:Ep.
    - destruct Hv as [Hok _]. rewrite Ety in Hok. destruct v as [|es| |]; try discriminate. cbn [aval_ok] in Hok.
      cbn in Hs. destruct Hs as (Hne & _). destruct es as [|x es]; [congruence|]. cbn [map].
      change (fmt_prim x :: map fmt_prim es) with (map fmt_prim (x :: es)). rewrite (parse_all_fmt t _ Hok). cbn. reflexivity.
    - unfold absent. rewrite Hv. destruct (a_def a); cbn; auto using aval_equiv_refl.
  Qed.


  (* ---- shapes of the encoded values ---- *)

  Lemma client_view_prim a t v : In a (e_attrs e) -> a_ty a = TyPrim t -> client_view a p = Some v -> exists x, v = APrim x.
  Proof.
    intros Hin Ety Hc. destruct (client_view_typed a p v Hc) as [Hp|(_ & t' & _ & _ & ->)]; [|eauto].
    pose proof (Hvalid a Hin) as Hv. rewrite Hp, Ety in Hv. destruct Hv as [Hok _]. destruct v; try discriminate. eauto.
  Qed.

  Lemma client_view_arr a t : In a (e_attrs e) -> a_ty a = TyArr t ->
    client_view a p = match p (a_name a) with Some (AArr es) => Some (AArr es) | _ => None end.
  Proof.
    intros Hin Ety. unfold client_view. rewrite Ety. pose proof (Hvalid a Hin) as Hv.
    destruct (p (a_name a)) as [v|]; [|reflexivity]. rewrite Ety in Hv. destruct Hv as [Hok _]. destruct v; try discriminate. reflexivity.
  Qed.

  Lemma contrib_prim a t : In a (e_attrs e) -> a_ty a = TyPrim t ->
    contrib p a = match client_view a p with Some (APrim x) => [(a_wire a, fmt_prim x)] | _ => [] end.
  Proof.
    intros Hin Ety. unfold contrib. destruct (client_view a p) as [v|] eqn:Ec; [|reflexivity].
    destruct (client_view_prim a t v Hin Ety Ec) as (x & ->). reflexivity.
  Qed.

  Lemma contrib_arr a t : In a (e_attrs e) -> a_ty a = TyArr t ->
    contrib p a = match p (a_name a) with Some (AArr es) => map (fun x => (a_wire a, fmt_prim x)) es | _ => [] end.
  Proof.
    intros Hin Ety. unfold contrib. rewrite (client_view_arr a t Hin Ety).
    destruct (p (a_name a)) as [[| | |]|]; reflexivity.
  Qed.

  (* the keys an attribute writes never collide with the wire name of another attribute *)
  Lemma contrib_plain_keys a : In a (e_attrs e) -> (match a_ty a with TyPrim _ | TyArr _ => True | _ => False end) ->
    forall kv, In kv (contrib p a) -> fst kv = a_wire a.
  Proof.
    intros Hin Hty kv. destruct (a_ty a) as [t|t| |] eqn:Ety; try contradiction.
    - rewrite (contrib_prim a t Hin Ety). destruct (client_view a p) as [[x| | |]|]; cbn; try tauto. intros [<-|[]]. reflexivity.
    - rewrite (contrib_arr a t Hin Ety). destruct (p (a_name a)) as [[|es| |]|]; cbn [In]; try tauto.
      intro H. apply in_map_iff in H as (x & <- & _). reflexivity.
  Qed.

  (* ---- query string ---- *)

  Lemma query_wire_inj a a' : In a (at_loc LQuery e) -> In a' (at_loc LQuery e) -> a_wire a = a_wire a' -> a = a'.
  Proof. intros Ha Ha' E. destruct (wf_query e Hwf) as [Hn _]. exact (nodup_map_inj a_wire _ a a' Hn Ha Ha' E). Qed.

  Lemma query_wire_nobrack a : In a (at_loc LQuery e) -> ~ In lbrack (a_wire a).
  Proof. intro Ha. destruct (wf_query e Hwf) as [_ Hb]. apply Hb. unfold wires_at. now apply in_map. Qed.

  Lemma query_other_keys a a' : In a (at_loc LQuery e) -> In a' (at_loc LQuery e) -> a' <> a ->
    forall kv, In kv (contrib p a') -> fst kv <> a_wire a.
  Proof.
    intros Ha Ha' Hne kv Hkv E. unfold contrib in Hkv. destruct (client_view a' p) as [v|]; [|destruct Hkv].
    destruct v as [x|es|l|j].
    - rewrite (kv_of_keys_plain a' (APrim x) kv I Hkv) in E. apply Hne. now apply query_wire_inj.
    - rewrite (kv_of_keys_plain a' (AArr es) kv I Hkv) in E. apply Hne. now apply query_wire_inj.
    - destruct (kv_of_keys_map a' l kv Hkv) as (kx & _ & Ek). rewrite Ek in E.
      apply (query_wire_nobrack a Ha). rewrite <- E. apply in_or_app. right. now left.
    - destruct Hkv.
  Qed.

  Lemma query_lookup a : In a (at_loc LQuery e) ->
    lookup_all (a_wire a) (enc_kvs LQuery e p) = lookup_all (a_wire a) (contrib p a).
  Proof.
    intro Ha. rewrite enc_kvs_contrib, lookup_all_flat_map.
    apply (flat_map_isolated (fun a' => lookup_all (a_wire a) (contrib p a'))); [apply at_loc_nodup|assumption|].
    intros a' Ha' Hne. apply lookup_all_nokey. now apply query_other_keys.
  Qed.

  Lemma query_prim a t : In a (e_attrs e) -> a_loc a = LQuery -> a_ty a = TyPrim t ->
    get_first (a_wire a) (parse_query (encode_values (enc_kvs LQuery e p))) = raw_of a.
  Proof.
    intros Hin Hloc Ety. assert (In a (at_loc LQuery e)) as Ha by (apply in_at_loc; auto).
    unfold get_first. rewrite query_roundtrip, (query_lookup a Ha), (contrib_prim a t Hin Ety). unfold raw_of.
    destruct (client_view a p) as [[x| | |]|]; try reflexivity. cbn [lookup_all]. now rewrite beq_refl.
  Qed.

  Lemma query_arr a t : In a (e_attrs e) -> a_loc a = LQuery -> a_ty a = TyArr t ->
    lookup_all (a_wire a) (parse_query (encode_values (enc_kvs LQuery e p))) =
    match p (a_name a) with Some (AArr es) => map fmt_prim es | _ => [] end.
  Proof.
    intros Hin Hloc Ety. assert (In a (at_loc LQuery e)) as Ha by (apply in_at_loc; auto).
    rewrite query_roundtrip, (query_lookup a Ha), (contrib_arr a t Hin Ety).
    destruct (p (a_name a)) as [[|es| |]|]; try reflexivity.
    rewrite lookup_all_keys by (intros kv H; apply in_map_iff in H as (x & <- & _); reflexivity).
    rewrite map_map. reflexivity.
  Qed.


  (* ---- headers ---- *)

  Definition ct (kv : bstr * bstr) : bstr * bstr := (canon (fst kv), trim (snd kv)).

  Lemma map_flat_map {A B C} (f : B -> C) (g : A -> list B) l : map f (flat_map g l) = flat_map (fun x => map f (g x)) l.
  Proof. induction l as [|x l IH]; [reflexivity|]. cbn [flat_map]. now rewrite map_app, IH. Qed.

  Lemma prim_text_cases x : (exists s, x = VStr s) \/ forallb token_byte (fmt_prim x) = true.
  Proof.
    destruct x as [b|z|k|s]; [right|right|right|left; eauto].
    - apply (fmt_token (VBool b)). intros s' E. discriminate.
    - apply (fmt_token (VInt z)). intros s' E. discriminate.
    - apply (fmt_token (VFloat k)). intros s' E. discriminate.
  Qed.

  Lemma header_attr_ty a : In a (e_attrs e) -> a_loc a = LHeader -> match a_ty a with TyPrim _ | TyArr _ => True | _ => False end.
  Proof. intros Hin Hloc. destruct (wf_attrs e Hwf a Hin) as (_ & _ & H). rewrite Hloc in H. destruct (a_ty a); tauto. Qed.

  (* every text written in the header channel is a valid header value and is not trimmed *)
  Lemma header_texts a kv : In a (e_attrs e) -> a_loc a = LHeader -> In kv (contrib p a) ->
    header_value_ok (snd kv) = true /\ trim (snd kv) = snd kv.
  Proof.
    intros Hin Hloc Hkv. pose proof (header_attr_ty a Hin Hloc) as Hty.
    pose proof (Hvalid a Hin) as Hv. pose proof (Hsafe a Hin) as Hs.
    destruct (a_ty a) as [t|t| |] eqn:Ety; try contradiction.
    - rewrite (contrib_prim a t Hin Ety) in Hkv. destruct (client_view a p) as [v|] eqn:Ec; [|destruct Hkv].
      destruct v as [x| | |]; [|destruct Hkv..]. destruct Hkv as [<-|[]]. cbn [snd].
      destruct (prim_text_cases x) as [(s & ->)|Htok]; [|split; [now apply token_header_ok|now apply token_trim]].
      cbn [fmt_prim]. destruct (client_view_typed a p _ Ec) as [Hp|(_ & t' & Et' & _ & Ez)].
      + rewrite Hp in Hs. cbn in Hs. rewrite Hloc in Hs. cbn in Hs. tauto.
      + rewrite Ety in Et'. injection Et' as <-. destruct t; try discriminate. injection Ez as ->. split; reflexivity.
    - rewrite (contrib_arr a t Hin Ety) in Hkv. destruct (p (a_name a)) as [[|es| |]|] eqn:Ep; [destruct Hkv| |destruct Hkv..].
      apply in_map_iff in Hkv as (x & <- & Hx). cbn [snd]. cbn in Hs. destruct Hs as (_ & Hel & _). specialize (Hel x Hx).
      destruct (prim_text_cases x) as [(s & ->)|Htok]; [|split; [now apply token_header_ok|now apply token_trim]].
      cbn in Hel. rewrite Hloc in Hel. cbn [fmt_prim]. tauto.
  Qed.

  Lemma headers_sendable : forallb (fun kv => header_value_ok (snd kv)) (enc_kvs LHeader e p) = true.
  Proof.
    apply forallb_forall. intros kv H. rewrite enc_kvs_contrib in H. apply in_flat_map in H as (a & Ha & H).
    apply in_at_loc in Ha as [Hin Hloc]. exact (proj1 (header_texts a kv Hin Hloc H)).
  Qed.

  Lemma header_wire_inj a a' : In a (at_loc LHeader e) -> In a' (at_loc LHeader e) -> canon (a_wire a) = canon (a_wire a') -> a = a'.
  Proof.
    intros Ha Ha' E. pose proof (wf_headers e Hwf) as Hn. unfold wires_at in Hn. rewrite map_map in Hn.
    exact (nodup_map_inj (fun x => canon (a_wire x)) _ a a' Hn Ha Ha' E).
  Qed.

  Lemma header_lookup a : In a (e_attrs e) -> a_loc a = LHeader ->
    lookup_all (canon (a_wire a)) (map ct (enc_kvs LHeader e p)) = map snd (contrib p a).
  Proof.
    intros Hin Hloc. assert (In a (at_loc LHeader e)) as Ha by (apply in_at_loc; auto).
    rewrite enc_kvs_contrib, map_flat_map, lookup_all_flat_map.
    rewrite (flat_map_isolated (fun a' => lookup_all (canon (a_wire a)) (map ct (contrib p a'))) _ a); [|apply at_loc_nodup|assumption|].
    - rewrite lookup_all_keys.
      + rewrite map_map. apply map_ext_in. intros kv Hkv. cbn. exact (proj2 (header_texts a kv Hin Hloc Hkv)).
      + intros kv H. apply in_map_iff in H as (kv0 & <- & H0). cbn. f_equal.
        apply (contrib_plain_keys a Hin (header_attr_ty a Hin Hloc) kv0 H0).
    - intros a' Ha' Hne. apply lookup_all_nokey. intros kv H E. apply in_map_iff in H as (kv0 & <- & H0). cbn in E.
      apply in_at_loc in Ha' as [Hin' Hloc'].
      rewrite (contrib_plain_keys a' Hin' (header_attr_ty a' Hin' Hloc') kv0 H0) in E.
      apply Hne. apply header_wire_inj; try (apply in_at_loc; auto). now symmetry.
  Qed.

  Lemma header_prim a t : In a (e_attrs e) -> a_loc a = LHeader -> a_ty a = TyPrim t ->
    get_first (canon (a_wire a)) (map ct (enc_kvs LHeader e p)) = raw_of a.
  Proof.
    intros Hin Hloc Ety. unfold get_first. rewrite (header_lookup a Hin Hloc), (contrib_prim a t Hin Ety). unfold raw_of.
    destruct (client_view a p) as [[x| | |]|]; reflexivity.
  Qed.

  Lemma header_arr a t : In a (e_attrs e) -> a_loc a = LHeader -> a_ty a = TyArr t ->
    lookup_all (canon (a_wire a)) (map ct (enc_kvs LHeader e p)) =
    match p (a_name a) with Some (AArr es) => map fmt_prim es | _ => [] end.
  Proof.
    intros Hin Hloc Ety. rewrite (header_lookup a Hin Hloc), (contrib_arr a t Hin Ety).
    destruct (p (a_name a)) as [[|es| |]|]; try reflexivity. rewrite map_map. reflexivity.
  Qed.

  (* ---- cookies ---- *)

  Lemma cookie_attr_ty a : In a (e_attrs e) -> a_loc a = LCookie -> exists t, a_ty a = TyPrim t.
  Proof. intros Hin Hloc. destruct (wf_attrs e Hwf a Hin) as (_ & _ & H). rewrite Hloc in H. destruct (a_ty a); try tauto. eauto. Qed.

  Lemma cookie_texts a kv : In a (e_attrs e) -> a_loc a = LCookie -> In kv (contrib p a) ->
    forallb cookie_byte_ok (snd kv) = true.
  Proof.
    intros Hin Hloc Hkv. destruct (cookie_attr_ty a Hin Hloc) as (t & Ety).
    pose proof (Hsafe a Hin) as Hs.
    rewrite (contrib_prim a t Hin Ety) in Hkv. destruct (client_view a p) as [v|] eqn:Ec; [|destruct Hkv].
    destruct v as [x| | |]; [|destruct Hkv..]. destruct Hkv as [<-|[]]. cbn [snd].
    destruct (prim_text_cases x) as [(s & ->)|Htok]; [|now apply token_cookie_ok].
    cbn [fmt_prim]. destruct (client_view_typed a p _ Ec) as [Hp|(_ & t' & Et' & _ & Ez)].
    - rewrite Hp in Hs. cbn in Hs. rewrite Hloc in Hs. cbn in Hs. tauto.
    - rewrite Ety in Et'. injection Et' as <-. destruct t; try discriminate. injection Ez as ->. reflexivity.
  Qed.

  Lemma cookie_unwire_wire v : forallb cookie_byte_ok v = true -> cookie_unwire (cookie_wire v) = Some v.
  Proof.
    intro H. unfold cookie_wire, sanitize_cookie.
    assert (filter cookie_byte_ok v = v) as -> .
    { clear -H. induction v as [|c v IH]; [reflexivity|]. cbn [forallb] in H. apply andb_true_iff in H as [Hc Hv].
      cbn [filter]. rewrite Hc. f_equal. auto. }
    destruct (memb space v || memb comma v).
    - unfold cookie_unwire. rewrite byte_eqb_refl, rev_app_distr. cbn [rev app]. rewrite byte_eqb_refl, rev_involutive, H. reflexivity.
    - unfold cookie_unwire. destruct v as [|c r]; [reflexivity|].
      replace (Byte.eqb c dquote) with false; [now rewrite H|].
      symmetry. apply byte_eqb_neq. intros ->. cbn in H. discriminate.
  Qed.

  Definition cw (kv : bstr * bstr) : bstr * bstr := (fst kv, cookie_wire (snd kv)).

  Lemma cookies_through :
    flat_opt (map (fun kv => option_map (pair (fst kv)) (cookie_unwire (snd kv))) (map cw (enc_kvs LCookie e p))) = enc_kvs LCookie e p.
  Proof.
    assert (forall kv, In kv (enc_kvs LCookie e p) -> forallb cookie_byte_ok (snd kv) = true) as H.
    { intros kv H. rewrite enc_kvs_contrib in H. apply in_flat_map in H as (a & Ha & H). apply in_at_loc in Ha as [Hin Hloc].
      exact (cookie_texts a kv Hin Hloc H). }
    induction (enc_kvs LCookie e p) as [|[k v] l IH]; [reflexivity|]. cbn [map flat_opt flat_map cw fst snd].
    rewrite (cookie_unwire_wire v (H (k, v) (or_introl eq_refl))). cbn [option_map app]. f_equal.
    apply IH. intros kv I. apply H. now right.
  Qed.

  Lemma cookie_wire_inj a a' : In a (at_loc LCookie e) -> In a' (at_loc LCookie e) -> a_wire a = a_wire a' -> a = a'.
  Proof. intros Ha Ha' E. exact (nodup_map_inj a_wire _ a a' (wf_cookies e Hwf) Ha Ha' E). Qed.

  Lemma cookie_lookup a : In a (e_attrs e) -> a_loc a = LCookie ->
    lookup_all (a_wire a) (enc_kvs LCookie e p) = map snd (contrib p a).
  Proof.
    intros Hin Hloc. assert (In a (at_loc LCookie e)) as Ha by (apply in_at_loc; auto).
    destruct (cookie_attr_ty a Hin Hloc) as (t & Ety).
    rewrite enc_kvs_contrib, lookup_all_flat_map.
    rewrite (flat_map_isolated (fun a' => lookup_all (a_wire a) (contrib p a')) _ a); [|apply at_loc_nodup|assumption|].
    - apply lookup_all_keys. apply (contrib_plain_keys a Hin). now rewrite Ety.
    - intros a' Ha' Hne. apply lookup_all_nokey. intros kv H E.
      pose proof Ha' as Ha2. apply in_at_loc in Ha2 as [Hin' Hloc']. destruct (cookie_attr_ty a' Hin' Hloc') as (t' & Ety').
      rewrite (contrib_plain_keys a' Hin' ltac:(now rewrite Ety') kv H) in E.
      apply Hne. now apply cookie_wire_inj.
  Qed.


  (* ---- path ---- *)

  Lemma path_attr a : In a (e_attrs e) -> a_loc a = LPath ->
    exists v, p (a_name a) = Some v /\ client_view a p = Some v /\ aval_ok (a_ty a) v = true /\
              match a_ty a with TyPrim _ | TyArr _ => True | _ => False end.
  Proof.
    intros Hin Hloc. destruct (wf_attrs e Hwf a Hin) as (_ & _ & H). rewrite Hloc in H.
    pose proof (Hvalid a Hin) as Hv. unfold client_view.
    destruct (a_ty a) as [t|t| |] eqn:Ety; try contradiction; destruct H as [Hreq _];
      (destruct (p (a_name a)) as [v|]; [|congruence]); exists v; destruct Hv as [Hok _]; auto.
  Qed.

  Lemma attr_by_wire_path a : In a (e_attrs e) -> a_loc a = LPath -> attr_by_wire LPath (a_wire a) e = Some a.
  Proof.
    intros Hin Hloc. unfold attr_by_wire. apply find_some_unique; [assumption|now rewrite Hloc, beq_refl|].
    intros y Hy Hf. apply andb_true_iff in Hf as [Hl Hw]. apply loc_eqb_eq in Hl. apply beq_eq in Hw.
    destruct (wf_path e Hwf) as [Hn _].
    apply (nodup_map_inj a_wire (filter (fun a => loc_eqb (a_loc a) LPath) (e_attrs e)) y a Hn);
      try (apply filter_In; split; [assumption|now apply loc_eqb_eq]). assumption.
  Qed.

  Lemma route_var_attr w : In w (route_vars (e_route e)) -> exists a, In a (e_attrs e) /\ a_loc a = LPath /\ a_wire a = w.
  Proof.
    intro H. destruct (wf_path e Hwf) as [_ Hiff]. apply Hiff in H. unfold wires_at in H.
    apply in_map_iff in H as (a & E & H). apply filter_In in H as [Hin Hl]. apply loc_eqb_eq in Hl. eauto.
  Qed.

  Lemma seg_text_var a v : In a (e_attrs e) -> a_loc a = LPath -> client_view a p = Some v ->
    seg_text e p (RVar (a_wire a)) = path_text v.
  Proof. intros Hin Hloc Hc. cbn [seg_text]. now rewrite (attr_by_wire_path a Hin Hloc), Hc. Qed.

  Definition elem_text (x : pval) : bstr := match x with VStr s => escape Query s | _ => fmt_prim x end.

  Lemma elem_text_noslash x : ~ In slash (elem_text x).
  Proof.
    destruct (prim_text_cases x) as [(s & ->)|Htok].
    - cbn. intro I. destruct (escape_query_clean _ _ I) as (_ & _ & _ & _ & A). congruence.
    - destruct x; try (now apply token_noslash). cbn. intro I. destruct (escape_query_clean _ _ I) as (_ & _ & _ & _ & A). congruence.
  Qed.

  Lemma path_text_ok a v : In a (e_attrs e) -> a_loc a = LPath -> p (a_name a) = Some v -> aval_ok (a_ty a) v = true ->
    (match a_ty a with TyPrim _ | TyArr _ => True | _ => False end) ->
    path_text v <> [] /\ ~ In slash (path_text v).
  Proof.
    intros Hin Hloc Hp Hok Hty. pose proof (Hsafe a Hin) as Hs. rewrite Hp in Hs.
    destruct (a_ty a) as [t|t| |]; try contradiction; destruct v as [x|es| |]; try discriminate.
    - cbn [path_text]. destruct (prim_text_cases x) as [(s & ->)|Htok].
      + cbn in Hs. rewrite Hloc in Hs. cbn in Hs. cbn. tauto.
      + split; [|now apply token_noslash]. destruct x; try (apply fmt_token; intros s' E; discriminate).
        cbn in Hs. rewrite Hloc in Hs. cbn in Hs. cbn. tauto.
    - cbn in Hs. destruct Hs as (_ & _ & Hne). split; [now apply Hne|].
      cbn [path_text]. intro I. apply in_join in I as [I|(x & Hx & I)].
      + destruct I as [E|[]]. discriminate.
      + apply in_map_iff in Hx as (y & <- & _). exact (elem_text_noslash y I).
  Qed.

  Lemma unescape_join_comma (f g : pval -> bstr) l :
    (forall x, In x l -> unescape PathSeg (f x) = Some (g x)) ->
    unescape PathSeg (join_on comma_s (map f l)) = Some (join_on comma_s (map g l)).
  Proof.
    induction l as [|x l IH]; intro H; [reflexivity|]. cbn [map join_on].
    destruct l as [|y l'].
    - cbn [map]. apply H. now left.
    - cbn [map] in *. apply unescape_app; [apply H; now left|].
      apply (unescape_app PathSeg comma_s _ comma_s); [reflexivity|].
      apply IH. intros z Hz. apply H. now right.
  Qed.

  Definition decoded_text (v : aval) : bstr :=
    match v with APrim x => fmt_prim x | AArr es => join_on comma_s (map fmt_prim es) | _ => [] end.

  Lemma path_text_decodes a v : In a (e_attrs e) -> a_loc a = LPath -> p (a_name a) = Some v ->
    (match v with APrim _ | AArr _ => True | _ => False end) ->
    unescape_or_id (path_text v) = decoded_text v.
  Proof.
    intros Hin Hloc Hp Hshape. pose proof (Hsafe a Hin) as Hs. rewrite Hp in Hs.
    destruct v as [x|es| |]; try contradiction.
    - cbn [path_text decoded_text]. destruct (prim_text_cases x) as [(s & ->)|Htok].
      + cbn in Hs. rewrite Hloc in Hs. cbn in Hs. cbn. tauto.
      + apply unescape_or_id_nopct. now apply token_nopct.
    - cbn in Hs. destruct Hs as (_ & Hel & _). cbn [path_text decoded_text].
      unfold unescape_or_id. change (fun e0 : pval => match e0 with VStr s => escape Query s | _ => fmt_prim e0 end) with elem_text.
      rewrite (unescape_join_comma elem_text fmt_prim); [reflexivity|].
      intros x Hx. specialize (Hel x Hx). destruct (prim_text_cases x) as [(s & ->)|Htok].
      + cbn in Hel. rewrite Hloc in Hel. cbn. unfold unescape. rewrite feed_query_as_path by tauto. reflexivity.
      + destruct x; try (apply unescape_nopct; now apply token_nopct).
        cbn in Hel. rewrite Hloc in Hel. cbn. unfold unescape. rewrite feed_query_as_path by tauto. reflexivity.
  Qed.

  Fixpoint var_texts (r : list rseg) : kvs :=
    match r with
    | [] => []
    | RLit _ :: t => var_texts t
    | RVar w :: t => (w, seg_text e p (RVar w)) :: var_texts t
    end.

  Lemma matches_texts r : (forall w, In (RVar w) r -> seg_text e p (RVar w) <> []) ->
    matches r (map (seg_text e p) r) = Some (var_texts r).
  Proof.
    induction r as [|sg r IH]; intro H; [reflexivity|]. cbn [map].
    destruct sg as [s|w].
    - cbn [matches seg_text var_texts]. rewrite beq_refl. apply IH. intros w I. apply H. now right.
    - cbn [matches var_texts]. pose proof (H w (or_introl eq_refl)) as Hne. apply is_nil_false in Hne. rewrite Hne. cbn [andb].
      rewrite IH; [reflexivity|]. intros w' I. apply H. now right.
  Qed.

  Definition uq (kv : bstr * bstr) : bstr * bstr := (fst kv, unescape_or_id (snd kv)).

  Lemma get_first_var_texts r w : In w (route_vars r) ->
    get_first w (map uq (var_texts r)) = unescape_or_id (seg_text e p (RVar w)).
  Proof.
    induction r as [|sg r IH]; intro H; [destruct H|]. destruct sg as [s|w'].
    - cbn [var_texts]. apply IH. exact H.
    - cbn [var_texts map]. unfold get_first. cbn [uq fst snd lookup_all]. destruct (beq w w') eqn:E.
      + apply beq_eq in E. now subst.
      + apply beq_neq in E. cbn [route_vars] in H. destruct H as [->|H]; [congruence|]. now apply IH.
  Qed.

  Lemma in_route_vars r w : In (RVar w) r <-> In w (route_vars r).
  Proof.
    induction r as [|sg r IH]; [reflexivity|]. destruct sg as [s|w']; cbn [route_vars In].
    - rewrite <- IH. split; [intros [E|I]; [discriminate|assumption]|now right].
    - rewrite <- IH. split; [intros [E|I]; [injection E as ->; now left|now right]|intros [->|I]; [now left|now right]].
  Qed.

  Lemma var_text_ok w : In w (route_vars (e_route e)) ->
    seg_text e p (RVar w) <> [] /\ ~ In slash (seg_text e p (RVar w)).
  Proof.
    intro H. destruct (route_var_attr w H) as (a & Hin & Hloc & <-).
    destruct (path_attr a Hin Hloc) as (v & Hp & Hc & Hok & Hty).
    rewrite (seg_text_var a v Hin Hloc Hc). now apply (path_text_ok a v).
  Qed.

  Lemma server_vars_ok :
    server_vars (e_route e) (wire_path (path_of e p)) = Some (map uq (var_texts (e_route e))).
  Proof.
    unfold server_vars, wire_path, path_of. rewrite set_path_escaped. unfold route_path. cbn [is_nil path_segs].
    rewrite byte_eqb_refl. unfold slash_s. rewrite split_join.
    - rewrite matches_texts; [reflexivity|]. intros w I. apply in_route_vars in I. apply (var_text_ok w I).
    - intro E. apply map_eq_nil in E. exact (wf_route e Hwf E).
    - intros x Hx. apply in_map_iff in Hx as (sg & <- & Hsg). destruct sg as [s|w].
      + cbn [seg_text]. now apply (wf_lits e Hwf).
      + apply in_route_vars in Hsg. apply (var_text_ok w Hsg).
  Qed.

  Lemma path_roundtrip a : In a (e_attrs e) -> a_loc a = LPath ->
    dres_equiv (dec_path a (map uq (var_texts (e_route e)))) (expected a p).
  Proof.
    intros Hin Hloc. destruct (path_attr a Hin Hloc) as (v & Hp & Hc & Hok & Hty).
    assert (In (a_wire a) (route_vars (e_route e))) as Hw.
    { destruct (wf_path e Hwf) as [_ Hiff]. apply Hiff. unfold wires_at. apply in_map. apply filter_In. split; [assumption|now apply loc_eqb_eq]. }
    unfold dec_path, expected. rewrite Hp, (get_first_var_texts _ _ Hw), (seg_text_var a v Hin Hloc Hc).
    pose proof (Hsafe a Hin) as Hs. rewrite Hp in Hs.
    destruct (a_ty a) as [t|t| |] eqn:Ety; try contradiction; destruct v as [x|es| |]; try discriminate.
    - rewrite (path_text_decodes a (APrim x) Hin Hloc Hp I). cbn [decoded_text]. cbn [aval_ok] in Hok.
      destruct t; try (rewrite (parse_fmt _ x Hok); cbn; reflexivity).
      destruct x; try discriminate. cbn. reflexivity.
    - rewrite (path_text_decodes a (AArr es) Hin Hloc Hp I). cbn [decoded_text]. cbn [aval_ok] in Hok.
      cbn in Hs. destruct Hs as (Hne & Hel & _). unfold comma_s. rewrite split_join.
      + rewrite (parse_all_fmt t es Hok). cbn. reflexivity.
      + intro E. apply map_eq_nil in E. contradiction.
      + intros y Hy. apply in_map_iff in Hy as (x & <- & Hx). specialize (Hel x Hx).
        destruct (prim_text_cases x) as [(s & ->)|Htok]; [|now apply token_nocomma].
        cbn in Hel. rewrite Hloc in Hel. cbn. tauto.
  Qed.


  (* ---- string-keyed maps in the query ---- *)

  Lemma prefix_owner a a' kv : In a (at_loc LQuery e) -> In a' (at_loc LQuery e) -> In kv (contrib p a') ->
    has_prefix (a_wire a ++ [lbrack]) (fst kv) = true -> a' = a.
  Proof.
    intros Ha Ha' Hkv Hpre. apply has_prefix_split in Hpre as (r & Er). rewrite <- app_assoc in Er. cbn [app] in Er.
    assert (take_until lbrack (fst kv) = a_wire a) as Ht by (rewrite Er; apply take_until_app; now apply query_wire_nobrack).
    unfold contrib in Hkv. destruct (client_view a' p) as [v|]; [|destruct Hkv]. destruct v as [x|es|l|j].
    - rewrite (kv_of_keys_plain a' (APrim x) kv I Hkv) in Er. exfalso. apply (query_wire_nobrack a' Ha'). rewrite Er. apply in_or_app. right. now left.
    - rewrite (kv_of_keys_plain a' (AArr es) kv I Hkv) in Er. exfalso. apply (query_wire_nobrack a' Ha'). rewrite Er. apply in_or_app. right. now left.
    - destruct (kv_of_keys_map a' l kv Hkv) as (kx & _ & Ek). rewrite Ek in Ht.
      rewrite take_until_app in Ht by (now apply query_wire_nobrack). symmetry. now apply query_wire_inj.
    - destruct Hkv.
  Qed.

  Lemma contrib_map a t : In a (e_attrs e) -> a_ty a = TyMap t ->
    contrib p a = match p (a_name a) with Some (AMap l) => map (fun kx => (full_key (a_wire a) (fst kx), fmt_prim (snd kx))) l | _ => [] end.
  Proof.
    intros Hin Ety. unfold contrib, client_view. rewrite Ety. pose proof (Hvalid a Hin) as Hv.
    destruct (p (a_name a)) as [v|]; [|reflexivity]. rewrite Ety in Hv. destruct Hv as [Hok _]. destruct v; try discriminate. reflexivity.
  Qed.

  Lemma query_map a t : In a (e_attrs e) -> a_loc a = LQuery -> a_ty a = TyMap t ->
    dres_equiv (dec_map a t (parse_query (encode_values (enc_kvs LQuery e p)))) (expected a p).
  Proof.
    intros Hin Hloc Ety. assert (In a (at_loc LQuery e)) as Ha by (apply in_at_loc; auto).
    pose proof (Hvalid a Hin) as Hv. pose proof (Hsafe a Hin) as Hs.
    destruct (wf_attrs e Hwf a Hin) as (_ & _ & Hdef). rewrite Hloc, Ety in Hdef.
    rewrite parse_encode_values. set (q := enc_kvs LQuery e p). set (P := has_prefix (a_wire a ++ [lbrack])).
    set (C := contrib p a).
    (* the entries with the attribute's prefix are exactly its own *)
    assert (HC : forall kv, In kv q /\ P (fst kv) = true <-> In kv C).
    { intro kv. split.
      - intros [Hq Hp]. unfold q in Hq. rewrite enc_kvs_contrib in Hq. apply in_flat_map in Hq as (a' & Ha' & Hkv).
        rewrite (prefix_owner a a' kv Ha Ha' Hkv Hp) in Hkv. exact Hkv.
      - intro Hkv. split; [unfold q; rewrite enc_kvs_contrib; apply in_flat_map; eauto|].
        unfold C in Hkv. rewrite (contrib_map a t Hin Ety) in Hkv. destruct (p (a_name a)) as [[| |l|]|]; [destruct Hkv..| |destruct Hkv|destruct Hkv].
        apply in_map_iff in Hkv as (kx & <- & _). cbn [fst]. unfold P, full_key.
        change (a_wire a ++ lbrack :: fst kx ++ [rbrack]) with (a_wire a ++ [lbrack] ++ fst kx ++ [rbrack]). rewrite app_assoc. apply has_prefix_app. }
    unfold dec_map, expected.
    assert (HF : filter (fun kv => P (fst kv)) (group q) =
                 flat_map (fun k => map (fun v => (k, v)) (lookup_all k q)) (filter P (sorted_keys q))).
    { unfold group. apply filter_flat_map_keys. }
    fold P. rewrite HF.
    destruct (p (a_name a)) as [v|] eqn:Ep.
    - destruct Hv as [Hok Hkd]. rewrite Ety in Hok. destruct v as [| |l|]; try discriminate. cbn [aval_ok] in Hok. cbn in Hkd, Hs.
      destruct Hs as (Hne & Hbr).
      assert (EC : C = map (fun kx => (full_key (a_wire a) (fst kx), fmt_prim (snd kx))) l) by (unfold C; now rewrite (contrib_map a t Hin Ety), Ep).
      assert (HnC : NoDup (map fst C)).
      { rewrite EC, map_map. cbn [fst]. rewrite <- (map_map fst (full_key (a_wire a))).
        apply FinFun.Injective_map_NoDup; [intros k k' E; exact (full_key_inj _ _ _ E)|assumption]. }
      (* group q is not empty *)
      destruct (group q) as [|g0 gq] eqn:Eg.
      { exfalso. destruct l as [|kx l]; [congruence|].
        assert (In (full_key (a_wire a) (fst kx), fmt_prim (snd kx)) q) as Hq by (apply HC; rewrite EC; now left).
        apply in_group in Hq. rewrite Eg in Hq. destruct Hq. }
      (* the keys selected *)
      set (ks := filter P (sorted_keys q)).
      assert (Hks : forall k, In k ks <-> In k (map fst C)).
      { intro k. unfold ks. rewrite filter_In, sorted_keys_in. split.
        - intros [Hk Hp]. apply in_map_iff in Hk as (kv & <- & Hkv). apply in_map. apply HC. auto.
        - intro Hk. apply in_map_iff in Hk as (kv & <- & Hkv). apply HC in Hkv as [Hq Hp]. split; [now apply in_map|assumption]. }
      assert (Hlook : forall k, In k ks -> lookup_all k q = [get_first k C]).
      { intros k Hk. apply Hks in Hk. rewrite <- (lookup_all_single C k HnC Hk).
        unfold q. rewrite enc_kvs_contrib, lookup_all_flat_map.
        apply (flat_map_isolated (fun a' => lookup_all k (contrib p a'))); [apply at_loc_nodup|assumption|].
        intros a' Ha' Hne'. apply lookup_all_nokey. intros kv Hkv E. apply Hne'.
        apply in_map_iff in Hk as (kv0 & Ek0 & Hkv0). apply HC in Hkv0 as [_ Hp0].
        apply (prefix_owner a a' kv Ha Ha' Hkv). rewrite E, <- Ek0. exact Hp0. }
      assert (EF : flat_map (fun k => map (fun v => (k, v)) (lookup_all k q)) ks = map (fun k => (k, get_first k C)) ks).
      { clear -Hlook. induction ks as [|k ks IH]; [reflexivity|]. cbn [flat_map map].
        rewrite (Hlook k (or_introl eq_refl)). cbn [map app]. f_equal. apply IH. intros k' I. apply Hlook. now right. }
      rewrite EF.
      assert (Pk : Permutation ks (map fst C)).
      { apply NoDup_Permutation; [unfold ks; apply nodup_filter, sorted_keys_nodup|assumption|exact Hks]. }
      assert (PF : Permutation (map (fun k => (k, get_first k C)) ks) C).
      { pose proof (Permutation_map (fun k => (k, get_first k C)) Pk) as Hm. rewrite <- (keyed_self C HnC) in Hm. exact Hm. }
      rewrite first_of_each_nodup; [|rewrite map_map; cbn [fst]; rewrite map_id; unfold ks; apply nodup_filter, sorted_keys_nodup|intros k []].
      (* decoding the attribute's own entries gives the map back *)
      assert (HdC : dec_map_entries t C = Some l).
      { rewrite EC. clear -Hok Hbr Ha Hwf. induction l as [|[k x] l IH]; [reflexivity|]. cbn [map dec_map_entries fst snd].
        cbn [forallb snd] in Hok. apply andb_true_iff in Hok as [Hx Hl]. rewrite (parse_fmt t x Hx), IH; auto.
        - rewrite sub_key_full; [reflexivity|now apply query_wire_nobrack|apply (Hbr (k, x)); now left].
        - intros kx I. apply Hbr. now right. }
      destruct (dec_map_entries_perm t C _ (Permutation_sym PF) l HdC) as (m' & Hm' & Pm).
      destruct (map (fun k => (k, get_first k C)) ks) as [|f0 fs] eqn:Emap.
      { exfalso. apply Permutation_nil in PF. rewrite EC in PF. destruct l; [congruence|discriminate]. }
      rewrite Hm'. cbn. now apply Permutation_sym.
    - (* unset: nothing on the wire carries the prefix *)
      assert (EC : C = []) by (unfold C; now rewrite (contrib_map a t Hin Ety), Ep).
      assert (filter P (sorted_keys q) = []) as ->.
      { destruct (filter P (sorted_keys q)) as [|k ks] eqn:Ef; [reflexivity|]. exfalso.
        assert (In k (filter P (sorted_keys q))) as Hk by (rewrite Ef; now left).
        apply filter_In in Hk as [Hk Hp]. apply sorted_keys_in in Hk. apply in_map_iff in Hk as (kv & <- & Hkv).
        assert (In kv C) as Hc by (apply HC; auto). rewrite EC in Hc. destruct Hc. }
      cbn [flat_map first_of_each]. unfold absent. rewrite Hv, Hdef. destruct (group q); cbn; exact I.
  Qed.


  (* ---- assembling ---- *)

  Lemma cookie_roundtrip a : In a (e_attrs e) -> a_loc a = LCookie ->
    dres_equiv (dec_cookie a (enc_kvs LCookie e p)) (expected a p).
  Proof.
    intros Hin Hloc. destruct (cookie_attr_ty a Hin Hloc) as (t & Ety).
    assert (get_first (a_wire a) (enc_kvs LCookie e p) = raw_of a) as Hraw.
    { unfold get_first. rewrite (cookie_lookup a Hin Hloc), (contrib_prim a t Hin Ety). unfold raw_of.
      destruct (client_view a p) as [[x| | |]|]; reflexivity. }
    unfold dec_cookie. rewrite Ety.
    assert (dres_equiv (dec_single a t (get_first (a_wire a) (enc_kvs LCookie e p))) (expected a p)) as Hgen.
    { rewrite Hraw. apply dec_single_ok; auto; rewrite Hloc; discriminate. }
    destruct t; try exact Hgen. destruct (a_req a) eqn:Er; [|exact Hgen].
    pose proof (Hvalid a Hin) as Hv. unfold expected. rewrite (cookie_lookup a Hin Hloc), (contrib_prim a TStr Hin Ety).
    unfold client_view. destruct (p (a_name a)) as [v|]; [|congruence].
    rewrite Ety in Hv. destruct Hv as [Hok _]. destruct v as [x| | |]; try discriminate. destruct x; try discriminate.
    cbn. reflexivity.
  Qed.

  Lemma attr_roundtrip a s : In a (e_attrs e) ->
    transmit_req e (encode_req e p) = Some s ->
    dres_equiv (dec_attr e a s (map uq (var_texts (e_route e)))) (expected a p).
  Proof.
    intros Hin Ht. unfold transmit_req in Ht. cbn [c_headers encode_req] in Ht. rewrite headers_sendable in Ht.
    injection Ht as <-. unfold dec_attr. cbn [s_query s_headers s_cookies s_body c_query c_headers c_cookies c_body].
    destruct (wf_attrs e Hwf a Hin) as (_ & _ & Hty).
    destruct (a_loc a) eqn:Hloc.
    - now apply path_roundtrip.
    - unfold dec_kv. destruct (a_ty a) as [t|t|t|] eqn:Ety; try contradiction.
      + rewrite (query_prim a t Hin Hloc Ety). apply dec_single_ok; auto; rewrite Hloc; discriminate.
      + rewrite (query_arr a t Hin Hloc Ety). now apply dec_list_ok.
      + now apply query_map.
    - unfold dec_kv. destruct (a_ty a) as [t|t|t|] eqn:Ety; try contradiction.
      + change (map (fun kv : bstr * bstr => (canon (fst kv), trim (snd kv))) (enc_kvs LHeader e p)) with (map ct (enc_kvs LHeader e p)).
        rewrite (header_prim a t Hin Hloc Ety). apply dec_single_ok; auto; rewrite Hloc; discriminate.
      + change (map (fun kv : bstr * bstr => (canon (fst kv), trim (snd kv))) (enc_kvs LHeader e p)) with (map ct (enc_kvs LHeader e p)).
        rewrite (header_arr a t Hin Hloc Ety). now apply dec_list_ok.
    - change (map (fun kv : bstr * bstr => (fst kv, cookie_wire (snd kv))) (enc_kvs LCookie e p)) with (map cw (enc_kvs LCookie e p)).
      rewrite cookies_through. now apply cookie_roundtrip.
    - now apply body_roundtrip.
  Qed.

  Theorem request_roundtrip :
    exists d, deliver e p = Delivered d /\ plist_equiv d (with_defaults e p).
  Proof.
    unfold deliver. destruct (transmit_req e (encode_req e p)) as [s|] eqn:Et.
    - unfold decode_req.
      assert (s_vars s = Some (map uq (var_texts (e_route e)))) as ->.
      { unfold transmit_req in Et. destruct (forallb _ _); [|discriminate]. injection Et as <-. cbn [s_vars c_path encode_req]. apply server_vars_ok. }
      destruct (collect_expected (fun a => dec_attr e a s (map uq (var_texts (e_route e)))) (e_attrs e) p) as (d & Hd & Hq).
      + intros a Hin. now apply attr_roundtrip.
      + exists d. split; [exact Hd|]. destruct e as [route attrs whole]. rewrite with_defaults_expected. exact Hq.
    - exfalso. unfold transmit_req in Et. cbn [c_headers encode_req] in Et. rewrite headers_sendable in Et. discriminate.
  Qed.

End RoundTrip.
