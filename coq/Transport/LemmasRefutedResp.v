(* Transport engine — proofs, part 8: the full statement of C03 is false of the model:
   one counterexample per recorded loss class; a non-trivial result inside the safe set. *)
From Transport Require Import Model LemmasCodec LemmasReq LemmasPartition Witness LemmasRefuted LemmasResp.

(* one success response (200, untagged) carrying one result attribute *)
Definition one_resp (l : loc) (t : aty) (req : bool) (d : option aval) : resp :=
  {| rs_status := 200%N; rs_tag := None; rs_attrs := [one_attr l t req d] |}.
Definition one_rep (l : loc) (t : aty) (req : bool) (d : option aval) : rep :=
  {| p_resps := [one_resp l t req d]; p_whole := false |}.

Lemma wf_one_rep l t req d : attr_ok (one_attr l t req d) -> l = LHeader \/ l = LCookie \/ l = LBody ->
  wf_rep (one_rep l t req d).
Proof.
  intros Hok Hl. constructor; cbn [one_rep p_resps p_whole].
  - intros r [<-|[]]. constructor; cbn [one_resp rs_attrs].
    + cbn. nodup_small.
    + intros a [<-|[]]. split; [exact Hok|exact Hl].
    + unfold wires_at. destruct Hl as [-> | [-> | ->]]; cbn; nodup_small.
    + unfold wires_at. destruct Hl as [-> | [-> | ->]]; cbn; nodup_small.
    + discriminate.
  - cbn. nodup_small.
Qed.

Definition respond_holds (pr : rep) (p : payload) : Prop :=
  exists r d, select_resp (p_resps pr) p = Some r /\ respond pr p = Returned (rs_status r) d /\
              plist_equiv d (result_with_defaults r p).

Lemma valid_attrs_give l t req d v : aval_ok t v = true -> keys_distinct v -> valid_attrs [one_attr l t req d] (give v).
Proof. intros Hok Hk a [<-|[]]. cbn. auto. Qed.
Lemma valid_attrs_nothing l t d : valid_attrs [one_attr l t false d] nothing.
Proof. intros a [<-|[]]. reflexivity. Qed.

Ltac rep_wf := apply wf_one_rep; [unfold attr_ok, one_attr; cbn; repeat split; auto; try (right; reflexivity); try (vm_compute; reflexivity)|auto].
Ltac rep_valid := first [apply valid_attrs_nothing | apply valid_attrs_give; [reflexivity|cbn; auto]].

Ltac refute_response :=
  let r := fresh "r" in let d := fresh "d" in let Hs := fresh "Hs" in let Hd := fresh "Hd" in let Hq := fresh "Hq" in
  intros (r & d & Hs & Hd & Hq); vm_compute in Hs; injection Hs as <-; vm_compute in Hd;
  first [ discriminate Hd
        | injection Hd as <-; vm_compute in Hq;
          repeat match goal with
                 | H : Forall2 _ _ _ |- _ => inversion H; clear H; subst
                 | H : _ /\ _ |- _ => destruct H
                 end;
          try discriminate ].

(* response header values are trimmed; cookie values sanitised *)
Lemma resp_refuted_header_trimmed :
  let pr := one_rep LHeader (TyPrim TStr) false None in let p := give (str [x20; x61; x20]) in
  wf_rep pr /\ valid_attrs (rs_attrs (one_resp LHeader (TyPrim TStr) false None)) p /\
  respond pr p = Returned 200 [(nx, str [x61])].
Proof. split; [rep_wf|split; [rep_valid|vm_compute; reflexivity]]. Qed.

Lemma resp_refuted_cookie_sanitised :
  let pr := one_rep LCookie (TyPrim TStr) false None in let p := give (str [x61; x3b; x62; x22]) in
  wf_rep pr /\ valid_attrs (rs_attrs (one_resp LCookie (TyPrim TStr) false None)) p /\
  respond pr p = Returned 200 [(nx, str [x61; x62])].
Proof. split; [rep_wf|split; [rep_valid|vm_compute; reflexivity]]. Qed.

(* optional string "" in a response header / cookie arrives unset *)
Lemma resp_refuted_empty_string l : l = LHeader \/ l = LCookie ->
  let pr := one_rep l (TyPrim TStr) false None in let p := give (str []) in
  wf_rep pr /\ valid_attrs (rs_attrs (one_resp l (TyPrim TStr) false None)) p /\ ~ respond_holds pr p.
Proof. intros [-> | ->]; (split; [rep_wf|split; [rep_valid|refute_response]]). Qed.

(* a defaulted result attribute holding its zero value arrives as the default *)
Lemma resp_refuted_default_overrides_zero :
  let pr := one_rep LBody TyJson false (Some (AJson (JNum [x35]))) in let p := give (AJson (JNum [x30])) in
  wf_rep pr /\ valid_attrs (rs_attrs (one_resp LBody TyJson false (Some (AJson (JNum [x35]))))) p /\ ~ respond_holds pr p.
Proof. split; [rep_wf|split; [rep_valid|refute_response]]. Qed.

(* an array in a response header is joined into one value the client does not split *)
Lemma resp_refuted_header_array_joined :
  let pr := one_rep LHeader (TyArr TStr) false None in let p := give (AArr [VStr [x61]; VStr [x62]]) in
  wf_rep pr /\ valid_attrs (rs_attrs (one_resp LHeader (TyArr TStr) false None)) p /\
  respond pr p = Returned 200 [(nx, AArr [VStr [x61; x2c; x20; x62]])].
Proof. split; [rep_wf|split; [rep_valid|vm_compute; reflexivity]]. Qed.

(* an empty non-nil collection arrives nil *)
Lemma resp_refuted_empty_collection :
  let pr := one_rep LBody TyJsonColl false None in let p := give (AJson (JArr [])) in
  wf_rep pr /\ valid_attrs (rs_attrs (one_resp LBody TyJsonColl false None)) p /\ ~ respond_holds pr p.
Proof. split; [rep_wf|split; [rep_valid|refute_response]]. Qed.

(* a defaulted attribute mapped to a response header and left unset is sent as its zero value *)
Lemma resp_refuted_default_in_header :
  let pr := one_rep LHeader (TyPrim (TInt 64)) false (Some (APrim (VInt 5))) in
  wf_rep pr /\ valid_attrs (rs_attrs (one_resp LHeader (TyPrim (TInt 64)) false (Some (APrim (VInt 5))))) nothing /\
  respond pr nothing = Returned 200 [(nx, APrim (VInt 0))].
Proof. split; [rep_wf|split; [rep_valid|vm_compute; reflexivity]]. Qed.

Lemma resp_full_statement_refuted :
  ~ (forall pr p r, wf_rep pr -> select_resp (p_resps pr) p = Some r -> valid_attrs (rs_attrs r) p -> respond_holds pr p).
Proof.
  intro H. destruct resp_refuted_default_overrides_zero as (Hwf & Hv & Hn).
  apply Hn. eapply H; [exact Hwf|reflexivity|exact Hv].
Qed.

(* ---- a non-trivial result inside the safe set: two responses, selection by tag ---- *)

Definition ex_attrs : list attr :=
  [ A [x68] [x78; x2d; x68] LHeader (TyPrim TStr) false None;                   (* h as x-h *)
    A [x6e] [x58; x2d; x4e] LHeader (TyArr (TInt 32)) false None;                (* n as X-N *)
    A [x63] [x63; x6b] LCookie (TyPrim TStr) false None;                         (* c as ck *)
    A [x64] [x64] LBody TyJson false (Some (AJson (JNum [x35])));                (* d, default 5 *)
    A [x6b] [x6b] LBody TyJson false None;                                       (* k: the tag attribute *)
    A [x7a] [x7a] LBody TyJson true None ].                                      (* z *)

Definition ex_rep : rep :=
  {| p_resps := [ {| rs_status := 202%N; rs_tag := Some ([x6b], [x61; x63; x63]); rs_attrs := ex_attrs |};
                  {| rs_status := 200%N; rs_tag := None; rs_attrs := ex_attrs |} ];
     p_whole := false |}.

Definition ex_result (kind : bstr) : payload := payload_of
  [ ([x68], str [x69; x6e; x20; x6e; x65; x72; x2c; x20; xc3; xa9]);             (* "in ner, é" *)
    ([x6e], AArr [VInt (-2147483648)]);
    ([x63], str [x73; x70; x20; x61; x63; x65; x2c; x63]);                        (* "sp ace,c" *)
    ([x6b], AJson (JStr kind));
    ([x7a], AJson (JObj [([x71], JArr [JNull; JStr []])])) ].

Lemma ex_rep_wf : wf_rep ex_rep.
Proof.
  constructor; cbn [ex_rep p_resps p_whole].
  - intros r [<-|[<-|[]]]; (constructor; cbn [rs_attrs ex_attrs];
      [cbn; nodup_small
      |intros a H; cbn in H; repeat (destruct H as [<-|H]; [unfold attr_ok; cbn; repeat split; auto; try (right; reflexivity); try (left; reflexivity); try (vm_compute; reflexivity)|]); try contradiction
      |unfold wires_at; cbn; nodup_small
      |unfold wires_at; cbn; nodup_small
      |discriminate]).
  - cbn. nodup_small.
Qed.

Lemma ex_result_valid kind : valid_attrs ex_attrs (ex_result kind).
Proof.
  intros a H; cbn in H; repeat (destruct H as [<-|H]; [cbn; first [reflexivity | split; [vm_compute; reflexivity|cbn; auto]]|]); try contradiction.
Qed.

Lemma ex_result_safe kind r : rs_attrs r = ex_attrs -> resp_safe r (ex_result kind).
Proof.
  intros E a H. rewrite E in H. cbn in H. destruct H as [<-|[<-|[<-|[<-|[<-|[<-|[]]]]]]]; (split; [|cbn; auto]); cbn.
  - split; [discriminate|]. split; reflexivity.
  - split; [discriminate|]. split; [|discriminate]. intros x [<-|[]]; exact I.
  - split; [discriminate|reflexivity].
  - exact I.
  - split; [congruence|reflexivity].
  - split; [congruence|discriminate].
Qed.

Lemma ex_result_tagged :
  exists r, select_resp (p_resps ex_rep) (ex_result [x61; x63; x63]) = Some r /\ rs_status r = 202%N /\
            respond ex_rep (ex_result [x61; x63; x63]) = Returned 202 (result_with_defaults r (ex_result [x61; x63; x63])).
Proof. eexists. split; [vm_compute; reflexivity|]. split; vm_compute; reflexivity. Qed.

Lemma ex_result_untagged :
  exists r, select_resp (p_resps ex_rep) (ex_result [x78]) = Some r /\ rs_status r = 200%N /\
            respond ex_rep (ex_result [x78]) = Returned 200 (result_with_defaults r (ex_result [x78])).
Proof. eexists. split; [vm_compute; reflexivity|]. split; vm_compute; reflexivity. Qed.
