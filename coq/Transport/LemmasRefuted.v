(* Transport engine — proofs, part 6: the full statement of C02 is false of the model.
   One counterexample per recorded loss class (each is re-demonstrated on the real
   generated code by the witness stream of the harness), and a non-trivial payload
   inside wire_safe. *)
From Transport Require Import Model LemmasCodec LemmasReq Witness.

Definition str (s : bstr) : aval := APrim (VStr s).

Ltac one_wf := apply wf_one; unfold attr_ok, one_attr; cbn; repeat split; auto; try (right; reflexivity); try (vm_compute; reflexivity).
Ltac one_valid := first [apply valid_nothing | apply valid_give; [reflexivity|cbn; auto; repeat constructor; cbn; intuition discriminate]].

(* optional string "" in query / header / cookie arrives unset *)
Lemma refuted_empty_string_unset l : l = LQuery \/ l = LHeader \/ l = LCookie ->
  let e := one_ep l (TyPrim TStr) false None in let p := give (str []) in
  wf_ep e /\ valid e p /\ ~ roundtrip_holds e p.
Proof. intros [-> | [-> | ->]]; (split; [one_wf|split; [one_valid|refute_delivery]]). Qed.

(* required string "" in the query string is rejected (400 missing_field) *)
Lemma refuted_required_empty_string :
  let e := one_ep LQuery (TyPrim TStr) true None in let p := give (str []) in
  wf_ep e /\ valid e p /\ deliver e p = Rejected Missing.
Proof. split; [one_wf|split; [one_valid|vm_compute; reflexivity]]. Qed.

(* a defaulted attribute holding its zero value arrives as the default (body and parameters) *)
Lemma refuted_default_overrides_zero_body :
  let e := one_ep LBody TyJson false (Some (AJson (JNum [x35]))) in let p := give (AJson (JNum [x30])) in
  wf_ep e /\ valid e p /\ ~ roundtrip_holds e p.
Proof. split; [one_wf|split; [one_valid|refute_delivery]]. Qed.

Lemma refuted_default_overrides_zero_param :
  let e := one_ep LQuery (TyPrim TStr) false (Some (str [x64])) in let p := give (str []) in
  wf_ep e /\ valid e p /\ ~ roundtrip_holds e p.
Proof. split; [one_wf|split; [one_valid|refute_delivery]]. Qed.

(* an unset defaulted non-string parameter is sent as its zero value: arrives 0, not the default *)
Lemma refuted_unset_defaulted_param :
  let e := one_ep LQuery (TyPrim (TInt 64)) false (Some (APrim (VInt 5))) in
  wf_ep e /\ valid e nothing /\ ~ roundtrip_holds e nothing.
Proof. split; [one_wf|split; [one_valid|refute_delivery]]. Qed.

(* "," inside a path-array element splits it; " " arrives as "+" *)
Lemma refuted_path_array_comma :
  let e := one_ep LPath (TyArr TStr) true None in let p := give (AArr [VStr [x61; x2c; x62]]) in
  wf_ep e /\ valid e p /\ ~ roundtrip_holds e p.
Proof. split; [one_wf|split; [one_valid|refute_delivery]]. Qed.

Lemma refuted_path_array_space :
  let e := one_ep LPath (TyArr TStr) true None in let p := give (AArr [VStr [x61; x20; x62]]) in
  wf_ep e /\ valid e p /\ ~ roundtrip_holds e p.
Proof. split; [one_wf|split; [one_valid|refute_delivery]]. Qed.

(* "/" inside a {name} value is not escaped by the client: not routed (404) *)
Lemma refuted_path_slash :
  let e := one_ep LPath (TyPrim TStr) true None in let p := give (str [x61; x2f; x62]) in
  wf_ep e /\ valid e p /\ deliver e p = Rejected NotRouted.
Proof. split; [one_wf|split; [one_valid|vm_compute; reflexivity]]. Qed.

(* "%41" in a path value is decoded twice: arrives "A" *)
Lemma refuted_path_percent :
  let e := one_ep LPath (TyPrim TStr) true None in let p := give (str [x25; x34; x31]) in
  wf_ep e /\ valid e p /\ deliver e p = Delivered [(nx, str [x41])].
Proof. split; [one_wf|split; [one_valid|vm_compute; reflexivity]]. Qed.

(* an empty path value (string, or array rendering empty) is not routed *)
Lemma refuted_empty_path_value :
  (let e := one_ep LPath (TyPrim TStr) true None in let p := give (str []) in
   wf_ep e /\ valid e p /\ deliver e p = Rejected NotRouted) /\
  (let e := one_ep LPath (TyArr TStr) true None in let p := give (AArr []) in
   wf_ep e /\ valid e p /\ deliver e p = Rejected NotRouted).
Proof. split; (split; [one_wf|split; [one_valid|vm_compute; reflexivity]]). Qed.

(* header values are trimmed, cookie values sanitised *)
Lemma refuted_header_trimmed :
  let e := one_ep LHeader (TyPrim TStr) false None in let p := give (str [x20; x61; x20]) in
  wf_ep e /\ valid e p /\ deliver e p = Delivered [(nx, str [x61])].
Proof. split; [one_wf|split; [one_valid|vm_compute; reflexivity]]. Qed.

Lemma refuted_cookie_sanitised :
  let e := one_ep LCookie (TyPrim TStr) false None in let p := give (str [x61; x3b; x62; x20; x63; x2c; x64; x22; xc3; xa9]) in
  wf_ep e /\ valid e p /\ deliver e p = Delivered [(nx, str [x61; x62; x20; x63; x2c; x64])].
Proof. split; [one_wf|split; [one_valid|vm_compute; reflexivity]]. Qed.

(* an empty non-nil collection arrives nil (unset) *)
Lemma refuted_empty_collection :
  let e := one_ep LQuery (TyArr TStr) false None in let p := give (AArr []) in
  wf_ep e /\ valid e p /\ ~ roundtrip_holds e p.
Proof. split; [one_wf|split; [one_valid|refute_delivery]]. Qed.

(* a query map key containing "]" is cut at the bracket *)
Lemma refuted_map_key_bracket :
  let e := one_ep LQuery (TyMap TStr) false None in let p := give (AMap [([x61; x5d; x62], VStr [x76])]) in
  wf_ep e /\ valid e p /\ deliver e p = Delivered [(nx, AMap [([x61], VStr [x76])])].
Proof. split; [one_wf|split; [one_valid|vm_compute; reflexivity]]. Qed.

(* hence the unrestricted statement is false *)
Lemma full_statement_refuted : ~ (forall e p, wf_ep e -> valid e p -> roundtrip_holds e p).
Proof.
  intro H. destruct (refuted_empty_string_unset LQuery (or_introl eq_refl)) as (Hwf & Hv & Hn).
  exact (Hn (H _ _ Hwf Hv)).
Qed.

(* ---- a non-trivial endpoint and payload inside wire_safe ---- *)

Definition A (n w : bstr) (l : loc) (t : aty) (req : bool) (d : option aval) : attr :=
  {| a_name := n; a_wire := w; a_loc := l; a_ty := t; a_req := req; a_def := d |}.

Definition ex_ep : ep :=
  {| e_route := [RLit [x77]; RVar [x69; x64]; RLit [x78]];                       (* /w/{id}/x *)
     e_attrs := [ A [x69; x64] [x69; x64] LPath (TyPrim TStr) true None;             (* id *)
                  A [x6e] [x4e; x5f; x71] LQuery (TyPrim (TInt 32)) false None;       (* n as N_q *)
                  A [x74] [x74] LQuery (TyArr TStr) false None;                       (* t *)
                  A [x6d] [x6d] LQuery (TyMap TStr) false None;                       (* m *)
                  A [x68] [x78; x2d; x68] LHeader (TyArr (TInt 64)) false None;       (* h as x-h *)
                  A [x63] [x63; x6b] LCookie (TyPrim TStr) false (Some (str [x64])); (* c as ck, default "d" *)
                  A [x62] [x62] LBody TyJson false (Some (AJson (JNum [x35])));      (* b, default 5 *)
                  A [x7a] [x7a] LBody TyJson false None ];                            (* z *)
     e_whole := false |}.

Definition ex_payload : payload := payload_of
  [ ([x69; x64], str [x61; x20; x62; x25; x7a; x2b]);                                  (* id = "a b%z+" *)
    ([x6e], APrim (VInt (-7)));
    ([x74], AArr [VStr []; VStr [x78; x20; x79; x26; x7a; x3d; x25; x34; x31]]);       (* "", "x y&z=%41" *)
    ([x6d], AMap [([x6b; x20; x31], VStr [x76; x5d; x3b])]);                           (* "k 1" -> "v];" *)
    ([x68], AArr [VInt 1; VInt (-9223372036854775808)]);
    ([x7a], AJson (JObj [([x6b], JArr [JStr [x20; xc3; xa9; x22]; JNum [x30]; JNull])])) ].

Lemma ex_wf : wf_ep ex_ep.
Proof.
  constructor; cbn [ex_ep e_attrs e_route e_whole].
  - cbn. nodup_small.
  - intros a H; cbn in H; repeat (destruct H as [<-|H]; [unfold attr_ok; cbn; repeat split; auto; try (right; reflexivity); try (vm_compute; reflexivity)|]); try contradiction.
  - discriminate.
  - intros s H. cbn in H. intuition; try discriminate;
      match goal with E : RLit _ = RLit _ |- _ => injection E as <- end; cbn in *; intuition discriminate.
  - cbn. nodup_small.
  - unfold wires_at. cbn. split; [nodup_small|intro w; reflexivity].
  - unfold wires_at. cbn. split; [nodup_small|]. intros w H. cbn in H. intuition; subst; cbn in *; intuition discriminate.
  - unfold wires_at. cbn. nodup_small.
  - unfold wires_at. cbn. nodup_small.
  - discriminate.
Qed.

Lemma ex_valid : valid ex_ep ex_payload.
Proof.
  intros a H; cbn in H; repeat (destruct H as [<-|H]; [cbn; first [reflexivity | split; [vm_compute; reflexivity|cbn; auto; nodup_small]]|]); try contradiction.
Qed.

Lemma ex_safe : wire_safe ex_ep ex_payload.
Proof.
  intros a H. cbn in H. destruct H as [<-|[<-|[<-|[<-|[<-|[<-|[<-|[<-|[]]]]]]]]]; cbn.
  - split; [discriminate|]. split; [intuition discriminate|reflexivity].
  - exact I.
  - split; [discriminate|]. split; [|discriminate]. intros x [<-|[<-|[]]]; exact I.
  - split; [discriminate|]. intros kx [<-|[]]. cbn. intuition discriminate.
  - split; [discriminate|]. split; [|discriminate]. intros x [<-|[<-|[]]]; exact I.
  - reflexivity.
  - exact I.
  - split; [congruence|reflexivity].
Qed.

Lemma ex_delivered : deliver ex_ep ex_payload = Delivered (with_defaults ex_ep ex_payload).
Proof. vm_compute. reflexivity. Qed.

Lemma ex_nontrivial : length (with_defaults ex_ep ex_payload) = 8.
Proof. vm_compute. reflexivity. Qed.
