(* Transport engine — proofs, part 1: bytes, the percent codec, split / join.
   (The codec lemmas are the ones of the Mux engine, copied: this engine does not
   depend on coq/Mux.) *)
From Transport Require Import Model.
From Coq Require Import PeanoNat Lia ZifyBool ZifyNat ZifyN.

(* ---------------------------------------------------------------- basics *)

Lemma byte_eqb_eq a b : Byte.eqb a b = true <-> a = b.
Proof. split; [apply Byte.byte_dec_bl|apply Byte.byte_dec_lb]. Qed.

Lemma byte_eqb_refl a : Byte.eqb a a = true.
Proof. now apply byte_eqb_eq. Qed.

Lemma byte_eqb_neq a b : Byte.eqb a b = false <-> a <> b.
Proof.
  split; intro H.
  - intro E. apply byte_eqb_eq in E. congruence.
  - destruct (Byte.eqb a b) eqn:E; [apply byte_eqb_eq in E; contradiction|reflexivity].
Qed.

Lemma beq_eq a : forall b, beq a b = true <-> a = b.
Proof.
  induction a as [|x a IH]; destruct b as [|y b]; cbn; try (split; congruence).
  rewrite andb_true_iff, byte_eqb_eq, IH. split; [intros [-> ->]; reflexivity|intro E; injection E; auto].
Qed.

Lemma beq_refl a : beq a a = true.
Proof. now apply beq_eq. Qed.

Lemma beq_neq a b : beq a b = false <-> a <> b.
Proof.
  split; intro H.
  - intro E. apply beq_eq in E. congruence.
  - destruct (beq a b) eqn:E; [apply beq_eq in E; contradiction|reflexivity].
Qed.

Lemma beq_sym a b : beq a b = beq b a.
Proof.
  destruct (beq a b) eqn:E.
  - apply beq_eq in E. subst. symmetry. apply beq_refl.
  - apply beq_neq in E. symmetry. apply beq_neq. congruence.
Qed.

Lemma is_nil_true {A} (l : list A) : is_nil l = true <-> l = [].
Proof. destruct l; cbn; split; congruence. Qed.

Lemma is_nil_false {A} (l : list A) : is_nil l = false <-> l <> [].
Proof. destruct l; cbn; split; congruence. Qed.

Lemma memb_In c s : memb c s = true <-> In c s.
Proof.
  unfold memb. rewrite existsb_exists. split.
  - intros (x & Hx & E). apply byte_eqb_eq in E. now subst.
  - intro H. exists c. split; [assumption|apply byte_eqb_refl].
Qed.

Lemma memb_false c s : memb c s = false <-> ~ In c s.
Proof.
  split; intro H.
  - intro I. apply memb_In in I. congruence.
  - destruct (memb c s) eqn:E; [apply memb_In in E; contradiction|reflexivity].
Qed.

Lemma mem_In x l : mem x l = true <-> In x l.
Proof.
  unfold mem. rewrite existsb_exists. split.
  - intros (y & Hy & E). apply beq_eq in E. now subst.
  - intro H. exists x. split; [assumption|apply beq_refl].
Qed.

Lemma mem_false x l : mem x l = false <-> ~ In x l.
Proof.
  split; intro H.
  - intro I. apply mem_In in I. congruence.
  - destruct (mem x l) eqn:E; [apply mem_In in E; contradiction|reflexivity].
Qed.

(* ------------------------------------------------------------------ codec *)

Lemma feed_app m s1 : forall st s2 st1 o1,
  feed m st s1 = Some (st1, o1) ->
  feed m st (s1 ++ s2) = match feed m st1 s2 with Some (st2, o2) => Some (st2, o1 ++ o2) | None => None end.
Proof.
  induction s1 as [|c r IH]; intros st s2 st1 o1 H.
  - cbn in H. injection H as <- <-. cbn. destruct (feed m st s2) as [[? ?]|]; reflexivity.
  - cbn [feed app] in *. destruct st.
    + destruct (Byte.eqb c pct); [now apply IH|].
      destruct (feed m UNormal r) as [[st' o]|] eqn:E; [|discriminate].
      injection H as <- <-. rewrite (IH _ s2 _ _ E).
      destruct (feed m st' s2) as [[? ?]|]; reflexivity.
    + destruct (unhex c); [now apply IH|discriminate].
    + destruct (unhex c) as [b|]; [|discriminate]. destruct (Byte.of_N (16 * a + b)); [|discriminate].
      destruct (feed m UNormal r) as [[st' o]|] eqn:E; [|discriminate].
      injection H as <- <-. rewrite (IH _ s2 _ _ E).
      destruct (feed m st' s2) as [[? ?]|]; reflexivity.
Qed.

(* the per-byte fact is a closed computation for each of the 3 x 256 cases *)
Lemma byte_rt m c : feed m UNormal (escape_byte m c) = Some (UNormal, [c]).
Proof. destruct m; destruct c; vm_compute; reflexivity. Qed.

Lemma feed_escape m s : feed m UNormal (escape m s) = Some (UNormal, s).
Proof.
  induction s as [|c r IH]; [reflexivity|].
  unfold escape in *. cbn [flat_map]. rewrite (feed_app _ _ _ _ _ _ (byte_rt m c)), IH. reflexivity.
Qed.

Lemma unescape_escape m s : unescape m (escape m s) = Some s.
Proof. unfold unescape. now rewrite feed_escape. Qed.

Lemma escape_app m a b : escape m (a ++ b) = escape m a ++ escape m b.
Proof. unfold escape. apply flat_map_app. Qed.

Lemma unescape_app m a b a' b' :
  unescape m a = Some a' -> unescape m b = Some b' -> unescape m (a ++ b) = Some (a' ++ b').
Proof.
  unfold unescape. intros Ha Hb.
  destruct (feed m UNormal a) as [[[| |] oa]|] eqn:Ea; try discriminate. injection Ha as ->.
  rewrite (feed_app _ _ _ _ _ _ Ea).
  destruct (feed m UNormal b) as [[[| |] ob]|] eqn:Eb; try discriminate. injection Hb as ->. reflexivity.
Qed.

Lemma set_path_escaped p : set_path (escape Path p) = Some (p, []).
Proof. unfold set_path. rewrite unescape_escape, beq_refl. reflexivity. Qed.

(* a string without '%' decodes to itself (path modes: '+' is not special) *)
Lemma feed_nopct m s : m <> Query -> ~ In pct s -> feed m UNormal s = Some (UNormal, s).
Proof.
  intros Hm. induction s as [|c r IH]; intro H; [reflexivity|].
  cbn [feed]. destruct (Byte.eqb c pct) eqn:E.
  - apply byte_eqb_eq in E. subst. exfalso. apply H. now left.
  - rewrite IH by (intro I; apply H; now right).
    destruct m; try reflexivity. contradiction.
Qed.

Lemma unescape_nopct s : ~ In pct s -> unescape PathSeg s = Some s.
Proof. intro H. unfold unescape. rewrite feed_nopct; [reflexivity|discriminate|assumption]. Qed.

Lemma unescape_or_id_nopct s : ~ In pct s -> unescape_or_id s = s.
Proof. intro H. unfold unescape_or_id. now rewrite unescape_nopct. Qed.

(* url.QueryEscape output read back by url.PathUnescape: the same bytes unless a space
   was written as '+' *)
Lemma byte_rt_query_as_path c : c <> space -> feed PathSeg UNormal (escape_byte Query c) = Some (UNormal, [c]).
Proof. destruct c; intro H; try (vm_compute; reflexivity). exfalso. apply H. reflexivity. Qed.

Lemma feed_query_as_path s : ~ In space s -> feed PathSeg UNormal (escape Query s) = Some (UNormal, s).
Proof.
  induction s as [|c r IH]; intro H; [reflexivity|].
  unfold escape in *. cbn [flat_map].
  rewrite (feed_app _ _ _ _ _ _ (byte_rt_query_as_path c (fun E => H (or_introl E)))).
  rewrite IH by (intro I; apply H; now right). reflexivity.
Qed.

(* bytes QueryEscape never writes *)
Lemma escape_query_byte_clean c x :
  In x (escape_byte Query c) -> x <> amp /\ x <> equals /\ x <> semi /\ x <> comma /\ x <> slash.
Proof. destruct c; vm_compute; intros H; repeat (destruct H as [<-|H]; [repeat split; discriminate|]); destruct H. Qed.

Lemma escape_query_clean s x :
  In x (escape Query s) -> x <> amp /\ x <> equals /\ x <> semi /\ x <> comma /\ x <> slash.
Proof. unfold escape. rewrite in_flat_map. intros (c & _ & H). exact (escape_query_byte_clean c x H). Qed.

(* ------------------------------------------------------------ split / join *)

Lemma split_on_nonempty c s : split_on c s <> [].
Proof.
  destruct s as [|x r]; cbn; [discriminate|]. destruct (Byte.eqb x c); [discriminate|].
  destruct (split_on c r); discriminate.
Qed.

Lemma split_on_app_nosep c x : ~ In c x -> forall r, split_on c (x ++ c :: r) = x :: split_on c r.
Proof.
  induction x as [|y x IH]; intros Hx r.
  - cbn. now rewrite byte_eqb_refl.
  - cbn [app split_on]. destruct (Byte.eqb y c) eqn:E.
    + apply byte_eqb_eq in E. subst. exfalso. apply Hx. now left.
    + rewrite IH; [reflexivity|]. intro H. apply Hx. now right.
Qed.

Lemma split_on_nosep c x : ~ In c x -> split_on c x = [x].
Proof.
  induction x as [|y x IH]; intro Hx; [reflexivity|].
  cbn [split_on]. destruct (Byte.eqb y c) eqn:E.
  - apply byte_eqb_eq in E. subst. exfalso. apply Hx. now left.
  - rewrite IH; [reflexivity|]. intro H. apply Hx. now right.
Qed.

Lemma split_join c l : l <> [] -> (forall x, In x l -> ~ In c x) -> split_on c (join_on [c] l) = l.
Proof.
  induction l as [|x r IH]; [congruence|]. intros _ H. cbn [join_on].
  destruct r as [|y r'].
  - apply split_on_nosep. apply H. now left.
  - cbn [app]. rewrite split_on_app_nosep by (apply H; now left). f_equal. apply IH; [discriminate|].
    intros z Hz. apply H. now right.
Qed.

Lemma in_join sep l c : In c (join_on sep l) -> In c sep \/ exists x, In x l /\ In c x.
Proof.
  induction l as [|x r IH]; cbn [join_on]; [intros []|].
  destruct r as [|y r'].
  - intro H. right. exists x. split; [now left|assumption].
  - intro H. apply in_app_or in H as [H|H]; [right; exists x; split; [now left|assumption]|].
    apply in_app_or in H as [H|H]; [now left|].
    destruct (IH H) as [S|(z & Hz & Hc)]; [now left|]. right. exists z. split; [now right|assumption].
Qed.

Lemma join_nil_iff sep l : (forall x, In x l -> x <> []) -> join_on sep l = [] -> l = [].
Proof.
  destruct l as [|x r]; [reflexivity|]. intros H E. exfalso. cbn [join_on] in E.
  destruct r; [apply (H x (or_introl eq_refl) E)|].
  apply app_eq_nil in E as [E _]. apply (H x (or_introl eq_refl) E).
Qed.
