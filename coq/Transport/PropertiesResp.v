(* C03 — HTTP responses deliver the result intact to the client caller.
   Property statements only. Every theorem is closed by a lemma of Lemmas*.v and
   followed by Print Assumptions.

   Label: PARTIAL. The full statement is false of the faithful model (and of goa: each
   counterexample below is re-demonstrated on the real generated code by the witness
   stream of harness/cmd/c02 -prop C03 on every run); it is proved under resp_safe. *)
From Transport Require Import Model LemmasCodec LemmasReq LemmasPartition Witness LemmasRefuted LemmasResp LemmasRefutedResp.

(* every result attribute lands in exactly one of header / cookie / body of a response;
   the body is the result minus the attributes mapped to headers and cookies *)
Theorem response_partition_exact attrs r : wf_raw (raw_of_resp attrs r) ->
  (forall a, In a (map ra_name attrs) -> exists lw, locs_of (finalize_resp attrs r) a = [lw]) /\
  (forall a, In a (f_body (finalize_resp attrs r)) <->
             In a (map ra_name attrs) /\ ~ In a (map fst (rr_headers r) ++ map fst (rr_cookies r))).
Proof. exact (resp_partition attrs r). Qed.
Print Assumptions response_partition_exact.

(* for every well-formed set of responses and every valid, safe result: the client
   returns the result with the declared defaults filled in, under the status of the
   response the design selects *)
Theorem response_roundtrip_partial pr p r : wf_rep pr -> select_resp (p_resps pr) p = Some r ->
  valid_attrs (rs_attrs r) p -> resp_safe r p ->
  exists d, respond pr p = Returned (rs_status r) d /\ plist_equiv d (result_with_defaults r p).
Proof. exact (response_roundtrip pr p r). Qed.
Print Assumptions response_roundtrip_partial.

(* the status on the wire and seen by the client is the one the design assigns to the
   selected response, which is one of the designed responses *)
Theorem status_is_designed pr p r : wf_rep pr -> select_resp (p_resps pr) p = Some r ->
  valid_attrs (rs_attrs r) p -> resp_safe r p ->
  In r (p_resps pr) /\ exists d, respond pr p = Returned (rs_status r) d.
Proof. exact (status_designed pr p r). Qed.
Print Assumptions status_is_designed.

(* selection by tag: the selected response is a designed one; if it is tagged its tag
   attribute holds the tag value, if it is not no tagged response matches; and a
   matching tagged response is always preferred to the untagged one *)
Theorem tag_selects_response rs p :
  (forall r, select_resp rs p = Some r ->
     In r rs /\ match rs_tag r with
                | Some t => tag_matches t p = true
                | None => forall r' t', In r' rs -> rs_tag r' = Some t' -> tag_matches t' p = false
                end) /\
  (forall r0 t0, In r0 rs -> rs_tag r0 = Some t0 -> tag_matches t0 p = true ->
     exists r t, select_resp rs p = Some r /\ rs_tag r = Some t /\ tag_matches t p = true).
Proof. exact (conj (select_resp_spec rs p) (select_resp_prefers_tag rs p)). Qed.
Print Assumptions tag_selects_response.

(* attributes with a declared default that the service left unset are seen by the
   client with that default (and the others unset) *)
Theorem defaults_seen_by_client pr p r d a : wf_rep pr -> select_resp (p_resps pr) p = Some r ->
  valid_attrs (rs_attrs r) p -> resp_safe r p -> respond pr p = Returned (rs_status r) d ->
  In a (rs_attrs r) -> p (a_name a) = None -> opt_equiv (lookup (a_name a) d) (a_def a).
Proof. exact (defaults_seen pr p r d a). Qed.
Print Assumptions defaults_seen_by_client.

Theorem result_delivered_per_attribute pr p r d : wf_rep pr -> select_resp (p_resps pr) p = Some r ->
  valid_attrs (rs_attrs r) p -> resp_safe r p -> respond pr p = Returned (rs_status r) d ->
  forall a, In a (rs_attrs r) ->
    opt_equiv (lookup (a_name a) d) (match p (a_name a) with Some v => Some v | None => a_def a end).
Proof. exact (returned_per_attribute pr p r d). Qed.
Print Assumptions result_delivered_per_attribute.

(* ---- the full statement is false: one counterexample per loss class ---- *)

Theorem response_roundtrip_refuted :
  ~ (forall pr p r, wf_rep pr -> select_resp (p_resps pr) p = Some r -> valid_attrs (rs_attrs r) p -> respond_holds pr p).
Proof. exact resp_full_statement_refuted. Qed.
Print Assumptions response_roundtrip_refuted.

Theorem response_roundtrip_refuted_header_value_trimmed :
  let pr := one_rep LHeader (TyPrim TStr) false None in let p := give (str [x20; x61; x20]) in
  wf_rep pr /\ valid_attrs (rs_attrs (one_resp LHeader (TyPrim TStr) false None)) p /\
  respond pr p = Returned 200 [(nx, str [x61])].
Proof. exact resp_refuted_header_trimmed. Qed.
Print Assumptions response_roundtrip_refuted_header_value_trimmed.

Theorem response_roundtrip_refuted_cookie_value_sanitised :
  let pr := one_rep LCookie (TyPrim TStr) false None in let p := give (str [x61; x3b; x62; x22]) in
  wf_rep pr /\ valid_attrs (rs_attrs (one_resp LCookie (TyPrim TStr) false None)) p /\
  respond pr p = Returned 200 [(nx, str [x61; x62])].
Proof. exact resp_refuted_cookie_sanitised. Qed.
Print Assumptions response_roundtrip_refuted_cookie_value_sanitised.

Theorem response_roundtrip_refuted_empty_string_arrives_unset l : l = LHeader \/ l = LCookie ->
  let pr := one_rep l (TyPrim TStr) false None in let p := give (str []) in
  wf_rep pr /\ valid_attrs (rs_attrs (one_resp l (TyPrim TStr) false None)) p /\ ~ respond_holds pr p.
Proof. exact (resp_refuted_empty_string l). Qed.
Print Assumptions response_roundtrip_refuted_empty_string_arrives_unset.

Theorem response_roundtrip_refuted_default_overrides_zero :
  let pr := one_rep LBody TyJson false (Some (AJson (JNum [x35]))) in let p := give (AJson (JNum [x30])) in
  wf_rep pr /\ valid_attrs (rs_attrs (one_resp LBody TyJson false (Some (AJson (JNum [x35]))))) p /\ ~ respond_holds pr p.
Proof. exact resp_refuted_default_overrides_zero. Qed.
Print Assumptions response_roundtrip_refuted_default_overrides_zero.

Theorem response_roundtrip_refuted_response_header_array_joined :
  let pr := one_rep LHeader (TyArr TStr) false None in let p := give (AArr [VStr [x61]; VStr [x62]]) in
  wf_rep pr /\ valid_attrs (rs_attrs (one_resp LHeader (TyArr TStr) false None)) p /\
  respond pr p = Returned 200 [(nx, AArr [VStr [x61; x2c; x20; x62]])].
Proof. exact resp_refuted_header_array_joined. Qed.
Print Assumptions response_roundtrip_refuted_response_header_array_joined.

Theorem response_roundtrip_refuted_empty_collection_arrives_nil :
  let pr := one_rep LBody TyJsonColl false None in let p := give (AJson (JArr [])) in
  wf_rep pr /\ valid_attrs (rs_attrs (one_resp LBody TyJsonColl false None)) p /\ ~ respond_holds pr p.
Proof. exact resp_refuted_empty_collection. Qed.
Print Assumptions response_roundtrip_refuted_empty_collection_arrives_nil.

Theorem response_roundtrip_refuted_default_in_response_header_sent_as_zero :
  let pr := one_rep LHeader (TyPrim (TInt 64)) false (Some (APrim (VInt 5))) in
  wf_rep pr /\ valid_attrs (rs_attrs (one_resp LHeader (TyPrim (TInt 64)) false (Some (APrim (VInt 5))))) nothing /\
  respond pr nothing = Returned 200 [(nx, APrim (VInt 0))].
Proof. exact resp_refuted_default_in_header. Qed.
Print Assumptions response_roundtrip_refuted_default_in_response_header_sent_as_zero.

(* ---- non-vacuity: two responses (202 tagged on k = "acc", 200 untagged) over a result
   with a header string holding spaces and a comma, a 32-bit header array, a cookie
   holding a space and a comma, a defaulted body attribute left unset, a nested body
   value: the tag value selects 202, anything else 200, and the client returns the result
   with the default in both cases ---- *)
Example resp_safe_inhabited :
  wf_rep ex_rep /\
  (forall kind, valid_attrs ex_attrs (ex_result kind)) /\
  (forall kind r, rs_attrs r = ex_attrs -> resp_safe r (ex_result kind)) /\
  (exists r, select_resp (p_resps ex_rep) (ex_result [x61; x63; x63]) = Some r /\ rs_status r = 202%N /\
             respond ex_rep (ex_result [x61; x63; x63]) = Returned 202 (result_with_defaults r (ex_result [x61; x63; x63]))) /\
  (exists r, select_resp (p_resps ex_rep) (ex_result [x78]) = Some r /\ rs_status r = 200%N /\
             respond ex_rep (ex_result [x78]) = Returned 200 (result_with_defaults r (ex_result [x78]))).
Proof. exact (conj ex_rep_wf (conj ex_result_valid (conj ex_result_safe (conj ex_result_tagged ex_result_untagged)))). Qed.

(* ---- content types (http/encoding.go): the codec the generated server picks for the
   body and the codec the generated client picks from the Content-Type it receives ---- *)
From Transport Require Import LemmasContent.

(* a response with a designed ContentType: for EVERY content type string Go's mime parser
   accepts, the server encodes with family_of_ct of its media type, announces exactly that
   media type, and the client - which sees only the header - picks the same codec.
   canonical_mt: parsing the announced media type again gives it back (it holds of every
   string produced by media_type_part that the examples and the correspondence stream met;
   it is a hypothesis here, not proved in general). *)
Theorem response_codec_agrees_designed : forall ct accept aok,
  ct <> [] -> canonical_mt (media_type_part ct) ->
  let mt := media_type_part ct in
  resp_encoder ct POk accept aok [] = (Some (family_of_ct mt), mt) /\
  resp_decoder mt true = family_of_ct mt.
Proof. exact resp_codec_agrees_designed. Qed.
Print Assumptions response_codec_agrees_designed.

(* no designed ContentType: whatever the Accept header holds, accepted by the mime parser or
   not, an encoder is picked (never nil) and the client picks the same codec *)
Theorem response_codec_agrees_negotiated : forall accept aok,
  exists c h, resp_encoder [] POk accept aok [] = (Some c, h) /\ resp_decoder h true = c.
Proof. exact resp_codec_agrees_negotiated. Qed.
Print Assumptions response_codec_agrees_negotiated.

(* SetContentType: whatever Content-Type user code already put on the response (any bytes,
   parameters or not), after the JSON / XML encoder is installed the media type in front of
   the parameters selects that very codec on the client *)
Theorem set_content_type_announces_codec : forall h ct,
  ct = MT.json \/ ct = MT.xml -> h <> [] ->
  family_of_ct (trim_right is_sp_tab (fst (cut_semi (set_content_type h ct)))) = family_of_ct ct.
Proof. exact set_content_type_announces. Qed.
Print Assumptions set_content_type_announces_codec.

(* a String or Bytes result under a designed content type of the text family: EVERY byte
   string is returned to the caller exactly (no resp_safe restriction: the text codec
   neither trims nor escapes) *)
Theorem text_response_roundtrip : forall ct v,
  ct <> [] -> canonical_mt (media_type_part ct) -> family_of_ct (media_type_part ct) = CText -> v <> TvOther ->
  respond_text ct POk v = TReturned v.
Proof. exact respond_text_roundtrip. Qed.
Print Assumptions text_response_roundtrip.

(* non-vacuity: a vendor "+txt" type and "Text/Plain; charset=utf-8" are canonical and of the
   text family, bytes holding "; " come back, a prior "application/vnd.api+xml ; q=1" becomes
   "application/vnd.api+json; q=1", Accept: text/html negotiates the text codec *)
Example content_types_inhabited :
  canonical_mt (media_type_part EX.note_txt) /\ family_of_ct (media_type_part EX.note_txt) = CText /\
  canonical_mt (media_type_part EX.plain_charset) /\ family_of_ct (media_type_part EX.plain_charset) = CText /\
  respond_text EX.plain_charset POk (TvBytes EX.hello) = TReturned (TvBytes EX.hello) /\
  set_content_type EX.prior MT.json = EX.api_json_q /\
  resp_encoder [] POk MT.html false [] = (Some CText, MT.html).
Proof. exact content_examples. Qed.
