(* Correspondence glue: the terms the harness writes (one case per exchange / per
   endpoint), the comparisons model-vs-observed evaluated by vm_compute. *)
From Transport Require Import Model.

(* byte strings are written by the harness as lists of N *)
Definition b (l : list N) : bstr :=
  flat_map (fun n => match Byte.of_N n with Some x => [x] | None => [] end) l.

Definition RA (n : list N) (t : aty) (req : bool) (d : option aval) : rattr :=
  {| ra_name := b n; ra_ty := t; ra_req := req; ra_def := d |}.
Definition M (a w : list N) : bstr * bstr := (b a, b w).
Definition Lit (s : list N) : rseg := RLit (b s).
Definition Var (s : list N) : rseg := RVar (b s).
Definition S (s : list N) : pval := VStr (b s).
Definition JS (s : list N) : jvalue := JStr (b s).
Definition JN (s : list N) : jvalue := JNum (b s).
Definition JF (k : list N) (v : jvalue) : bstr * jvalue := (b k, v).
Definition PV (n : list N) (v : aval) : bstr * aval := (b n, v).
Definition ME (k : list N) (v : pval) : bstr * pval := (b k, v).
Definition KV (k v : list N) : bstr * bstr := (b k, b v).
Definition RawEp attrs whole route q h c : raw_ep :=
  {| r_attrs := attrs; r_whole := whole; r_route := route; r_query := q; r_headers := h; r_cookies := c |}.
Definition FinEp p q h c bd : fin_ep :=
  {| f_path := p; f_query := q; f_headers := h; f_cookies := c; f_body := map b bd |}.
Definition RawResp st tag h c : raw_resp := {| rr_status := st; rr_tag := tag; rr_headers := h; rr_cookies := c |}.
Definition RawRep attrs whole rs : raw_rep := {| rr_attrs := attrs; rr_whole := whole; rr_resps := rs |}.

(* ------------------------------------------------------------ equalities *)

Definition pval_eqb (x y : pval) : bool :=
  match x, y with
  | VBool a, VBool c => Bool.eqb a c
  | VInt a, VInt c => (a =? c)%Z
  | VFloat a, VFloat c => (a =? c)%Z
  | VStr a, VStr c => beq a c
  | _, _ => false
  end.

Fixpoint list_eqb {A} (f : A -> A -> bool) (l m : list A) : bool :=
  match l, m with
  | [], [] => true
  | x :: l', y :: m' => f x y && list_eqb f l' m'
  | _, _ => false
  end.

Fixpoint jeqb (x y : jvalue) : bool :=
  match x, y with
  | JNull, JNull => true
  | JBool a, JBool c => Bool.eqb a c
  | JNum a, JNum c => beq a c
  | JStr a, JStr c => beq a c
  | JArr l, JArr m =>
      (fix go (l m : list jvalue) : bool :=
         match l, m with
         | [], [] => true
         | a :: l', c :: m' => jeqb a c && go l' m'
         | _, _ => false
         end) l m
  | JObj l, JObj m =>
      (fix go (l m : list (bstr * jvalue)) : bool :=
         match l, m with
         | [], [] => true
         | (k, a) :: l', (k', c) :: m' => beq k k' && jeqb a c && go l' m'
         | _, _ => false
         end) l m
  | _, _ => false
  end.

(* maps and top-level body objects are compared as sets of entries *)
Definition subset {A} (f : A -> A -> bool) (l m : list A) : bool := forallb (fun x => existsb (f x) m) l.
Definition set_eqb {A} (f : A -> A -> bool) (l m : list A) : bool :=
  Nat.eqb (length l) (length m) && subset f l m && subset f m l.

Definition aval_eqb (x y : aval) : bool :=
  match x, y with
  | APrim a, APrim c => pval_eqb a c
  | AArr l, AArr m => list_eqb pval_eqb l m
  | AMap l, AMap m => set_eqb (fun p q => beq (fst p) (fst q) && pval_eqb (snd p) (snd q)) l m
  | AJson a, AJson c => jeqb a c
  | _, _ => false
  end.

Definition kv_eqb (p q : bstr * bstr) : bool := beq (fst p) (fst q) && beq (snd p) (snd q).
Definition kvs_eqb (l m : kvs) : bool := list_eqb kv_eqb l m.

Definition jbody_eqb (x y : jbody) : bool :=
  match x, y with
  | BNone, BNone => true
  | BObj l, BObj m => set_eqb (fun p q => beq (fst p) (fst q) && jeqb (snd p) (snd q)) l m
  | BWhole a, BWhole c => jeqb a c
  | _, _ => false
  end.

Definition reject_eqb (x y : reject) : bool :=
  match x, y with
  | Missing, Missing | Invalid, Invalid | NotRouted, NotRouted | NotSent, NotSent => true
  | _, _ => false
  end.

Definition plist_eqb (l m : list (bstr * aval)) : bool :=
  list_eqb (fun p q => beq (fst p) (fst q) && aval_eqb (snd p) (snd q)) l m.

Definition outcome_eqb (x y : outcome) : bool :=
  match x, y with
  | Delivered l, Delivered m => plist_eqb l m
  | Rejected a, Rejected c => reject_eqb a c
  | _, _ => false
  end.

(* ----------------------------------------------------- tier A: the partition *)

Definition fin_eqb (f g : fin_ep) : bool :=
  set_eqb kv_eqb (f_path f) (f_path g) && set_eqb kv_eqb (f_query f) (f_query g) &&
  set_eqb kv_eqb (f_headers f) (f_headers g) && set_eqb kv_eqb (f_cookies f) (f_cookies g) &&
  set_eqb beq (f_body f) (f_body g).

(* goa's finalisation puts every payload attribute in exactly one location, and it is
   the finalisation the model computes from the raw mapping *)
Definition pcase := (raw_ep * fin_ep)%type.
Definition pcase_ok (c : pcase) : bool :=
  let (r, g) := c in
  fin_eqb (finalize r) g && forallb (fun a => Nat.eqb (length (locs_of g a)) 1) (attr_names r).

Definition partition_mismatches (cs : list (N * pcase)) : list N :=
  flat_map (fun c => if pcase_ok (snd c) then [] else [fst c]) cs.

Definition rpcase := (list rattr * raw_resp * fin_ep)%type.
Definition rpcase_ok (c : rpcase) : bool :=
  match c with
  | (attrs, r, g) =>
    fin_eqb (finalize_resp attrs r) g && forallb (fun a => Nat.eqb (length (locs_of g a)) 1) (map ra_name attrs)
  end.
Definition rpartition_mismatches (cs : list (N * rpcase)) : list N :=
  flat_map (fun c => if rpcase_ok (snd c) then [] else [fst c]) cs.

(* ------------------------------------------------- tier B: request exchanges *)

(* observed: tapped path, raw query, header values and cookie pairs of the endpoint's
   header / cookie attributes (payload attribute order), body; and what happened *)
Record xobs := { o_path : bstr; o_query : bstr; o_headers : kvs; o_cookies : kvs; o_body : jbody;
                 o_out : outcome }.
Definition XObs p q h c bd out : xobs :=
  {| o_path := b p; o_query := b q; o_headers := h; o_cookies := c; o_body := bd; o_out := out |}.

Definition xcase := (raw_ep * list (bstr * aval) * xobs)%type.

Definition wire_ok (e : ep) (c : creq) (o : xobs) : bool :=
  beq (wire_path (c_path c)) (o_path o) &&
  beq (encode_values (c_query c)) (o_query o) &&
  kvs_eqb (map (fun kv => (canon (fst kv), snd kv)) (c_headers c)) (o_headers o) &&
  kvs_eqb (c_cookies c) (o_cookies o) &&
  jbody_eqb (c_body c) (o_body o).

Definition xcase_ok (x : xcase) : bool :=
  match x with
  | (r, pl, o) =>
    let e := ep_of r in
    let p := payload_of pl in
    let sent := match o_out o with Rejected NotSent => false | _ => true end in
    (if sent then wire_ok e (encode_req e p) o else true) && outcome_eqb (deliver e p) (o_out o)
  end.

Definition request_mismatches (cs : list (N * xcase)) : list N :=
  flat_map (fun c => if xcase_ok (snd c) then [] else [fst c]) cs.

(* ------------------------------------------------ tier B: response exchanges *)

Record robs := { ro_status : N; ro_headers : kvs; ro_cookies : kvs; ro_body : jbody; ro_out : routcome }.
Definition RObs st h c bd out : robs :=
  {| ro_status := st; ro_headers := h; ro_cookies := c; ro_body := bd; ro_out := out |}.
Definition rcase := (raw_rep * list (bstr * aval) * robs)%type.

Definition routcome_eqb (x y : routcome) : bool :=
  match x, y with
  | Returned s l, Returned t m => (s =? t)%N && plist_eqb l m
  | ClientError a, ClientError c => reject_eqb a c
  | NoResponse, NoResponse => true
  | _, _ => false
  end.

(* the tap sits on the client side of net/http: it sees the transmitted response *)
Definition rcase_ok (x : rcase) : bool :=
  match x with
  | (r, pl, o) =>
    let pr := rep_of r in
    let p := payload_of pl in
    match select_resp (p_resps pr) p with
    | None => routcome_eqb NoResponse (ro_out o)
    | Some rs =>
      let c0 := encode_resp (p_whole pr) rs p in
      let c := transmit_resp c0 in
      (* header values as net/http delivers them; Set-Cookie values still as written (quoted) *)
      (cr_status c =? ro_status o)%N && kvs_eqb (cr_headers c) (ro_headers o) &&
      kvs_eqb (cr_cookies c0) (ro_cookies o) && jbody_eqb (cr_body c) (ro_body o) &&
      routcome_eqb (respond pr p) (ro_out o)
    end
  end.

Definition response_mismatches (cs : list (N * rcase)) : list N :=
  flat_map (fun c => if rcase_ok (snd c) then [] else [fst c]) cs.

(* ------------------------------------------------ content types: http/encoding.go probed
   directly (ResponseEncoder, ResponseDecoder, RequestEncoder, RequestDecoder,
   SetContentType through ResponseEncoder, mime.ParseMediaType's media type, the text
   codec): inputs and what the real functions answered *)
Inductive ccase :=
| CRespEnc (ct : bstr) (ctp : parse_verdict) (accept : bstr) (aok : bool) (h : bstr) (oc : option codec) (oh : bstr)
| CRespDec (h : bstr) (hok : bool) (oc : codec)
| CReqEnc (h : bstr) (oc : codec) (oh : bstr)
| CReqDec (h : bstr) (hok : bool) (o : req_dec)
| CParse (s : bstr) (omt : bstr)
| CTextEnc (v : tval) (o : option bstr)
| CTextDec (t : ttarget) (body : bstr) (o : option tval).

Definition ocodec_eqb (x y : option codec) : bool :=
  match x, y with Some a, Some c => codec_eqb a c | None, None => true | _, _ => false end.
Definition tval_eqb (x y : tval) : bool :=
  match x, y with
  | TvStr a, TvStr c | TvBytes a, TvBytes c => beq a c
  | TvOther, TvOther => true
  | _, _ => false
  end.
Definition ccase_ok (c : ccase) : bool :=
  match c with
  | CRespEnc ct ctp accept aok h oc oh =>
    let (mc, mh) := resp_encoder ct ctp accept aok h in ocodec_eqb mc oc && beq mh oh
  | CRespDec h hok oc => codec_eqb (resp_decoder h hok) oc
  | CReqEnc h oc oh => let (mc, mh) := req_encoder h in codec_eqb mc oc && beq mh oh
  | CReqDec h hok o =>
    match req_decoder h hok, o with
    | RDec a, RDec c => codec_eqb a c
    | RUnsupported a, RUnsupported c => beq a c
    | _, _ => false
    end
  | CParse s omt => beq (media_type_part s) omt
  | CTextEnc v o =>
    match text_encode v, o with Some a, Some c => beq a c | None, None => true | _, _ => false end
  | CTextDec t body o =>
    match text_decode t body, o with Some a, Some c => tval_eqb a c | None, None => true | _, _ => false end
  end.
Definition codec_mismatches (cs : list (N * ccase)) : list N :=
  flat_map (fun c => if ccase_ok (snd c) then [] else [fst c]) cs.
