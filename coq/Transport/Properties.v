(* C02 — HTTP requests deliver the payload intact to the service method.
   Property statements only. Every theorem is closed by a lemma of Lemmas*.v and
   followed by Print Assumptions.

   Label: PARTIAL. The full statement is false of the faithful model (and of goa:
   each counterexample below is re-demonstrated on the real generated code by the
   witness stream of harness/cmd/c02 on every run); it is proved under wire_safe, the
   conjunction of the negations of the recorded loss classes. *)
From Transport Require Import Model LemmasCodec LemmasStrconv LemmasQuery LemmasReq LemmasPartition Witness LemmasRefuted.

(* ---- finalisation ---- *)

(* every payload attribute lands in exactly one location (path, query, header, cookie
   or body); the body is the payload minus everything mapped elsewhere *)
Theorem partition_exact r : wf_raw r ->
  (forall a, In a (attr_names r) -> exists lw, locs_of (finalize r) a = [lw]) /\
  (forall a, In a (f_body (finalize r)) <-> In a (attr_names r) /\ ~ In a (mapped_names r)).
Proof. exact (partition_exact_lemma r). Qed.
Print Assumptions partition_exact.

(* ---- strconv: all widths, all values ---- *)

Theorem parse_int_roundtrip bits z :
  (- 2 ^ (bits - 1) <= z < 2 ^ (bits - 1))%Z -> parse_int bits (format_Z z) = Some z.
Proof. exact (parse_int_format bits z). Qed.
Print Assumptions parse_int_roundtrip.

Theorem parse_int_out_of_range_is_error bits z :
  ~ (- 2 ^ (bits - 1) <= z < 2 ^ (bits - 1))%Z -> parse_int bits (format_Z z) = None.
Proof. exact (parse_int_overflow bits z). Qed.
Print Assumptions parse_int_out_of_range_is_error.

Theorem parse_uint_roundtrip bits z : (0 <= z < 2 ^ bits)%Z -> parse_uint bits (format_Z z) = Some z.
Proof. exact (parse_uint_format bits z). Qed.
Print Assumptions parse_uint_roundtrip.

Theorem parse_bool_roundtrip b : parse_bool (format_bool b) = Some b.
Proof. exact (parse_bool_format b). Qed.
Print Assumptions parse_bool_roundtrip.

(* floats: every half-integer k/2 *)
Theorem parse_float_roundtrip k : parse_half (format_half k) = Some k.
Proof. exact (parse_half_format k). Qed.
Print Assumptions parse_float_roundtrip.

Theorem parse_format_primitive t v : prim_ok t v = true -> parse_prim t (fmt_prim v) = Some v.
Proof. exact (parse_fmt t v). Qed.
Print Assumptions parse_format_primitive.

(* ---- the query channel: Values.Encode then ParseQuery, for every multimap of byte strings ---- *)

Theorem query_roundtrip q k : lookup_all k (parse_query (encode_values q)) = lookup_all k q.
Proof. exact (LemmasQuery.query_roundtrip q k). Qed.
Print Assumptions query_roundtrip.

Theorem percent_codec_roundtrip m s : unescape m (escape m s) = Some s.
Proof. exact (unescape_escape m s). Qed.
Print Assumptions percent_codec_roundtrip.

(* ---- the property, under wire_safe ---- *)

(* for every well-formed endpoint and every valid, wire-safe payload: the request is
   sent, routed, decoded without error and the service method receives the payload with
   the declared defaults filled in for unset attributes (map values up to entry order) *)
Theorem request_roundtrip_partial e p : wf_ep e -> valid e p -> wire_safe e p ->
  exists d, deliver e p = Delivered d /\ plist_equiv d (with_defaults e p).
Proof. exact (request_roundtrip e p). Qed.
Print Assumptions request_roundtrip_partial.

(* attributes the caller left unset arrive unset, or carrying the default *)
Theorem unset_stays_unset_or_default e p d a : wf_ep e -> valid e p -> wire_safe e p ->
  deliver e p = Delivered d -> In a (e_attrs e) -> p (a_name a) = None ->
  opt_equiv (lookup (a_name a) d) (a_def a).
Proof. exact (unset_lemma e p d a). Qed.
Print Assumptions unset_stays_unset_or_default.

(* none is lost, duplicated or swapped: each name is delivered at most once, and every
   set attribute arrives under its own name with its own value *)
Theorem no_attribute_swapped e p d : wf_ep e -> valid e p -> wire_safe e p -> deliver e p = Delivered d ->
  NoDup (map fst d) /\
  forall a v, In a (e_attrs e) -> p (a_name a) = Some v -> opt_equiv (lookup (a_name a) d) (Some v).
Proof. exact (not_swapped_lemma e p d). Qed.
Print Assumptions no_attribute_swapped.

(* ---- the full statement is false: one counterexample per loss class ---- *)

Theorem request_roundtrip_refuted : ~ (forall e p, wf_ep e -> valid e p -> roundtrip_holds e p).
Proof. exact full_statement_refuted. Qed.
Print Assumptions request_roundtrip_refuted.

Theorem request_roundtrip_refuted_empty_string_arrives_unset l : l = LQuery \/ l = LHeader \/ l = LCookie ->
  let e := one_ep l (TyPrim TStr) false None in let p := give (str []) in
  wf_ep e /\ valid e p /\ ~ roundtrip_holds e p.
Proof. exact (refuted_empty_string_unset l). Qed.
Print Assumptions request_roundtrip_refuted_empty_string_arrives_unset.

Theorem request_roundtrip_refuted_required_empty_string_rejected :
  let e := one_ep LQuery (TyPrim TStr) true None in let p := give (str []) in
  wf_ep e /\ valid e p /\ deliver e p = Rejected Missing.
Proof. exact refuted_required_empty_string. Qed.
Print Assumptions request_roundtrip_refuted_required_empty_string_rejected.

Theorem request_roundtrip_refuted_default_overrides_zero :
  (let e := one_ep LBody TyJson false (Some (AJson (JNum [x35]))) in let p := give (AJson (JNum [x30])) in
   wf_ep e /\ valid e p /\ ~ roundtrip_holds e p) /\
  (let e := one_ep LQuery (TyPrim TStr) false (Some (str [x64])) in let p := give (str []) in
   wf_ep e /\ valid e p /\ ~ roundtrip_holds e p).
Proof. exact (conj refuted_default_overrides_zero_body refuted_default_overrides_zero_param). Qed.
Print Assumptions request_roundtrip_refuted_default_overrides_zero.

Theorem request_roundtrip_refuted_unset_defaulted_param_sent_as_zero :
  let e := one_ep LQuery (TyPrim (TInt 64)) false (Some (APrim (VInt 5))) in
  wf_ep e /\ valid e nothing /\ ~ roundtrip_holds e nothing.
Proof. exact refuted_unset_defaulted_param. Qed.
Print Assumptions request_roundtrip_refuted_unset_defaulted_param_sent_as_zero.

Theorem request_roundtrip_refuted_path_array_comma_splits :
  let e := one_ep LPath (TyArr TStr) true None in let p := give (AArr [VStr [x61; x2c; x62]]) in
  wf_ep e /\ valid e p /\ ~ roundtrip_holds e p.
Proof. exact refuted_path_array_comma. Qed.
Print Assumptions request_roundtrip_refuted_path_array_comma_splits.

Theorem request_roundtrip_refuted_path_array_space_becomes_plus :
  let e := one_ep LPath (TyArr TStr) true None in let p := give (AArr [VStr [x61; x20; x62]]) in
  wf_ep e /\ valid e p /\ ~ roundtrip_holds e p.
Proof. exact refuted_path_array_space. Qed.
Print Assumptions request_roundtrip_refuted_path_array_space_becomes_plus.

Theorem request_roundtrip_refuted_path_slash_not_escaped :
  let e := one_ep LPath (TyPrim TStr) true None in let p := give (str [x61; x2f; x62]) in
  wf_ep e /\ valid e p /\ deliver e p = Rejected NotRouted.
Proof. exact refuted_path_slash. Qed.
Print Assumptions request_roundtrip_refuted_path_slash_not_escaped.

Theorem request_roundtrip_refuted_path_percent_decoded_twice :
  let e := one_ep LPath (TyPrim TStr) true None in let p := give (str [x25; x34; x31]) in
  wf_ep e /\ valid e p /\ deliver e p = Delivered [(nx, str [x41])].
Proof. exact refuted_path_percent. Qed.
Print Assumptions request_roundtrip_refuted_path_percent_decoded_twice.

Theorem request_roundtrip_refuted_empty_path_value_not_routed :
  (let e := one_ep LPath (TyPrim TStr) true None in let p := give (str []) in
   wf_ep e /\ valid e p /\ deliver e p = Rejected NotRouted) /\
  (let e := one_ep LPath (TyArr TStr) true None in let p := give (AArr []) in
   wf_ep e /\ valid e p /\ deliver e p = Rejected NotRouted).
Proof. exact refuted_empty_path_value. Qed.
Print Assumptions request_roundtrip_refuted_empty_path_value_not_routed.

Theorem request_roundtrip_refuted_header_value_trimmed :
  let e := one_ep LHeader (TyPrim TStr) false None in let p := give (str [x20; x61; x20]) in
  wf_ep e /\ valid e p /\ deliver e p = Delivered [(nx, str [x61])].
Proof. exact refuted_header_trimmed. Qed.
Print Assumptions request_roundtrip_refuted_header_value_trimmed.

Theorem request_roundtrip_refuted_cookie_value_sanitised :
  let e := one_ep LCookie (TyPrim TStr) false None in let p := give (str [x61; x3b; x62; x20; x63; x2c; x64; x22; xc3; xa9]) in
  wf_ep e /\ valid e p /\ deliver e p = Delivered [(nx, str [x61; x62; x20; x63; x2c; x64])].
Proof. exact refuted_cookie_sanitised. Qed.
Print Assumptions request_roundtrip_refuted_cookie_value_sanitised.

Theorem request_roundtrip_refuted_empty_collection_arrives_nil :
  let e := one_ep LQuery (TyArr TStr) false None in let p := give (AArr []) in
  wf_ep e /\ valid e p /\ ~ roundtrip_holds e p.
Proof. exact refuted_empty_collection. Qed.
Print Assumptions request_roundtrip_refuted_empty_collection_arrives_nil.

Theorem request_roundtrip_refuted_query_map_key_bracket_truncated :
  let e := one_ep LQuery (TyMap TStr) false None in let p := give (AMap [([x61; x5d; x62], VStr [x76])]) in
  wf_ep e /\ valid e p /\ deliver e p = Delivered [(nx, AMap [([x61], VStr [x76])])].
Proof. exact refuted_map_key_bracket. Qed.
Print Assumptions request_roundtrip_refuted_query_map_key_bracket_truncated.

(* ---- non-vacuity: wire_safe is inhabited by a non-trivial payload ---- *)

(* GET /w/{id}/x with a path string holding a space, '%' and '+', a 32-bit query integer
   under a renamed key, a query array holding "" and "x y&z=%41", a query map, a header
   array holding MinInt64, a defaulted cookie left unset, a defaulted body attribute left
   unset and a nested JSON body value: all eight attributes are delivered as the
   property asks. *)
Example wire_safe_inhabited :
  wf_ep ex_ep /\ valid ex_ep ex_payload /\ wire_safe ex_ep ex_payload /\
  deliver ex_ep ex_payload = Delivered (with_defaults ex_ep ex_payload) /\
  length (with_defaults ex_ep ex_payload) = 8.
Proof. exact (conj ex_wf (conj ex_valid (conj ex_safe (conj ex_delivered ex_nontrivial)))). Qed.

(* ---- content types (http/encoding.go RequestEncoder / RequestDecoder) ---- *)
From Transport Require Import LemmasContent.

(* a request whose Content-Type the design does not set: the generated client announces
   application/json and the server decodes the body with the JSON codec *)
Theorem request_codec_agrees_default :
  req_decoder (snd (req_encoder [])) true = RDec (fst (req_encoder [])).
Proof. exact req_codec_agrees_default. Qed.
Print Assumptions request_codec_agrees_default.

(* REFUTED in general: when the caller's payload sets Content-Type (an attribute mapped to
   that header) to a "+json" media type - which goa's own ResponseDecoder reads as JSON - the
   client still writes a JSON body, and RequestDecoder, which matches exact names only,
   refuses it (415): the payload never reaches the service method *)
Theorem request_codec_refuted_json_suffix :
  resp_decoder EX.merge_patch true = CJson /\
  req_encoder EX.merge_patch = (CJson, EX.merge_patch) /\
  req_decoder (snd (req_encoder EX.merge_patch)) true = RUnsupported EX.merge_patch.
Proof. exact req_refuted_json_suffix. Qed.
Print Assumptions request_codec_refuted_json_suffix.
