(* Transport engine — executable model of the HTTP request / response transport that
   goa generates (C02: requests deliver the payload; C03: responses deliver the result).

   Modelled, from the sources named:
     expr/http_endpoint.go  Finalize, PathParams, QueryParams   |  finalize: raw mapping -> per-location
     expr/http_body_types.go httpRequestBody / buildHTTPResponseBody |  attribute sets, body = payload - mapped
     expr/mapped_attribute.go attribute name <-> wire name tables
     http/codegen/templates/request_encoder.go.tpl, path_init.go.tpl, request_init.go.tpl,
       partial/client_type_conversion, client_map_conversion, query_slice_conversion      (encode_req)
     http/codegen/templates/partial/request_elements.go.tpl, query_type_conversion,
       path_conversion, slice_item_conversion, query_map_conversion, element_slice_conversion (decode_req)
     http/codegen/templates/response_encoder.go.tpl, partial/response.go.tpl,
       partial/header_conversion.go.tpl                                                   (encode_resp)
     http/codegen/templates/response_decoder.go.tpl, partial/single_response.go.tpl       (decode_resp)
     codegen/go_transform.go default injection of the body initialisers (top level: zero -> default)
     http/mux.go Vars / unescape; chi parameter matching (one pattern)
     net/url  shouldEscape / escape / unescape / setPath / Values.Encode / ParseQuery
     net/http Header canonicalisation, header value validation and trimming, cookie
              value sanitising / quoting / unquoting
     strconv  FormatInt / ParseInt / ParseUint (all widths, overflow => error), FormatBool /
              ParseBool (Go's accepted spellings), FormatFloat 'f' -1 / ParseFloat restricted to
              the half-integers k/2 the value generator produces.
   Bodies are JSON value trees carried as they are (value-level identity of encoding/json
   is an assumption recorded in the check; the harness converts typed values to trees).
   Definitions only; proofs are in Lemmas*.v, property statements in Properties*.v. *)
From Coq Require Export List Bool NArith ZArith Lia.
From Coq.Strings Require Export Byte.
From Coq Require Import DecimalZ.
Export ListNotations.

Definition bstr := list byte.

(* ------------------------------------------------------------------ bytes *)

Definition bn (b : byte) : N := Byte.to_N b.
Definition in_range (c : byte) (lo hi : N) : bool := (lo <=? bn c)%N && (bn c <=? hi)%N.
Definition is_alnum (c : byte) : bool := in_range c 97 122 || in_range c 65 90 || in_range c 48 57.
Definition ceq (c : byte) (k : N) : bool := (bn c =? k)%N.

Definition slash : byte := x2f.
Definition pct : byte := x25.
Definition plus : byte := x2b.
Definition space : byte := x20.
Definition comma : byte := x2c.
Definition amp : byte := x26.
Definition equals : byte := x3d.
Definition lbrack : byte := x5b.
Definition rbrack : byte := x5d.
Definition dquote : byte := x22.
Definition minus : byte := x2d.
Definition dot : byte := x2e.
Definition semi : byte := x3b.

Fixpoint beq (a b : bstr) : bool :=
  match a, b with
  | [], [] => true
  | x :: a', y :: b' => Byte.eqb x y && beq a' b'
  | _, _ => false
  end.

Definition is_nil {A} (l : list A) : bool := match l with [] => true | _ => false end.
Definition memb (c : byte) (s : bstr) : bool := existsb (Byte.eqb c) s.
Definition mem (x : bstr) (l : list bstr) : bool := existsb (beq x) l.

(* ------------------------------------------------------ net/url percent codec *)

Inductive mode := PathSeg | Path | Query.

(* net/url shouldEscape for encodePathSegment, encodePath, encodeQueryComponent *)
Definition should_escape (m : mode) (c : byte) : bool :=
  if is_alnum c then false
  else if ceq c 45 || ceq c 95 || ceq c 46 || ceq c 126 then false        (* - _ . ~ *)
  else if ceq c 36 || ceq c 38 || ceq c 43 || ceq c 44 || ceq c 47 || ceq c 58
       || ceq c 59 || ceq c 61 || ceq c 63 || ceq c 64 then                 (* $ & + , / : ; = ? @ *)
    match m with
    | Path => ceq c 63
    | PathSeg => ceq c 47 || ceq c 59 || ceq c 44 || ceq c 63
    | Query => true
    end
  else true.

Definition hexdigit (k : N) : byte :=
  match Byte.of_N (if (k <? 10)%N then 48 + k else 55 + k)%N with Some b => b | None => x00 end.

Definition unhex (c : byte) : option N :=
  if in_range c 48 57 then Some (bn c - 48)%N
  else if in_range c 97 102 then Some (bn c - 87)%N
  else if in_range c 65 70 then Some (bn c - 55)%N
  else None.

Definition escape_byte (m : mode) (c : byte) : bstr :=
  if should_escape m c then
    match m, Byte.eqb c space with
    | Query, true => [plus]
    | _, _ => [pct; hexdigit (bn c / 16)%N; hexdigit (bn c mod 16)%N]
    end
  else [c].

(* url.PathEscape = escape PathSeg, url.QueryEscape = escape Query, the default path
   encoding of URL.EscapedPath = escape Path *)
Definition escape (m : mode) (s : bstr) : bstr := flat_map (escape_byte m) s.

Inductive ust := UNormal | UPct | UPctH (a : N).

(* net/url unescape as a one-pass decoder: final state and output; None = EscapeError *)
Fixpoint feed (m : mode) (st : ust) (s : bstr) : option (ust * bstr) :=
  match s with
  | [] => Some (st, [])
  | c :: r =>
    match st with
    | UNormal =>
      if Byte.eqb c pct then feed m UPct r
      else let c' := if match m with Query => Byte.eqb c plus | _ => false end then space else c in
           match feed m UNormal r with Some (st', o) => Some (st', c' :: o) | None => None end
    | UPct => match unhex c with Some a => feed m (UPctH a) r | None => None end
    | UPctH a =>
      match unhex c with
      | Some b => match Byte.of_N (16 * a + b)%N with
                  | Some x => match feed m UNormal r with Some (st', o) => Some (st', x :: o) | None => None end
                  | None => None end
      | None => None
      end
    end
  end.

Definition unescape (m : mode) (s : bstr) : option bstr :=
  match feed m UNormal s with Some (UNormal, o) => Some o | _ => None end.

(* http/mux.go unescape: url.PathUnescape, the input itself on error *)
Definition unescape_or_id (s : bstr) : bstr :=
  match unescape PathSeg s with Some u => u | None => s end.

(* URL.setPath: (Path, RawPath) from the path as received; None = parse error *)
Definition set_path (wire : bstr) : option (bstr * bstr) :=
  match unescape Path wire with
  | None => None
  | Some p => Some (p, if beq wire (escape Path p) then [] else wire)
  end.

(* chi Mux.routeHTTP: the string that is routed *)
Definition route_path (path raw : bstr) : bstr :=
  let rp := if is_nil raw then path else raw in
  if is_nil rp then [slash] else rp.

(* ------------------------------------------------------------ split / join *)

Fixpoint split_on (sep : byte) (s : bstr) : list bstr :=
  match s with
  | [] => [[]]
  | c :: r =>
    if Byte.eqb c sep then [] :: split_on sep r
    else match split_on sep r with
         | h :: t => (c :: h) :: t
         | [] => [[c]]
         end
  end.

Fixpoint join_on (sep : bstr) (l : list bstr) : bstr :=
  match l with
  | [] => []
  | x :: r => match r with [] => x | _ => x ++ sep ++ join_on sep r end
  end.

(* the segments of an absolute path: "/" -> [""], "/a/b" -> ["a";"b"] *)
Definition path_segs (p : bstr) : list bstr :=
  match p with
  | c :: r => if Byte.eqb c slash then split_on slash r else []
  | [] => []
  end.

(* ------------------------------------------------------------------ strconv *)

Fixpoint uint_bytes (d : Decimal.uint) : bstr :=
  match d with
  | Decimal.Nil => []
  | Decimal.D0 d => x30 :: uint_bytes d | Decimal.D1 d => x31 :: uint_bytes d
  | Decimal.D2 d => x32 :: uint_bytes d | Decimal.D3 d => x33 :: uint_bytes d
  | Decimal.D4 d => x34 :: uint_bytes d | Decimal.D5 d => x35 :: uint_bytes d
  | Decimal.D6 d => x36 :: uint_bytes d | Decimal.D7 d => x37 :: uint_bytes d
  | Decimal.D8 d => x38 :: uint_bytes d | Decimal.D9 d => x39 :: uint_bytes d
  end.

Definition digit_cons (b : byte) (d : Decimal.uint) : option Decimal.uint :=
  match b with
  | x30 => Some (Decimal.D0 d) | x31 => Some (Decimal.D1 d) | x32 => Some (Decimal.D2 d)
  | x33 => Some (Decimal.D3 d) | x34 => Some (Decimal.D4 d) | x35 => Some (Decimal.D5 d)
  | x36 => Some (Decimal.D6 d) | x37 => Some (Decimal.D7 d) | x38 => Some (Decimal.D8 d)
  | x39 => Some (Decimal.D9 d)
  | _ => None
  end.

Fixpoint bytes_uint (s : bstr) : option Decimal.uint :=
  match s with
  | [] => Some Decimal.Nil
  | b :: r => match bytes_uint r with Some d => digit_cons b d | None => None end
  end.

(* strconv.FormatInt(z, 10) / FormatUint / Itoa *)
Definition format_Z (z : Z) : bstr :=
  match Z.to_int z with
  | Decimal.Pos d => uint_bytes d
  | Decimal.Neg d => minus :: uint_bytes d
  end.

(* at least one decimal digit, nothing else (base 10: no underscores) *)
Definition parse_digits (s : bstr) : option Z :=
  match s with
  | [] => None
  | _ => match bytes_uint s with Some d => Some (Z.of_uint d) | None => None end
  end.

(* strconv.ParseInt(s, 10, bits): optional sign, digits, range check (out of range => error) *)
Definition parse_signed (s : bstr) : option Z :=
  match s with
  | c :: t => if Byte.eqb c plus then parse_digits t
              else if Byte.eqb c minus then option_map Z.opp (parse_digits t)
              else parse_digits s
  | [] => None
  end.
Definition parse_int (bits : Z) (s : bstr) : option Z :=
  match parse_signed s with
  | Some z => if (- 2 ^ (bits - 1) <=? z)%Z && (z <? 2 ^ (bits - 1))%Z then Some z else None
  | None => None
  end.

(* strconv.ParseUint(s, 10, bits): digits only, no sign *)
Definition parse_uint (bits : Z) (s : bstr) : option Z :=
  match parse_digits s with
  | Some z => if (z <? 2 ^ bits)%Z then Some z else None
  | None => None
  end.

Definition s_true : bstr := [x74; x72; x75; x65].
Definition s_false : bstr := [x66; x61; x6c; x73; x65].
Definition format_bool (b : bool) : bstr := if b then s_true else s_false.

(* strconv.ParseBool: 1 t T TRUE true True / 0 f F FALSE false False *)
Definition parse_bool (s : bstr) : option bool :=
  if beq s [x31] || beq s [x74] || beq s [x54] || beq s [x54; x52; x55; x45] || beq s s_true
     || beq s [x54; x72; x75; x65] then Some true
  else if beq s [x30] || beq s [x66] || beq s [x46] || beq s [x46; x41; x4c; x53; x45] || beq s s_false
     || beq s [x46; x61; x6c; x73; x65] then Some false
  else None.

(* floats: the half-integers k/2. FormatFloat(x, 'f', -1, bits) (and %v below 1e6) *)
Definition format_half (k : Z) : bstr :=
  if Z.even k then format_Z (k / 2)
  else (if (k <? 0)%Z then [minus] else []) ++ format_Z (Z.abs k / 2) ++ [dot; x35].

(* ParseFloat on [+-]digits[.digits] whose value is a half-integer; anything else is
   outside the model (None) *)
Fixpoint all_zero (s : bstr) : bool :=
  match s with [] => true | c :: r => Byte.eqb c x30 && all_zero r end.
Definition parse_frac (s : bstr) : option Z :=       (* 2 * fractional part *)
  match s with
  | [] => None
  | c :: r => if all_zero s then Some 0%Z
              else if Byte.eqb c x35 && all_zero r then Some 1%Z else None
  end.
Definition strip_sign (s : bstr) : bool * bstr :=
  match s with
  | c :: t => if Byte.eqb c minus then (true, t) else if Byte.eqb c plus then (false, t) else (false, s)
  | [] => (false, [])
  end.
Definition parse_mag (body : bstr) : option Z :=
  match split_on dot body with
  | [i] => option_map (fun z => 2 * z)%Z (parse_digits i)
  | [i; f] => match parse_digits i, parse_frac f with
              | Some z, Some h => Some (2 * z + h)%Z
              | _, _ => None
              end
  | _ => None
  end.
Definition parse_half (s : bstr) : option Z :=
  let (neg, body) := strip_sign s in
  option_map (fun m => if neg then (- m)%Z else m) (parse_mag body).

(* ------------------------------------------------------------ values, types *)

Inductive pty := TBool | TInt (bits : Z) | TUInt (bits : Z) | TFloat | TStr.
Inductive pval := VBool (b : bool) | VInt (z : Z) | VFloat (k : Z) | VStr (s : bstr).

(* JSON value trees (numbers by their literal text) *)
Inductive jvalue :=
| JNull | JBool (b : bool) | JNum (s : bstr) | JStr (s : bstr)
| JArr (l : list jvalue) | JObj (l : list (bstr * jvalue)).

(* TyJsonK coll: an attribute carried in a JSON body; coll = its type is an array or a map
   (nil-able in Go: omitted from the body when empty and optional) *)
Inductive aty := TyPrim (t : pty) | TyArr (t : pty) | TyMap (t : pty) | TyJsonK (coll : bool).
Notation TyJson := (TyJsonK false).
Notation TyJsonColl := (TyJsonK true).
Definition is_coll (t : aty) : bool := match t with TyJsonK c => c | _ => false end.
Inductive aval :=
| APrim (v : pval) | AArr (l : list pval) | AMap (l : list (bstr * pval)) | AJson (j : jvalue).

Definition zero_of (t : pty) : pval :=
  match t with
  | TBool => VBool false | TInt _ => VInt 0 | TUInt _ => VInt 0 | TFloat => VFloat 0 | TStr => VStr []
  end.

Definition is_str (t : pty) : bool := match t with TStr => true | _ => false end.

(* client_type_conversion / header_conversion / %v for the values in range *)
Definition fmt_prim (v : pval) : bstr :=
  match v with
  | VBool b => format_bool b
  | VInt z => format_Z z
  | VFloat k => format_half k
  | VStr s => s
  end.

(* query_type_conversion / slice_item_conversion *)
Definition parse_prim (t : pty) (s : bstr) : option pval :=
  match t with
  | TBool => option_map VBool (parse_bool s)
  | TInt b => option_map VInt (parse_int b s)
  | TUInt b => option_map VInt (parse_uint b s)
  | TFloat => option_map VFloat (parse_half s)
  | TStr => Some (VStr s)
  end.

Fixpoint parse_all (t : pty) (l : list bstr) : option (list pval) :=
  match l with
  | [] => Some []
  | s :: r => match parse_prim t s, parse_all t r with
              | Some v, Some vs => Some (v :: vs)
              | _, _ => None
              end
  end.

(* --------------------------------------------------------------- endpoints *)

Inductive loc := LPath | LQuery | LHeader | LCookie | LBody.
Definition loc_eqb (a b : loc) : bool :=
  match a, b with
  | LPath, LPath | LQuery, LQuery | LHeader, LHeader | LCookie, LCookie | LBody, LBody => true
  | _, _ => false
  end.

(* the mapping as written in the design (designgen.Method.HTTP) *)
Record rattr := { ra_name : bstr; ra_ty : aty; ra_req : bool; ra_def : option aval }.
Inductive rseg := RLit (s : bstr) | RVar (w : bstr).
Record raw_ep := {
  r_attrs : list rattr;                 (* payload attributes, design order *)
  r_whole : bool;                       (* the payload is not an object: one pseudo attribute *)
  r_route : list rseg;                  (* first full path of the first route *)
  r_query : list (bstr * bstr);         (* Param(attr:wire), path parameters excluded *)
  r_headers : list (bstr * bstr);
  r_cookies : list (bstr * bstr) }.

(* what Finalize computes: the attribute sets per location *)
Record fin_ep := {
  f_path : list (bstr * bstr); f_query : list (bstr * bstr); f_headers : list (bstr * bstr);
  f_cookies : list (bstr * bstr); f_body : list bstr }.

Fixpoint route_vars (r : list rseg) : list bstr :=
  match r with
  | [] => []
  | RLit _ :: t => route_vars t
  | RVar w :: t => w :: route_vars t
  end.

Definition attr_names (r : raw_ep) : list bstr := map ra_name (r_attrs r).

(* body = payload - mapped *)
Definition finalize (r : raw_ep) : fin_ep :=
  let pathp := map (fun w => (w, w)) (route_vars (r_route r)) in
  let mapped := map fst pathp ++ map fst (r_query r) ++ map fst (r_headers r) ++ map fst (r_cookies r) in
  {| f_path := pathp; f_query := r_query r; f_headers := r_headers r; f_cookies := r_cookies r;
     f_body := filter (fun a => negb (mem a mapped)) (attr_names r) |}.

Fixpoint assoc (k : bstr) (l : list (bstr * bstr)) : option bstr :=
  match l with
  | [] => None
  | (a, w) :: r => if beq k a then Some w else assoc k r
  end.

(* every location an attribute lands in, with its wire name *)
Definition locs_of (f : fin_ep) (a : bstr) : list (loc * bstr) :=
  (match assoc a (f_path f) with Some w => [(LPath, w)] | None => [] end) ++
  (match assoc a (f_query f) with Some w => [(LQuery, w)] | None => [] end) ++
  (match assoc a (f_headers f) with Some w => [(LHeader, w)] | None => [] end) ++
  (match assoc a (f_cookies f) with Some w => [(LCookie, w)] | None => [] end) ++
  (if mem a (f_body f) then [(LBody, a)] else []).

(* the finalised endpoint the behavioural model runs on *)
Record attr := { a_name : bstr; a_wire : bstr; a_loc : loc; a_ty : aty; a_req : bool; a_def : option aval }.
Record ep := { e_route : list rseg; e_attrs : list attr; e_whole : bool }.

Definition ep_of (r : raw_ep) : ep :=
  let f := finalize r in
  {| e_route := r_route r;
     e_attrs := map (fun a =>
        let lw := match locs_of f (ra_name a) with lw :: _ => lw | [] => (LBody, ra_name a) end in
        {| a_name := ra_name a; a_wire := snd lw; a_loc := fst lw; a_ty := ra_ty a;
           a_req := ra_req a; a_def := ra_def a |}) (r_attrs r);
     e_whole := r_whole r |}.

Definition at_loc (l : loc) (e : ep) : list attr := filter (fun a => loc_eqb (a_loc a) l) (e_attrs e).

(* ------------------------------------------------------------------ payloads *)

(* a payload gives each attribute name a value or leaves it unset *)
Definition payload := bstr -> option aval.

Fixpoint lookup (k : bstr) (l : list (bstr * aval)) : option aval :=
  match l with
  | [] => None
  | (a, v) :: r => if beq k a then Some v else lookup k r
  end.
Definition payload_of (l : list (bstr * aval)) : payload := fun k => lookup k l.

(* generated structs hold required and defaulted primitives by value: an unset
   attribute is the zero value there *)
Definition by_value (a : attr) : bool := a_req a || match a_def a with Some _ => true | None => false end.

Definition client_view (a : attr) (p : payload) : option aval :=
  match p (a_name a) with
  | Some v => Some v
  | None => match a_ty a with
            | TyPrim t => if by_value a then Some (APrim (zero_of t)) else None
            | _ => None
            end
  end.

(* the delivered payload the property asks for: the given values, defaults for unset attributes *)
Definition with_defaults (e : ep) (p : payload) : list (bstr * aval) :=
  flat_map (fun a => match p (a_name a) with
                     | Some v => [(a_name a, v)]
                     | None => match a_def a with Some d => [(a_name a, d)] | None => [] end
                     end) (e_attrs e).

(* ------------------------------------------------------------------- wires *)

Definition kvs := list (bstr * bstr).

Fixpoint lookup_all (k : bstr) (l : kvs) : list bstr :=
  match l with
  | [] => []
  | (a, v) :: r => if beq k a then v :: lookup_all k r else lookup_all k r
  end.
Definition get_first (k : bstr) (l : kvs) : bstr := match lookup_all k l with v :: _ => v | [] => [] end.

Inductive jbody := BNone | BObj (l : list (bstr * jvalue)) | BWhole (j : jvalue).

(* what the generated client hands to net/http *)
Record creq := { c_path : bstr; c_query : kvs; c_headers : kvs; c_cookies : kvs; c_body : jbody }.
(* what the generated server reads from net/http *)
Record sreq := { s_vars : option kvs;      (* mux.Vars; None = not routed to the endpoint *)
                 s_query : kvs; s_headers : kvs; s_cookies : kvs; s_body : jbody }.

(* ------------------------------------------------------------- request encode *)

Definition attr_by_wire (l : loc) (w : bstr) (e : ep) : option attr :=
  find (fun a => loc_eqb (a_loc a) l && beq (a_wire a) w) (e_attrs e).

Definition comma_s : bstr := [comma].

(* path_init.go.tpl: %v for a single value; array elements through query_slice_conversion
   (strings: url.QueryEscape), joined with "," *)
Definition path_text (v : aval) : bstr :=
  match v with
  | APrim x => fmt_prim x
  | AArr es => join_on comma_s (map (fun e => match e with VStr s => escape Query s | _ => fmt_prim e end) es)
  | _ => []
  end.

Definition seg_text (e : ep) (p : payload) (s : rseg) : bstr :=
  match s with
  | RLit t => t
  | RVar w => match attr_by_wire LPath w e with
              | Some a => match client_view a p with Some v => path_text v | None => [] end
              | None => []
              end
  end.

Definition slash_s : bstr := [slash].
Definition path_of (e : ep) (p : payload) : bstr := slash :: join_on slash_s (map (seg_text e p) (e_route e)).

(* the (key, text) pairs one attribute contributes to a multimap channel *)
Definition kv_of (a : attr) (v : aval) : kvs :=
  match v with
  | APrim x => [(a_wire a, fmt_prim x)]
  | AArr es => map (fun x => (a_wire a, fmt_prim x)) es
  | AMap kvl => map (fun kx => (a_wire a ++ lbrack :: fst kx ++ [rbrack], fmt_prim (snd kx))) kvl
  | AJson _ => []
  end.

Definition enc_kvs (l : loc) (e : ep) (p : payload) : kvs :=
  flat_map (fun a => match client_view a p with Some v => kv_of a v | None => [] end) (at_loc l e).

(* net/http Cookie.String / Request.AddCookie: sanitizeCookieValue *)
Definition cookie_byte_ok (c : byte) : bool :=
  in_range c 32 126 && negb (Byte.eqb c dquote) && negb (Byte.eqb c semi) && negb (ceq c 92).
Definition sanitize_cookie (v : bstr) : bstr := filter cookie_byte_ok v.
Definition cookie_wire (v : bstr) : bstr :=
  let s := sanitize_cookie v in
  if memb space s || memb comma s then dquote :: s ++ [dquote] else s.

(* top level of the generated body initialisers (client request body / server response
   body): a defaulted attribute held by value is written with its default when it holds
   the zero value; optional empty collections are omitted (omitempty) *)
Definition jzero (j : jvalue) : bool :=
  match j with
  | JNum s => beq s [x30] | JStr s => is_nil s | JBool b => negb b | _ => false
  end.
Definition jempty (j : jvalue) : bool :=
  match j with JArr l => is_nil l | JObj l => is_nil l | _ => false end.

Definition body_field (a : attr) (p : payload) : list (bstr * jvalue) :=
  match p (a_name a), a_def a with
  | Some (AJson j), Some (AJson d) => [(a_name a, if jzero j then d else j)]
  | Some (AJson j), None => if negb (a_req a) && is_coll (a_ty a) && jempty j then [] else [(a_name a, j)]
  | None, Some (AJson d) => [(a_name a, d)]
  | _, _ => []
  end.

Definition enc_body (e : ep) (p : payload) : jbody :=
  match at_loc LBody e with
  | [] => BNone
  | bs => if e_whole e
          then match bs with
               | a :: _ => match p (a_name a) with Some (AJson j) => BWhole j | _ => BNone end
               | [] => BNone
               end
          else BObj (flat_map (fun a => body_field a p) bs)
  end.

Definition encode_req (e : ep) (p : payload) : creq :=
  {| c_path := path_of e p; c_query := enc_kvs LQuery e p; c_headers := enc_kvs LHeader e p;
     c_cookies := map (fun kv => (fst kv, cookie_wire (snd kv))) (enc_kvs LCookie e p);
     c_body := enc_body e p |}.

(* ----------------------------------------------------------- the net/http layer *)

(* url.Values.Encode: keys sorted, values of a key in insertion order *)
Fixpoint ble (a b : bstr) : bool :=          (* bytewise a <= b *)
  match a, b with
  | [], _ => true
  | _ :: _, [] => false
  | x :: a', y :: b' => if (bn x <? bn y)%N then true else if (bn y <? bn x)%N then false else ble a' b'
  end.
Fixpoint insert_key (k : bstr) (l : list bstr) : list bstr :=
  match l with
  | [] => [k]
  | x :: r => if ble k x then k :: l else x :: insert_key k r
  end.
Definition add_key (k : bstr) (l : list bstr) : list bstr := if mem k l then l else insert_key k l.
Definition sorted_keys (q : kvs) : list bstr := fold_right add_key [] (map fst q).

Definition group (q : kvs) : kvs :=
  flat_map (fun k => map (fun v => (k, v)) (lookup_all k q)) (sorted_keys q).

Definition amp_s : bstr := [amp].
Definition encode_values (q : kvs) : bstr :=
  join_on amp_s (map (fun kv => escape Query (fst kv) ++ equals :: escape Query (snd kv)) (group q)).

(* strings.Cut(s, "=") *)
Fixpoint cut_eq (s : bstr) : bstr * bstr :=
  match s with
  | [] => ([], [])
  | c :: r => if Byte.eqb c equals then ([], r) else let (a, b) := cut_eq r in (c :: a, b)
  end.

(* url.ParseQuery as used by URL.Query(): pieces with ';', empty pieces and pieces
   that do not unescape are skipped *)
Definition parse_piece (s : bstr) : kvs :=
  if is_nil s || memb semi s then []
  else let (k, v) := cut_eq s in
       match unescape Query k, unescape Query v with
       | Some k', Some v' => [(k', v')]
       | _, _ => []
       end.
Definition parse_query (s : bstr) : kvs := flat_map parse_piece (split_on amp s).

(* textproto.CanonicalMIMEHeaderKey on token names *)
Definition up (c : byte) : byte := if in_range c 97 122 then match Byte.of_N (bn c - 32) with Some b => b | None => c end else c.
Definition low (c : byte) : byte := if in_range c 65 90 then match Byte.of_N (bn c + 32) with Some b => b | None => c end else c.
Fixpoint canon_from (upper : bool) (s : bstr) : bstr :=
  match s with
  | [] => []
  | c :: r => (if upper then up c else low c) :: canon_from (Byte.eqb c minus) r
  end.
Definition canon (s : bstr) : bstr := canon_from true s.

(* httpguts.ValidHeaderFieldValue: no control byte other than TAB *)
Definition ctl_byte (c : byte) : bool := ((bn c <? 32)%N && negb (ceq c 9)) || ceq c 127.
Definition header_value_ok (v : bstr) : bool := negb (existsb ctl_byte v).
(* textproto.TrimString *)
Definition lws (c : byte) : bool := ceq c 32 || ceq c 9.
Fixpoint trim_left (s : bstr) : bstr :=
  match s with c :: r => if lws c then trim_left r else s | [] => [] end.
Definition trim (s : bstr) : bstr := rev (trim_left (rev (trim_left s))).

(* net/http readCookies / readSetCookies parseCookieValue: quotes stripped, the cookie
   is dropped when a byte is not a cookie byte *)
Definition cookie_unwire (s : bstr) : option bstr :=
  let body := match s with
              | c :: r => if Byte.eqb c dquote
                          then match rev r with
                               | d :: m => if Byte.eqb d dquote then rev m else s
                               | [] => s
                               end
                          else s
              | [] => []
              end in
  if forallb cookie_byte_ok body then Some body else None.

(* one pattern of whole segments against the routed path; {name} takes one segment and
   refuses the empty one in last position (chi) *)
Fixpoint matches (pat : list rseg) (segs : list bstr) : option kvs :=
  match pat, segs with
  | [], [] => Some []
  | RLit s :: pat', x :: segs' => if beq s x then matches pat' segs' else None
  | RVar n :: pat', x :: segs' =>
      if is_nil x && is_nil segs' then None
      else match matches pat' segs' with Some c => Some ((n, x) :: c) | None => None end
  | _, _ => None
  end.

(* the client URL (url.URL{Path}.String(), default path encoding), the server's URL
   parsing, chi's capture and mux.Vars' second unescape *)
Definition wire_path (p : bstr) : bstr := escape Path p.
Definition server_vars (route : list rseg) (wire : bstr) : option kvs :=
  match set_path wire with
  | None => None
  | Some (path, raw) =>
    match matches route (path_segs (route_path path raw)) with
    | None => None
    | Some caps => Some (map (fun kv => (fst kv, unescape_or_id (snd kv))) caps)
    end
  end.

Definition flat_opt {A} (l : list (option A)) : list A :=
  flat_map (fun o => match o with Some x => [x] | None => [] end) l.

(* None: the client transport refuses to send (invalid header value) *)
Definition transmit_req (e : ep) (c : creq) : option sreq :=
  if forallb (fun kv => header_value_ok (snd kv)) (c_headers c) then
    Some {| s_vars := server_vars (e_route e) (wire_path (c_path c));
            s_query := parse_query (encode_values (c_query c));
            s_headers := map (fun kv => (canon (fst kv), trim (snd kv))) (c_headers c);
            s_cookies := flat_opt (map (fun kv => option_map (pair (fst kv)) (cookie_unwire (snd kv))) (c_cookies c));
            s_body := c_body c |}
  else None.

(* ------------------------------------------------------------- request decode *)

Inductive reject := Missing | Invalid | NotRouted | NotSent.
Inductive outcome := Delivered (p : list (bstr * aval)) | Rejected (r : reject).

(* one attribute: Some None = stays unset *)
Inductive dres := DVal (v : aval) | DUnset | DErr (r : reject).

Definition absent (a : attr) : dres :=
  if a_req a then DErr Missing else match a_def a with Some d => DVal d | None => DUnset end.

Definition dec_single (a : attr) (t : pty) (raw : bstr) : dres :=
  if is_nil raw then absent a
  else match parse_prim t raw with Some v => DVal (APrim v) | None => DErr Invalid end.

Definition dec_list (a : attr) (t : pty) (raws : list bstr) : dres :=
  match raws with
  | [] => absent a
  | _ => match parse_all t raws with Some vs => DVal (AArr vs) | None => DErr Invalid end
  end.

(* partial/query_map_conversion: the key between the first '[' and the first ']' *)
Fixpoint take_until (c : byte) (s : bstr) : bstr :=
  match s with [] => [] | x :: r => if Byte.eqb x c then [] else x :: take_until c r end.
Fixpoint drop_until (c : byte) (s : bstr) : bstr :=
  match s with [] => [] | x :: r => if Byte.eqb x c then r else drop_until c r end.
Fixpoint has_prefix (pre s : bstr) : bool :=
  match pre, s with
  | [], _ => true
  | x :: pre', y :: s' => Byte.eqb x y && has_prefix pre' s'
  | _, [] => false
  end.
Definition sub_key (k : bstr) : bstr := take_until rbrack (drop_until lbrack k).

Fixpoint dec_map_entries (t : pty) (l : kvs) : option (list (bstr * pval)) :=
  match l with
  | [] => Some []
  | (k, v) :: r => match parse_prim t v, dec_map_entries t r with
                   | Some x, Some xs => Some ((sub_key k, x) :: xs)
                   | _, _ => None
                   end
  end.

(* keep the first value of each key (valRaw[0]) *)
Fixpoint first_of_each (seen : list bstr) (l : kvs) : kvs :=
  match l with
  | [] => []
  | (k, v) :: r => if mem k seen then first_of_each seen r else (k, v) :: first_of_each (k :: seen) r
  end.

Definition dec_map (a : attr) (t : pty) (q : kvs) : dres :=
  match q with
  | [] => absent a
  | _ => match first_of_each [] (filter (fun kv => has_prefix (a_wire a ++ [lbrack]) (fst kv)) q) with
         | [] => DUnset
         | es => match dec_map_entries t es with Some m => DVal (AMap m) | None => DErr Invalid end
         end
  end.

Definition dec_kv (a : attr) (m : kvs) (key : bstr) : dres :=
  match a_ty a with
  | TyPrim t => dec_single a t (get_first key m)
  | TyArr t => dec_list a t (lookup_all key m)
  | TyMap t => dec_map a t m
  | TyJsonK _ => DErr Invalid
  end.

(* a required string cookie is only missing when the cookie itself is *)
Definition dec_cookie (a : attr) (m : kvs) : dres :=
  match a_ty a with
  | TyPrim TStr => if a_req a
                   then match lookup_all (a_wire a) m with v :: _ => DVal (APrim (VStr v)) | [] => DErr Missing end
                   else dec_single a TStr (get_first (a_wire a) m)
  | TyPrim t => dec_single a t (get_first (a_wire a) m)
  | _ => DErr Invalid
  end.

(* partial/path_conversion: strings as they are, arrays split on "," *)
Definition dec_path (a : attr) (vars : kvs) : dres :=
  let raw := get_first (a_wire a) vars in
  match a_ty a with
  | TyPrim TStr => DVal (APrim (VStr raw))
  | TyPrim t => match parse_prim t raw with Some v => DVal (APrim v) | None => DErr Invalid end
  | TyArr t => match parse_all t (split_on comma raw) with Some vs => DVal (AArr vs) | None => DErr Invalid end
  | _ => DErr Invalid
  end.

Fixpoint jlookup (k : bstr) (l : list (bstr * jvalue)) : option jvalue :=
  match l with
  | [] => None
  | (a, v) :: r => if beq k a then Some v else jlookup k r
  end.

(* server body type: every field a pointer; the transform injects the default *)
Definition dec_body (a : attr) (whole : bool) (b : jbody) : dres :=
  match b with
  | BWhole j => if whole then DVal (AJson j) else DErr Invalid
  | BObj l => match jlookup (a_name a) l with
              | Some j => DVal (AJson j)
              | None => absent a
              end
  | BNone => absent a
  end.

Definition dec_attr (e : ep) (a : attr) (s : sreq) (vars : kvs) : dres :=
  match a_loc a with
  | LPath => dec_path a vars
  | LQuery => dec_kv a (s_query s) (a_wire a)
  | LHeader => dec_kv a (s_headers s) (canon (a_wire a))
  | LCookie => dec_cookie a (s_cookies s)
  | LBody => dec_body a (e_whole e) (s_body s)
  end.

Fixpoint collect (l : list (bstr * dres)) : outcome :=
  match l with
  | [] => Delivered []
  | (n, d) :: r =>
    match d with
    | DErr x => Rejected x
    | _ => match collect r with
           | Rejected x => Rejected x
           | Delivered p => Delivered (match d with DVal v => (n, v) :: p | _ => p end)
           end
    end
  end.

Definition decode_req (e : ep) (s : sreq) : outcome :=
  match s_vars s with
  | None => Rejected NotRouted
  | Some vars => collect (map (fun a => (a_name a, dec_attr e a s vars)) (e_attrs e))
  end.

Definition deliver (e : ep) (p : payload) : outcome :=
  match transmit_req e (encode_req e p) with
  | None => Rejected NotSent
  | Some s => decode_req e s
  end.

(* ------------------------------------------- validity, wire safety, well-formedness *)

Definition prim_ok (t : pty) (v : pval) : bool :=
  match t, v with
  | TBool, VBool _ => true
  | TInt b, VInt z => (- 2 ^ (b - 1) <=? z)%Z && (z <? 2 ^ (b - 1))%Z
  | TUInt b, VInt z => (0 <=? z)%Z && (z <? 2 ^ b)%Z
  | TFloat, VFloat _ => true
  | TStr, VStr _ => true
  | _, _ => false
  end.

Definition aval_ok (t : aty) (v : aval) : bool :=
  match t, v with
  | TyPrim t, APrim x => prim_ok t x
  | TyArr t, AArr l => forallb (prim_ok t) l
  | TyMap t, AMap l => forallb (fun kx => prim_ok t (snd kx)) l
  | TyJsonK _, AJson _ => true
  | _, _ => false
  end.

Definition keys_distinct (v : aval) : Prop :=
  match v with AMap l => NoDup (map fst l) | _ => True end.

(* the payload satisfies the design: set attributes have their type, required ones are set *)
Definition valid_attrs (attrs : list attr) (p : payload) : Prop :=
  forall a, In a attrs ->
    match p (a_name a) with
    | Some v => aval_ok (a_ty a) v = true /\ keys_distinct v
    | None => a_req a = false
    end.
Definition valid (e : ep) (p : payload) : Prop := valid_attrs (e_attrs e) p.

(* wire safety: the conjunction of the negations of the recorded loss classes *)
Definition safe_str (l : loc) (s : bstr) : Prop :=
  match l with
  | LPath => s <> [] /\ ~ In slash s /\ unescape_or_id s = s
             (* not empty-path-value-not-routed, path-slash-not-escaped, path-percent-decoded-twice *)
  | LQuery => s <> []                        (* not empty-string-arrives-unset / required-empty-string-rejected *)
  | LHeader => s <> [] /\ trim s = s /\ header_value_ok s = true         (* ... and not header-value-trimmed *)
  | LCookie => s <> [] /\ forallb cookie_byte_ok s = true                (* ... and not cookie-value-sanitised *)
  | LBody => True
  end.

Definition safe_elem (l : loc) (x : pval) : Prop :=
  match x with
  | VStr s => match l with
              | LPath => ~ In space s /\ ~ In comma s   (* not path-array-space-becomes-plus, path-array-comma-splits *)
              | LHeader => trim s = s /\ header_value_ok s = true
              | _ => True
              end
  | _ => True
  end.

Definition safe_attr (a : attr) (v : option aval) : Prop :=
  match v with
  | None =>                                   (* not unset-defaulted-param-sent-as-zero *)
      match a_loc a, a_ty a, a_def a with
      | LBody, _, _ => True
      | _, TyPrim t, Some _ => is_str t = true
      | _, _, _ => True
      end
  | Some (APrim (VStr s)) => safe_str (a_loc a) s
  | Some (APrim _) => True
  | Some (AArr es) =>                         (* not empty-collection-arrives-nil, empty-path-value-not-routed *)
      es <> [] /\ (forall x, In x es -> safe_elem (a_loc a) x) /\ (a_loc a = LPath -> path_text (AArr es) <> [])
  | Some (AMap kvl) =>                        (* not empty-collection-arrives-nil, query-map-key-bracket-truncated *)
      kvl <> [] /\ (forall kx, In kx kvl -> ~ In rbrack (fst kx))
  | Some (AJson j) =>                         (* not default-overrides-zero, empty-collection-arrives-nil *)
      (a_def a <> None -> jzero j = false) /\ (a_req a = false -> is_coll (a_ty a) = true -> jempty j = false)
  end.

Definition wire_safe_attrs (attrs : list attr) (p : payload) : Prop :=
  forall a, In a attrs -> safe_attr a (p (a_name a)).
Definition wire_safe (e : ep) (p : payload) : Prop := wire_safe_attrs (e_attrs e) p.

Definition bits_ok (t : pty) : Prop :=
  match t with TInt b | TUInt b => b = 32%Z \/ b = 64%Z | _ => True end.

(* location / type / default consistency of one attribute *)
Definition attr_ok (a : attr) : Prop :=
  match a_ty a with TyPrim t | TyArr t | TyMap t => bits_ok t | TyJsonK _ => True end /\
  match a_def a with Some d => aval_ok (a_ty a) d = true | None => True end /\
  match a_loc a, a_ty a with
  | LPath, TyPrim _ | LPath, TyArr _ => a_req a = true /\ a_def a = None
  | LQuery, TyPrim _ | LQuery, TyArr _ => True
  | LQuery, TyMap _ => a_def a = None
  | LHeader, TyPrim _ | LHeader, TyArr _ => True
  | LCookie, TyPrim _ => True
  | LBody, TyJsonK _ => True
  | _, _ => False
  end.

Definition wires_at (l : loc) (attrs : list attr) : list bstr :=
  map a_wire (filter (fun a => loc_eqb (a_loc a) l) attrs).

Record wf_ep (e : ep) : Prop := {
  wf_names : NoDup (map a_name (e_attrs e));
  wf_attrs : forall a, In a (e_attrs e) -> attr_ok a;
  wf_route : e_route e <> [];
  wf_lits : forall s, In (RLit s) (e_route e) -> ~ In slash s;
  wf_vars : NoDup (route_vars (e_route e));
  wf_path : NoDup (wires_at LPath (e_attrs e)) /\
            (forall w, In w (route_vars (e_route e)) <-> In w (wires_at LPath (e_attrs e)));
  wf_query : NoDup (wires_at LQuery (e_attrs e)) /\
             (forall w, In w (wires_at LQuery (e_attrs e)) -> ~ In lbrack w);
  wf_headers : NoDup (map canon (wires_at LHeader (e_attrs e)));
  wf_cookies : NoDup (wires_at LCookie (e_attrs e));
  wf_whole : e_whole e = true -> exists a, e_attrs e = [a] }.

(* maps are finite maps: two deliveries are the same when they agree up to the order of
   the entries of map values *)
From Coq Require Import Permutation.
Definition aval_equiv (x y : aval) : Prop :=
  match x, y with
  | AMap l, AMap m => Permutation l m
  | _, _ => x = y
  end.
Definition plist_equiv (l m : list (bstr * aval)) : Prop :=
  Forall2 (fun x y => fst x = fst y /\ aval_equiv (snd x) (snd y)) l m.

(* ================================================================= responses *)

Record resp := { rs_status : N; rs_tag : option (bstr * bstr); rs_attrs : list attr }.
(* a response's attributes: locations LHeader / LCookie / LBody over the result's attributes *)
Record raw_resp := { rr_status : N; rr_tag : option (bstr * bstr);
                     rr_headers : list (bstr * bstr); rr_cookies : list (bstr * bstr) }.
Record raw_rep := { rr_attrs : list rattr; rr_whole : bool; rr_resps : list raw_resp }.

Definition finalize_resp (attrs : list rattr) (r : raw_resp) : fin_ep :=
  let mapped := map fst (rr_headers r) ++ map fst (rr_cookies r) in
  {| f_path := []; f_query := []; f_headers := rr_headers r; f_cookies := rr_cookies r;
     f_body := filter (fun a => negb (mem a mapped)) (map ra_name attrs) |}.

Definition resp_of (attrs : list rattr) (r : raw_resp) : resp :=
  let f := finalize_resp attrs r in
  {| rs_status := rr_status r; rs_tag := rr_tag r;
     rs_attrs := map (fun a =>
        let lw := match locs_of f (ra_name a) with lw :: _ => lw | [] => (LBody, ra_name a) end in
        {| a_name := ra_name a; a_wire := snd lw; a_loc := fst lw; a_ty := ra_ty a;
           a_req := ra_req a; a_def := ra_def a |}) attrs |}.

Record rep := { p_resps : list resp; p_whole : bool }.
Definition rep_of (r : raw_rep) : rep :=
  {| p_resps := map (resp_of (rr_attrs r)) (rr_resps r); p_whole := rr_whole r |}.

(* response_encoder.go.tpl: responses in order, a tagged one is used when the tag
   attribute holds the tag value; service_data.go moves the untagged response last *)
Definition tag_matches (t : bstr * bstr) (p : payload) : bool :=
  match p (fst t) with Some (AJson (JStr s)) => beq s (snd t) | Some (APrim (VStr s)) => beq s (snd t) | _ => false end.

Definition select_resp (rs : list resp) (p : payload) : option resp :=
  match find (fun r => match rs_tag r with Some t => tag_matches t p | None => false end) rs with
  | Some r => Some r
  | None => find (fun r => match rs_tag r with None => true | Some _ => false end) rs
  end.

(* what the server hands to net/http, and what the client reads from it *)
Record cresp := { cr_status : N; cr_headers : kvs; cr_cookies : kvs; cr_body : jbody }.

Definition comma_sp : bstr := [comma; space].

(* partial/response.go.tpl: one header per attribute (arrays joined with ", "); a field
   held by value is always written *)
Definition hdr_of (a : attr) (v : aval) : kvs :=
  match v with
  | APrim x => [(canon (a_wire a), fmt_prim x)]
  | AArr es => [(canon (a_wire a), join_on comma_sp (map fmt_prim es))]
  | _ => []
  end.

Definition resp_attrs_at (l : loc) (r : resp) : list attr := filter (fun a => loc_eqb (a_loc a) l) (rs_attrs r).

Definition enc_resp_body (whole : bool) (r : resp) (p : payload) : jbody :=
  match resp_attrs_at LBody r with
  | [] => BNone
  | bs => if whole
          then match bs with
               | a :: _ => match p (a_name a) with Some (AJson j) => BWhole j | _ => BNone end
               | [] => BNone
               end
          else BObj (flat_map (fun a => body_field a p) bs)
  end.

Definition encode_resp (whole : bool) (r : resp) (p : payload) : cresp :=
  {| cr_status := rs_status r;
     cr_headers := flat_map (fun a => match client_view a p with Some v => hdr_of a v | None => [] end) (resp_attrs_at LHeader r);
     cr_cookies := flat_map (fun a => match client_view a p with
                                      | Some (APrim x) => [(a_wire a, cookie_wire (fmt_prim x))]
                                      | _ => [] end) (resp_attrs_at LCookie r);
     cr_body := enc_resp_body whole r p |}.

(* net/http server header writer: CR/LF to space, trimmed; cookies as for requests *)
Definition nl_to_space (s : bstr) : bstr := map (fun c => if ceq c 10 || ceq c 13 then space else c) s.
Definition transmit_resp (c : cresp) : cresp :=
  {| cr_status := cr_status c;
     cr_headers := map (fun kv => (fst kv, trim (nl_to_space (snd kv)))) (cr_headers c);
     cr_cookies := flat_opt (map (fun kv => option_map (pair (fst kv)) (cookie_unwire (snd kv))) (cr_cookies c));
     cr_body := cr_body c |}.

(* single_response.go.tpl *)
Definition dec_resp_cookie (a : attr) (m : kvs) : dres :=
  match a_ty a with
  | TyPrim TStr =>
      let raw := match rev (lookup_all (a_wire a) m) with v :: _ => v | [] => [] end in
      if is_nil raw then absent a else DVal (APrim (VStr raw))
  | TyPrim t => dec_single a t (match rev (lookup_all (a_wire a) m) with v :: _ => v | [] => [] end)
  | _ => DErr Invalid
  end.

Definition dec_resp_attr (whole : bool) (a : attr) (c : cresp) : dres :=
  match a_loc a with
  | LHeader => dec_kv a (cr_headers c) (canon (a_wire a))
  | LCookie => dec_resp_cookie a (cr_cookies c)
  | LBody => dec_body a whole (cr_body c)
  | _ => DErr Invalid
  end.

(* the tag attribute is set to the tag value by the decoder *)
Definition set_tag (t : option (bstr * bstr)) (l : list (bstr * aval)) : list (bstr * aval) :=
  match t with
  | Some (n, v) => map (fun kv => if beq (fst kv) n then (fst kv, match snd kv with AJson _ => AJson (JStr v) | _ => APrim (VStr v) end) else kv) l
  | None => l
  end.

Inductive routcome := Returned (status : N) (p : list (bstr * aval)) | ClientError (r : reject) | NoResponse.

(* response_decoder.go.tpl: switch on the status code, first response with that status *)
Definition decode_resp (pr : rep) (c : cresp) : routcome :=
  match find (fun r => (rs_status r =? cr_status c)%N) (p_resps pr) with
  | None => ClientError NotRouted
  | Some r =>
    match collect (map (fun a => (a_name a, dec_resp_attr (p_whole pr) a c)) (rs_attrs r)) with
    | Delivered l => Returned (cr_status c) (set_tag (rs_tag r) l)
    | Rejected x => ClientError x
    end
  end.

Definition respond (pr : rep) (p : payload) : routcome :=
  match select_resp (p_resps pr) p with
  | None => NoResponse
  | Some r => decode_resp pr (transmit_resp (encode_resp (p_whole pr) r p))
  end.

Definition result_with_defaults (r : resp) (p : payload) : list (bstr * aval) :=
  with_defaults {| e_route := []; e_attrs := rs_attrs r; e_whole := false |} p.

(* ------------------------------- validity, wire safety, well-formedness: responses *)

(* the request conjuncts, and: an array carried by a response header has exactly one
   element (the server joins the elements with ", " into one value that the client does
   not split: not response-header-array-joined); the unset-defaulted-parameter conjunct of
   safe_attr is here "not default-in-response-header-sent-as-zero" *)
Definition safe_resp_attr (a : attr) (v : option aval) : Prop :=
  safe_attr a v /\ match a_loc a, v with LHeader, Some (AArr es) => length es = 1 | _, _ => True end.
Definition resp_safe (r : resp) (p : payload) : Prop :=
  forall a, In a (rs_attrs r) -> safe_resp_attr a (p (a_name a)).

Definition is_tag_value (tv : aval) (v : bstr) : Prop := tv = AJson (JStr v) \/ tv = APrim (VStr v).

Record wf_resp (whole : bool) (r : resp) : Prop := {
  wfr_names : NoDup (map a_name (rs_attrs r));
  wfr_attrs : forall a, In a (rs_attrs r) -> attr_ok a /\ (a_loc a = LHeader \/ a_loc a = LCookie \/ a_loc a = LBody);
  wfr_headers : NoDup (map canon (wires_at LHeader (rs_attrs r)));
  wfr_cookies : NoDup (wires_at LCookie (rs_attrs r));
  wfr_whole : whole = true -> exists a, rs_attrs r = [a] }.

Record wf_rep (pr : rep) : Prop := {
  wfp_resps : forall r, In r (p_resps pr) -> wf_resp (p_whole pr) r;
  wfp_status : NoDup (map rs_status (p_resps pr)) }.

(* ================================================================== content types
   http/encoding.go: which body codec the server and the client pick, and what the
   Content-Type header announces.
     ResponseEncoder (negotiate, the switch on the designed content type, SetContentType),
     ResponseDecoder, RequestEncoder, RequestDecoder, textEncoder.Encode, textDecoder.Decode.
   mime.ParseMediaType is modelled for what these functions use of it: the media type is
   TrimSpace(ToLower(text before the first ';')) (ASCII); whether Go ACCEPTS the string
   (token syntax, parameter syntax) is not modelled: it is an input (`ok`), observed. *)

Module MT.
  Import Coq.Strings.String.
  Local Open Scope string_scope.
  Definition json := list_byte_of_string "application/json".
  Definition xml := list_byte_of_string "application/xml".
  Definition gob := list_byte_of_string "application/gob".
  Definition html := list_byte_of_string "text/html".
  Definition plain := list_byte_of_string "text/plain".
  Definition sjson := list_byte_of_string "+json".
  Definition sxml := list_byte_of_string "+xml".
  Definition sgob := list_byte_of_string "+gob".
  Definition shtml := list_byte_of_string "+html".
  Definition stxt := list_byte_of_string "+txt".
End MT.

Inductive codec := CJson | CXml | CGob | CText.
Definition codec_eqb (x y : codec) : bool :=
  match x, y with CJson, CJson | CXml, CXml | CGob, CGob | CText, CText => true | _, _ => false end.

(* strings.HasSuffix (has_prefix: above, query maps) *)
Definition has_suffix (suf s : bstr) : bool := has_prefix (rev suf) (rev s).

(* strings.Cut(s, ";") / strings.Index(s, ";"): text before the first ';' and the rest
   from that ';' on (empty when there is none) *)
Fixpoint cut_semi (s : bstr) : bstr * bstr :=
  match s with
  | [] => ([], [])
  | c :: r => if Byte.eqb c semi then ([], s) else let (x, y) := cut_semi r in (c :: x, y)
  end.
Definition is_sp_tab (c : byte) : bool := ceq c 32 || ceq c 9.
(* unicode.IsSpace on ASCII: \t \n \v \f \r and space *)
Definition is_space (c : byte) : bool := in_range c 9 13 || ceq c 32.
Fixpoint drop_while (f : byte -> bool) (s : bstr) : bstr :=
  match s with c :: r => if f c then drop_while f r else s | [] => [] end.
Definition trim_right (f : byte -> bool) (s : bstr) : bstr := rev (drop_while f (rev s)).
Definition trim_space (s : bstr) : bstr := trim_right is_space (drop_while is_space s).
Definition lower_byte (c : byte) : byte :=
  if in_range c 65 90 then match Byte.of_N (bn c + 32) with Some d => d | None => c end else c.
(* the media type mime.ParseMediaType returns when it accepts the string *)
Definition media_type_part (s : bstr) : bstr := trim_space (map lower_byte (fst (cut_semi s))).
Definition parse_media_type (ok : bool) (s : bstr) : option bstr :=
  if ok then Some (media_type_part s) else None.

(* the switch shared by ResponseEncoder (designed content type) and ResponseDecoder *)
Definition family_of_ct (mt : bstr) : codec :=
  if beq mt MT.json || has_suffix MT.sjson mt then CJson
  else if beq mt MT.xml || has_suffix MT.sxml mt then CXml
  else if beq mt MT.gob || has_suffix MT.sgob mt then CGob
  else if beq mt MT.html || beq mt MT.plain || has_suffix MT.shtml mt || has_suffix MT.stxt mt then CText
  else CJson.

(* negotiate in ResponseEncoder: exact matches only *)
Definition negotiate (a : bstr) : option (codec * bstr) :=
  if is_nil a || beq a MT.json then Some (CJson, MT.json)
  else if beq a MT.xml then Some (CXml, MT.xml)
  else if beq a MT.gob then Some (CGob, MT.gob)
  else if beq a MT.html || beq a MT.plain then Some (CText, a)
  else None.

(* strings.LastIndex(s, "+"): the text before the last '+', if there is one *)
Fixpoint before_last_plus (s : bstr) : option bstr :=
  match s with
  | [] => None
  | c :: r =>
    match before_last_plus r with
    | Some x => Some (c :: x)
    | None => if Byte.eqb c plus then Some [] else None
    end
  end.

(* SetContentType(w, ct) with h the Content-Type already present on the response *)
Definition set_content_type (h ct : bstr) : bstr :=
  if is_nil h then ct
  else if negb (beq ct MT.json) && negb (beq ct MT.xml) then ct
  else
    let suffix := if beq ct MT.xml then MT.sxml else MT.sjson in
    let (h0, params) := cut_semi h in
    (* TrimRight only when a ';' was found *)
    let mt := if is_nil params then h0 else trim_right is_sp_tab h0 in
    if has_suffix suffix mt then h
    else (match before_last_plus mt with Some x => x | None => mt end) ++ suffix ++ params.

(* ResponseEncoder: ct = designed content type ("" = none; ctok: ParseMediaType accepts
   it), accept = negotiated Accept value, h = Content-Type already on the response.
   Result: the encoder picked (None: the nil encoder Go returns when the designed content
   type does not parse; ParseMediaType then returns "" or, for a bad parameter, the media
   type together with the error: PErr carries it) and the Content-Type header afterwards. *)
Inductive parse_verdict := POk | PErr (returned : bstr).
Definition resp_encoder (ct : bstr) (ctp : parse_verdict) (accept : bstr) (acceptok : bool) (h : bstr)
  : option codec * bstr :=
  if negb (is_nil ct) then
    match ctp with
    | POk => let mt := media_type_part ct in (Some (family_of_ct mt), set_content_type h mt)
    | PErr m => (None, set_content_type h m)
    end
  else
    let r := match negotiate accept with
             | Some r => Some r
             | None => match parse_media_type acceptok accept with Some mt => negotiate mt | None => None end
             end in
    let (c, mt) := match r with Some r => r | None => (CJson, MT.json) end in
    (Some c, set_content_type h mt).

(* ResponseDecoder: h = Content-Type of the response *)
Definition resp_decoder (h : bstr) (hok : bool) : codec :=
  if is_nil h then CJson
  else family_of_ct (match parse_media_type hok h with Some mt => mt | None => h end).

(* RequestEncoder: always JSON; Content-Type set only when the request has none *)
Definition req_encoder (h : bstr) : codec * bstr := (CJson, if is_nil h then MT.json else h).

(* RequestDecoder: exact matches, anything else is refused (415) *)
Inductive req_dec := RDec (c : codec) | RUnsupported (ct : bstr).
Definition req_decoder (h : bstr) (hok : bool) : req_dec :=
  let ct := if is_nil h then MT.json
            else match parse_media_type hok h with Some mt => mt | None => h end in
  if beq ct MT.json then RDec CJson
  else if beq ct MT.gob then RDec CGob
  else if beq ct MT.xml then RDec CXml
  else if beq ct MT.html || beq ct MT.plain then RDec CText
  else RUnsupported ct.

(* textEncoder / textDecoder: strings and byte slices, verbatim *)
Inductive tval := TvStr (s : bstr) | TvBytes (s : bstr) | TvOther.
Inductive ttarget := TgStr | TgBytes | TgOther.
Definition text_encode (v : tval) : option bstr :=
  match v with TvStr s | TvBytes s => Some s | TvOther => None end.
Definition text_decode (t : ttarget) (body : bstr) : option tval :=
  match t with TgStr => Some (TvStr body) | TgBytes => Some (TvBytes body) | TgOther => None end.
Definition target_of (v : tval) : ttarget :=
  match v with TvStr _ => TgStr | TvBytes _ => TgBytes | TvOther => TgOther end.

(* a whole primitive result under a designed content type of the text family: the server
   writes Content-Type and the text, the client picks its decoder from the header *)
Inductive text_outcome := TReturned (v : tval) | TServerError | TClientError | TOtherCodec (c : codec).
Definition respond_text (ct : bstr) (ctp : parse_verdict) (v : tval) : text_outcome :=
  match resp_encoder ct ctp [] false [] with
  | (None, _) => TServerError
  | (Some CText, h) =>
    match text_encode v with
    | None => TServerError
    | Some body =>
      match resp_decoder h true with
      | CText => match text_decode (target_of v) body with Some r => TReturned r | None => TClientError end
      | c => TOtherCodec c
      end
    end
  | (Some c, _) => TOtherCodec c
  end.
