(* Transport engine — proofs, part 3: url.Values.Encode followed by url.ParseQuery is
   the identity on every multimap of byte strings (up to the grouping by sorted key,
   which no reader of the multimap can observe). *)
From Transport Require Import Model LemmasCodec.
From Coq Require Import Lia.

(* ---- multimaps ---- *)

Lemma lookup_all_app k a b : lookup_all k (a ++ b) = lookup_all k a ++ lookup_all k b.
Proof.
  induction a as [|[x v] a IH]; [reflexivity|]. cbn [app lookup_all].
  destruct (beq k x); [cbn; now rewrite IH|exact IH].
Qed.

Lemma lookup_all_flat_map {A} k (f : A -> kvs) l :
  lookup_all k (flat_map f l) = flat_map (fun x => lookup_all k (f x)) l.
Proof. induction l as [|x l IH]; [reflexivity|]. cbn [flat_map]. now rewrite lookup_all_app, IH. Qed.

Lemma lookup_all_pairs k k' vs : lookup_all k (map (fun v => (k', v)) vs) = if beq k k' then vs else [].
Proof.
  induction vs as [|v vs IH]; cbn [map lookup_all]; [destruct (beq k k'); reflexivity|].
  destruct (beq k k') eqn:E; [now rewrite IH|exact IH].
Qed.

Lemma lookup_all_none k q : ~ In k (map fst q) -> lookup_all k q = [].
Proof.
  induction q as [|[x v] q IH]; [reflexivity|]. cbn [map fst In lookup_all]. intro H.
  destruct (beq k x) eqn:E; [apply beq_eq in E; subst; exfalso; apply H; now left|].
  apply IH. intro I. apply H. now right.
Qed.

(* ---- sorted keys ---- *)

Lemma in_insert_key x k l : In x (insert_key k l) <-> x = k \/ In x l.
Proof.
  induction l as [|y l IH]; cbn [insert_key].
  - cbn. intuition.
  - destruct (ble k y); cbn [In]; [intuition|]. rewrite IH. intuition.
Qed.

Lemma nodup_insert_key k l : ~ In k l -> NoDup l -> NoDup (insert_key k l).
Proof.
  induction l as [|y l IH]; cbn [insert_key]; intros Hk Hl.
  - constructor; [intros []|constructor].
  - destruct (ble k y); [now constructor|].
    inversion Hl as [|? ? Hy Hl']; subst. constructor.
    + rewrite in_insert_key. intros [->|I]; [apply Hk; now left|contradiction].
    + apply IH; [intro I; apply Hk; now right|assumption].
Qed.

Lemma in_add_key x k l : In x (add_key k l) <-> x = k \/ In x l.
Proof.
  unfold add_key. destruct (mem k l) eqn:E.
  - apply mem_In in E. split; [now right|intros [->|I]; assumption].
  - apply in_insert_key.
Qed.

Lemma nodup_add_key k l : NoDup l -> NoDup (add_key k l).
Proof.
  unfold add_key. destruct (mem k l) eqn:E; [trivial|]. apply mem_false in E. now apply nodup_insert_key.
Qed.

Lemma sorted_keys_in q k : In k (sorted_keys q) <-> In k (map fst q).
Proof.
  unfold sorted_keys. induction (map fst q) as [|x l IH]; cbn [fold_right In]; [reflexivity|].
  rewrite in_add_key, IH. intuition.
Qed.

Lemma sorted_keys_nodup q : NoDup (sorted_keys q).
Proof.
  unfold sorted_keys. induction (map fst q) as [|x l IH]; cbn [fold_right]; [constructor|now apply nodup_add_key].
Qed.

Lemma flat_map_single {B} k (g : bstr -> list B) ks :
  NoDup ks -> In k ks -> flat_map (fun k' => if beq k k' then g k' else []) ks = g k.
Proof.
  induction ks as [|x ks IH]; intros Hn Hi; [destruct Hi|].
  inversion Hn as [|? ? Hx Hn']; subst. cbn [flat_map]. destruct (beq k x) eqn:E.
  - apply beq_eq in E. subst x. rewrite <- (app_nil_r (g k)) at 2. f_equal.
    clear IH Hi Hn. induction ks as [|y ks IH]; [reflexivity|]. cbn [flat_map].
    destruct (beq k y) eqn:E; [apply beq_eq in E; subst; exfalso; apply Hx; now left|].
    apply IH; [intro I; apply Hx; now right|now inversion Hn'].
  - apply beq_neq in E. destruct Hi as [->|Hi]; [congruence|]. cbn [app]. now apply IH.
Qed.

Lemma flat_map_none {B} k (g : bstr -> list B) ks :
  ~ In k ks -> flat_map (fun k' => if beq k k' then g k' else []) ks = [].
Proof.
  induction ks as [|x ks IH]; intro H; [reflexivity|]. cbn [flat_map].
  destruct (beq k x) eqn:E; [apply beq_eq in E; subst; exfalso; apply H; now left|].
  apply IH. intro I. apply H. now right.
Qed.

(* grouping by sorted key is invisible to Get / [] lookups *)
Theorem lookup_all_group k q : lookup_all k (group q) = lookup_all k q.
Proof.
  unfold group. rewrite lookup_all_flat_map.
  rewrite (flat_map_ext _ (fun k' => if beq k k' then lookup_all k' q else [])) by (intro k'; apply lookup_all_pairs).
  destruct (in_dec (list_eq_dec Byte.byte_eq_dec) k (sorted_keys q)) as [I|N].
  - now rewrite (flat_map_single k (fun k' => lookup_all k' q)) by (auto using sorted_keys_nodup).
  - rewrite flat_map_none by assumption. symmetry. apply lookup_all_none. now rewrite <- sorted_keys_in.
Qed.

Lemma group_keys q kv : In kv (group q) -> In (fst kv) (map fst q).
Proof.
  unfold group. rewrite in_flat_map. intros (k & Hk & H). apply in_map_iff in H as (v & <- & _).
  cbn. now apply sorted_keys_in.
Qed.

(* ---- the wire ---- *)

Lemma cut_eq_spec a b : ~ In equals a -> cut_eq (a ++ equals :: b) = (a, b).
Proof.
  induction a as [|c a IH]; intro H; cbn [app cut_eq].
  - now rewrite byte_eqb_refl.
  - destruct (Byte.eqb c equals) eqn:E; [apply byte_eqb_eq in E; subst; exfalso; apply H; now left|].
    rewrite IH; [reflexivity|]. intro I. apply H. now right.
Qed.

Definition piece (kv : bstr * bstr) : bstr := escape Query (fst kv) ++ equals :: escape Query (snd kv).

Lemma piece_clean kv c : In c (piece kv) -> c <> amp /\ c <> semi.
Proof.
  unfold piece. intro H. apply in_app_or in H as [H|[<-|H]].
  - destruct (escape_query_clean _ _ H) as (A & _ & B & _). now split.
  - split; discriminate.
  - destruct (escape_query_clean _ _ H) as (A & _ & B & _). now split.
Qed.

Lemma parse_piece_piece kv : parse_piece (piece kv) = [kv].
Proof.
  unfold parse_piece. destruct kv as [k v].
  replace (is_nil (piece (k, v))) with false by (unfold piece; destruct (escape Query (fst (k, v))); reflexivity).
  replace (memb semi (piece (k, v))) with false
    by (symmetry; apply memb_false; intro I; destruct (piece_clean _ _ I) as [_ A]; congruence).
  cbn [orb]. unfold piece. cbn [fst snd].
  rewrite cut_eq_spec by (intro I; destruct (escape_query_clean _ _ I) as (_ & A & _); congruence).
  now rewrite !unescape_escape.
Qed.

Lemma flat_map_parse_pieces l : flat_map parse_piece (map piece l) = l.
Proof. induction l as [|kv l IH]; [reflexivity|]. cbn [map flat_map]. now rewrite parse_piece_piece, IH. Qed.

(* url.ParseQuery (url.Values.Encode q) is q grouped by sorted key, for every q *)
Theorem parse_encode_values q : parse_query (encode_values q) = group q.
Proof.
  unfold parse_query, encode_values. change (fun kv => escape Query (fst kv) ++ equals :: escape Query (snd kv)) with piece.
  destruct (group q) as [|kv g] eqn:E; [reflexivity|]. rewrite <- E. clear E.
  destruct (group q) as [|kv' g'] eqn:E; [reflexivity|]. rewrite <- E.
  unfold amp_s. rewrite split_join.
  - apply flat_map_parse_pieces.
  - rewrite E. discriminate.
  - intros x Hx I. apply in_map_iff in Hx as (kv0 & <- & _). destruct (piece_clean _ _ I) as [A _]. congruence.
Qed.

(* the property of the query channel: whatever multimap of byte strings the client
   builds, the server's lookups see exactly its values, in order *)
Theorem query_roundtrip q k : lookup_all k (parse_query (encode_values q)) = lookup_all k q.
Proof. now rewrite parse_encode_values, lookup_all_group. Qed.
