(* Transport engine - content types: which codec each side picks (http/encoding.go). *)
From Transport Require Import Model LemmasCodec.
From Coq Require Import Lia.

(* ------------------------------------------------------------ string helpers *)

Lemma has_prefix_app p : forall s, has_prefix p (p ++ s) = true.
Proof. induction p as [|x p IH]; simpl; intros; auto. now rewrite IH, byte_eqb_refl. Qed.

Lemma has_suffix_app suf y : has_suffix suf (y ++ suf) = true.
Proof. unfold has_suffix. rewrite rev_app_distr. apply has_prefix_app. Qed.

Lemma cut_semi_split s : s = fst (cut_semi s) ++ snd (cut_semi s).
Proof. induction s as [|c r IH]; simpl; auto. destruct (Byte.eqb c semi); simpl; auto.
  destruct (cut_semi r) as [x y]; simpl in *. now rewrite <- IH. Qed.

Lemma cut_semi_fst_nosemi s : memb semi (fst (cut_semi s)) = false.
Proof. induction s as [|c r IH]; simpl; auto. destruct (Byte.eqb c semi) eqn:E; simpl; auto.
  destruct (cut_semi r) as [x y]; simpl in *. unfold memb in *. simpl. rewrite IH.
  assert (Byte.eqb semi c = false) as ->; [|reflexivity].
  apply byte_eqb_neq. intros <-. now rewrite byte_eqb_refl in E. Qed.

Definition starts_semi (p : bstr) : Prop := p = [] \/ exists r, p = semi :: r.

Lemma cut_semi_snd s : starts_semi (snd (cut_semi s)).
Proof. induction s as [|c r IH]; simpl. now left. destruct (Byte.eqb c semi) eqn:E; simpl.
  - right. apply byte_eqb_eq in E. subst. eauto.
  - destruct (cut_semi r); auto. Qed.

Lemma cut_semi_app x : forall p, memb semi x = false -> starts_semi p -> cut_semi (x ++ p) = (x, p).
Proof. induction x as [|c x IH]; simpl; intros p H S.
  - destruct S as [->|[r ->]]; simpl; auto.
  - unfold memb in H. simpl in H. apply orb_false_iff in H as [H1 H2].
    assert (Byte.eqb c semi = false) as ->.
    { apply byte_eqb_neq. intros ->. now rewrite byte_eqb_refl in H1. }
    now rewrite (IH p H2 S). Qed.

Lemma memb_app c x y : memb c (x ++ y) = memb c x || memb c y.
Proof. unfold memb. apply existsb_app. Qed.

Lemma drop_while_suffix f s : exists t, s = t ++ drop_while f s.
Proof. induction s as [|c r [t IH]]; simpl. now exists []. destruct (f c). exists (c :: t). simpl. now rewrite <- IH. now exists []. Qed.

Lemma trim_right_prefix f s : exists t, s = trim_right f s ++ t.
Proof. unfold trim_right. destruct (drop_while_suffix f (rev s)) as [t H]. exists (rev t).
  rewrite <- rev_app_distr, <- H. now rewrite rev_involutive. Qed.

Lemma nosemi_prefix x t : memb semi (x ++ t) = false -> memb semi x = false.
Proof. rewrite memb_app. intro H. now apply orb_false_iff in H. Qed.

Lemma trim_right_keeps f s c : f c = false -> trim_right f (s ++ [c]) = s ++ [c].
Proof. intro H. unfold trim_right. rewrite rev_app_distr. simpl. rewrite H. simpl. now rewrite rev_involutive. Qed.

Lemma before_last_plus_prefix s : forall x, before_last_plus s = Some x -> exists t, s = x ++ t.
Proof. induction s as [|c r IH]; simpl; intros x H. discriminate.
  destruct (before_last_plus r) as [y|] eqn:E.
  - inversion H; subst. destruct (IH y eq_refl) as [t ->]. now exists t.
  - destruct (Byte.eqb c plus); inversion H; subst. now exists (c :: r). Qed.

(* ------------------------------------------------------------ the codec switch *)

Lemma family_json_suffix y : family_of_ct (y ++ MT.sjson) = CJson.
Proof. unfold family_of_ct. now rewrite has_suffix_app, orb_true_r. Qed.

Lemma rev_last_neq (y s1 s2 : bstr) a c : a <> c -> y ++ s1 ++ [a] <> s2 ++ [c].
Proof. intros N E. apply (f_equal (@rev byte)) in E. rewrite !rev_app_distr in E. simpl in E. inversion E. contradiction. Qed.

Lemma family_xml_suffix y : family_of_ct (y ++ MT.sxml) = CXml.
Proof. unfold family_of_ct.
  assert (beq (y ++ MT.sxml) MT.json = false) as ->.
  { apply beq_neq. change MT.sxml with ([x2b; x78; x6d] ++ [x6c]).
    change MT.json with (removelast MT.json ++ [x6e]). apply rev_last_neq. discriminate. }
  assert (has_suffix MT.sjson (y ++ MT.sxml) = false) as ->.
  { unfold has_suffix. rewrite rev_app_distr. reflexivity. }
  simpl orb. now rewrite has_suffix_app, orb_true_r. Qed.

Lemma has_suffix_json_family mt : has_suffix MT.sjson mt = true -> family_of_ct mt = CJson.
Proof. intro H. unfold family_of_ct. now rewrite H, orb_true_r. Qed.

Lemma has_suffix_xml_family mt : has_suffix MT.sxml mt = true -> family_of_ct mt = CXml.
Proof. intro H. unfold family_of_ct.
  assert (has_suffix MT.sjson mt = false) as ->.
  { unfold has_suffix in *. destruct (rev mt) as [|c r]; [discriminate|]. simpl in H. apply andb_true_iff in H as [H _].
    apply byte_eqb_eq in H. subst c. reflexivity. }
  assert (beq mt MT.json = false) as ->.
  { apply beq_neq. intros ->. discriminate H. }
  simpl orb. now rewrite H, orb_true_r. Qed.

(* SetContentType: whatever Content-Type was already on the response, after the call the
   media type in front of the parameters selects the codec that is actually used *)
Lemma has_suffix_trim f s c m : has_suffix (s ++ [c]) m = true -> f c = false -> trim_right f m = m.
Proof. unfold has_suffix, trim_right. rewrite rev_app_distr. simpl. intros H F.
  destruct (rev m) as [|d r] eqn:E; [discriminate|]. apply andb_true_iff in H as [H _]. apply byte_eqb_eq in H. subst d.
  simpl. rewrite F. rewrite <- E. apply rev_involutive. Qed.

Lemma set_content_type_announces h ct :
  ct = MT.json \/ ct = MT.xml -> h <> [] ->
  family_of_ct (trim_right is_sp_tab (fst (cut_semi (set_content_type h ct)))) = family_of_ct ct.
Proof.
  intros C Hne. unfold set_content_type. destruct h as [|h0 hr]; [contradiction|]. cbn [is_nil].
  set (h := h0 :: hr) in *.
  assert (negb (beq ct MT.json) && negb (beq ct MT.xml) = false) as ->. { destruct C as [-> | ->]; reflexivity. }
  pose proof (cut_semi_split h) as Sp. pose proof (cut_semi_fst_nosemi h) as Ns. pose proof (cut_semi_snd h) as St.
  destruct (cut_semi h) as [hp params] eqn:Ec. simpl in Sp, Ns, St.
  set (suffix := if beq ct MT.xml then MT.sxml else MT.sjson).
  set (mt := if is_nil params then hp else trim_right is_sp_tab hp).
  assert (Pm : exists t, hp = mt ++ t).
  { subst mt. destruct (is_nil params). exists []. now rewrite app_nil_r. apply trim_right_prefix. }
  assert (Sl : exists s c, suffix = s ++ [c] /\ is_sp_tab c = false).
  { subst suffix. destruct (beq ct MT.xml); [exists [x2b; x78; x6d], x6c | exists [x2b; x6a; x73; x6f], x6e]; split; reflexivity. }
  destruct (has_suffix suffix mt) eqn:Hs.
  - rewrite Ec. simpl fst.
    assert (trim_right is_sp_tab hp = mt) as ->.
    { subst mt. destruct (is_nil params); auto. destruct Sl as (s & c & Es & Fc). rewrite Es in Hs. now apply (has_suffix_trim _ s c). }
    destruct C as [-> | ->]; subst suffix; simpl in Hs.
    + now apply has_suffix_json_family. + now apply has_suffix_xml_family.
  - set (base := match before_last_plus mt with Some x => x | None => mt end).
    assert (Nb : memb semi base = false).
    { destruct Pm as [t Ht]. rewrite Ht in Ns. apply nosemi_prefix in Ns.
      subst base. destruct (before_last_plus mt) as [x|] eqn:E; auto.
      destruct (before_last_plus_prefix _ _ E) as [u Hu]. rewrite Hu in Ns. now apply nosemi_prefix in Ns. }
    assert (Nsuf : memb semi suffix = false). { subst suffix. destruct (beq ct MT.xml); reflexivity. }
    assert (Nbs : memb semi (base ++ suffix) = false). { rewrite memb_app, Nb, Nsuf. reflexivity. }
    change (family_of_ct (trim_right is_sp_tab (fst (cut_semi (base ++ suffix ++ params)))) = family_of_ct ct).
    rewrite app_assoc, (cut_semi_app (base ++ suffix) params Nbs St). clearbody base.
    simpl fst. destruct C as [-> | ->]; subst suffix.
    + change (if beq MT.json MT.xml then MT.sxml else MT.sjson) with ([x2b; x6a; x73; x6f] ++ [x6e]).
      rewrite app_assoc, trim_right_keeps by reflexivity.
      rewrite <- app_assoc. change (family_of_ct MT.json) with CJson. apply family_json_suffix.
    + change (if beq MT.xml MT.xml then MT.sxml else MT.sjson) with ([x2b; x78; x6d] ++ [x6c]).
      rewrite app_assoc, trim_right_keeps by reflexivity.
      rewrite <- app_assoc. change (family_of_ct MT.xml) with CXml. apply family_xml_suffix.
Qed.

(* ------------------------------------------------------------ responses *)

Definition canonical_mt (mt : bstr) : Prop := media_type_part mt = mt.

Lemma resp_codec_agrees_designed ct accept aok :
  ct <> [] -> canonical_mt (media_type_part ct) ->
  let mt := media_type_part ct in
  resp_encoder ct POk accept aok [] = (Some (family_of_ct mt), mt) /\
  resp_decoder mt true = family_of_ct mt.
Proof. intros Hne Hc mt. split.
  - unfold resp_encoder. destruct ct; [contradiction|]. reflexivity.
  - unfold canonical_mt in Hc. fold mt in Hc. clearbody mt. unfold resp_decoder. destruct mt as [|c r]; [reflexivity|].
    cbn [is_nil]. unfold parse_media_type. now rewrite Hc. Qed.

Lemma negotiate_sound a c mt : negotiate a = Some (c, mt) ->
  (c, mt) = (CJson, MT.json) \/ (c, mt) = (CXml, MT.xml) \/ (c, mt) = (CGob, MT.gob) \/
  (c, mt) = (CText, MT.html) \/ (c, mt) = (CText, MT.plain).
Proof. unfold negotiate. destruct (is_nil a || beq a MT.json). intro H; inversion H; auto.
  destruct (beq a MT.xml). intro H; inversion H; auto.
  destruct (beq a MT.gob). intro H; inversion H; auto.
  destruct (beq a MT.html) eqn:E1. apply beq_eq in E1. subst. intro H; inversion H; auto.
  destruct (beq a MT.plain) eqn:E2. apply beq_eq in E2. subst. intro H; inversion H; auto 6.
  discriminate. Qed.

Lemma resp_codec_agrees_negotiated accept aok :
  exists c h, resp_encoder [] POk accept aok [] = (Some c, h) /\ resp_decoder h true = c.
Proof. unfold resp_encoder. cbn [is_nil negb].
  set (r := match negotiate accept with Some r => Some r | None => _ end).
  assert (H : r = None \/ exists x c mt, r = Some (c, mt) /\ negotiate x = Some (c, mt)).
  { subst r. destruct (negotiate accept) as [[c mt]|] eqn:E. right; eauto.
    destruct (parse_media_type aok accept) as [m|]; auto.
    destruct (negotiate m) as [[c mt]|] eqn:F; auto. right; eauto. }
  destruct H as [-> | (x & c & mt & -> & N)].
  - exists CJson, MT.json. split; reflexivity.
  - exists c, mt. apply negotiate_sound in N.
    destruct N as [N|[N|[N|[N|N]]]]; inversion N; subst; split; reflexivity. Qed.

(* ------------------------------------------------------------ text bodies *)

Lemma text_roundtrip v : v <> TvOther ->
  exists body, text_encode v = Some body /\ text_decode (target_of v) body = Some v.
Proof. destruct v; intro H; try contradiction; eexists; split; reflexivity. Qed.

Lemma respond_text_roundtrip ct v :
  ct <> [] -> canonical_mt (media_type_part ct) -> family_of_ct (media_type_part ct) = CText -> v <> TvOther ->
  respond_text ct POk v = TReturned v.
Proof. intros Hne Hc Hf Hv. unfold respond_text.
  destruct (resp_codec_agrees_designed ct [] false Hne Hc) as [E D]. cbv zeta in E, D. rewrite E, Hf.
  destruct (text_roundtrip v Hv) as [body [Eb Db]]. rewrite Eb, D, Hf, Db. reflexivity. Qed.

(* ------------------------------------------------------------ requests *)

Lemma req_codec_agrees_default : req_decoder (snd (req_encoder [])) true = RDec (fst (req_encoder [])).
Proof. reflexivity. Qed.

(* ------------------------------------------------------------ examples / witnesses *)
Module EX.
  Import Coq.Strings.String.
  Local Open Scope string_scope.
  Definition note_txt := list_byte_of_string "application/vnd.goa.note+txt".
  Definition plain_charset := list_byte_of_string "Text/Plain; charset=utf-8".
  Definition merge_patch := list_byte_of_string "application/merge-patch+json".
  Definition prior := list_byte_of_string "application/vnd.api+xml ; q=1".
  Definition hello := list_byte_of_string "hello; world".
  Definition api_json_q := list_byte_of_string "application/vnd.api+json; q=1".
End EX.

(* the request decoder refuses a "+json" media type that the response decoder reads as JSON *)
Lemma req_refuted_json_suffix :
  resp_decoder EX.merge_patch true = CJson /\
  req_encoder EX.merge_patch = (CJson, EX.merge_patch) /\
  req_decoder (snd (req_encoder EX.merge_patch)) true = RUnsupported EX.merge_patch.
Proof. repeat split; reflexivity. Qed.

Lemma content_examples :
  canonical_mt (media_type_part EX.note_txt) /\ family_of_ct (media_type_part EX.note_txt) = CText /\
  canonical_mt (media_type_part EX.plain_charset) /\ family_of_ct (media_type_part EX.plain_charset) = CText /\
  respond_text EX.plain_charset POk (TvBytes EX.hello) = TReturned (TvBytes EX.hello) /\
  set_content_type EX.prior MT.json = EX.api_json_q /\
  resp_encoder [] POk MT.html false [] = (Some CText, MT.html).
Proof. repeat split; reflexivity. Qed.
