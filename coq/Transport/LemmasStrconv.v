(* Transport engine — proofs, part 2: strconv round trips (all widths), the bytes
   the formatters write. *)
From Transport Require Import Model LemmasCodec.
From Coq Require Import DecimalZ DecimalPos Lia ZifyBool.

Definition is_digit (c : byte) : bool := in_range c 48 57.

Lemma bytes_uint_inv d : bytes_uint (uint_bytes d) = Some d.
Proof. induction d; cbn; try reflexivity; rewrite IHd; reflexivity. Qed.

Lemma uint_bytes_nil d : uint_bytes d = [] -> d = Decimal.Nil.
Proof. destruct d; cbn; congruence. Qed.

Lemma uint_bytes_digits d c : In c (uint_bytes d) -> is_digit c = true.
Proof.
  induction d; cbn; [intros []|..]; (intros [<-|H]; [reflexivity|now apply IHd]).
Qed.

(* what a digit is not *)
Definition token_byte (c : byte) : bool := is_alnum c || Byte.eqb c minus || Byte.eqb c dot.

Lemma digit_token c : is_digit c = true -> token_byte c = true.
Proof. destruct c; vm_compute; congruence. Qed.

Lemma token_facts c : token_byte c = true ->
  c <> pct /\ c <> comma /\ c <> slash /\ c <> space /\ c <> plus /\ c <> dquote /\ c <> amp /\
  lws c = false /\ ctl_byte c = false /\ cookie_byte_ok c = true.
Proof. destruct c; vm_compute; intro H; try discriminate H; repeat split; discriminate. Qed.

Lemma digit_facts c : is_digit c = true -> Byte.eqb c plus = false /\ Byte.eqb c minus = false /\ Byte.eqb c dot = false.
Proof. destruct c; vm_compute; intro H; try discriminate H; repeat split. Qed.

Lemma parse_digits_uint d : d <> Decimal.Nil -> parse_digits (uint_bytes d) = Some (Z.of_uint d).
Proof.
  intro H. unfold parse_digits. destruct (uint_bytes d) eqn:E.
  - apply uint_bytes_nil in E. contradiction.
  - rewrite <- E, bytes_uint_inv. reflexivity.
Qed.

Lemma of_uint_to_uint p : Z.of_uint (Pos.to_uint p) = Zpos p.
Proof. unfold Z.of_uint. rewrite DecimalPos.Unsigned.of_to. reflexivity. Qed.

(* FormatInt writes an optional '-' and the digits of the absolute value *)
Lemma format_Z_shape z : exists d, d <> Decimal.Nil /\ Z.of_uint d = Z.abs z /\
  format_Z z = (if (z <? 0)%Z then [minus] else []) ++ uint_bytes d.
Proof.
  destruct z as [|p|p]; unfold format_Z; cbn [Z.to_int].
  - exists (Decimal.D0 Decimal.Nil). repeat split; discriminate.
  - exists (Pos.to_uint p). split; [apply DecimalPos.Unsigned.to_uint_nonnil|]. split; [apply of_uint_to_uint|reflexivity].
  - exists (Pos.to_uint p). split; [apply DecimalPos.Unsigned.to_uint_nonnil|]. split; [apply of_uint_to_uint|reflexivity].
Qed.

Lemma uint_bytes_head d : d <> Decimal.Nil -> exists c r, uint_bytes d = c :: r /\ is_digit c = true.
Proof.
  intro H. destruct (uint_bytes d) as [|c r] eqn:E; [apply uint_bytes_nil in E; contradiction|].
  exists c, r. split; [reflexivity|]. apply (uint_bytes_digits d). rewrite E. now left.
Qed.

Lemma parse_signed_format z : parse_signed (format_Z z) = Some z.
Proof.
  destruct (format_Z_shape z) as (d & Hd & Hv & ->).
  destruct (z <? 0)%Z eqn:S.
  - cbn [app parse_signed]. replace (Byte.eqb minus plus) with false by reflexivity.
    rewrite byte_eqb_refl, (parse_digits_uint d Hd), Hv. cbn. f_equal. lia.
  - cbn [app]. destruct (uint_bytes_head d Hd) as (c & r & E & Hc). rewrite E. cbn [parse_signed].
    destruct (digit_facts c Hc) as (-> & -> & _). rewrite <- E, (parse_digits_uint d Hd), Hv. f_equal. lia.
Qed.

Theorem parse_int_format bits z :
  (- 2 ^ (bits - 1) <= z < 2 ^ (bits - 1))%Z -> parse_int bits (format_Z z) = Some z.
Proof.
  intro H. unfold parse_int. rewrite parse_signed_format.
  replace ((- 2 ^ (bits - 1) <=? z)%Z && (z <? 2 ^ (bits - 1))%Z) with true; [reflexivity|].
  symmetry. apply andb_true_iff. split; [apply Z.leb_le|apply Z.ltb_lt]; lia.
Qed.

Theorem parse_uint_format bits z : (0 <= z < 2 ^ bits)%Z -> parse_uint bits (format_Z z) = Some z.
Proof.
  intro H. unfold parse_uint. destruct (format_Z_shape z) as (d & Hd & Hv & ->).
  replace (z <? 0)%Z with false by (symmetry; apply Z.ltb_ge; lia). cbn [app].
  rewrite (parse_digits_uint d Hd), Hv. replace (Z.abs z) with z by lia.
  replace (z <? 2 ^ bits)%Z with true; [reflexivity|]. symmetry. apply Z.ltb_lt. lia.
Qed.

(* out of range is an error, never a wrapped value *)
Theorem parse_int_overflow bits z :
  ~ (- 2 ^ (bits - 1) <= z < 2 ^ (bits - 1))%Z -> parse_int bits (format_Z z) = None.
Proof.
  intro H. unfold parse_int. rewrite parse_signed_format.
  destruct ((- 2 ^ (bits - 1) <=? z)%Z && (z <? 2 ^ (bits - 1))%Z) eqn:E; [|reflexivity].
  apply andb_true_iff in E as [A B]. apply Z.leb_le in A. apply Z.ltb_lt in B. exfalso. apply H. lia.
Qed.

Theorem parse_bool_format b : parse_bool (format_bool b) = Some b.
Proof. destruct b; vm_compute; reflexivity. Qed.

(* ---- floats (half-integers) ---- *)

Lemma uint_bytes_nodot d : ~ In dot (uint_bytes d).
Proof. intro H. apply uint_bytes_digits in H. vm_compute in H. discriminate. Qed.

Lemma strip_sign_digits d : d <> Decimal.Nil -> forall r, strip_sign (uint_bytes d ++ r) = (false, uint_bytes d ++ r).
Proof.
  intros H r. destruct (uint_bytes_head d H) as (c & t & E & Hc). rewrite E. cbn [app strip_sign].
  destruct (digit_facts c Hc) as (-> & -> & _). reflexivity.
Qed.

Lemma parse_mag_int d : d <> Decimal.Nil -> parse_mag (uint_bytes d) = Some (2 * Z.of_uint d)%Z.
Proof.
  intro H. unfold parse_mag. rewrite split_on_nosep by apply uint_bytes_nodot.
  now rewrite (parse_digits_uint d H).
Qed.

Lemma parse_mag_half d : d <> Decimal.Nil -> parse_mag (uint_bytes d ++ [dot; x35]) = Some (2 * Z.of_uint d + 1)%Z.
Proof.
  intro H. unfold parse_mag. rewrite split_on_app_nosep by apply uint_bytes_nodot.
  cbn [split_on]. replace (Byte.eqb x35 dot) with false by reflexivity.
  rewrite (parse_digits_uint d H). reflexivity.
Qed.

Theorem parse_half_format k : parse_half (format_half k) = Some k.
Proof.
  unfold format_half, parse_half. destruct (Z.even k) eqn:Ev.
  - assert (Hk : (k = 2 * (k / 2))%Z).
    { apply Z.even_spec in Ev as [m Hm]. Z.to_euclidean_division_equations. lia. }
    destruct (format_Z_shape (k / 2)) as (d & Hd & Hv & ->).
    remember (k / 2)%Z as h eqn:Eh. clear Eh.
    destruct (h <? 0)%Z eqn:S.
    + cbn [app strip_sign]. rewrite byte_eqb_refl. rewrite (parse_mag_int d Hd), Hv. cbn [option_map]. f_equal. lia.
    + cbn [app]. rewrite <- (app_nil_r (uint_bytes d)), (strip_sign_digits d Hd), app_nil_r.
      rewrite (parse_mag_int d Hd), Hv. cbn [option_map]. f_equal. lia.
  - assert (Hodd : (Z.abs k = 2 * (Z.abs k / 2) + 1)%Z /\ (0 <= Z.abs k / 2)%Z).
    { assert (Z.odd k = true) as Ho by (rewrite <- Z.negb_even, Ev; reflexivity).
      apply Z.odd_spec in Ho as [m Hm]. Z.to_euclidean_division_equations. lia. }
    destruct (format_Z_shape (Z.abs k / 2)) as (d & Hd & Hv & ->).
    remember (Z.abs k / 2)%Z as h eqn:Eh. clear Eh. destruct Hodd as [Hodd Hpos].
    replace (h <? 0)%Z with false by lia.
    cbn [app]. destruct (k <? 0)%Z eqn:S.
    + cbn [app strip_sign]. rewrite byte_eqb_refl. rewrite (parse_mag_half d Hd), Hv. cbn [option_map]. f_equal. lia.
    + cbn [app]. rewrite (strip_sign_digits d Hd), (parse_mag_half d Hd), Hv. cbn [option_map]. f_equal. lia.
Qed.

(* ---- every primitive: parse (format v) = v ---- *)

Lemma pow2_pos b : (0 < 2 ^ b)%Z \/ (b < 0)%Z.
Proof. destruct (Z_lt_le_dec b 0); [now right|left; apply Z.pow_pos_nonneg; lia]. Qed.

Theorem parse_fmt t v : prim_ok t v = true -> parse_prim t (fmt_prim v) = Some v.
Proof.
  destruct t, v; cbn [prim_ok parse_prim fmt_prim]; try discriminate; intro H.
  - now rewrite parse_bool_format.
  - apply andb_true_iff in H as [A B]. apply Z.leb_le in A. apply Z.ltb_lt in B.
    rewrite parse_int_format by lia. reflexivity.
  - apply andb_true_iff in H as [A B]. apply Z.leb_le in A. apply Z.ltb_lt in B.
    rewrite parse_uint_format by lia. reflexivity.
  - now rewrite parse_half_format.
  - reflexivity.
Qed.

Lemma parse_all_fmt t l : forallb (prim_ok t) l = true -> parse_all t (map fmt_prim l) = Some l.
Proof.
  induction l as [|v l IH]; [reflexivity|]. cbn [forallb map parse_all]. rewrite andb_true_iff. intros [A B].
  now rewrite (parse_fmt t v A), (IH B).
Qed.

(* ---- the bytes a non-string value is written with ---- *)

Lemma uint_bytes_token d : forallb token_byte (uint_bytes d) = true.
Proof. apply forallb_forall. intros c H. apply digit_token. exact (uint_bytes_digits d c H). Qed.

Lemma format_Z_token z : forallb token_byte (format_Z z) = true /\ format_Z z <> [].
Proof.
  destruct (format_Z_shape z) as (d & Hd & _ & ->). split.
  - rewrite forallb_app, uint_bytes_token. destruct (z <? 0)%Z; reflexivity.
  - intro E. apply app_eq_nil in E as [_ E]. apply uint_bytes_nil in E. contradiction.
Qed.

Lemma format_half_token k : forallb token_byte (format_half k) = true /\ format_half k <> [].
Proof.
  unfold format_half. destruct (Z.even k); [apply format_Z_token|]. split.
  - rewrite !forallb_app. destruct (format_Z_token (Z.abs k / 2)) as [-> _]. destruct (k <? 0)%Z; reflexivity.
  - intro E. apply app_eq_nil in E as [_ E]. apply app_eq_nil in E as [_ E]. discriminate.
Qed.

Lemma fmt_token v : (forall s, v <> VStr s) -> forallb token_byte (fmt_prim v) = true /\ fmt_prim v <> [].
Proof.
  destruct v; intro H; cbn [fmt_prim].
  - destruct b; split; try reflexivity; discriminate.
  - apply format_Z_token.
  - apply format_half_token.
  - exfalso. apply (H s). reflexivity.
Qed.

Lemma prim_ok_nonstr t v : prim_ok t v = true -> is_str t = false -> forall s, v <> VStr s.
Proof. destruct t, v; cbn; try discriminate; intros _ _ s' E; discriminate. Qed.

Lemma prim_ok_str t v : prim_ok t v = true -> is_str t = true -> exists s, v = VStr s.
Proof. destruct t, v; cbn; try discriminate; intros _ _; eauto. Qed.

(* consequences for the channels *)
Lemma token_no c s : forallb token_byte s = true -> In c s -> token_byte c = true.
Proof. intros H I. rewrite forallb_forall in H. now apply H. Qed.

Lemma token_nopct s : forallb token_byte s = true -> ~ In pct s.
Proof. intros H I. destruct (token_facts pct (token_no _ _ H I)) as (A & _). congruence. Qed.
Lemma token_nocomma s : forallb token_byte s = true -> ~ In comma s.
Proof. intros H I. destruct (token_facts comma (token_no _ _ H I)) as (_ & A & _). congruence. Qed.
Lemma token_noslash s : forallb token_byte s = true -> ~ In slash s.
Proof. intros H I. destruct (token_facts slash (token_no _ _ H I)) as (_ & _ & A & _). congruence. Qed.
Lemma token_nospace s : forallb token_byte s = true -> ~ In space s.
Proof. intros H I. destruct (token_facts space (token_no _ _ H I)) as (_ & _ & _ & A & _). congruence. Qed.

Lemma token_cookie_ok s : forallb token_byte s = true -> forallb cookie_byte_ok s = true.
Proof.
  intro H. apply forallb_forall. intros c I. now destruct (token_facts c (token_no _ _ H I)) as (_ & _ & _ & _ & _ & _ & _ & _ & _ & A).
Qed.

Lemma token_header_ok s : forallb token_byte s = true -> header_value_ok s = true.
Proof.
  intro H. unfold header_value_ok. apply negb_true_iff. apply not_true_is_false. intro E.
  apply existsb_exists in E as (c & I & E). destruct (token_facts c (token_no _ _ H I)) as (_ & _ & _ & _ & _ & _ & _ & _ & A & _). congruence.
Qed.

Lemma trim_left_id s : match s with c :: _ => lws c = false | [] => True end -> trim_left s = s.
Proof. destruct s as [|c r]; [reflexivity|]. cbn. now intros ->. Qed.

Lemma trim_nolws s : (forall c, In c s -> lws c = false) -> trim s = s.
Proof.
  intro H. unfold trim. rewrite (trim_left_id s).
  - rewrite (trim_left_id (rev s)); [apply rev_involutive|].
    destruct (rev s) as [|c r] eqn:E; [exact I|]. apply H. apply in_rev. rewrite E. now left.
  - destruct s as [|c r]; [exact I|]. apply H. now left.
Qed.

Lemma token_trim s : forallb token_byte s = true -> trim s = s.
Proof.
  intro H. apply trim_nolws. intros c I. now destruct (token_facts c (token_no _ _ H I)) as (_ & _ & _ & _ & _ & _ & _ & A & _).
Qed.
