(* Transport engine — proofs, part 7: the response round trip (C03). A response is an
   endpoint without path and query: the request lemmas are reused through ep_of_resp. *)
From Transport Require Import Model LemmasCodec LemmasStrconv LemmasQuery LemmasReq LemmasPartition.
From Coq Require Import Lia Permutation.

Definition ep_of_resp (whole : bool) (r : resp) : ep :=
  {| e_route := [RLit []]; e_attrs := rs_attrs r; e_whole := whole |}.

Lemma filter_none {A} (f : A -> bool) l : (forall x, In x l -> f x = false) -> filter f l = [].
Proof.
  induction l as [|x l IH]; intro H; [reflexivity|]. cbn [filter]. rewrite (H x (or_introl eq_refl)).
  apply IH. intros y I. apply H. now right.
Qed.

Lemma flat_map_ext_in {A B} (f g : A -> list B) l : (forall a, In a l -> f a = g a) -> flat_map f l = flat_map g l.
Proof.
  induction l as [|x l IH]; intro H; [reflexivity|]. cbn [flat_map]. rewrite (H x (or_introl eq_refl)). f_equal.
  apply IH. intros a I. apply H. now right.
Qed.

Lemma wf_ep_of_resp whole r : wf_resp whole r -> wf_ep (ep_of_resp whole r).
Proof.
  intros [Hn Ha Hh Hc Hw].
  assert (forall l, l = LPath \/ l = LQuery -> wires_at l (rs_attrs r) = []) as Hnone.
  { intros l Hl. unfold wires_at. rewrite filter_none; [reflexivity|]. intros a I.
    destruct (Ha a I) as [_ [E|[E|E]]]; rewrite E; destruct Hl as [-> | ->]; reflexivity. }
  constructor; cbn [ep_of_resp e_attrs e_route e_whole]; auto.
  - intros a I. exact (proj1 (Ha a I)).
  - discriminate.
  - intros s [E|[]]. injection E as <-. intros [].
  - cbn. constructor.
  - rewrite (Hnone LPath (or_introl eq_refl)). split; [constructor|]. intro w. cbn. tauto.
  - rewrite (Hnone LQuery (or_intror eq_refl)). split; [constructor|]. intros w [].
Qed.

Lemma header_ok_no_newline v : header_value_ok v = true -> nl_to_space v = v.
Proof.
  unfold header_value_ok, nl_to_space. intro H. apply negb_true_iff in H.
  induction v as [|c v IH]; [reflexivity|]. cbn [existsb map] in *. apply orb_false_iff in H as [Hc Hv].
  rewrite (IH Hv). f_equal. destruct c; try reflexivity; vm_compute in Hc; discriminate.
Qed.

Section Response.
  Variable whole : bool.
  Variable r : resp.
  Variable p : payload.
  Hypothesis Hwf : wf_resp whole r.
  Hypothesis Hvalid : valid_attrs (rs_attrs r) p.
  Hypothesis Hsafe : resp_safe r p.

  Let e := ep_of_resp whole r.

  Lemma e_wf : wf_ep e. Proof. exact (wf_ep_of_resp whole r Hwf). Qed.
  Lemma e_valid : valid e p. Proof. exact Hvalid. Qed.
  Lemma e_safe : wire_safe e p. Proof. intros a I. exact (proj1 (Hsafe a I)). Qed.

  (* the headers the server writes: one per attribute, the request encoding under canonical names *)
  Lemma resp_headers_are_kvs :
    cr_headers (encode_resp whole r p) = map (fun kv => (canon (fst kv), snd kv)) (enc_kvs LHeader e p).
  Proof.
    unfold encode_resp. cbn [cr_headers]. rewrite enc_kvs_contrib, map_flat_map.
    change (at_loc LHeader e) with (resp_attrs_at LHeader r).
    apply flat_map_ext_in. intros a Ha. unfold contrib.
    assert (In a (e_attrs e) /\ a_loc a = LHeader) as [Hin Hloc] by (apply in_at_loc; exact Ha).
    pose proof (header_attr_ty e e_wf a Hin Hloc) as Hty. pose proof (Hvalid a Hin) as Hv. pose proof (Hsafe a Hin) as [_ Hs].
    rewrite Hloc in Hs.
    destruct (client_view a p) as [v|] eqn:Ec; [|reflexivity].
    destruct (client_view_typed a p v Ec) as [Hp|(_ & t & _ & _ & ->)]; [|reflexivity].
    rewrite Hp in Hv, Hs. destruct Hv as [Hok _].
    destruct (a_ty a); try contradiction; destruct v as [x|es| |]; try discriminate; try reflexivity.
    destruct es as [|x [|y es]]; try discriminate. reflexivity.
  Qed.

  Lemma resp_headers_transmitted :
    cr_headers (transmit_resp (encode_resp whole r p)) = map ct (enc_kvs LHeader e p).
  Proof.
    unfold transmit_resp. cbn [cr_headers]. rewrite resp_headers_are_kvs, map_map.
    apply map_ext_in. intros kv Hkv. unfold ct. cbn [fst snd]. f_equal. f_equal.
    apply header_ok_no_newline. rewrite enc_kvs_contrib in Hkv. apply in_flat_map in Hkv as (a & Ha & Hkv).
    apply in_at_loc in Ha as [Hin Hloc]. exact (proj1 (header_texts e p e_wf e_valid e_safe a kv Hin Hloc Hkv)).
  Qed.

  Lemma resp_cookies_are_kvs : cr_cookies (encode_resp whole r p) = map cw (enc_kvs LCookie e p).
  Proof.
    unfold encode_resp. cbn [cr_cookies]. rewrite enc_kvs_contrib, map_flat_map.
    change (at_loc LCookie e) with (resp_attrs_at LCookie r).
    apply flat_map_ext_in. intros a Ha.
    assert (In a (e_attrs e) /\ a_loc a = LCookie) as [Hin Hloc] by (apply in_at_loc; exact Ha).
    destruct (cookie_attr_ty e e_wf a Hin Hloc) as (t & Ety). rewrite (contrib_prim e p e_valid a t Hin Ety).
    destruct (client_view a p) as [[x| | |]|]; reflexivity.
  Qed.

  Lemma resp_cookies_transmitted : cr_cookies (transmit_resp (encode_resp whole r p)) = enc_kvs LCookie e p.
  Proof.
    unfold transmit_resp. cbn [cr_cookies]. rewrite resp_cookies_are_kvs. apply (cookies_through e p e_wf e_valid e_safe).
  Qed.

  Lemma resp_body_same : cr_body (transmit_resp (encode_resp whole r p)) = enc_body e p.
  Proof. reflexivity. Qed.

  Lemma resp_attr_roundtrip a : In a (rs_attrs r) ->
    dres_equiv (dec_resp_attr whole a (transmit_resp (encode_resp whole r p))) (expected a p).
  Proof.
    intro Hin. destruct (wfr_attrs whole r Hwf a Hin) as [Hok Hl]. destruct Hok as (_ & _ & Hty).
    unfold dec_resp_attr. destruct Hl as [Hloc|[Hloc|Hloc]]; rewrite Hloc in *.
    - rewrite resp_headers_transmitted. unfold dec_kv.
      destruct (a_ty a) as [t|t|t|] eqn:Ety; try contradiction.
      + rewrite (header_prim e p e_wf e_valid e_safe a t Hin Hloc Ety).
        apply (dec_single_ok e p e_valid e_safe a t Hin Ety); rewrite Hloc; discriminate.
      + rewrite (header_arr e p e_wf e_valid e_safe a t Hin Hloc Ety). exact (dec_list_ok e p e_valid e_safe a t Hin Ety).
    - rewrite resp_cookies_transmitted. destruct (cookie_attr_ty e e_wf a Hin Hloc) as (t & Ety).
      assert (match rev (lookup_all (a_wire a) (enc_kvs LCookie e p)) with v :: _ => v | [] => [] end = raw_of p a) as Hraw.
      { rewrite (cookie_lookup e p e_wf e_valid a Hin Hloc), (contrib_prim e p e_valid a t Hin Ety). unfold raw_of.
        destruct (client_view a p) as [[x| | |]|]; reflexivity. }
      unfold dec_resp_cookie. rewrite Ety.
      assert (dres_equiv (dec_single a t (raw_of p a)) (expected a p)) as Hgen
        by (apply (dec_single_ok e p e_valid e_safe a t Hin Ety); rewrite Hloc; discriminate).
      rewrite <- Hraw in Hgen. destruct t; exact Hgen.
    - change (cr_body (transmit_resp (encode_resp whole r p))) with (enc_body e p).
      exact (body_roundtrip e p e_wf e_valid e_safe a Hin Hloc).
  Qed.

  Lemma resp_collect :
    exists d, collect (map (fun a => (a_name a, dec_resp_attr whole a (transmit_resp (encode_resp whole r p)))) (rs_attrs r)) = Delivered d /\
              plist_equiv d (result_with_defaults r p).
  Proof.
    destruct (collect_expected (fun a => dec_resp_attr whole a (transmit_resp (encode_resp whole r p))) (rs_attrs r) p) as (d & Hd & Hq).
    - intros a Hin. now apply resp_attr_roundtrip.
    - exists d. split; [exact Hd|]. unfold result_with_defaults. rewrite with_defaults_expected. exact Hq.
  Qed.
End Response.

(* ---- selection by tag, decoding by status ---- *)

Lemma find_in {A} (f : A -> bool) l x : find f l = Some x -> In x l /\ f x = true.
Proof. intro H. apply find_some in H. exact H. Qed.

Lemma select_resp_spec rs p r : select_resp rs p = Some r ->
  In r rs /\
  match rs_tag r with
  | Some t => tag_matches t p = true
  | None => forall r' t', In r' rs -> rs_tag r' = Some t' -> tag_matches t' p = false
  end.
Proof.
  unfold select_resp.
  destruct (find (fun r0 => match rs_tag r0 with Some t => tag_matches t p | None => false end) rs) as [r0|] eqn:E1.
  - intros [= <-]. apply find_in in E1 as [Hin Hf]. split; [exact Hin|]. destruct (rs_tag r0); [exact Hf|discriminate].
  - intro E2. apply find_in in E2 as [Hin Hf]. split; [exact Hin|]. destruct (rs_tag r) as [t|]; [discriminate|].
    intros r' t' Hin' Ht'. pose proof (find_none _ _ E1 r' Hin') as Hn. cbn in Hn. now rewrite Ht' in Hn.
Qed.

(* a tagged response whose tag attribute holds the tag value is preferred to the untagged one *)
Lemma select_resp_prefers_tag rs p r0 t0 : In r0 rs -> rs_tag r0 = Some t0 -> tag_matches t0 p = true ->
  exists r t, select_resp rs p = Some r /\ rs_tag r = Some t /\ tag_matches t p = true.
Proof.
  intros Hin Ht Hm. unfold select_resp.
  destruct (find (fun r1 => match rs_tag r1 with Some t => tag_matches t p | None => false end) rs) as [r1|] eqn:E1.
  - apply find_in in E1 as [Hin1 Hf]. destruct (rs_tag r1) as [t1|] eqn:Et; [|discriminate]. exists r1, t1. auto.
  - exfalso. pose proof (find_none _ _ E1 r0 Hin) as Hn. cbn in Hn. rewrite Ht, Hm in Hn. discriminate.
Qed.

Lemma find_by_status rs r : NoDup (map rs_status rs) -> In r rs ->
  find (fun r' => (rs_status r' =? rs_status r)%N) rs = Some r.
Proof.
  intros Hn Hin. apply find_some_unique; [assumption|apply N.eqb_refl|].
  intros y Hy E. apply N.eqb_eq in E. exact (nodup_map_inj rs_status rs y r Hn Hy Hin E).
Qed.

Lemma in_with_defaults e p k v : In (k, v) (with_defaults e p) -> forall tv, p k = Some tv -> v = tv.
Proof.
  unfold with_defaults. rewrite in_flat_map. intros (a & _ & H) tv Hp.
  destruct (p (a_name a)) as [x|] eqn:Ea.
  - destruct H as [[= <- <-]|[]]. congruence.
  - destruct (a_def a); [destruct H as [[= <- <-]|[]]; congruence|destruct H].
Qed.

Lemma set_tag_same n v tv l wd : is_tag_value tv v ->
  plist_equiv l wd -> (forall k x, In (k, x) wd -> k = n -> x = tv) -> set_tag (Some (n, v)) l = l.
Proof.
  intros Htv Hq. unfold set_tag. induction Hq as [|[k x] [k' y] l wd [E1 E2] Hf IH]; intro H; [reflexivity|].
  cbn [fst snd] in *. subst k'. cbn [map fst snd]. rewrite IH by (intros k0 x0 I; apply H; now right).
  f_equal. destruct (beq k n) eqn:E; [|reflexivity]. apply beq_eq in E. subst k.
  pose proof (H n y (or_introl eq_refl) eq_refl) as Hy. subst y.
  destruct Htv as [-> | ->]; destruct x; cbn in E2; try discriminate; now rewrite E2.
Qed.

Lemma tag_matches_value t p : tag_matches t p = true -> exists tv, p (fst t) = Some tv /\ is_tag_value tv (snd t).
Proof.
  unfold tag_matches. destruct (p (fst t)) as [[x| | |j]|]; try discriminate.
  - destruct x; try discriminate. intro E. apply beq_eq in E. subst. eexists. split; [reflexivity|now right].
  - destruct j; try discriminate. intro E. apply beq_eq in E. subst. eexists. split; [reflexivity|now left].
Qed.

(* the response round trip *)
Theorem response_roundtrip pr p r : wf_rep pr -> select_resp (p_resps pr) p = Some r ->
  valid_attrs (rs_attrs r) p -> resp_safe r p ->
  exists d, respond pr p = Returned (rs_status r) d /\ plist_equiv d (result_with_defaults r p).
Proof.
  intros [Hr Hst] Hsel Hv Hs. destruct (select_resp_spec _ _ _ Hsel) as [Hin Htag].
  unfold respond. rewrite Hsel. unfold decode_resp.
  change (cr_status (transmit_resp (encode_resp (p_whole pr) r p))) with (rs_status r).
  rewrite (find_by_status _ r Hst Hin).
  destruct (resp_collect (p_whole pr) r p (Hr r Hin) Hv Hs) as (d & Hd & Hq). rewrite Hd.
  destruct (rs_tag r) as [[n v]|] eqn:Et.
  - destruct (tag_matches_value _ _ Htag) as (tv & Hp & Htv). cbn [fst snd] in *.
    rewrite (set_tag_same n v tv d (result_with_defaults r p) Htv Hq).
    + exists d. split; [reflexivity|exact Hq].
    + intros k x I ->. exact (in_with_defaults _ p n x I tv Hp).
  - exists d. split; [reflexivity|exact Hq].
Qed.

(* what the client sees, attribute by attribute *)
Theorem returned_per_attribute pr p r d : wf_rep pr -> select_resp (p_resps pr) p = Some r ->
  valid_attrs (rs_attrs r) p -> resp_safe r p -> respond pr p = Returned (rs_status r) d ->
  forall a, In a (rs_attrs r) ->
    opt_equiv (lookup (a_name a) d) (match p (a_name a) with Some v => Some v | None => a_def a end).
Proof.
  intros Hwf Hsel Hv Hs Hd a Hin. destruct (response_roundtrip pr p r Hwf Hsel Hv Hs) as (d' & Hd' & Hq).
  rewrite Hd in Hd'. injection Hd' as <-.
  destruct (select_resp_spec _ _ _ Hsel) as [Hinr _].
  pose proof (wfr_names _ r (wfp_resps pr Hwf r Hinr)) as Hn.
  unfold result_with_defaults in Hq.
  rewrite <- (lookup_with_defaults {| e_route := []; e_attrs := rs_attrs r; e_whole := false |} p a Hn Hin).
  now apply lookup_equiv.
Qed.

(* the response partition is the request partition without path and query *)
Definition raw_of_resp (attrs : list rattr) (r : raw_resp) : raw_ep :=
  {| r_attrs := attrs; r_whole := false; r_route := []; r_query := []; r_headers := rr_headers r; r_cookies := rr_cookies r |}.

Lemma finalize_resp_is_finalize attrs r : finalize_resp attrs r = finalize (raw_of_resp attrs r).
Proof. reflexivity. Qed.

Lemma resp_partition attrs r : wf_raw (raw_of_resp attrs r) ->
  (forall a, In a (map ra_name attrs) -> exists lw, locs_of (finalize_resp attrs r) a = [lw]) /\
  (forall a, In a (f_body (finalize_resp attrs r)) <->
             In a (map ra_name attrs) /\ ~ In a (map fst (rr_headers r) ++ map fst (rr_cookies r))).
Proof. intro H. rewrite finalize_resp_is_finalize. exact (partition_exact_lemma (raw_of_resp attrs r) H). Qed.

Lemma status_designed pr p r : wf_rep pr -> select_resp (p_resps pr) p = Some r ->
  valid_attrs (rs_attrs r) p -> resp_safe r p ->
  In r (p_resps pr) /\ exists d, respond pr p = Returned (rs_status r) d.
Proof.
  intros Hwf Hsel Hv Hs. split; [exact (proj1 (select_resp_spec _ _ _ Hsel))|].
  destruct (response_roundtrip pr p r Hwf Hsel Hv Hs) as (d & Hd & _). eauto.
Qed.

Lemma defaults_seen pr p r d a : wf_rep pr -> select_resp (p_resps pr) p = Some r ->
  valid_attrs (rs_attrs r) p -> resp_safe r p -> respond pr p = Returned (rs_status r) d ->
  In a (rs_attrs r) -> p (a_name a) = None -> opt_equiv (lookup (a_name a) d) (a_def a).
Proof.
  intros Hwf Hsel Hv Hs Hd Hin Hp. pose proof (returned_per_attribute pr p r d Hwf Hsel Hv Hs Hd a Hin) as H.
  now rewrite Hp in H.
Qed.
