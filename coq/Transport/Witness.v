(* Transport engine — concrete endpoints used by the counterexamples (one attribute in
   one location) and by the non-vacuity examples, with their well-formedness. *)
From Transport Require Import Model LemmasCodec LemmasReq.

Definition nx : bstr := [x78].                       (* "x" *)

Definition one_attr (l : loc) (t : aty) (req : bool) (d : option aval) : attr :=
  {| a_name := nx; a_wire := nx; a_loc := l; a_ty := t; a_req := req; a_def := d |}.

(* GET /p/{x} for a path attribute, /q otherwise *)
Definition one_ep (l : loc) (t : aty) (req : bool) (d : option aval) : ep :=
  {| e_route := match l with LPath => [RLit [x70]; RVar nx] | _ => [RLit [x71]] end;
     e_attrs := [one_attr l t req d]; e_whole := false |}.

Definition give (v : aval) : payload := payload_of [(nx, v)].
Definition nothing : payload := payload_of [].

Ltac nodup_small := repeat (constructor; [cbn; intuition discriminate|]); try constructor.

Lemma wf_one l t req d : attr_ok (one_attr l t req d) -> wf_ep (one_ep l t req d).
Proof.
  intro Hok. constructor; cbn [one_ep e_attrs e_route e_whole].
  - cbn. nodup_small.
  - intros a [<-|[]]. exact Hok.
  - destruct l; discriminate.
  - intros s H. destruct l; cbn in H; intuition; try discriminate;
      match goal with E : RLit _ = RLit _ |- _ => injection E as <- end; cbn in *; intuition discriminate.
  - destruct l; cbn; nodup_small.
  - unfold wires_at. destruct l; cbn; (split; [nodup_small|intro w; reflexivity]).
  - unfold wires_at. destruct l; cbn; (split; [nodup_small|]); intros w H; cbn in H; intuition; subst; cbn in *; intuition discriminate.
  - unfold wires_at. destruct l; cbn; nodup_small.
  - unfold wires_at. destruct l; cbn; nodup_small.
  - discriminate.
Qed.

Lemma valid_give l t req d v : aval_ok t v = true -> keys_distinct v -> valid (one_ep l t req d) (give v).
Proof. intros Hok Hk a [<-|[]]. cbn. auto. Qed.

Lemma valid_nothing l t d : valid (one_ep l t false d) nothing.
Proof. intros a [<-|[]]. reflexivity. Qed.

(* the full statement of the property, for one endpoint and one payload *)
Definition roundtrip_holds (e : ep) (p : payload) : Prop :=
  exists d, deliver e p = Delivered d /\ plist_equiv d (with_defaults e p).

Ltac refute_delivery :=
  let d := fresh "d" in let Hd := fresh "Hd" in let Hq := fresh "Hq" in
  intros (d & Hd & Hq); vm_compute in Hd;
  first [ discriminate Hd
        | injection Hd as <-; vm_compute in Hq;
          repeat match goal with
                 | H : Forall2 _ _ _ |- _ => inversion H; clear H; subst
                 | H : _ /\ _ |- _ => destruct H
                 end;
          try discriminate;
          try match goal with H : Permutation.Permutation _ _ |- _ => apply Permutation.Permutation_length in H; discriminate H end ].
