(* Transport engine — proofs, part 5: the attribute-to-location partition computed by
   finalisation, and what the delivered list says attribute by attribute. *)
From Transport Require Import Model LemmasCodec LemmasStrconv LemmasQuery LemmasReq.
From Coq Require Import Lia Permutation.

(* ------------------------------------------------------------ the partition *)

(* the mapping as the DSL accepts it: attribute names distinct, every mapped name is an
   attribute, no attribute mapped twice *)
Definition mapped_names (r : raw_ep) : list bstr :=
  route_vars (r_route r) ++ map fst (r_query r) ++ map fst (r_headers r) ++ map fst (r_cookies r).

Record wf_raw (r : raw_ep) : Prop := {
  wr_names : NoDup (attr_names r);
  wr_mapped : NoDup (mapped_names r);
  wr_known : forall a, In a (mapped_names r) -> In a (attr_names r) }.

Lemma assoc_in a l : (exists w, assoc a l = Some w) <-> In a (map fst l).
Proof.
  induction l as [|[x w] l IH]; cbn [assoc map fst In].
  - split; [intros (w & E); discriminate|intros []].
  - destruct (beq a x) eqn:E.
    + apply beq_eq in E. subst. split; [now left|eauto].
    + apply beq_neq in E. rewrite IH. split; [now right|intros [->|I]; [congruence|assumption]].
Qed.

Lemma assoc_none a l : assoc a l = None <-> ~ In a (map fst l).
Proof.
  rewrite <- assoc_in. destruct (assoc a l); split; try congruence; intro H.
  - exfalso. apply H. eauto.
  - intros (w & E). discriminate.
Qed.

Lemma nodup_app_l {A} (l m : list A) : NoDup (l ++ m) -> NoDup l.
Proof. induction l as [|x l IH]; [constructor|]. cbn. intro H. inversion H; subst. constructor; [rewrite in_app_iff in *; tauto|auto]. Qed.
Lemma nodup_app_r {A} (l m : list A) : NoDup (l ++ m) -> NoDup m.
Proof. induction l as [|x l IH]; [trivial|]. cbn. intro H. inversion H; subst. auto. Qed.
Lemma nodup_app_disj {A} (l m : list A) x : NoDup (l ++ m) -> In x l -> ~ In x m.
Proof.
  induction l as [|y l IH]; [intros _ []|]. cbn. intros H [->|I] J; inversion H; subst.
  - rewrite in_app_iff in *. tauto.
  - now apply IH.
Qed.

Lemma map_fst_pathp vars : map fst (map (fun w : bstr => (w, w)) vars) = vars.
Proof. rewrite map_map. cbn. apply map_id. Qed.

(* every payload attribute lands in exactly one location; the body is the payload minus
   everything mapped elsewhere *)
Theorem partition_exact_lemma r : wf_raw r ->
  (forall a, In a (attr_names r) -> exists lw, locs_of (finalize r) a = [lw]) /\
  (forall a, In a (f_body (finalize r)) <-> In a (attr_names r) /\ ~ In a (mapped_names r)).
Proof.
  intros [Hn Hm Hk].
  assert (Hbody : forall a, In a (f_body (finalize r)) <-> In a (attr_names r) /\ ~ In a (mapped_names r)).
  { intro a. unfold finalize. cbn [f_body]. rewrite filter_In, negb_true_iff, mem_false, map_fst_pathp. reflexivity. }
  split; [|exact Hbody].
  intros a Ha. unfold locs_of.
  assert (Hmem : mem a (f_body (finalize r)) = true <-> ~ In a (mapped_names r)).
  { rewrite mem_In, Hbody. tauto. }
  unfold finalize at 1 2 3 4. cbn [f_path f_query f_headers f_cookies].
  unfold mapped_names in *.
  set (P := route_vars (r_route r)) in *. set (Q := map fst (r_query r)) in *.
  set (H := map fst (r_headers r)) in *. set (C := map fst (r_cookies r)) in *.
  assert (XA : forall (L : list (bstr * bstr)), {In a (map fst L) /\ exists w, assoc a L = Some w} + {~ In a (map fst L) /\ assoc a L = None}).
  { intro L. destruct (assoc a L) as [w|] eqn:E; [left|right].
    - split; [apply assoc_in|]; eauto.
    - split; [now apply assoc_none|reflexivity]. }
  assert (XB : {~ (In a P \/ In a Q \/ In a H \/ In a C) /\ mem a (f_body (finalize r)) = true} +
               {(In a P \/ In a Q \/ In a H \/ In a C) /\ mem a (f_body (finalize r)) = false}).
  { rewrite !in_app_iff in Hmem. destruct (mem a (f_body (finalize r))) eqn:E; [left|right].
    - split; [now apply Hmem|reflexivity].
    - split; [|reflexivity]. destruct (in_dec (list_eq_dec Byte.byte_eq_dec) a (P ++ Q ++ H ++ C)) as [I|N].
      + rewrite !in_app_iff in I. exact I.
      + exfalso. rewrite !in_app_iff in N. apply Hmem in N. discriminate. }
  pose proof (nodup_app_disj P (Q ++ H ++ C) a Hm) as D1.
  pose proof (nodup_app_disj Q (H ++ C) a (nodup_app_r _ _ Hm)) as D2.
  pose proof (nodup_app_disj H C a (nodup_app_r _ _ (nodup_app_r _ _ Hm))) as D3.
  rewrite !in_app_iff in *. subst P Q H C.
  destruct (XA (map (fun w : bstr => (w, w)) (route_vars (r_route r)))) as [[IP (wp & ->)]|[NP ->]]; rewrite map_fst_pathp in *;
  destruct (XA (r_query r)) as [[IQ (wq & ->)]|[NQ ->]];
  destruct (XA (r_headers r)) as [[IH (wh & ->)]|[NH ->]];
  destruct (XA (r_cookies r)) as [[IC (wc & ->)]|[NC ->]];
  destruct XB as [[NB ->]|[IB ->]]; cbn [app]; first [eexists; reflexivity | exfalso; tauto].
Qed.

(* ---------------------------------------------- reading the delivered list *)

Definition opt_equiv (x y : option aval) : Prop :=
  match x, y with
  | Some a, Some c => aval_equiv a c
  | None, None => True
  | _, _ => False
  end.

Lemma lookup_equiv d d' n : plist_equiv d d' -> opt_equiv (lookup n d) (lookup n d').
Proof.
  induction 1 as [|[k v] [k' v'] l l' [E1 E2] Hf IH]; [exact I|]. cbn [fst snd] in *. subst k'.
  cbn [lookup]. destruct (beq n k); [exact E2|exact IH].
Qed.

Lemma lookup_flat_other (attrs : list attr) (f : attr -> list (bstr * aval)) n :
  (forall a, In a attrs -> forall kv, In kv (f a) -> fst kv = a_name a) ->
  ~ In n (map a_name attrs) -> lookup n (flat_map f attrs) = None.
Proof.
  intros Hk Hn. induction attrs as [|a l IH]; [reflexivity|]. cbn [flat_map].
  assert (forall m, lookup n (f a ++ m) = lookup n m) as Hskip.
  { intro m. pose proof (Hk a (or_introl eq_refl)) as Hka. induction (f a) as [|[k v] fa IHf]; [reflexivity|].
    cbn [app lookup]. assert (k = a_name a) as -> by (apply (Hka (k, v)); now left).
    destruct (beq n (a_name a)) eqn:E; [apply beq_eq in E; subst; exfalso; apply Hn; now left|].
    apply IHf. intros kv I. apply Hka. now right. }
  rewrite Hskip. apply IH; [intros a' I; apply Hk; now right|intro I; apply Hn; now right].
Qed.

Lemma lookup_with_defaults e p a : NoDup (map a_name (e_attrs e)) -> In a (e_attrs e) ->
  lookup (a_name a) (with_defaults e p) = match p (a_name a) with Some v => Some v | None => a_def a end.
Proof.
  unfold with_defaults. induction (e_attrs e) as [|x l IH]; intros Hn Hi; [destruct Hi|].
  cbn [map] in Hn. inversion Hn as [|? ? Hx Hn']; subst. cbn [flat_map]. destruct Hi as [->|Hi].
  - destruct (p (a_name a)) as [v|]; [cbn [app lookup]; now rewrite beq_refl|].
    destruct (a_def a) as [d|]; [cbn [app lookup]; now rewrite beq_refl|]. cbn [app].
    apply lookup_flat_other; [|assumption].
    intros a' _ kv Hkv. destruct (p (a_name a')); [destruct Hkv as [<-|[]]; reflexivity|].
    destruct (a_def a'); [destruct Hkv as [<-|[]]; reflexivity|destruct Hkv].
  - assert (a_name a <> a_name x) as Hne by (intro E; apply Hx; rewrite <- E; now apply in_map).
    apply beq_neq in Hne.
    destruct (p (a_name x)); [cbn [app lookup]; rewrite Hne; now apply IH|].
    destruct (a_def x); [cbn [app lookup]; rewrite Hne; now apply IH|]. cbn [app]. now apply IH.
Qed.

Lemma plist_equiv_names d d' : plist_equiv d d' -> map fst d = map fst d'.
Proof. induction 1 as [|x y l l' [E _] _ IH]; [reflexivity|]. cbn [map]. now rewrite E, IH. Qed.

Lemma with_defaults_names_nodup e p : NoDup (map a_name (e_attrs e)) -> NoDup (map fst (with_defaults e p)).
Proof.
  unfold with_defaults. induction (e_attrs e) as [|x l IH]; intro Hn; [constructor|].
  cbn [map] in Hn. inversion Hn as [|? ? Hx Hn']; subst. cbn [flat_map].
  assert (forall n, In n (map fst (flat_map (fun a => match p (a_name a) with
             | Some v => [(a_name a, v)] | None => match a_def a with Some d => [(a_name a, d)] | None => [] end end) l)) -> In n (map a_name l)) as Hsub.
  { intros n I. apply in_map_iff in I as ([k v] & <- & I). apply in_flat_map in I as (a & Ha & I). cbn [fst].
    destruct (p (a_name a)); [destruct I as [[= <- _]|[]]; now apply in_map|].
    destruct (a_def a); [destruct I as [[= <- _]|[]]; now apply in_map|destruct I]. }
  destruct (p (a_name x)); [cbn [app map fst]; constructor; [intro I; apply Hx; now apply Hsub|now apply IH]|].
  destruct (a_def x); [cbn [app map fst]; constructor; [intro I; apply Hx; now apply Hsub|now apply IH]|]. cbn [app]. now apply IH.
Qed.

(* what was delivered, attribute by attribute *)
Theorem delivered_per_attribute e p d : wf_ep e -> valid e p -> wire_safe e p -> deliver e p = Delivered d ->
  NoDup (map fst d) /\
  forall a, In a (e_attrs e) ->
    opt_equiv (lookup (a_name a) d) (match p (a_name a) with Some v => Some v | None => a_def a end).
Proof.
  intros Hwf Hv Hs Hd. destruct (request_roundtrip e p Hwf Hv Hs) as (d' & Hd' & Hq).
  rewrite Hd in Hd'. injection Hd' as <-. split.
  - rewrite (plist_equiv_names _ _ Hq). apply with_defaults_names_nodup. apply (wf_names e Hwf).
  - intros a Hin. rewrite <- (lookup_with_defaults e p a (wf_names e Hwf) Hin). now apply lookup_equiv.
Qed.

Lemma unset_lemma e p d a : wf_ep e -> valid e p -> wire_safe e p ->
  deliver e p = Delivered d -> In a (e_attrs e) -> p (a_name a) = None ->
  opt_equiv (lookup (a_name a) d) (a_def a).
Proof.
  intros Hwf Hv Hs Hd Hin Hp. pose proof (proj2 (delivered_per_attribute e p d Hwf Hv Hs Hd) a Hin) as H.
  now rewrite Hp in H.
Qed.

Lemma not_swapped_lemma e p d : wf_ep e -> valid e p -> wire_safe e p -> deliver e p = Delivered d ->
  NoDup (map fst d) /\
  forall a v, In a (e_attrs e) -> p (a_name a) = Some v -> opt_equiv (lookup (a_name a) d) (Some v).
Proof.
  intros Hwf Hv Hs Hd. destruct (delivered_per_attribute e p d Hwf Hv Hs Hd) as [Hn H]. split; [exact Hn|].
  intros a v Hin Hp. specialize (H a Hin). now rewrite Hp in H.
Qed.
