From Eval Require Import Model Lemmas.
