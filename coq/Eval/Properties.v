(* C11 - property statements only. Every theorem is closed by a lemma of the Lemmas*
   files and followed by Print Assumptions. Roots are numbers below n (the number of
   root objects); `deps` is DependsOn, `regs` the registration order. *)
From Coq Require Import List Bool Arith Permutation Sorted.
Import ListNotations.
From Eval Require Import Model Lemmas.

(* ---------------------------------------------------------------- Roots() *)

(* Termination of sortDependenciesR on every graph, cyclic or not: with depth
   2n+2 the depth-fuelled search never runs out of fuel. *)
Theorem depth_fuel_sufficient n df root :
  (forall x d, In d (df x) -> d < n) -> root < n ->
  exists s, sort_deps (depth_fuel n) df root = Some s.
Proof. exact (depth_fuel_sufficient_l n df root). Qed.
Print Assumptions depth_fuel_sufficient.

Theorem roots_never_out_of_fuel n deps regs :
  (forall x d, In d (deps x) -> d < n) -> (forall r, In r regs -> r < n) ->
  roots n deps regs <> OutOfFuel.
Proof. exact (roots_no_out_of_fuel n deps regs). Qed.
Print Assumptions roots_never_out_of_fuel.

(* The flattened dependency list of a registered root holds exactly the roots
   reachable from it. *)
Theorem roots_complete n deps regs :
  (forall x d, In d (deps x) -> d < n) -> (forall r, In r regs -> r < n) ->
  exists tbl, flat_table (depth_fuel n) deps regs = Some tbl /\
    forall r, In r regs -> forall y, In y (lookup tbl r) <-> reach deps r y.
Proof. exact (roots_complete_spec n deps regs). Qed.
Print Assumptions roots_complete.

(* A cycle is reported exactly when a registered root depends on itself or two
   distinct registered roots reach each other. *)
Theorem roots_cycle_iff n deps regs :
  (forall x d, In d (deps x) -> d < n) -> (forall r, In r regs -> r < n) ->
  (roots n deps regs = Cycle <-> cyclic deps regs).
Proof. exact (roots_cycle_spec n deps regs). Qed.
Print Assumptions roots_cycle_iff.

(* Without such a cycle Roots() succeeds; the result has no duplicates, contains
   every registered root and only roots reachable from them, every root a registered
   root depends on (directly or not) comes strictly before it (provided no root that is
   only a dependency lies on a cycle), and when every dependency is registered the
   result is a permutation of the registered roots. *)
Theorem roots_topological n deps regs :
  (forall x d, In d (deps x) -> d < n) -> (forall r, In r regs -> r < n) ->
  ~ cyclic deps regs ->
  exists l, roots n deps regs = Ok l /\ NoDup l /\ incl regs l /\
    (forall x, In x l -> exists r, In r regs /\ reach deps r x) /\
    (cycles_among deps regs -> forall u v, In u regs -> reach deps u v -> u <> v -> before l v u) /\
    (closed_under deps regs -> NoDup regs -> Permutation regs l).
Proof. exact (roots_topological_l n deps regs). Qed.
Print Assumptions roots_topological.

(* Limit of the cycle check (outside the property's envelope, where every root is
   registered): a cycle through a root that is only a dependency is not reported. *)
Theorem cycle_through_unregistered_root_refuted :
  exists n deps regs l, roots n deps regs = Ok l /\
    exists u v, In u regs /\ u <> v /\ reach deps u v /\ reach deps v u.
Proof.
  exists 2, (fun r => match r with 0 => [1] | 1 => [0] | _ => [] end), [0], [1; 0].
  destruct unregistered_cycle_witness as (A & B & C).
  split; [exact A|]. exists 0, 1. repeat split; [now left|discriminate|exact B|exact C].
Qed.
Print Assumptions cycle_through_unregistered_root_refuted.

(* ---------------------------------------------------------------- RunDSL() *)

(* Phase barrier, for every program (any number of roots, sets and expressions,
   expressions appended and roots registered while executing): the callback trace is
   sorted by phase - all Exec events, then all Prepare, all Validate, all Finalize. *)
Theorem phase_barrier p : StronglySorted phase_le (fst (run_dsl p)).
Proof. exact (phase_barrier_l p). Qed.
Print Assumptions phase_barrier.

Theorem phase_blocks p :
  exists te tp tv tf, fst (run_dsl p) = te ++ tp ++ tv ++ tf /\
    only Exec te /\ only Prepare tp /\ only Validate tv /\ only Finalize tf.
Proof. exact (shape_blocks _ _ (run_shape p)). Qed.
Print Assumptions phase_blocks.

(* Errors reported while executing: no later-phase callback runs, and all of them are
   returned, in order (unless RunDSL left the loop with a Roots() error). *)
Theorem errors_stop_later_phases p :
  reports (fst (run_dsl p)) <> [] ->
  only Exec (fst (run_dsl p)) /\
  (snd (run_dsl p) = Errs (map XErr (reports (fst (run_dsl p)))) \/ loop_stop (snd (run_dsl p))).
Proof. exact (shape_exec_errors _ _ (run_shape p)). Qed.
Print Assumptions errors_stop_later_phases.

(* Failed validations: the failures of all sets of all roots are returned together,
   one entry per set, nothing was reported while executing, no Finalize callback runs. *)
Theorem validation_errors_returned_together p :
  fails (fst (run_dsl p)) <> [] ->
  exists es, snd (run_dsl p) = Errs es /\ flat_errs es = fails (fst (run_dsl p)) /\
    Forall is_verr es /\ reports (fst (run_dsl p)) = [] /\
    forall e, In e (fst (run_dsl p)) -> ev_phase e <> Finalize.
Proof. exact (shape_validation_errors _ _ (run_shape p)). Qed.
Print Assumptions validation_errors_returned_together.

Theorem finalize_only_on_success p :
  (exists e, In e (fst (run_dsl p)) /\ ev_phase e = Finalize) -> snd (run_dsl p) = Done.
Proof. exact (shape_finalize _ _ (run_shape p)). Qed.
Print Assumptions finalize_only_on_success.

Theorem success_means_no_errors p :
  snd (run_dsl p) = Done -> reports (fst (run_dsl p)) = [] /\ fails (fst (run_dsl p)) = [].
Proof. exact (shape_done _ _ (run_shape p)). Qed.
Print Assumptions success_means_no_errors.

Theorem run_never_stuck p : snd (run_dsl p) <> Stuck.
Proof. exact (shape_not_stuck _ _ (run_shape p)). Qed.
Print Assumptions run_never_stuck.

(* RunDSL leaves the execution loop early only with a cycle error, the too-many-roots
   error, or nil when no root is registered (and then nothing ran). *)
Theorem loop_exit p st o : exec_phase p = XStop st o ->
  run_dsl p = (s_trace st, o) /\ (o = CycleErr \/ o = TooManyRoots \/ (o = Done /\ s_trace st = [])).
Proof. exact (exec_phase_stop_l p st o). Qed.
Print Assumptions loop_exit.

(* Roots registered while executing: when the loop ends normally every registered root
   (s_regs holds the late ones too) is among the processed roots and every DSL
   present in its sets from the start has run. *)
Theorem late_roots_executed p rs st : exec_phase p = XDone rs st ->
  forall q, In q (s_regs st) ->
    In q rs /\
    forall k e, In e (nth k (r_sets (rootdef_of p q)) []) -> e_src e = true ->
      In (exec_ev q e) (fst (run_dsl p)).
Proof. exact (late_roots_l p rs st). Qed.
Print Assumptions late_roots_executed.

(* Full statement "every expression present when the execute phase ends has had its DSL
   run exactly once" is false of the faithful model: *)
Theorem appended_current_set_refuted :
  exists p i, not_executed_but_finalized p i.
Proof. exists witness_current, 2. exact witness_current_l. Qed.
Print Assumptions appended_current_set_refuted.

Theorem appended_earlier_set_refuted :
  exists p i, not_executed_but_finalized p i /\ p <> witness_current.
Proof. exists witness_earlier, 3. split; [exact witness_earlier_l| discriminate]. Qed.
Print Assumptions appended_earlier_set_refuted.

(* ... and holds when every append targets a set the walker has not reached yet: the
   DSLs that ran for a processed root are exactly the Source expressions of its final
   sets, once each, set by set in order. *)
Theorem appended_later_set_executed_partial p rs st :
  program_later_ok p = true -> exec_phase p = XDone rs st ->
  forall q, In q rs -> exec_ids q (fst (run_dsl p)) = src_ids (sets_of st q).
Proof. exact (later_appends_l p rs st). Qed.
Print Assumptions appended_later_set_executed_partial.

(* ---------------------------------------------------------------- dependency order of a run *)

(* Within one phase no callback of a root runs before a callback of a root it depends on
   (directly or not) - in the execute phase, across all execution rounds, for the roots
   registered before RunDSL; in the Prepare, Validate and Finalize phases for every root
   registered when the execution loop ends.  Any program whose dependency cycles, if any,
   lie among the roots registered up front (a root that is only a dependency of others,
   or is registered later, is not on a cycle). *)
Theorem dependency_order_partial p :
  cycles_among (deps_of p) (s_regs (init_state p)) ->
  StronglySorted (dep_ok (deps_of p) (claimed_roots p)) (fst (run_dsl p)).
Proof. exact (dependency_order_l p). Qed.
Print Assumptions dependency_order_partial.

Theorem dependency_order_pairs_partial p t1 a t2 b t3 :
  cycles_among (deps_of p) (s_regs (init_state p)) ->
  fst (run_dsl p) = t1 ++ a :: t2 ++ b :: t3 -> ev_phase a = ev_phase b ->
  In (ev_root a) (claimed_roots p (ev_phase a)) -> reach (deps_of p) (ev_root a) (ev_root b) ->
  ev_root a = ev_root b.
Proof. exact (dependency_order_pairs_l p t1 a t2 b t3). Qed.
Print Assumptions dependency_order_pairs_partial.

(* Since the final sort of Roots() follows DependsOn() of roots that are not registered,
   the former counterexample (a root executed as a dependency before its registration) is
   ordered correctly; the full statement for roots registered DURING the run is neither
   refuted nor proved here - the direct oracle checks it on every run. *)
Example late_dependency_ordered :
  map ev_root (filter (fun e => match ev_phase e with Exec => true | _ => false end)
     (fst (run_dsl witness_late_dep))) = [0; 3; 2; 1] /\ snd (run_dsl witness_late_dep) = Done.
Proof. vm_compute. split; reflexivity. Qed.

(* ---------------------------------------------------------------- generator.Generate *)

(* The roots handed to the plugin prepare functions, the generators and the plugin
   generate functions are, for each of the three, the same list: no duplicates, every
   registered root, and every root a registered root depends on strictly before it. *)
Theorem generate_handover_dependency_order p ls : handover p = Some ls ->
  exists l, ls = [l; l; l] /\ generate_roots p = Ok l /\ NoDup l /\
    incl (s_regs (final_state p)) l /\
    (forall x, In x l -> exists r, In r (s_regs (final_state p)) /\ reach (deps_of p) r x) /\
    (cycles_among (deps_of p) (s_regs (final_state p)) ->
     forall u v, In u (s_regs (final_state p)) -> reach (deps_of p) u v -> u <> v -> before l v u).
Proof. exact (handover_order_l p ls). Qed.
Print Assumptions generate_handover_dependency_order.

(* ... and it is the very order in which RunDSL prepared, validated and finalized them. *)
Theorem generate_handover_is_evaluation_order p rs st :
  exec_phase p = XDone rs st -> handover p = Some [rs; rs; rs].
Proof. exact (handover_eval_order_l p rs st). Qed.
Print Assumptions generate_handover_is_evaluation_order.

(* Generate refuses to run exactly when the registered roots contain a cycle. *)
Theorem generate_refuses_cycles p :
  handover p = None <-> cyclic (deps_of p) (s_regs (final_state p)).
Proof. exact (handover_none_l p). Qed.
Print Assumptions generate_refuses_cycles.

(* ---------------------------------------------------------------- non-vacuity *)

Example later_append_runs :
  program_later_ok witness_later = true /\
  exec_ids 0 (fst (run_dsl witness_later)) = [1; 3; 2] /\ snd (run_dsl witness_later) = Done.
Proof. vm_compute. repeat split. Qed.

Example late_roots_run :
  exec_ids 1 (fst (run_dsl witness_late)) = [2] /\ exec_ids 2 (fst (run_dsl witness_late)) = [3] /\
  snd (run_dsl witness_late) = Done.
Proof. vm_compute. repeat split. Qed.

Example diamond_order :
  roots 4 (fun r => match r with 3 => [1; 2] | 1 => [0] | 2 => [0] | _ => [] end) [3; 2; 1; 0] = Ok [0; 2; 1; 3].
Proof. vm_compute. reflexivity. Qed.

(* a plugin root (1) that depends on the design root (0), registered first *)
Example plugin_root_after_design :
  handover (mkP [mkR [] [] false None false; mkR [0] [] false None false] [1; 0]) = Some [[0; 1]; [0; 1]; [0; 1]].
Proof. vm_compute. reflexivity. Qed.

(* non-vacuity of dependency_order_partial: diamond, dependant registered first *)
Example dependency_order_diamond :
  map ev_root (filter (fun e => match ev_phase e with Exec => true | _ => false end)
     (fst (run_dsl (mkP [mkR [] [[wsrc 1 []]] false None false; mkR [0] [[wsrc 2 []]] false None false;
                         mkR [0] [[wsrc 3 []]] false None false; mkR [1; 2] [[wsrc 4 []]] false None false] [3; 2; 1; 0]))))
  = [0; 2; 1; 3].
Proof. vm_compute. reflexivity. Qed.

Example self_dependency_is_a_cycle : roots 1 (fun _ => [0]) [0] = Cycle.
Proof. vm_compute. reflexivity. Qed.

Example chain_limit_witness :
  snd (run_dsl witness_current) = Done /\ max_rounds = 101.
Proof. vm_compute. split; reflexivity. Qed.
