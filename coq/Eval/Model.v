(* C11 - model of goa's DSL evaluation engine (eval/context.go Roots, sortDependencies,
   sortDependenciesR; eval/eval.go RunDSL, runSet, prepareSet, validateSet, finalizeSet).
   Definitions only, all computable.  Roots are natural numbers (index into the
   program's root table); expressions carry a numeric identity. *)
From Coq Require Export List Bool Arith.
Export ListNotations.

Definition memb (x : nat) (l : list nat) : bool := existsb (Nat.eqb x) l.

(* ------------------------------------------------------------------ Roots() *)

(* state of sortDependenciesR: (seen map, sorted slice) *)
Definition dstate := (list nat * list nat)%type.

(* the `for _, dep := range depFunc(root)` loop of sortDependenciesR; `rec` is the
   recursive call (one unit of depth fuel less) *)
Fixpoint sdr_loop (rec : nat -> dstate -> option dstate) (root : nat) (ds : list nat) (st : dstate)
  : option dstate :=
  match ds with
  | [] => Some st
  | d :: ds' =>
    if memb d (fst st) then sdr_loop rec root ds' st
    else match rec d (root :: fst st, snd st) with     (* seen[root] = true; recurse on dep *)
         | None => None
         | Some st' => sdr_loop rec root ds' st'
         end
  end.

(* sortDependenciesR, depth-fuelled *)
Fixpoint sdr (fuel : nat) (df : nat -> list nat) (root : nat) (st : dstate) : option dstate :=
  match fuel with
  | 0 => None
  | S f =>
    match sdr_loop (sdr f df) root (df root) st with
    | None => None
    | Some (seen, out) => Some (seen, out ++ [root])    (* sorted = append(sorted, root) *)
    end
  end.

(* sortDependencies *)
Definition sort_deps (fuel : nat) (df : nat -> list nat) (root : nat) : option (list nat) :=
  option_map snd (sdr fuel df root ([], [])).

Fixpoint sequence {A} (l : list (option A)) : option (list A) :=
  match l with
  | [] => Some []
  | None :: _ => None
  | Some x :: r => option_map (cons x) (sequence r)
  end.

(* rootDeps map: registered root name -> flattened dependencies (nil when absent) *)
Definition lookup (tbl : list (nat * list nat)) (r : nat) : list nat :=
  match find (fun p => Nat.eqb (fst p) r) tbl with Some p => snd p | None => [] end.

(* the successor function of the final sort: the flattened list of a registered root,
   DependsOn() itself for a root that is not registered (yet) *)
Definition lookup_or (tbl : list (nat * list nat)) (deps : nat -> list nat) (r : nat) : list nat :=
  match find (fun p => Nat.eqb (fst p) r) tbl with Some p => snd p | None => deps r end.

Inductive res := Ok (l : list nat) | Cycle | OutOfFuel.

(* first-occurrence merge: `if !found { sorted = append(sorted, s) }` *)
Definition add_new (acc : list nat) (x : nat) : list nat := if memb x acc then acc else acc ++ [x].
Definition merge_first (ss : list (list nat)) : list nat :=
  fold_left (fun acc s => fold_left add_new s acc) ss [].

(* depth fuel used for a graph whose nodes are 0..n-1 *)
Definition depth_fuel (n : nat) : nat := S (S (2 * n)).

Definition self_dep (deps : nat -> list nat) (regs : list nat) : bool :=
  existsb (fun r => memb r (deps r)) regs.

Definition flat_table (fuel : nat) (deps : nat -> list nat) (regs : list nat) : option (list (nat * list nat)) :=
  sequence (map (fun r => option_map (fun s => (r, rev s)) (sort_deps fuel deps r)) regs).

(* the cycle check ranges over the entries of the rootDeps map *)
Definition mutual (tbl : list (nat * list nat)) : bool :=
  existsb (fun p => existsb (fun q => negb (Nat.eqb (fst p) (fst q)) && memb (fst q) (snd p) && memb (fst p) (snd q)) tbl) tbl.

(* DSLContext.Roots(): n = size of the node universe (all deps are < n) *)
Definition roots (n : nat) (deps : nat -> list nat) (regs : list nat) : res :=
  if self_dep deps regs then Cycle else
  match flat_table (depth_fuel n) deps regs with
  | None => OutOfFuel
  | Some tbl =>
    let rd := lookup_or tbl deps in
    if mutual tbl then Cycle else
    match sequence (map (sort_deps (depth_fuel n) rd) regs) with
    | None => OutOfFuel
    | Some ss => Ok (merge_first ss)
    end
  end.

(* ------------------------------------------------------------------ programs *)

(* what a DSL function of a test expression does, in order *)
Inductive expr := mkE
  (e_id : nat)                 (* identity *)
  (e_src : bool)               (* implements eval.Source *)
  (e_acts : list action)       (* body of its DSL function *)
  (e_prep : bool)              (* implements eval.Preparer *)
  (e_val : option bool)        (* implements eval.Validator; Some true = Validate returns an error *)
  (e_fin : bool)               (* implements eval.Finalizer *)
with action :=
| AAppend (set : nat) (e : expr)   (* append e to set number `set` of the root being walked *)
| ARegister (r : nat)              (* eval.Register(root r) *)
| AError.                          (* eval.ReportError *)

Definition e_id (e : expr) := let (i, _, _, _, _, _) := e in i.
Definition e_src (e : expr) := let (_, s, _, _, _, _) := e in s.
Definition e_acts (e : expr) := let (_, _, a, _, _, _) := e in a.
Definition e_prep (e : expr) := let (_, _, _, p, _, _) := e in p.
Definition e_val (e : expr) := let (_, _, _, _, v, _) := e in v.
Definition e_fin (e : expr) := let (_, _, _, _, _, f) := e in f.

Record rootdef := mkR {
  r_deps : list nat;               (* DependsOn *)
  r_sets : list (list expr);       (* expression sets handed out by WalkSets, in order *)
  r_prep : bool;
  r_val : option bool;
  r_fin : bool }.

Record program := mkP {
  p_roots : list rootdef;          (* every root object that exists; index = name *)
  p_regs : list nat }.             (* roots registered before RunDSL, in registration order *)

Definition nroots (p : program) : nat := length (p_roots p).

Definition rootdef_of (p : program) (r : nat) : rootdef :=
  nth r (p_roots p) (mkR [] [] false None false).

(* DependsOn restricted to existing root objects *)
Definition deps_of (p : program) (r : nat) : list nat :=
  filter (fun d => d <? nroots p) (r_deps (rootdef_of p r)).

Definition roots_of (p : program) (regs : list nat) : res := roots (nroots p) (deps_of p) regs.

(* ------------------------------------------------------------------ traces *)

Inductive phase := Exec | Prepare | Validate | Finalize.

Inductive kind :=
| Call         (* the callback ran (DSL / Prepare / Validate returning nil / Finalize) *)
| Report       (* the DSL called eval.ReportError *)
| Fail.        (* Validate returned an error *)

(* who = None: the root itself, Some i: expression i of that root *)
Record event := Ev { ev_phase : phase; ev_root : nat; ev_who : option nat; ev_kind : kind }.

Definition ident := (nat * option nat)%type.

Inductive err_entry :=
| XErr (i : ident)               (* one eval.Error recorded by ReportError *)
| VErr (l : list ident).         (* one eval.Error holding the ValidationErrors of one set *)

Inductive outcome :=
| Done                           (* RunDSL returned nil *)
| CycleErr                       (* Roots() failed *)
| TooManyRoots                   (* "too many generated roots" *)
| Errs (l : list err_entry)      (* Context.Errors *)
| Stuck.                         (* depth fuel exhausted - never happens (depth_fuel_sufficient) *)

Record state := mkS {
  s_sets : list (list (list expr));   (* current expression sets of every root *)
  s_regs : list nat;                  (* Context.roots *)
  s_errs : list err_entry;            (* Context.Errors *)
  s_trace : list event }.

Definition init_state (p : program) : state :=
  mkS (map r_sets (p_roots p)) (filter (fun r => r <? nroots p) (p_regs p)) [] [].

Fixpoint upd_nth {A} (n : nat) (f : A -> A) (l : list A) : list A :=
  match l, n with
  | [], _ => []
  | x :: r, 0 => f x :: r
  | x :: r, S n' => x :: upd_nth n' f r
  end.

Definition sets_of (st : state) (r : nat) : list (list expr) := nth r (s_sets st) [].

Definition emit (ev : event) (st : state) : state :=
  mkS (s_sets st) (s_regs st) (s_errs st) (s_trace st ++ [ev]).

Definition record (e : err_entry) (st : state) : state :=
  mkS (s_sets st) (s_regs st) (s_errs st ++ [e]) (s_trace st).

(* one statement of a DSL function of expression i of root r *)
Definition do_action (n r : nat) (i : nat) (st : state) (a : action) : state :=
  match a with
  | AAppend k e =>
    mkS (upd_nth r (upd_nth k (fun s => s ++ [e])) (s_sets st)) (s_regs st) (s_errs st) (s_trace st)
  | ARegister q =>
    if (q <? n) && negb (memb q (s_regs st))
    then mkS (s_sets st) (s_regs st ++ [q]) (s_errs st) (s_trace st)
    else st
  | AError => record (XErr (r, Some i)) (emit (Ev Exec r (Some i) Report) st)
  end.

(* Execute(source.DSL(), def) *)
Definition exec_expr (n r : nat) (st : state) (e : expr) : state :=
  if e_src e
  then fold_left (do_action n r (e_id e)) (e_acts e) (emit (Ev Exec r (Some (e_id e)) Call) st)
  else st.

(* runSet: receives the slice by value - it walks the expressions the set held
   when it was handed out *)
Definition run_set (n r : nat) (st : state) (set : list expr) : state :=
  fold_left (exec_expr n r) set st.

(* root.WalkSets(runSet): set k is read when the walker reaches it *)
Definition walk_exec (n : nat) (st : state) (r : nat) : state :=
  fold_left (fun st k => run_set n r st (nth k (sets_of st r) []))
            (seq 0 (length (sets_of st r))) st.

(* prepareSet / finalizeSet on one expression or on the root *)
Definition call_if (b : bool) (ev : event) (st : state) : state := if b then emit ev st else st.

Definition prepare_root (st : state) (p : program) (r : nat) : state :=
  let st1 := call_if (r_prep (rootdef_of p r)) (Ev Prepare r None Call) st in
  fold_left (fun st set => fold_left (fun st e => call_if (e_prep e) (Ev Prepare r (Some (e_id e)) Call) st) set st)
            (sets_of st r) st1.

Definition finalize_root (st : state) (p : program) (r : nat) : state :=
  let st1 := call_if (r_fin (rootdef_of p r)) (Ev Finalize r None Call) st in
  fold_left (fun st set => fold_left (fun st e => call_if (e_fin e) (Ev Finalize r (Some (e_id e)) Call) st) set st)
            (sets_of st r) st1.

(* validateSet: the errors of one set are recorded together as one entry *)
Definition validate_one (r : nat) (who : option nat) (v : option bool) (acc : state * list ident)
  : state * list ident :=
  match v with
  | None => acc
  | Some false => (emit (Ev Validate r who Call) (fst acc), snd acc)
  | Some true => (emit (Ev Validate r who Fail) (fst acc), snd acc ++ [(r, who)])
  end.

Definition close_set (acc : state * list ident) : state :=
  match snd acc with [] => fst acc | l => record (VErr l) (fst acc) end.

Definition validate_set (r : nat) (st : state) (set : list expr) : state :=
  close_set (fold_left (fun acc e => validate_one r (Some (e_id e)) (e_val e) acc) set (st, [])).

Definition validate_root (st : state) (p : program) (r : nat) : state :=
  let st1 := close_set (validate_one r None (r_val (rootdef_of p r)) (st, [])) in
  fold_left (validate_set r) (sets_of st r) st1.

Definition finish (st : state) (o : outcome) : list event * outcome := (s_trace st, o).

(* the part of RunDSL after the execution loop *)
Definition after_exec (p : program) (rs : list nat) (st : state) : list event * outcome :=
  match s_errs st with
  | _ :: _ => finish st (Errs (s_errs st))
  | [] =>
    let st1 := fold_left (fun st r => prepare_root st p r) rs st in
    let st2 := fold_left (fun st r => validate_root st p r) rs st1 in
    match s_errs st2 with
    | _ :: _ => finish st2 (Errs (s_errs st2))
    | [] => finish (fold_left (fun st r => finalize_root st p r) rs st2) Done
    end
  end.

Inductive exec_res :=
| XDone (rs : list nat) (st : state)     (* loop left normally with this root order *)
| XStop (st : state) (o : outcome).      (* RunDSL returned from inside the loop *)

(* the execution loop: fuel f <-> recursed = 101 - f *)
Fixpoint rounds (fuel : nat) (p : program) (rs executed : list nat) (st : state) : exec_res :=
  match filter (fun r => negb (memb r executed)) rs with
  | [] => XDone rs st
  | pending =>
    match fuel with
    | 0 => XStop st TooManyRoots
    | S f =>
      let st' := fold_left (walk_exec (nroots p)) pending st in
      match roots_of p (s_regs st') with
      | Ok rs' => rounds f p rs' (executed ++ pending) st'
      | Cycle => XStop st' CycleErr
      | OutOfFuel => XStop st' Stuck
      end
    end
  end.

Definition max_rounds : nat := 101.

Definition exec_phase (p : program) : exec_res :=
  let st := init_state p in
  match roots_of p (s_regs st) with
  | Cycle => XStop st CycleErr
  | OutOfFuel => XStop st Stuck
  | Ok [] => XStop st Done
  | Ok rs => rounds max_rounds p rs [] st
  end.

Definition run_dsl (p : program) : list event * outcome :=
  match exec_phase p with
  | XStop st o => finish st o
  | XDone rs st => after_exec p rs st
  end.

(* ------------------------------------------------------------------ generation entry point
   codegen/generator.Generate: calls Context.Roots() on the context RunDSL left behind and
   hands the result, as it is, to the plugin prepare functions, to the generators and to
   the plugin generate functions (in that order). *)
Definition final_state (p : program) : state :=
  match exec_phase p with XDone _ st => st | XStop st _ => st end.

Definition generate_roots (p : program) : res := roots_of p (s_regs (final_state p)).

(* what the three kinds of consumers receive; None: Generate returns the Roots() error *)
Definition handover (p : program) : option (list (list nat)) :=
  match generate_roots p with
  | Ok l => Some [l; l; l]
  | _ => None
  end.

(* ------------------------------------------------------------------ hypothesis of the
   partial theorem: every AAppend executed by an expression living in set k targets
   a set with a larger number (one the walker has not reached yet) *)
Fixpoint later_ok (k : nat) (e : expr) : bool :=
  match e with
  | mkE _ _ acts _ _ _ =>
    forallb (fun a => match a with
                      | AAppend j e' => (k <? j) && later_ok j e'
                      | _ => true
                      end) acts
  end.

Definition sets_later_ok (sets : list (list expr)) : bool :=
  forallb (fun ks => forallb (later_ok (fst ks)) (snd ks)) (combine (seq 0 (length sets)) sets).

Definition program_later_ok (p : program) : bool :=
  forallb (fun rd => sets_later_ok (r_sets rd)) (p_roots p).
