From Eval Require Import Model.
