(* C11 - supporting proofs, split over three files:
   LemmasRoots.v (Roots(): termination, completeness, cycles, topological order),
   LemmasRun.v   (RunDSL(): shape of the callback trace, error handling),
   LemmasSets.v  (sets that grow while executing: late roots, appended expressions). *)
From Eval Require Export Model LemmasRoots LemmasRun LemmasSets LemmasOrder.
From Coq Require Import List Bool Arith Lia Permutation Sorted.
Import ListNotations.

(* ------------------------------------------------------------ statements used by Properties.v *)

Lemma depth_fuel_sufficient_l n df root :
  (forall x d, In d (df x) -> d < n) -> root < n ->
  exists s, sort_deps (depth_fuel n) df root = Some s.
Proof.
  intros H Hr. unfold depth_fuel.
  replace (S (S (2 * n))) with (S (S (2 * length (seq 0 n)))) by (now rewrite seq_length).
  apply sort_deps_fuel.
  - intros x d Hd. apply in_seq. specialize (H x d Hd). lia.
  - apply in_seq. lia.
Qed.

Definition closed_under (deps : nat -> list nat) (regs : list nat) : Prop :=
  forall r d, In r regs -> In d (deps r) -> In d regs.

Definition cyclic (deps : nat -> list nat) (regs : list nat) : Prop :=
  (exists r, In r regs /\ In r (deps r)) \/
  (exists u v, In u regs /\ In v regs /\ u <> v /\ reach deps u v /\ reach deps v u).

(* v strictly before u in l *)
Definition before (l : list nat) (v u : nat) : Prop :=
  forall l1 l2, l = l1 ++ u :: l2 -> In v l1.

Lemma reach_closed deps regs a b : closed_under deps regs -> In a regs -> reach deps a b -> In b regs.
Proof. intros C Ha H. induction H as [x|x d y Hd _ IH]; [assumption|]. apply IH. eapply C; eauto. Qed.

(* every dependency cycle lies among the registered roots, where the cycle check sees it
   (a root that is only a dependency may not lie on a cycle) *)
Definition cycles_among (deps : nat -> list nat) (regs : list nat) : Prop :=
  forall a b, reach deps a b -> reach deps b a -> a <> b -> In a regs /\ In b regs.

Lemma roots_topological_l n deps regs :
  (forall x d, In d (deps x) -> d < n) -> (forall r, In r regs -> r < n) ->
  ~ cyclic deps regs ->
  exists l, roots n deps regs = Ok l /\ NoDup l /\ incl regs l /\
    (forall x, In x l -> exists r, In r regs /\ reach deps r x) /\
    (cycles_among deps regs -> forall u v, In u regs -> reach deps u v -> u <> v -> before l v u) /\
    (closed_under deps regs -> NoDup regs -> Permutation regs l).
Proof.
  intros Hd Hr Hc.
  destruct (roots n deps regs) as [l| |] eqn:E.
  - exists l. split; [reflexivity|].
    destruct (roots_ok_basic n deps regs Hd Hr l E) as (A & B & C).
    repeat split; try assumption.
    { intros H. now destruct (roots_ok_spec n deps regs Hd Hr l H E) as (_ & _ & _ & D). }
    intros Cl ND. apply NoDup_Permutation; try assumption. intro x. split; [apply B|].
    intro Hx. destruct (C x Hx) as (r & Hr' & Hrx). eapply reach_closed; eauto.
  - exfalso. apply Hc. now apply (roots_cycle_spec n deps regs Hd Hr).
  - exfalso. now apply (roots_no_out_of_fuel n deps regs Hd Hr).
Qed.

Lemma unregistered_cycle_witness :
  let deps := fun r => match r with 0 => [1] | 1 => [0] | _ => [] end in
  roots 2 deps [0] = Ok [1; 0] /\ reach deps 0 1 /\ reach deps 1 0.
Proof.
  split; [vm_compute; reflexivity|]. split; (eapply reach_step; [cbn; left; reflexivity| apply reach_refl]).
Qed.

(* RunDSL *)
Lemma phase_barrier_l p : StronglySorted phase_le (fst (run_dsl p)).
Proof. exact (shape_sorted _ _ (run_shape p)). Qed.

Lemma late_roots_l p rs st : exec_phase p = XDone rs st ->
  forall q, In q (s_regs st) ->
    In q rs /\
    forall k e, In e (nth k (r_sets (rootdef_of p q)) []) -> e_src e = true ->
      In (exec_ev q e) (fst (run_dsl p)).
Proof.
  intros H q Hq. destruct (late_roots_ran p rs st H q Hq) as [A B]. split; [assumption|].
  intros k e He Hs. destruct (run_dsl_done p rs st H) as (t & -> & _). apply in_or_app. left. now apply (B k).
Qed.

Lemma later_appends_l p rs st : program_later_ok p = true -> exec_phase p = XDone rs st ->
  forall q, In q rs -> exec_ids q (fst (run_dsl p)) = src_ids (sets_of st q).
Proof.
  intros L H q Hq. destruct (run_dsl_done p rs st H) as (t & -> & Ht).
  rewrite exec_ids_app, (exec_ids_later q t Ht), app_nil_r. exact (later_appends_exact p L rs st H q Hq).
Qed.

Lemma exec_phase_stop_l p st o : exec_phase p = XStop st o ->
  run_dsl p = (s_trace st, o) /\ (o = CycleErr \/ o = TooManyRoots \/ (o = Done /\ s_trace st = [])).
Proof.
  intro H. pose proof (exec_phase_ok p) as OK. rewrite H in OK. destruct OK as [_ S].
  split; [unfold run_dsl; now rewrite H|]. destruct S as [[S|S]|S]; auto.
Qed.

Definition wsrc (i : nat) (acts : list action) : expr := mkE i true acts true (Some false) true.

(* one root, one set: expression 1 appends expression 2 to the set being walked *)
Definition witness_current : program :=
  mkP [mkR [] [[wsrc 1 [AAppend 0 (wsrc 2 [])]]] true (Some false) true] [0].

(* one root, two sets: expression 2 of set 1 appends expression 3 to set 0 *)
Definition witness_earlier : program :=
  mkP [mkR [] [[wsrc 1 []]; [wsrc 2 [AAppend 0 (wsrc 3 [])]]] true (Some false) true] [0].

(* the same with the append aimed at a later set *)
Definition witness_later : program :=
  mkP [mkR [] [[wsrc 1 [AAppend 1 (wsrc 2 [])]]; [wsrc 3 []]] true (Some false) true] [0].

(* root 0 registers root 1 whose DSL registers root 2 *)
Definition witness_late : program :=
  mkP [mkR [] [[wsrc 1 [ARegister 1]]] true (Some false) true;
       mkR [0] [[wsrc 2 [ARegister 2]]] true (Some false) true;
       mkR [1] [[wsrc 3 []]] true (Some false) true] [0].

Definition not_executed_but_finalized (p : program) (i : nat) : Prop :=
  exists rs st, exec_phase p = XDone rs st /\ In 0 rs /\
    In i (src_ids (sets_of st 0)) /\ ~ In i (exec_ids 0 (fst (run_dsl p))) /\
    In (Ev Prepare 0 (Some i) Call) (fst (run_dsl p)) /\
    In (Ev Validate 0 (Some i) Call) (fst (run_dsl p)) /\
    In (Ev Finalize 0 (Some i) Call) (fst (run_dsl p)) /\ snd (run_dsl p) = Done.

Ltac isin := solve [repeat (first [left; reflexivity | right])].
Ltac notin := let X := fresh in intro X; repeat (destruct X as [X|X]; [discriminate|]); contradiction.

Lemma witness_current_l : not_executed_but_finalized witness_current 2.
Proof.
  eexists _, _. split; [vm_compute; reflexivity|]. vm_compute.
  repeat split; first [isin | notin | reflexivity].
Qed.

Lemma witness_earlier_l : not_executed_but_finalized witness_earlier 3.
Proof.
  eexists _, _. split; [vm_compute; reflexivity|]. vm_compute.
  repeat split; first [isin | notin | reflexivity].
Qed.

(* ------------------------------------------------------------ generator.Generate *)

Lemma final_state_ok p : exec_ok (nroots p) (final_state p).
Proof.
  unfold final_state. pose proof (exec_phase_ok p) as H.
  destruct (exec_phase p) as [rs st|st o]; [exact H| exact (proj1 H)].
Qed.

Lemma handover_eval_order_l p rs st : exec_phase p = XDone rs st -> handover p = Some [rs; rs; rs].
Proof.
  intro H. unfold handover, generate_roots, final_state. rewrite H.
  destruct (exec_phase_done p rs st H) as (R & _). now rewrite R.
Qed.

Lemma handover_order_l p ls : handover p = Some ls ->
  exists l, ls = [l; l; l] /\ generate_roots p = Ok l /\ NoDup l /\
    incl (s_regs (final_state p)) l /\
    (forall x, In x l -> exists r, In r (s_regs (final_state p)) /\ reach (deps_of p) r x) /\
    (cycles_among (deps_of p) (s_regs (final_state p)) ->
     forall u v, In u (s_regs (final_state p)) -> reach (deps_of p) u v -> u <> v -> before l v u).
Proof.
  unfold handover. destruct (generate_roots p) as [l| |] eqn:E; try discriminate.
  intros [= <-]. exists l. split; [reflexivity|]. split; [reflexivity|].
  unfold generate_roots, roots_of in E.
  destruct (roots_ok_basic (nroots p) (deps_of p) _ (deps_of_lt p) (xo_regs _ _ (final_state_ok p)) l E) as (A & B & C).
  repeat split; try assumption. intro H.
  now destruct (roots_ok_spec (nroots p) (deps_of p) _ (deps_of_lt p) (xo_regs _ _ (final_state_ok p)) l H E) as (_ & _ & _ & D).
Qed.

Lemma handover_none_l p : handover p = None <-> cyclic (deps_of p) (s_regs (final_state p)).
Proof.
  unfold handover. pose proof (roots_cycle_spec (nroots p) (deps_of p) _ (deps_of_lt p) (xo_regs _ _ (final_state_ok p))) as C.
  pose proof (roots_no_out_of_fuel (nroots p) (deps_of p) _ (deps_of_lt p) (xo_regs _ _ (final_state_ok p))) as F.
  unfold generate_roots, roots_of. unfold cyclic.
  destruct (roots (nroots p) (deps_of p) (s_regs (final_state p))) as [l| |].
  - split; [discriminate|]. intro H. apply C in H. discriminate.
  - split; [intros _; now apply C| reflexivity].
  - congruence.
Qed.

(* ------------------------------------------------------------ dependency order of a whole run *)

(* the roots whose dependencies are claimed to be processed first: in the execute phase
   the roots registered before RunDSL, in the later phases every root registered when the
   execution loop ends *)
Definition claimed_roots (p : program) (ph : phase) : list nat :=
  match ph with Exec => s_regs (init_state p) | _ => s_regs (final_state p) end.

Definition final_roots (p : program) (ph : phase) : list nat := s_regs (final_state p).

Lemma dependency_order_l p : cycles_among (deps_of p) (s_regs (init_state p)) ->
  StronglySorted (dep_ok (deps_of p) (claimed_roots p)) (fst (run_dsl p)).
Proof. intro C. apply run_order; [exact C|reflexivity|]. intros ph H. destruct ph; [congruence| | |]; reflexivity. Qed.

Lemma ss_pair {A} (R : A -> A -> Prop) t1 a t2 b t3 :
  StronglySorted R (t1 ++ a :: t2 ++ b :: t3) -> R a b.
Proof.
  induction t1 as [|x t1 IH]; intro H; simpl in H; inversion H as [|y l S F]; subst; [|now apply IH].
  rewrite Forall_forall in F. apply F. apply in_or_app. right. now left.
Qed.

Lemma dependency_order_pairs_l p t1 a t2 b t3 :
  cycles_among (deps_of p) (s_regs (init_state p)) ->
  fst (run_dsl p) = t1 ++ a :: t2 ++ b :: t3 -> ev_phase a = ev_phase b ->
  In (ev_root a) (claimed_roots p (ev_phase a)) -> reach (deps_of p) (ev_root a) (ev_root b) ->
  ev_root a = ev_root b.
Proof.
  intros C E P U Rch. pose proof (dependency_order_l p C) as S. rewrite E in S. apply ss_pair in S.
  destruct (Nat.eq_dec (ev_root a) (ev_root b)) as [X|X]; [assumption|]. exfalso. apply S. repeat split; assumption.
Qed.

(* root 0 registers root 1, which depends on 2, which depends on 3; the DSL of root 3
   registers roots 2 and 3: roots 2 and 3 run as dependencies before they are registered,
   3 before 2 *)
Definition witness_late_dep : program :=
  mkP [mkR [] [[wsrc 1 [ARegister 1]]] true (Some false) true;
       mkR [2] [[wsrc 2 []]] true (Some false) true;
       mkR [3] [[wsrc 3 []]] true (Some false) true;
       mkR [] [[wsrc 4 [ARegister 2; ARegister 3]]] true (Some false) true] [0].
