(* C11 - dependency order of the callbacks of a whole run: within one phase no callback of
   a root runs before a callback of a root it depends on.  Execute phase: for the roots
   registered before RunDSL (across all execution rounds); Prepare / Validate / Finalize:
   for every root registered when the execution loop ends. *)
From Coq Require Import List Bool Arith Lia Sorted.
Import ListNotations.
From Eval Require Import Model LemmasRoots LemmasRun LemmasSets.

Section Order.
Variable deps : nat -> list nat.
(* the roots whose dependencies are claimed to come first, per phase *)
Variable Rf : phase -> list nat.

(* a before b in the trace, same phase, the root of a depends on the root of b *)
Definition bad (a b : event) : Prop :=
  ev_phase a = ev_phase b /\ In (ev_root a) (Rf (ev_phase a)) /\
  reach deps (ev_root a) (ev_root b) /\ ev_root a <> ev_root b.

Definition dep_ok (a b : event) : Prop := ~ bad a b.

Lemma ss_app {A} (R : A -> A -> Prop) (t1 t2 : list A) :
  StronglySorted R t1 -> StronglySorted R t2 ->
  (forall a b, In a t1 -> In b t2 -> R a b) -> StronglySorted R (t1 ++ t2).
Proof.
  intros S1 S2 H. induction S1 as [|a t1 S1 IH Ha]; [assumption|]. simpl. constructor.
  - apply IH. intros x y Hx Hy. apply H; [now right| assumption].
  - apply Forall_app. split; [assumption|]. apply Forall_forall. intros y Hy. apply H; [now left|assumption].
Qed.

(* the events a step adds all belong to one phase and one root; registrations only grow *)
Definition tagged (ph : phase) (r : nat) (st st' : state) : Prop :=
  incl (s_regs st) (s_regs st') /\
  exists t, s_trace st' = s_trace st ++ t /\ Forall (fun e => ev_phase e = ph /\ ev_root e = r) t.

Lemma tagged_refl ph r st : tagged ph r st st.
Proof. split; [apply incl_refl|]. exists []. split; [now rewrite app_nil_r| constructor]. Qed.

Lemma tagged_trans ph r a b c : tagged ph r a b -> tagged ph r b c -> tagged ph r a c.
Proof.
  intros (A1 & t1 & A2 & A3) (B1 & t2 & B2 & B3). split; [eapply incl_tran; eauto|].
  exists (t1 ++ t2). split; [rewrite B2, A2; now rewrite app_assoc| apply Forall_app; split; assumption].
Qed.

Lemma tagged_same_root ph r t :
  Forall (fun e => ev_phase e = ph /\ ev_root e = r) t -> StronglySorted dep_ok t.
Proof.
  induction 1 as [|e t [_ He] H IH]; constructor; [assumption|].
  eapply Forall_impl; [|exact H]. intros b [_ Hb] (_ & _ & _ & X). congruence.
Qed.

(* invariant: sorted so far; the events of phase ph belong to roots of D; D is closed
   under the dependencies of the claimed roots *)
Definition OInv (ph : phase) (D : list nat) (st : state) : Prop :=
  StronglySorted dep_ok (s_trace st) /\
  (forall e, In e (s_trace st) -> ev_phase e = ph -> In (ev_root e) D) /\
  (forall u, In u (Rf ph) -> In u D -> forall v, reach deps u v -> In v D).

Lemma fold_topo (W : state -> nat -> state) ph rs done0 :
  (forall st r, tagged ph r st (W st r)) ->
  NoDup rs ->
  (forall u v, In u (Rf ph) -> reach deps u v -> u <> v -> forall l1 l2, rs = l1 ++ u :: l2 -> In v l1) ->
  let f := fun r => negb (memb r done0) in
  forall l2 l1 st, rs = l1 ++ l2 ->
    OInv ph (done0 ++ filter f l1) st ->
    OInv ph (done0 ++ filter f rs) (fold_left (fun st r => if f r then W st r else st) l2 st).
Proof.
  intros HW ND T f. induction l2 as [|r l2 IH]; intros l1 st E I; cbn [fold_left].
  - rewrite app_nil_r in E. now subst.
  - assert (E' : rs = (l1 ++ [r]) ++ l2) by (rewrite <- app_assoc; exact E).
    apply (IH (l1 ++ [r]) _ E'). rewrite filter_app. cbn [filter]. destruct (f r) eqn:Ef.
    + destruct (HW st r) as (_ & t & Et & Ft). destruct I as (S & I2 & I3).
      rewrite app_assoc. set (D := done0 ++ filter f l1) in *.
      assert (Hr : ~ In r D).
      { intro X. apply in_app_or in X as [X|X].
        - unfold f in Ef. apply negb_true_iff in Ef. apply memb_false in Ef. contradiction.
        - apply filter_In in X as [X _]. rewrite E in ND. apply NoDup_remove_2 in ND.
          apply ND. apply in_or_app. now left. }
      split; [|split].
      * rewrite Et. apply ss_app; [assumption| eapply tagged_same_root; eauto|].
        intros a b Ha Hb (P & U & Rch & Ne). rewrite Forall_forall in Ft. destruct (Ft b Hb) as [Pb Rb].
        apply Hr. rewrite <- Rb. apply (I3 (ev_root a)); try assumption.
        -- now rewrite P, Pb in U.
        -- apply I2; [assumption| congruence].
      * intros e He Pe. rewrite Et in He. apply in_app_or in He as [He|He].
        -- apply in_or_app. left. now apply I2.
        -- rewrite Forall_forall in Ft. destruct (Ft e He) as [_ ->]. apply in_or_app. right. now left.
      * intros u Hu HD v Rv. apply in_app_or in HD as [HD|[<-|[]]].
        -- apply in_or_app. left. now apply (I3 u).
        -- destruct (Nat.eq_dec r v) as [<-|Ne]; [apply in_or_app; right; now left|].
           assert (In v l1) as Hv by (eapply T; eauto).
           apply in_or_app. left. unfold D. destruct (f v) eqn:Efv.
           ++ apply in_or_app. right. apply filter_In. split; assumption.
           ++ apply in_or_app. left. unfold f in Efv. apply negb_false_iff in Efv. now apply memb_In.
    + rewrite app_nil_r. exact I.
Qed.

Lemma fold_filter {A} (f : nat -> bool) (W : A -> nat -> A) l : forall st,
  fold_left W (filter f l) st = fold_left (fun st r => if f r then W st r else st) l st.
Proof. induction l as [|r l IH]; intro st; simpl; [reflexivity|]. destruct (f r); simpl; apply IH. Qed.

Lemma fold_all {A} (W : A -> nat -> A) l : forall st,
  fold_left W l st = fold_left (fun st r => if negb (memb r []) then W st r else st) l st.
Proof. induction l as [|r l IH]; intro st; simpl; [reflexivity|]. apply IH. Qed.

(* ---- the steps are tagged *)
Lemma tagged_emit ph r who k st : tagged ph r st (emit (Ev ph r who k) st).
Proof. split; [apply incl_refl|]. exists [Ev ph r who k]. split; [reflexivity| repeat constructor]. Qed.

Lemma do_action_tagged n r i st a : tagged Exec r st (do_action n r i st a).
Proof.
  destruct a as [k e|q|]; cbn [do_action].
  - split; [apply incl_refl|]. exists []. cbn [s_trace]. split; [now rewrite app_nil_r| constructor].
  - destruct ((q <? n) && negb (memb q (s_regs st))); [|apply tagged_refl].
    split; [cbn [s_regs]; intros x Hx; apply in_or_app; now left|].
    exists []. cbn [s_trace]. split; [now rewrite app_nil_r| constructor].
  - split; [apply incl_refl|]. exists [Ev Exec r (Some i) Report]. split; [reflexivity| repeat constructor].
Qed.

Lemma walk_exec_tagged n st r : tagged Exec r st (walk_exec n st r).
Proof.
  unfold walk_exec. apply (fold_rel (tagged Exec r)); [apply tagged_refl| apply tagged_trans|].
  intros a k. unfold run_set. apply (fold_rel (tagged Exec r)); [apply tagged_refl| apply tagged_trans|].
  intros b e. unfold exec_expr. destruct (e_src e); [|apply tagged_refl].
  eapply tagged_trans; [apply tagged_emit|].
  apply (fold_rel (tagged Exec r)); [apply tagged_refl| apply tagged_trans| intros; apply do_action_tagged].
Qed.

Lemma call_if_tagged ph b r who st : tagged ph r st (call_if b (Ev ph r who Call) st).
Proof. destruct b; [apply tagged_emit| apply tagged_refl]. Qed.

Lemma prepare_root_tagged st p r : tagged Prepare r st (prepare_root st p r).
Proof.
  unfold prepare_root. eapply tagged_trans; [apply call_if_tagged|].
  apply (fold_rel (tagged Prepare r)); [apply tagged_refl| apply tagged_trans|]. intros a s.
  apply (fold_rel (tagged Prepare r)); [apply tagged_refl| apply tagged_trans|]. intros a' e. apply call_if_tagged.
Qed.

Lemma finalize_root_tagged st p r : tagged Finalize r st (finalize_root st p r).
Proof.
  unfold finalize_root. eapply tagged_trans; [apply call_if_tagged|].
  apply (fold_rel (tagged Finalize r)); [apply tagged_refl| apply tagged_trans|]. intros a s.
  apply (fold_rel (tagged Finalize r)); [apply tagged_refl| apply tagged_trans|]. intros a' e. apply call_if_tagged.
Qed.

Definition vtag (r : nat) (st : state) (acc : state * list ident) : Prop := tagged Validate r st (fst acc).

Lemma validate_one_tagged r st who v acc : vtag r st acc -> vtag r st (validate_one r who v acc).
Proof.
  unfold vtag. intro H. destruct v as [[|]|]; cbn [validate_one fst]; [| |assumption];
    (eapply tagged_trans; [exact H| apply tagged_emit]).
Qed.

Lemma close_set_tagged r st acc : vtag r st acc -> tagged Validate r st (close_set acc).
Proof.
  unfold vtag, close_set. intro H. destruct (snd acc); [assumption|].
  destruct H as (A & t & B & C). split; [exact A|]. exists t. split; assumption.
Qed.

Lemma validate_root_tagged st p r : tagged Validate r st (validate_root st p r).
Proof.
  unfold validate_root.
  apply (tagged_trans _ _ _ (close_set (validate_one r None (r_val (rootdef_of p r)) (st, [])))).
  - apply close_set_tagged. apply validate_one_tagged. unfold vtag. cbn [fst]. apply tagged_refl.
  - apply (fold_rel (tagged Validate r)); [apply tagged_refl| apply tagged_trans|]. intros a s.
    unfold validate_set. apply close_set_tagged.
    apply (fold_inv (vtag r a)); [intros; now apply validate_one_tagged| unfold vtag; cbn [fst]; apply tagged_refl].
Qed.

End Order.

(* ------------------------------------------------------------ a whole run *)

Definition regs_mono (st st' : state) : Prop := incl (s_regs st) (s_regs st').

Lemma walks_regs_mono n l st : regs_mono st (fold_left (walk_exec n) l st).
Proof.
  apply (fold_rel regs_mono); [intro; apply incl_refl| intros a b c; apply incl_tran|].
  intros a r. exact (proj1 (walk_exec_tagged n a r)).
Qed.

Section RunOrder.
Variable p : program.
Variable Rf : phase -> list nat.
Let n := nroots p.
Let deps := deps_of p.

(* every dependency cycle lies among the roots registered before RunDSL (where the first
   Roots() call reports it) *)
Hypothesis cyc : forall a b, reach deps a b -> reach deps b a -> a <> b -> In a (Rf Exec) /\ In b (Rf Exec).

Lemma topo_of_roots regs rs R :
  incl (Rf Exec) regs ->
  (forall r, In r regs -> r < n) -> roots_of p regs = Ok rs -> incl R regs ->
  NoDup rs /\ forall u v, In u R -> reach deps u v -> u <> v -> forall l1 l2, rs = l1 ++ u :: l2 -> In v l1.
Proof.
  intros H0 Hr E Hi. unfold roots_of in E.
  assert (C : forall a b, reach (deps_of p) a b -> reach (deps_of p) b a -> a <> b -> In a regs /\ In b regs).
  { intros a b A B N. destruct (cyc a b A B N) as [X Y]. split; now apply H0. }
  destruct (roots_ok_spec (nroots p) (deps_of p) regs (deps_of_lt p) Hr rs C E) as (ND & _ & _ & T).
  split; [exact ND|]. intros u v Hu. apply T. now apply Hi.
Qed.

Lemma rounds_order fuel : forall rs ex st,
  exec_ok n st -> roots_of p (s_regs st) = Ok rs -> incl (Rf Exec) (s_regs st) ->
  OInv deps Rf Exec ex st ->
  match rounds fuel p rs ex st with
  | XDone _ st' => StronglySorted (dep_ok deps Rf) (s_trace st') /\ incl (Rf Exec) (s_regs st')
  | XStop st' _ => StronglySorted (dep_ok deps Rf) (s_trace st') /\ incl (Rf Exec) (s_regs st')
  end.
Proof.
  induction fuel as [|f IH]; intros rs ex st OK E Hi I; cbn [rounds].
  - destruct (filter (fun r => negb (memb r ex)) rs); exact (conj (proj1 I) Hi).
  - destruct (filter (fun r => negb (memb r ex)) rs) as [|x pend] eqn:Ep; [exact (conj (proj1 I) Hi)|].
    fold n. set (st' := fold_left (walk_exec n) (x :: pend) st).
    assert (I' : OInv deps Rf Exec (ex ++ x :: pend) st').
    { unfold st'. rewrite <- Ep. rewrite fold_filter.
      destruct (topo_of_roots _ _ _ Hi (xo_regs _ _ OK) E Hi) as [ND T].
      apply (fold_topo deps Rf (walk_exec n) Exec rs ex (walk_exec_tagged n) ND T rs [] st eq_refl).
      cbn [filter]. now rewrite app_nil_r. }
    assert (OK' : exec_ok n st') by now apply walks_ok.
    assert (Hi' : incl (Rf Exec) (s_regs st')).
    { eapply incl_tran; [exact Hi| apply walks_regs_mono]. }
    destruct (roots_of p (s_regs st')) as [rs'| |] eqn:E'; [|exact (conj (proj1 I') Hi')|exact (conj (proj1 I') Hi')].
    apply (IH rs' (ex ++ x :: pend) st' OK' E' Hi' I').
Qed.

Hypothesis RfExec : Rf Exec = s_regs (init_state p).

Lemma exec_phase_order :
  match exec_phase p with
  | XDone _ st => StronglySorted (dep_ok deps Rf) (s_trace st) /\ incl (Rf Exec) (s_regs st)
  | XStop st _ => StronglySorted (dep_ok deps Rf) (s_trace st) /\ incl (Rf Exec) (s_regs st)
  end.
Proof.
  unfold exec_phase.
  assert (S0 : StronglySorted (dep_ok deps Rf) (s_trace (init_state p)) /\ incl (Rf Exec) (s_regs (init_state p))).
  { split; [constructor| rewrite RfExec; apply incl_refl]. }
  destruct (roots_of p (s_regs (init_state p))) as [rs| |] eqn:E; try exact S0.
  destruct rs as [|r rs]; [exact S0|].
  apply rounds_order; [apply init_ok| exact E| rewrite RfExec; apply incl_refl|].
  split; [exact (proj1 S0)|]. split; [intros e []| intros u _ []].
Qed.

Lemma phase_fold_order ph (W : state -> nat -> state) rs st :
  (forall st r, tagged ph r st (W st r)) -> incl (Rf Exec) (s_regs st) ->
  (forall r, In r (s_regs st) -> r < n) -> roots_of p (s_regs st) = Ok rs -> Rf ph = s_regs st ->
  StronglySorted (dep_ok deps Rf) (s_trace st) ->
  (forall e, In e (s_trace st) -> ev_phase e <> ph) ->
  StronglySorted (dep_ok deps Rf) (s_trace (fold_left W rs st)).
Proof.
  intros HW H0 Hr E HR S Hno. rewrite fold_all.
  destruct (topo_of_roots _ _ (Rf ph) H0 Hr E) as [ND T]; [rewrite HR; apply incl_refl|].
  apply (fold_topo deps Rf W ph rs [] HW ND T rs [] st eq_refl).
  split; [exact S|]. split; [|intros u _ []].
  intros e He Pe. exfalso. now apply (Hno e He).
Qed.

Lemma after_exec_order rs st :
  exec_ok n st -> roots_of p (s_regs st) = Ok rs -> incl (Rf Exec) (s_regs st) ->
  Rf Prepare = s_regs st -> Rf Validate = s_regs st -> Rf Finalize = s_regs st ->
  StronglySorted (dep_ok deps Rf) (s_trace st) ->
  StronglySorted (dep_ok deps Rf) (fst (after_exec p rs st)).
Proof.
  intros [A B C] E H0 R1 R2 R3 S. unfold after_exec.
  destruct (s_errs st); [|exact S].
  set (st1 := fold_left (fun st r => prepare_root st p r) rs st).
  assert (P1 : calls Prepare st st1).
  { unfold st1. apply (fold_rel (calls Prepare)); [apply calls_refl| apply calls_trans| intros; apply prepare_root_calls]. }
  assert (S1 : StronglySorted (dep_ok deps Rf) (s_trace st1)).
  { apply (phase_fold_order Prepare (fun st r => prepare_root st p r)); try assumption.
    - intros; apply prepare_root_tagged.
    - intros e He X. rewrite (only_in _ _ _ A He) in X. discriminate. }
  destruct P1 as (_ & G1 & _ & tp & T1 & O1).
  set (st2 := fold_left (fun st r => validate_root st p r) rs st1).
  assert (P2 : validates st1 st2).
  { unfold st2. apply (fold_rel validates); [apply validates_refl| apply validates_trans| intros; apply validate_root_ok]. }
  assert (S2 : StronglySorted (dep_ok deps Rf) (s_trace st2)).
  { apply (phase_fold_order Validate (fun st r => validate_root st p r)); try assumption; try (rewrite G1; assumption).
    - intros; apply validate_root_tagged.
    - intros e He X. rewrite T1 in He. apply in_app_or in He as [He|He];
        [rewrite (only_in _ _ _ A He) in X| rewrite (only_in _ _ _ O1 He) in X]; discriminate. }
  destruct P2 as (_ & G2 & tv & es & T2 & O2 & _).
  destruct (s_errs st2); [|exact S2]. cbn [finish fst].
  apply (phase_fold_order Finalize (fun st r => finalize_root st p r)); try assumption; try (rewrite G2, G1; assumption).
  - intros; apply finalize_root_tagged.
  - intros e He X. rewrite T2, T1 in He. apply in_app_or in He as [He|He].
    + apply in_app_or in He as [He|He];
        [rewrite (only_in _ _ _ A He) in X| rewrite (only_in _ _ _ O1 He) in X]; discriminate.
    + rewrite (only_in _ _ _ O2 He) in X. discriminate.
Qed.

Hypothesis RfLater : forall ph, ph <> Exec -> Rf ph = s_regs (final_state p).

Lemma run_order : StronglySorted (dep_ok deps Rf) (fst (run_dsl p)).
Proof.
  unfold run_dsl. pose proof exec_phase_order as S. pose proof (exec_phase_ok p) as OK.
  destruct (exec_phase p) as [rs st|st o] eqn:E; [|exact (proj1 S)].
  assert (F : final_state p = st) by (unfold final_state; now rewrite E).
  destruct (exec_phase_done p rs st E) as (R & _). destruct S as [S S'].
  apply after_exec_order; try assumption; rewrite RfLater by discriminate; now rewrite F.
Qed.
End RunOrder.
