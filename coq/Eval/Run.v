(* Correspondence glue: the observations the harness makes of eval.Context.Roots()
   and eval.RunDSL() and the same observations computed from the model, compared by
   vm_compute on the cases the harness wrote. *)
From Eval Require Import Model.
From Coq Require Import PeanoNat NArith.

Definition res_eq_dec (a b : res) : {a = b} + {a <> b}.
Proof. decide equality. apply list_eq_dec, Nat.eq_dec. Defined.

Definition phase_eq_dec (a b : phase) : {a = b} + {a <> b}.
Proof. decide equality. Defined.

Definition kind_eq_dec (a b : kind) : {a = b} + {a <> b}.
Proof. decide equality. Defined.

Definition who_eq_dec (a b : option nat) : {a = b} + {a <> b}.
Proof. decide equality. apply Nat.eq_dec. Defined.

Definition event_eq_dec (a b : event) : {a = b} + {a <> b}.
Proof. decide equality; auto using phase_eq_dec, kind_eq_dec, who_eq_dec, Nat.eq_dec. Defined.

Definition ident_eq_dec (a b : ident) : {a = b} + {a <> b}.
Proof. decide equality; auto using who_eq_dec, Nat.eq_dec. Defined.

Definition err_eq_dec (a b : err_entry) : {a = b} + {a <> b}.
Proof. decide equality; auto using ident_eq_dec, list_eq_dec. Defined.

Definition option_eq_dec {A} (d : forall a b : A, {a = b} + {a <> b}) (a b : option A) : {a = b} + {a <> b}.
Proof. decide equality. Defined.

Definition outcome_eq_dec (a b : outcome) : {a = b} + {a <> b}.
Proof. decide equality. apply list_eq_dec, err_eq_dec. Defined.

(* Roots(): a case is (index, number of root objects, DependsOn table, registration
   order, what Context.Roots() returned) *)
Definition roots_case := (N * nat * list (list nat) * list nat * res)%type.

Definition roots_mismatches (cs : list roots_case) : list N :=
  flat_map (fun c => match c with (i, n, tbl, regs, o) =>
     if res_eq_dec (roots n (fun r => nth r tbl []) regs) o then [] else [i] end) cs.

(* the callback trace is written compactly, one number per event:
   ((root * 256 + who) * 3 + kind) * 4 + phase, who = 0 for the root itself and
   identity + 1 for an expression (identities are below 255) *)
Definition decode_ev (c : N) : event :=
  let ph := (c mod 4)%N in let c1 := (c / 4)%N in
  let k := (c1 mod 3)%N in let c2 := (c1 / 3)%N in
  let w := (c2 mod 256)%N in let r := (c2 / 256)%N in
  Ev (match ph with 0 => Exec | 1 => Prepare | 2 => Validate | _ => Finalize end%N)
     (N.to_nat r)
     (if (w =? 0)%N then None else Some (N.to_nat (w - 1)))
     (match k with 0 => Call | 1 => Report | _ => Fail end%N).

(* RunDSL(): a case is (index, program, callback trace, class of the returned error,
   what Context.Roots() returned before RunDSL, what it returns after RunDSL) *)
Definition run_case := (N * program * list N * outcome * res * res)%type.

(* run_dsl p and generate_roots p, sharing one evaluation of the execute phase *)
Definition run_obs (p : program) : (list event * outcome) * res :=
  let x := exec_phase p in
  (match x with XStop st o => finish st o | XDone rs st => after_exec p rs st end,
   roots_of p (s_regs (match x with XDone _ st => st | XStop st _ => st end))).

Lemma run_obs_eq p : run_obs p = (run_dsl p, generate_roots p).
Proof. reflexivity. Qed.

Definition run_mismatches (cs : list run_case) : list N :=
  flat_map (fun c => match c with (i, p, tr, o, ro, rpost) =>
     let x := run_obs p in
     let m := fst x in
     if list_eq_dec event_eq_dec (fst m) (map decode_ev tr) then
       if outcome_eq_dec (snd m) o then
         if res_eq_dec (roots_of p (s_regs (init_state p))) ro then
           if res_eq_dec (snd x) rpost then [] else [i]
         else [i]
       else [i]
     else [i] end) cs.

(* generator.Generate(): a case is (index, program, roots received by the plugin prepare
   functions / the generators / the plugin generate functions, None when Generate failed
   with the Roots() error) *)
Definition gen_case := (N * program * option (list (list nat)))%type.

Definition gen_mismatches (cs : list gen_case) : list N :=
  flat_map (fun c => match c with (i, p, h) =>
     if option_eq_dec (list_eq_dec (list_eq_dec Nat.eq_dec)) (handover p) h then [] else [i] end) cs.

(* thorough tier: every digraph on 4 roots x the 24 registration orders, compactly:
   (graph code g, observed result per order); bit (4*i+j) of g <-> root i depends on
   root j; a result is the index of the returned order among the 24 permutations in
   lexicographic order, 24 for a cycle error, 25 for anything else; the 24 results
   are packed into one number *)
Fixpoint perms_fuel (f : nat) (xs : list nat) : list (list nat) :=
  match f with
  | 0 => [[]]
  | S f' => match xs with
            | [] => [[]]
            | _ => flat_map (fun x => map (cons x) (perms_fuel f' (remove Nat.eq_dec x xs))) xs
            end
  end.

Definition perms4 : list (list nat) := perms_fuel 4 [0; 1; 2; 3].

Definition deps4 (g : N) (i : nat) : list nat :=
  filter (fun j => N.testbit g (N.of_nat (4 * i + j))) [0; 1; 2; 3].

Fixpoint index_of (l : list nat) (ps : list (list nat)) (k : N) : N :=
  match ps with
  | [] => 25%N
  | p :: r => if list_eq_dec Nat.eq_dec l p then k else index_of l r (N.succ k)
  end.

Definition code4 (r : res) : N :=
  match r with Ok l => index_of l perms4 0%N | Cycle => 24%N | OutOfFuel => 26%N end.

(* the 24 results of one graph packed into one number, base 27, first order least significant *)
Definition pack (cs : list N) : N := fold_right (fun c acc => (c + 27 * acc)%N) 0%N cs.

Definition graph4_case := (N * N)%type.

Definition graph4_mismatches (cs : list graph4_case) : list N :=
  flat_map (fun c => match c with (g, obs) =>
     if N.eqb (pack (map (fun o => code4 (roots 4 (deps4 g) o)) perms4)) obs then [] else [g] end) cs.

(* short constructors for the case files *)
Definition E := mkE.
Definition R := mkR.
Definition P := mkP.
Definition ev := Ev.
