(* Correspondence glue: the observations the harness makes of eval.Context.Roots()
   and eval.RunDSL() and the same observations computed from the model, compared by
   vm_compute on the cases the harness wrote. *)
From Eval Require Import Model.
From Coq Require Import PeanoNat.

Definition res_eq_dec (a b : res) : {a = b} + {a <> b}.
Proof. decide equality. apply list_eq_dec, Nat.eq_dec. Defined.

Definition phase_eq_dec (a b : phase) : {a = b} + {a <> b}.
Proof. decide equality. Defined.

Definition kind_eq_dec (a b : kind) : {a = b} + {a <> b}.
Proof. decide equality. Defined.

Definition who_eq_dec (a b : option nat) : {a = b} + {a <> b}.
Proof. decide equality. apply Nat.eq_dec. Defined.

Definition event_eq_dec (a b : event) : {a = b} + {a <> b}.
Proof. decide equality; auto using phase_eq_dec, kind_eq_dec, who_eq_dec, Nat.eq_dec. Defined.

Definition ident_eq_dec (a b : ident) : {a = b} + {a <> b}.
Proof. decide equality; auto using who_eq_dec, Nat.eq_dec. Defined.

Definition err_eq_dec (a b : err_entry) : {a = b} + {a <> b}.
Proof. decide equality; auto using ident_eq_dec, list_eq_dec. Defined.

Definition outcome_eq_dec (a b : outcome) : {a = b} + {a <> b}.
Proof. decide equality. apply list_eq_dec, err_eq_dec. Defined.

(* Roots(): a case is (index, number of root objects, DependsOn table, registration
   order, what Context.Roots() returned) *)
Definition roots_case := (nat * nat * list (list nat) * list nat * res)%type.

Definition roots_mismatches (cs : list roots_case) : list nat :=
  flat_map (fun c => match c with (i, n, tbl, regs, o) =>
     if res_eq_dec (roots n (fun r => nth r tbl []) regs) o then [] else [i] end) cs.

(* RunDSL(): a case is (index, program, callback trace, class of the returned error,
   what Context.Roots() returned before RunDSL) *)
Definition run_case := (nat * program * list event * outcome * res)%type.

Definition run_mismatches (cs : list run_case) : list nat :=
  flat_map (fun c => match c with (i, p, tr, o, ro) =>
     let m := run_dsl p in
     if list_eq_dec event_eq_dec (fst m) tr then
       if outcome_eq_dec (snd m) o then
         if res_eq_dec (roots_of p (s_regs (init_state p))) ro then [] else [i]
       else [i]
     else [i] end) cs.

(* short constructors for the case files *)
Definition E := mkE.
Definition R := mkR.
Definition P := mkP.
Definition ev := Ev.
