(* C11 - proofs about expression sets that grow while the DSL executes: roots
   registered late are executed; expressions appended to sets the walker has not
   reached are executed exactly once, in order. *)
From Coq Require Import List Bool Arith Lia.
Import ListNotations.
From Eval Require Import Model LemmasRoots LemmasRun.

(* ------------------------------------------------------------ list facts *)

Lemma length_upd_nth {A} n (f : A -> A) l : length (upd_nth n f l) = length l.
Proof. revert n. induction l as [|a l IH]; intros [|n]; simpl; auto. Qed.

Lemma nth_upd_nth_same {A} n (f : A -> A) l d : n < length l -> nth n (upd_nth n f l) d = f (nth n l d).
Proof. revert n. induction l as [|a l IH]; intros [|n] H; simpl in *; try lia; auto. apply IH. lia. Qed.

Lemma upd_nth_out {A} n (f : A -> A) l : length l <= n -> upd_nth n f l = l.
Proof. revert n. induction l as [|a l IH]; intros [|n] H; simpl in *; try lia; auto. f_equal. apply IH. lia. Qed.

Lemma nth_upd_nth_other {A} n m (f : A -> A) l d : n <> m -> nth m (upd_nth n f l) d = nth m l d.
Proof. revert n m. induction l as [|a l IH]; intros [|n] [|m] H; simpl; try congruence; auto. Qed.

Lemma firstn_upd_nth {A} n m (f : A -> A) l : m <= n -> firstn m (upd_nth n f l) = firstn m l.
Proof.
  revert n m. induction l as [|a l IH]; intros [|n] [|m] H; simpl; try lia; auto. f_equal. apply IH. lia.
Qed.

Lemma nth_firstn' {A} k m (l : list A) d : k < m -> nth k (firstn m l) d = nth k l d.
Proof.
  revert k m. induction l as [|a l IH]; intros k m H.
  - rewrite firstn_nil. reflexivity.
  - destruct m; [lia|]. destruct k; simpl; [reflexivity|]. apply IH. lia.
Qed.

Lemma firstn_pred {A} k (a b : list A) : firstn (S k) a = firstn (S k) b -> firstn k a = firstn k b.
Proof.
  intro H. assert (firstn k (firstn (S k) a) = firstn k (firstn (S k) b)) as X by now rewrite H.
  rewrite !firstn_firstn in X. replace (Nat.min k (S k)) with k in X by lia. exact X.
Qed.

Lemma skipn_nth {A} k (l : list A) d : k < length l -> skipn k l = nth k l d :: skipn (S k) l.
Proof.
  revert k. induction l as [|a l IH]; intros k H; simpl in H; [lia|].
  destruct k; [reflexivity|]. simpl. apply IH. lia.
Qed.

Lemma nth_in_length {A} k (l : list (list A)) e : In e (nth k l []) -> k < length l.
Proof.
  intro H. destruct (Nat.lt_ge_cases k (length l)) as [X|X]; [assumption|].
  rewrite nth_overflow in H by assumption. destruct H.
Qed.

Lemma filter_nil_inv {A} (f : A -> bool) l : filter f l = [] -> forall x, In x l -> f x = false.
Proof.
  induction l as [|a l IH]; intros H x Hx; [destruct Hx|]. simpl in H.
  destruct (f a) eqn:E; [discriminate|]. destruct Hx as [<-|Hx]; [assumption| now apply IH].
Qed.

Lemma fold_rel_forall {A B} (R : A -> A -> Prop) (P : B -> Prop) (f : A -> B -> A) l :
  (forall a, R a a) -> (forall a b c, R a b -> R b c -> R a c) ->
  (forall a b, P b -> R a (f a b)) -> Forall P l -> forall a, R a (fold_left f l a).
Proof.
  intros Hr Ht H F. induction F as [|b l Hb F IH]; intro a; simpl; [apply Hr|].
  eapply Ht; [apply H, Hb| apply IH].
Qed.

(* ------------------------------------------------------------ sets only grow *)

Definition app_sets (S : list (list (list expr))) (r k : nat) (e : expr) :=
  upd_nth r (upd_nth k (fun s => s ++ [e])) S.

Lemma app_sets_other S r k e q : q <> r -> nth q (app_sets S r k e) [] = nth q S [].
Proof. intro H. unfold app_sets. apply nth_upd_nth_other. congruence. Qed.

Lemma app_sets_same S r k e : nth r (app_sets S r k e) [] = upd_nth k (fun s => s ++ [e]) (nth r S []).
Proof.
  unfold app_sets. destruct (Nat.lt_ge_cases r (length S)) as [H|H].
  - now apply nth_upd_nth_same.
  - rewrite upd_nth_out by assumption. rewrite nth_overflow by assumption. now destruct k.
Qed.

Lemma nth_upd_app k (L : list (list expr)) e j x :
  In x (nth j L []) -> In x (nth j (upd_nth k (fun s => s ++ [e]) L) []).
Proof.
  intro H. destruct (Nat.eq_dec k j) as [->|Hne].
  - rewrite nth_upd_nth_same by (eapply nth_in_length; eauto). apply in_or_app. now left.
  - now rewrite nth_upd_nth_other.
Qed.

Definition mono (st st' : state) : Prop :=
  (forall r, length (sets_of st' r) = length (sets_of st r)) /\
  (forall r k e, In e (nth k (sets_of st r) []) -> In e (nth k (sets_of st' r) [])) /\
  (exists t, s_trace st' = s_trace st ++ t).

Lemma mono_refl st : mono st st.
Proof. repeat split; auto. exists []. now rewrite app_nil_r. Qed.

Lemma mono_trans a b c : mono a b -> mono b c -> mono a c.
Proof.
  intros (A1 & A2 & t1 & A3) (B1 & B2 & t2 & B3). repeat split.
  - intro r. now rewrite B1, A1.
  - intros r k e H. now apply B2, A2.
  - exists (t1 ++ t2). rewrite B3, A3. now rewrite app_assoc.
Qed.

Lemma mono_trace a b e : mono a b -> In e (s_trace a) -> In e (s_trace b).
Proof. intros (_ & _ & t & ->) H. apply in_or_app. now left. Qed.

Lemma mono_emit e st : mono st (emit e st).
Proof. repeat split; auto. exists [e]. reflexivity. Qed.

Lemma do_action_mono n r i st a : mono st (do_action n r i st a).
Proof.
  destruct a as [k e|q|]; cbn [do_action].
  - repeat split; cbn [s_trace]; [| |exists []; now rewrite app_nil_r].
    + intro q. unfold sets_of. cbn [s_sets]. fold (app_sets (s_sets st) r k e).
      destruct (Nat.eq_dec q r) as [->|Hne]; [|now rewrite app_sets_other].
      rewrite app_sets_same. apply length_upd_nth.
    + intros q j x H. unfold sets_of in *. cbn [s_sets]. fold (app_sets (s_sets st) r k e).
      destruct (Nat.eq_dec q r) as [->|Hne]; [|now rewrite app_sets_other].
      rewrite app_sets_same. now apply nth_upd_app.
  - destruct ((q <? n) && negb (memb q (s_regs st))); [|apply mono_refl].
    repeat split; auto. exists []. cbn. now rewrite app_nil_r.
  - repeat split; auto. cbn. eexists. reflexivity.
Qed.

Lemma exec_expr_mono n r st e : mono st (exec_expr n r st e).
Proof.
  unfold exec_expr. destruct (e_src e); [|apply mono_refl].
  eapply mono_trans; [apply mono_emit|].
  apply (fold_rel mono); [apply mono_refl| apply mono_trans| intros; apply do_action_mono].
Qed.

Lemma run_set_mono n r st s : mono st (run_set n r st s).
Proof. unfold run_set. apply (fold_rel mono); [apply mono_refl| apply mono_trans| intros; apply exec_expr_mono]. Qed.

Lemma walk_exec_mono n st r : mono st (walk_exec n st r).
Proof. unfold walk_exec. apply (fold_rel mono); [apply mono_refl| apply mono_trans| intros; apply run_set_mono]. Qed.

(* ------------------------------------------------------------ walking a root runs every DSL
   present in its sets when the walk starts *)

Definition exec_ev (r : nat) (e : expr) : event := Ev Exec r (Some (e_id e)) Call.

Lemma exec_expr_emits n r st e : e_src e = true -> In (exec_ev r e) (s_trace (exec_expr n r st e)).
Proof.
  intro H. unfold exec_expr. rewrite H.
  eapply mono_trace.
  - apply (fold_rel mono); [apply mono_refl| apply mono_trans| intros; apply do_action_mono].
  - cbn. apply in_or_app. right. now left.
Qed.

Lemma run_set_runs n r s : forall st e, In e s -> e_src e = true ->
  In (exec_ev r e) (s_trace (run_set n r st s)).
Proof.
  unfold run_set. induction s as [|a s IH]; intros st e He Hs; [destruct He|]. cbn [fold_left].
  destruct He as [->|He]; [|now apply IH].
  eapply mono_trace; [apply (run_set_mono n r _ s)|]. now apply exec_expr_emits.
Qed.

Lemma walk_runs n st r :
  forall k e, In e (nth k (sets_of st r) []) -> e_src e = true ->
    In (exec_ev r e) (s_trace (walk_exec n st r)).
Proof.
  unfold walk_exec.
  set (F := fun st k => run_set n r st (nth k (sets_of st r) [])).
  assert (G : forall ks st0, mono st st0 ->
            mono st0 (fold_left F ks st0) /\
            forall k, In k ks -> forall e, In e (nth k (sets_of st r) []) -> e_src e = true ->
              In (exec_ev r e) (s_trace (fold_left F ks st0))).
  { induction ks as [|k ks IH]; intros st0 M0; cbn [fold_left].
    - split; [apply mono_refl| intros k []].
    - assert (M1 : mono st0 (F st0 k)) by apply run_set_mono.
      destruct (IH (F st0 k) (mono_trans _ _ _ M0 M1)) as [M2 R2].
      split; [eapply mono_trans; eauto|].
      intros k' [<-|Hk'] e He Hs; [|now apply (R2 k')].
      eapply mono_trace; [exact M2|]. unfold F. apply run_set_runs; [|assumption].
      destruct M0 as (_ & M0 & _). now apply M0. }
  intros k e He Hs. destruct (G (seq 0 (length (sets_of st r))) st (mono_refl st)) as [_ R].
  apply (R k); try assumption. apply in_seq. apply nth_in_length in He. lia.
Qed.

Section Late.
Variable p : program.
Let n := nroots p.

Lemma sets_of_init r : sets_of (init_state p) r = r_sets (rootdef_of p r).
Proof.
  unfold sets_of, init_state, rootdef_of. cbn [s_sets].
  change (@nil (list expr)) with (r_sets (mkR [] [] false None false)) at 1. apply map_nth.
Qed.

(* every DSL present from the start in the sets of root q has run *)
Definition ran (q : nat) (st : state) : Prop :=
  forall k e, In e (nth k (r_sets (rootdef_of p q)) []) -> e_src e = true -> In (exec_ev q e) (s_trace st).

Lemma ran_mono q a b : mono a b -> ran q a -> ran q b.
Proof. intros M H k e He Hs. eapply mono_trace; [exact M| exact (H k e He Hs)]. Qed.

Lemma walks_ran pend : forall st, mono (init_state p) st ->
  mono st (fold_left (walk_exec n) pend st) /\
  forall q, In q pend -> ran q (fold_left (walk_exec n) pend st).
Proof.
  induction pend as [|r pend IH]; intros st M0; cbn [fold_left].
  - split; [apply mono_refl| intros q []].
  - assert (M1 := walk_exec_mono n st r).
    destruct (IH _ (mono_trans _ _ _ M0 M1)) as [M2 R2].
    split; [eapply mono_trans; eauto|].
    intros q [<-|Hq]; [|now apply R2].
    apply (ran_mono r _ _ M2). intros k e He Hs. apply (walk_runs n st r k); [|assumption].
    destruct M0 as (_ & M0 & _). apply M0. now rewrite sets_of_init.
Qed.

Lemma rounds_ran fuel : forall rs ex st rs' st',
  mono (init_state p) st -> (forall q, In q ex -> ran q st) ->
  rounds fuel p rs ex st = XDone rs' st' ->
  mono (init_state p) st' /\ forall q, In q rs' -> ran q st'.
Proof.
  induction fuel as [|f IH]; intros rs ex st rs' st' M0 R0 H; cbn [rounds] in H.
  - destruct (filter (fun r => negb (memb r ex)) rs) eqn:Ep; [|discriminate].
    injection H as <- <-. split; [assumption|]. intros q Hq. apply R0.
    apply (filter_nil_inv _ _ Ep) in Hq. apply negb_false_iff in Hq. now apply memb_In.
  - destruct (filter (fun r => negb (memb r ex)) rs) as [|x pend] eqn:Ep.
    + injection H as <- <-. split; [assumption|]. intros q Hq. apply R0.
      apply (filter_nil_inv _ _ Ep) in Hq. apply negb_false_iff in Hq. now apply memb_In.
    + fold n in H. destruct (walks_ran (x :: pend) st M0) as [M1 R1].
      destruct (roots_of p (s_regs (fold_left (walk_exec n) (x :: pend) st))) as [rs2| |]; try discriminate.
      apply (IH _ _ _ _ _ (mono_trans _ _ _ M0 M1)) in H; [exact H|].
      intros q Hq. apply in_app_or in Hq as [Hq|Hq]; [|now apply R1].
      apply (ran_mono q _ _ M1). now apply R0.
Qed.

Lemma rounds_roots fuel : forall rs ex st rs' st',
  roots_of p (s_regs st) = Ok rs -> rounds fuel p rs ex st = XDone rs' st' ->
  roots_of p (s_regs st') = Ok rs'.
Proof.
  induction fuel as [|f IH]; intros rs ex st rs' st' R0 H; cbn [rounds] in H.
  - destruct (filter (fun r => negb (memb r ex)) rs); [|discriminate]. now injection H as <- <-.
  - destruct (filter (fun r => negb (memb r ex)) rs) as [|x pend]; [now injection H as <- <-|].
    destruct (roots_of p (s_regs (fold_left (walk_exec (nroots p)) (x :: pend) st))) as [rs2| |] eqn:E; try discriminate.
    now apply (IH _ _ _ _ _ E) in H.
Qed.

Lemma exec_phase_done rs st : exec_phase p = XDone rs st ->
  roots_of p (s_regs st) = Ok rs /\ exec_ok n st /\ mono (init_state p) st /\ forall q, In q rs -> ran q st.
Proof.
  intro H. pose proof (exec_phase_ok p) as OK. rewrite H in OK.
  unfold exec_phase in H.
  destruct (roots_of p (s_regs (init_state p))) as [rs0| |] eqn:E; try discriminate.
  destruct rs0 as [|r0 rs0]; [discriminate|].
  split; [now apply (rounds_roots _ _ _ _ _ _ E) in H|]. split; [exact OK|].
  apply (rounds_ran _ _ _ _ _ _ (mono_refl _)) in H; [exact H| intros q []].
Qed.

Theorem late_roots_ran rs st : exec_phase p = XDone rs st ->
  forall q, In q (s_regs st) -> In q rs /\ ran q st.
Proof.
  intros H q Hq. destruct (exec_phase_done _ _ H) as (R & [_ _ C] & _ & X).
  assert (In q rs) as Hin.
  { unfold roots_of in R. apply roots_ok_basic in R as (_ & I & _); [now apply I| apply deps_of_lt| exact C]. }
  split; [assumption| now apply X].
Qed.

End Late.

(* ------------------------------------------------------------ appended to later sets:
   executed exactly once, in order *)

Definition exec_id (r : nat) (e : event) : list nat :=
  match ev_phase e, ev_kind e, ev_who e with
  | Exec, Call, Some i => if Nat.eqb (ev_root e) r then [i] else []
  | _, _, _ => []
  end.

(* identities of the expressions of root r whose DSL ran, in order of execution *)
Definition exec_ids (r : nat) (t : list event) : list nat := flat_map (exec_id r) t.

(* identities of the Source expressions of a list of sets, set by set *)
Definition src_ids (sets : list (list expr)) : list nat := map e_id (filter e_src (concat sets)).

Definition LOK (sets : list (list expr)) : Prop :=
  forall k e, In e (nth k sets []) -> later_ok k e = true.

Definition all_lok (st : state) : Prop := forall q, LOK (sets_of st q).

Definition act_ok (k : nat) (a : action) : Prop :=
  match a with AAppend j e' => k < j /\ later_ok j e' = true | _ => True end.

Lemma later_ok_acts k e : later_ok k e = true -> Forall (act_ok k) (e_acts e).
Proof.
  destruct e as [i s acts pr v f]. cbn [later_ok e_acts]. intro H.
  rewrite forallb_forall in H. apply Forall_forall. intros a Ha. specialize (H a Ha).
  destruct a as [j e'| |]; cbn; auto. apply andb_true_iff in H as [H1 H2]. apply Nat.ltb_lt in H1. auto.
Qed.

Lemma exec_ids_app r a b : exec_ids r (a ++ b) = exec_ids r a ++ exec_ids r b.
Proof. apply flat_map_app. Qed.

Lemma src_ids_cons s rest : src_ids (s :: rest) = map e_id (filter e_src s) ++ src_ids rest.
Proof. unfold src_ids. cbn [concat]. now rewrite filter_app, map_app. Qed.

(* what executing inside set k of root r may change *)
Definition rel (r k : nat) (ids : list nat) (st st' : state) : Prop :=
  (forall q, q <> r -> sets_of st' q = sets_of st q) /\
  firstn (S k) (sets_of st' r) = firstn (S k) (sets_of st r) /\
  length (sets_of st' r) = length (sets_of st r) /\
  (all_lok st -> all_lok st') /\
  (forall q, exec_ids q (s_trace st') = exec_ids q (s_trace st) ++ (if Nat.eqb q r then ids else [])).

Lemma rel_refl r k st : rel r k [] st st.
Proof. repeat split; auto. intro q. destruct (Nat.eqb q r); now rewrite app_nil_r. Qed.

Lemma rel_trans r k i1 i2 a b c : rel r k i1 a b -> rel r k i2 b c -> rel r k (i1 ++ i2) a c.
Proof.
  intros (A1 & A2 & A3 & A4 & A5) (B1 & B2 & B3 & B4 & B5). repeat split.
  - intros q Hq. now rewrite B1, A1.
  - now rewrite B2, A2.
  - now rewrite B3, A3.
  - auto.
  - intro q. rewrite B5, A5. rewrite <- app_assoc. destruct (Nat.eqb q r); reflexivity.
Qed.

Lemma rel_trans0 r k i a b c : rel r k i a b -> rel r k [] b c -> rel r k i a c.
Proof. intros A B. rewrite <- (app_nil_r i). eapply rel_trans; eauto. Qed.

Lemma do_action_rel n r k i st a : act_ok k a -> rel r k [] st (do_action n r i st a).
Proof.
  destruct a as [j e'|q|]; cbn [do_action act_ok]; intro H.
  - destruct H as [Hj He']. unfold rel, sets_of. cbn [s_sets s_trace]. fold (app_sets (s_sets st) r j e').
    rewrite app_sets_same. repeat split.
    + intros q Hq. now apply app_sets_other.
    + apply firstn_upd_nth. lia.
    + apply length_upd_nth.
    + intros L q j' x Hx. unfold sets_of in *. cbn [s_sets] in Hx. fold (app_sets (s_sets st) r j e') in Hx.
      destruct (Nat.eq_dec q r) as [->|Hne]; [|rewrite app_sets_other in Hx by assumption; now apply (L q)].
      rewrite app_sets_same in Hx. destruct (Nat.eq_dec j j') as [<-|Hjj].
      * destruct (Nat.lt_ge_cases j (length (nth r (s_sets st) []))) as [Hl|Hl].
        -- rewrite nth_upd_nth_same in Hx by assumption. apply in_app_or in Hx as [Hx|[<-|[]]]; [now apply (L r)| assumption].
        -- rewrite upd_nth_out in Hx by assumption. now apply (L r).
      * rewrite nth_upd_nth_other in Hx by assumption. now apply (L r).
    + intro q. destruct (Nat.eqb q r); now rewrite app_nil_r.
  - destruct ((q <? n) && negb (memb q (s_regs st))); [|apply rel_refl].
    repeat split; auto. intro q'. cbn [s_trace]. destruct (Nat.eqb q' r); now rewrite app_nil_r.
  - repeat split; auto. intro q. cbn [record emit s_trace]. rewrite exec_ids_app. cbn.
    destruct (Nat.eqb q r); reflexivity.
Qed.

Lemma exec_expr_rel n r k st e : later_ok k e = true ->
  rel r k (if e_src e then [e_id e] else []) st (exec_expr n r st e).
Proof.
  intro H. unfold exec_expr. destruct (e_src e); [|apply rel_refl].
  eapply rel_trans0.
  - instantiate (1 := emit (Ev Exec r (Some (e_id e)) Call) st). repeat split; auto.
    intro q. cbn [emit s_trace]. rewrite exec_ids_app. cbn. unfold exec_id. cbn.
    rewrite (Nat.eqb_sym r q). destruct (Nat.eqb q r); reflexivity.
  - apply (fold_rel_forall (rel r k []) (act_ok k)).
    + apply rel_refl.
    + intros a b c A B. apply (rel_trans0 _ _ _ _ _ _ A B).
    + intros a b Hb. now apply do_action_rel.
    + now apply later_ok_acts.
Qed.

Lemma run_set_rel n r k s : forall st, (forall e, In e s -> later_ok k e = true) ->
  rel r k (map e_id (filter e_src s)) st (run_set n r st s).
Proof.
  unfold run_set. induction s as [|a s IH]; intros st H; cbn [fold_left filter map].
  - apply rel_refl.
  - assert (Ha := exec_expr_rel n r k st a (H a (or_introl eq_refl))).
    assert (Hs := IH (exec_expr n r st a) (fun e He => H e (or_intror He))).
    destruct (e_src a); cbn [map].
    + change (e_id a :: map e_id (filter e_src s)) with ([e_id a] ++ map e_id (filter e_src s)).
      eapply rel_trans; eauto.
    + change (map e_id (filter e_src s)) with ([] ++ map e_id (filter e_src s)).
      eapply rel_trans; eauto.
Qed.

Lemma walk_from n r m : forall k0 st0,
  k0 + m = length (sets_of st0 r) -> all_lok st0 ->
  let st1 := fold_left (fun st k => run_set n r st (nth k (sets_of st r) [])) (seq k0 m) st0 in
  (forall q, q <> r -> sets_of st1 q = sets_of st0 q) /\
  firstn k0 (sets_of st1 r) = firstn k0 (sets_of st0 r) /\
  length (sets_of st1 r) = length (sets_of st0 r) /\
  all_lok st1 /\
  (forall q, exec_ids q (s_trace st1) = exec_ids q (s_trace st0) ++
             (if Nat.eqb q r then src_ids (skipn k0 (sets_of st1 r)) else [])).
Proof.
  induction m as [|m IH]; intros k0 st0 Hlen L0; cbn [seq fold_left].
  - repeat split; auto. intro q. rewrite skipn_all2 by lia. cbn. destruct (Nat.eqb q r); now rewrite app_nil_r.
  - set (s := nth k0 (sets_of st0 r) []).
    set (st0' := run_set n r st0 s).
    assert (R : rel r k0 (map e_id (filter e_src s)) st0 st0').
    { apply run_set_rel. intros e He. now apply (L0 r k0). }
    destruct R as (R1 & R2 & R3 & R4 & R5).
    destruct (IH (S k0) st0') as (A1 & A2 & A3 & A4 & A5); [lia| now apply R4|].
    cbv zeta in *.
    set (st1 := fold_left (fun st k => run_set n r st (nth k (sets_of st r) [])) (seq (S k0) m) st0') in *.
    assert (E : firstn (S k0) (sets_of st1 r) = firstn (S k0) (sets_of st0 r)) by now rewrite A2, R2.
    repeat split.
    + intros q Hq. now rewrite A1, R1.
    + now apply firstn_pred.
    + now rewrite A3, R3.
    + exact A4.
    + intro q. rewrite A5, R5, <- app_assoc. f_equal.
      destruct (Nat.eqb q r); [|reflexivity].
      rewrite (skipn_nth k0 (sets_of st1 r) []) by lia. rewrite src_ids_cons. f_equal. f_equal. f_equal.
      unfold s. rewrite <- (nth_firstn' k0 (S k0) (sets_of st1 r)) by lia.
      rewrite <- (nth_firstn' k0 (S k0) (sets_of st0 r)) by lia. now rewrite E.
Qed.

Lemma walk_exact n st r : all_lok st ->
  (forall q, q <> r -> sets_of (walk_exec n st r) q = sets_of st q) /\
  all_lok (walk_exec n st r) /\
  (forall q, exec_ids q (s_trace (walk_exec n st r)) = exec_ids q (s_trace st) ++
             (if Nat.eqb q r then src_ids (sets_of (walk_exec n st r) r) else [])).
Proof.
  intro L. unfold walk_exec.
  destruct (walk_from n r (length (sets_of st r)) 0 st eq_refl L) as (A1 & _ & _ & A4 & A5).
  cbv zeta in *. repeat split; assumption.
Qed.

(* roots in ex have run exactly the Source expressions of their sets, the others nothing *)
Definition exact (ex : list nat) (st : state) : Prop :=
  all_lok st /\
  (forall q, In q ex -> exec_ids q (s_trace st) = src_ids (sets_of st q)) /\
  (forall q, ~ In q ex -> exec_ids q (s_trace st) = []).

Lemma walks_exact n pend : forall ex st,
  NoDup pend -> (forall r, In r pend -> ~ In r ex) -> exact ex st ->
  exact (ex ++ pend) (fold_left (walk_exec n) pend st).
Proof.
  induction pend as [|r pend IH]; intros ex st ND Hd X; cbn [fold_left].
  - now rewrite app_nil_r.
  - destruct X as (L & X1 & X2).
    destruct (walk_exact n st r L) as (W1 & W2 & W3).
    inversion ND as [|r' l' Hr ND']; subst.
    replace (ex ++ r :: pend) with ((ex ++ [r]) ++ pend) by now rewrite <- app_assoc.
    apply IH; [assumption| |].
    + intros r' Hr' Hin. apply in_app_or in Hin as [Hin|[<-|[]]]; [apply (Hd r'); [now right|assumption]| contradiction].
    + split; [assumption|]. split.
      * intros q Hq. rewrite W3. apply in_app_or in Hq as [Hq|[<-|[]]].
        -- assert (q <> r) as Hne by (intros ->; apply (Hd r); [now left|assumption]).
           apply Nat.eqb_neq in Hne as Hb. rewrite Hb, app_nil_r, W1 by assumption. now apply X1.
        -- rewrite Nat.eqb_refl, X2; [reflexivity|]. apply Hd. now left.
      * intros q Hq. rewrite W3.
        assert (q <> r) as Hne by (intros ->; apply Hq; apply in_or_app; right; now left).
        apply Nat.eqb_neq in Hne. rewrite Hne, app_nil_r. apply X2. intro Y. apply Hq. apply in_or_app. now left.
Qed.

Section Exact.
Variable p : program.

Lemma rounds_exact fuel : forall rs ex st rs' st',
  exec_ok (nroots p) st -> roots_of p (s_regs st) = Ok rs -> exact ex st ->
  rounds fuel p rs ex st = XDone rs' st' ->
  exists ex', exact ex' st' /\ forall q, In q rs' -> In q ex'.
Proof.
  induction fuel as [|f IH]; intros rs ex st rs' st' OK R X H; cbn [rounds] in H.
  - destruct (filter (fun r => negb (memb r ex)) rs) eqn:Ep; [|discriminate].
    injection H as <- <-. exists ex. split; [assumption|]. intros q Hq.
    apply (filter_nil_inv _ _ Ep) in Hq. apply negb_false_iff in Hq. now apply memb_In.
  - destruct (filter (fun r => negb (memb r ex)) rs) as [|x pend] eqn:Ep.
    + injection H as <- <-. exists ex. split; [assumption|]. intros q Hq.
      apply (filter_nil_inv _ _ Ep) in Hq. apply negb_false_iff in Hq. now apply memb_In.
    + assert (ND : NoDup (x :: pend)).
      { rewrite <- Ep. apply NoDup_filter. unfold roots_of in R.
        apply roots_ok_basic in R as (ND & _); [exact ND| apply deps_of_lt| apply OK]. }
      assert (Hd : forall r, In r (x :: pend) -> ~ In r ex).
      { intros r Hr. rewrite <- Ep in Hr. apply filter_In in Hr as [_ Hr].
        apply negb_true_iff in Hr. now apply memb_false. }
      pose proof (walks_exact (nroots p) (x :: pend) ex st ND Hd X) as X'.
      pose proof (walks_ok (nroots p) (x :: pend) st OK) as OK'.
      destruct (roots_of p (s_regs (fold_left (walk_exec (nroots p)) (x :: pend) st))) as [rs2| |] eqn:E; try discriminate.
      apply (IH _ _ _ _ _ OK' E X' H).
Qed.

Lemma In_combine_seq {A} (l : list A) d : forall a k, k < length l ->
  In (a + k, nth k l d) (combine (seq a (length l)) l).
Proof.
  induction l as [|x l IH]; intros a k H; simpl in H; [lia|]. cbn [length seq combine].
  destruct k; [left; f_equal; lia|]. right. replace (a + S k) with (S a + k) by lia. apply IH. lia.
Qed.

Lemma sets_later_ok_LOK sets : sets_later_ok sets = true -> LOK sets.
Proof.
  unfold sets_later_ok. intros H k e He. rewrite forallb_forall in H.
  assert (Hk := nth_in_length _ _ _ He).
  specialize (H _ (In_combine_seq sets [] 0 k Hk)). cbn [fst snd] in H.
  rewrite forallb_forall in H. now apply H.
Qed.

Hypothesis later : program_later_ok p = true.

Lemma init_exact : exact [] (init_state p).
Proof.
  split; [|split; [intros q []| reflexivity]].
  intro q. rewrite sets_of_init. unfold rootdef_of.
  destruct (Nat.lt_ge_cases q (length (p_roots p))) as [H|H].
  - apply sets_later_ok_LOK. unfold program_later_ok in later. rewrite forallb_forall in later.
    apply later. now apply nth_In.
  - rewrite nth_overflow by assumption. cbn. intros k e He. destruct k; destruct He.
Qed.

Theorem later_appends_exact rs st : exec_phase p = XDone rs st ->
  forall q, In q rs -> exec_ids q (s_trace st) = src_ids (sets_of st q).
Proof.
  intro H. unfold exec_phase in H.
  destruct (roots_of p (s_regs (init_state p))) as [rs0| |] eqn:E; try discriminate.
  destruct rs0 as [|r0 rs0]; [discriminate|].
  destruct (rounds_exact _ _ _ _ _ _ (init_ok p) E init_exact H) as (ex & (_ & X & _) & I).
  intros q Hq. apply X. now apply I.
Qed.
End Exact.

(* the trace of a complete run extends the trace of its execute phase by callbacks of
   the later phases *)
Definition later_phase (e : event) : Prop := ev_phase e <> Exec.

Lemma only_later ph t : only ph t -> ph <> Exec -> Forall later_phase t.
Proof. intros H Hne. eapply Forall_impl; [|exact H]. intros e He. unfold later_phase. congruence. Qed.

Lemma after_exec_ext p rs st : exists t, fst (after_exec p rs st) = s_trace st ++ t /\ Forall later_phase t.
Proof.
  unfold after_exec. destruct (s_errs st); [|exists []; split; [cbn; now rewrite app_nil_r|constructor]].
  set (st1 := fold_left (fun st r => prepare_root st p r) rs st).
  assert (P1 : calls Prepare st st1).
  { unfold st1. apply (fold_rel (calls Prepare)); [apply calls_refl| apply calls_trans| intros; apply prepare_root_calls]. }
  set (st2 := fold_left (fun st r => validate_root st p r) rs st1).
  assert (P2 : validates st1 st2).
  { unfold st2. apply (fold_rel validates); [apply validates_refl| apply validates_trans| intros; apply validate_root_ok]. }
  destruct P1 as (_ & _ & _ & tp & T1 & O1). destruct P2 as (_ & _ & tv & es & T2 & O2 & _).
  assert (L1 := only_later _ _ O1 ltac:(discriminate)). assert (L2 := only_later _ _ O2 ltac:(discriminate)).
  destruct (s_errs st2).
  - set (st3 := fold_left (fun st r => finalize_root st p r) rs st2).
    assert (P3 : calls Finalize st2 st3).
    { unfold st3. apply (fold_rel (calls Finalize)); [apply calls_refl| apply calls_trans| intros; apply finalize_root_calls]. }
    destruct P3 as (_ & _ & _ & tf & T3 & O3). cbn [finish fst].
    assert (L3 := only_later _ _ O3 ltac:(discriminate)).
    exists (tp ++ tv ++ tf). split; [rewrite T3, T2, T1; now rewrite <- !app_assoc|].
    apply Forall_app; split; [assumption|]. apply Forall_app; split; assumption.
  - cbn [finish fst]. exists (tp ++ tv). split; [rewrite T2, T1; now rewrite <- !app_assoc|].
    apply Forall_app; split; assumption.
Qed.

Lemma exec_ids_later q t : Forall later_phase t -> exec_ids q t = [].
Proof.
  induction 1 as [|e t He _ IH]; [reflexivity|]. cbn [exec_ids flat_map]. fold (exec_ids q t). rewrite IH, app_nil_r.
  unfold exec_id. unfold later_phase in He. destruct (ev_phase e); [congruence| | |]; reflexivity.
Qed.

Lemma run_dsl_done p rs st : exec_phase p = XDone rs st ->
  exists t, fst (run_dsl p) = s_trace st ++ t /\ Forall later_phase t.
Proof. intro H. unfold run_dsl. rewrite H. apply after_exec_ext. Qed.
