(* C11 - proofs about the model of RunDSL: shape of the callback trace (phase barrier),
   error handling, late roots, appended expressions. *)
From Coq Require Import List Bool Arith Lia Sorted.
Import ListNotations.
From Eval Require Import Model LemmasRoots.

(* ------------------------------------------------------------ observations on traces *)

Definition only (ph : phase) (t : list event) : Prop := Forall (fun e => ev_phase e = ph) t.

Definition is_report (e : event) : bool :=
  match ev_phase e, ev_kind e with Exec, Report => true | _, _ => false end.
Definition is_fail (e : event) : bool :=
  match ev_phase e, ev_kind e with Validate, Fail => true | _, _ => false end.

Definition ident_of (e : event) : ident := (ev_root e, ev_who e).

(* the ReportError calls / failed validations of a trace, in order *)
Definition reports (t : list event) : list ident := map ident_of (filter is_report t).
Definition fails (t : list event) : list ident := map ident_of (filter is_fail t).

Definition verr_ids (e : err_entry) : list ident := match e with XErr _ => [] | VErr l => l end.
Definition is_verr (e : err_entry) : Prop := match e with XErr _ => False | VErr l => l <> [] end.
Definition flat_errs (es : list err_entry) : list ident := concat (map verr_ids es).

Definition rank (ph : phase) : nat :=
  match ph with Exec => 0 | Prepare => 1 | Validate => 2 | Finalize => 3 end.

Definition phase_le (a b : event) : Prop := rank (ev_phase a) <= rank (ev_phase b).

Lemma only_app ph t1 t2 : only ph t1 -> only ph t2 -> only ph (t1 ++ t2).
Proof. intros A B. apply Forall_app. split; assumption. Qed.

Lemma only_nil ph : only ph []. Proof. constructor. Qed.

Lemma reports_app t1 t2 : reports (t1 ++ t2) = reports t1 ++ reports t2.
Proof. unfold reports. now rewrite filter_app, map_app. Qed.

Lemma fails_app t1 t2 : fails (t1 ++ t2) = fails t1 ++ fails t2.
Proof. unfold fails. now rewrite filter_app, map_app. Qed.

Lemma flat_errs_app a b : flat_errs (a ++ b) = flat_errs a ++ flat_errs b.
Proof. unfold flat_errs. now rewrite map_app, concat_app. Qed.

Lemma reports_only ph t : only ph t -> ph <> Exec -> reports t = [].
Proof.
  intros H Hne. unfold reports. induction H as [|e t He _ IH]; [reflexivity|]. simpl.
  unfold is_report at 1. rewrite He. destruct ph; try congruence; exact IH.
Qed.

Lemma fails_only ph t : only ph t -> ph <> Validate -> fails t = [].
Proof.
  intros H Hne. unfold fails. induction H as [|e t He _ IH]; [reflexivity|]. simpl.
  unfold is_fail at 1. rewrite He. destruct ph; try congruence; exact IH.
Qed.

Lemma sorted_only ph t : only ph t -> StronglySorted phase_le t.
Proof.
  induction 1 as [|e t He H IH]; constructor; [assumption|].
  eapply Forall_impl; [|exact H]. intros a Ha. unfold phase_le. rewrite He, Ha. lia.
Qed.

Lemma sorted_app (t1 t2 : list event) :
  StronglySorted phase_le t1 -> StronglySorted phase_le t2 ->
  (forall a b, In a t1 -> In b t2 -> phase_le a b) -> StronglySorted phase_le (t1 ++ t2).
Proof.
  intros S1 S2 H. induction S1 as [|a t1 S1 IH Ha]; [assumption|]. simpl. constructor.
  - apply IH. intros x y Hx Hy. apply H; [now right| assumption].
  - apply Forall_app. split; [assumption|]. apply Forall_forall. intros y Hy. apply H; [now left|assumption].
Qed.

(* ------------------------------------------------------------ generic fold facts *)

Lemma fold_inv {A B} (I : A -> Prop) (f : A -> B -> A) l :
  (forall a b, I a -> I (f a b)) -> forall a, I a -> I (fold_left f l a).
Proof. intro H. induction l as [|b l IH]; intros a Ha; simpl; [assumption|]. apply IH, H, Ha. Qed.

Lemma fold_rel {A B} (R : A -> A -> Prop) (f : A -> B -> A) l :
  (forall a, R a a) -> (forall a b c, R a b -> R b c -> R a c) ->
  (forall a b, R a (f a b)) -> forall a, R a (fold_left f l a).
Proof.
  intros Hr Ht H. induction l as [|b l IH]; intro a; simpl; [apply Hr|].
  eapply Ht; [apply H| apply IH].
Qed.

(* ------------------------------------------------------------ the execute phase *)

(* what the execute phase maintains: only Exec events, Context.Errors = the
   ReportError calls in order, registered roots exist *)
Record exec_ok (n : nat) (st : state) : Prop := {
  xo_only : only Exec (s_trace st);
  xo_errs : s_errs st = map XErr (reports (s_trace st));
  xo_regs : forall r, In r (s_regs st) -> r < n }.

Lemma exec_ok_emit n st r who :
  exec_ok n st -> exec_ok n (emit (Ev Exec r who Call) st).
Proof.
  intros [A B C]. split; cbn [emit s_trace s_errs s_regs].
  - apply only_app; [assumption| repeat constructor].
  - rewrite reports_app. cbn. now rewrite app_nil_r.
  - assumption.
Qed.

Lemma do_action_ok n r i st a : exec_ok n st -> exec_ok n (do_action n r i st a).
Proof.
  intros [A B C]. destruct a as [k e|q|]; cbn [do_action].
  - split; assumption.
  - destruct ((q <? n) && negb (memb q (s_regs st))) eqn:E; [|split; assumption].
    apply andb_true_iff in E as [E _]. apply Nat.ltb_lt in E.
    split; cbn [s_trace s_errs s_regs]; try assumption.
    intros x Hx. apply in_app_or in Hx. destruct Hx as [Hx|[<-|[]]]; [now apply C| assumption].
  - split; cbn [record emit s_trace s_errs s_regs].
    + apply only_app; [assumption| repeat constructor].
    + rewrite reports_app, map_app, B. reflexivity.
    + assumption.
Qed.

Lemma exec_expr_ok n r st e : exec_ok n st -> exec_ok n (exec_expr n r st e).
Proof.
  intro H. unfold exec_expr. destruct (e_src e); [|assumption].
  apply fold_inv; [intros; now apply do_action_ok| now apply exec_ok_emit].
Qed.

Lemma run_set_ok n r st s : exec_ok n st -> exec_ok n (run_set n r st s).
Proof. intro H. unfold run_set. apply fold_inv; [intros; now apply exec_expr_ok| assumption]. Qed.

Lemma walk_exec_ok n st r : exec_ok n st -> exec_ok n (walk_exec n st r).
Proof. intro H. unfold walk_exec. apply fold_inv; [intros; now apply run_set_ok| assumption]. Qed.

Lemma walks_ok n l st : exec_ok n st -> exec_ok n (fold_left (walk_exec n) l st).
Proof. apply fold_inv. intros; now apply walk_exec_ok. Qed.

Lemma init_ok p : exec_ok (nroots p) (init_state p).
Proof.
  split; cbn [init_state s_trace s_errs s_regs]; [constructor|reflexivity|].
  intros r Hr. apply filter_In in Hr as [_ Hr]. now apply Nat.ltb_lt.
Qed.

Lemma deps_of_lt p x d : In d (deps_of p x) -> d < nroots p.
Proof. unfold deps_of. intro H. apply filter_In in H as [_ H]. now apply Nat.ltb_lt. Qed.

Lemma roots_of_not_stuck p st : exec_ok (nroots p) st -> roots_of p (s_regs st) <> OutOfFuel.
Proof.
  intros [_ _ C]. unfold roots_of. apply roots_no_out_of_fuel; [apply deps_of_lt| exact C].
Qed.

Definition loop_stop (o : outcome) : Prop := o = CycleErr \/ o = TooManyRoots.

Lemma rounds_ok fuel p : forall rs ex st, exec_ok (nroots p) st ->
  match rounds fuel p rs ex st with
  | XDone rs' st' => exec_ok (nroots p) st' /\ roots_of p (s_regs st') = Ok rs' \/ (rs' = rs /\ st' = st)
  | XStop st' o => exec_ok (nroots p) st' /\ loop_stop o
  end.
Proof.
  induction fuel as [|f IH]; intros rs ex st H; cbn [rounds].
  - destruct (filter (fun r => negb (memb r ex)) rs); [now right| split; [assumption| now right]].
  - destruct (filter (fun r => negb (memb r ex)) rs) as [|x pend] eqn:Ep; [now right|].
    set (st' := fold_left (walk_exec (nroots p)) (x :: pend) st).
    assert (H' : exec_ok (nroots p) st') by now apply walks_ok.
    destruct (roots_of p (s_regs st')) as [rs'| |] eqn:Er.
    + specialize (IH rs' (ex ++ x :: pend) st' H').
      destruct (rounds f p rs' (ex ++ x :: pend) st') as [rs2 st2|st2 o]; [|exact IH].
      left. destruct IH as [IH|[-> ->]]; [exact IH| split; assumption].
    + split; [assumption| now left].
    + exfalso. now apply (roots_of_not_stuck p st').
Qed.

(* ------------------------------------------------------------ the later phases *)

(* a phase that only calls back: sets, registrations and errors untouched, the trace
   is extended by events of that phase *)
Definition calls (ph : phase) (st st' : state) : Prop :=
  s_sets st' = s_sets st /\ s_regs st' = s_regs st /\ s_errs st' = s_errs st /\
  exists t, s_trace st' = s_trace st ++ t /\ only ph t.

Lemma calls_refl ph st : calls ph st st.
Proof. repeat split. exists []. split; [now rewrite app_nil_r| constructor]. Qed.

Lemma calls_trans ph a b c : calls ph a b -> calls ph b c -> calls ph a c.
Proof.
  intros (A1 & A2 & A3 & t1 & A4 & A5) (B1 & B2 & B3 & t2 & B4 & B5).
  repeat split; try congruence. exists (t1 ++ t2). split; [rewrite B4, A4; now rewrite app_assoc| now apply only_app].
Qed.

Lemma calls_call_if ph b r who st : calls ph st (call_if b (Ev ph r who Call) st).
Proof.
  destruct b; cbn [call_if]; [|apply calls_refl]. repeat split.
  exists [Ev ph r who Call]. split; [reflexivity| repeat constructor].
Qed.

Lemma prepare_root_calls st p r : calls Prepare st (prepare_root st p r).
Proof.
  unfold prepare_root. eapply calls_trans; [apply calls_call_if|].
  apply fold_rel; [apply calls_refl| apply calls_trans|]. intros a s.
  apply fold_rel; [apply calls_refl| apply calls_trans|]. intros a' e. apply calls_call_if.
Qed.

Lemma finalize_root_calls st p r : calls Finalize st (finalize_root st p r).
Proof.
  unfold finalize_root. eapply calls_trans; [apply calls_call_if|].
  apply fold_rel; [apply calls_refl| apply calls_trans|]. intros a s.
  apply fold_rel; [apply calls_refl| apply calls_trans|]. intros a' e. apply calls_call_if.
Qed.

(* validation: the trace is extended by Validate events, the errors by one entry per
   set holding exactly the failed validations of that set *)
Definition validates (st st' : state) : Prop :=
  s_sets st' = s_sets st /\ s_regs st' = s_regs st /\
  exists t es, s_trace st' = s_trace st ++ t /\ only Validate t /\
    s_errs st' = s_errs st ++ es /\ flat_errs es = fails t /\ Forall is_verr es.

Lemma validates_refl st : validates st st.
Proof.
  repeat split. exists [], []. rewrite !app_nil_r. repeat split; constructor.
Qed.

Lemma validates_trans a b c : validates a b -> validates b c -> validates a c.
Proof.
  intros (A1 & A2 & t1 & e1 & A3 & A4 & A5 & A6 & A7) (B1 & B2 & t2 & e2 & B3 & B4 & B5 & B6 & B7).
  repeat split; try congruence. exists (t1 ++ t2), (e1 ++ e2). repeat split.
  - rewrite B3, A3. now rewrite app_assoc.
  - now apply only_app.
  - rewrite B5, A5. now rewrite app_assoc.
  - now rewrite flat_errs_app, fails_app, A6, B6.
  - apply Forall_app. split; assumption.
Qed.

(* accumulator of validateSet: events so far, none recorded yet *)
Definition vacc (st : state) (acc : state * list ident) : Prop :=
  s_sets (fst acc) = s_sets st /\ s_regs (fst acc) = s_regs st /\ s_errs (fst acc) = s_errs st /\
  exists t, s_trace (fst acc) = s_trace st ++ t /\ only Validate t /\ fails t = snd acc.

Lemma vacc_one st r who v acc : vacc st acc -> vacc st (validate_one r who v acc).
Proof.
  intros (A1 & A2 & A3 & t & A4 & A5 & A6). destruct v as [[|]|]; cbn [validate_one]; [| |repeat split; eauto].
  - repeat split; cbn [fst snd emit s_sets s_regs s_errs s_trace]; try assumption.
    exists (t ++ [Ev Validate r who Fail]). repeat split.
    + rewrite A4. now rewrite app_assoc.
    + apply only_app; [assumption| repeat constructor].
    + rewrite fails_app, A6. reflexivity.
  - repeat split; cbn [fst snd emit s_sets s_regs s_errs s_trace]; try assumption.
    exists (t ++ [Ev Validate r who Call]). repeat split.
    + rewrite A4. now rewrite app_assoc.
    + apply only_app; [assumption| repeat constructor].
    + rewrite fails_app, A6. cbn. now rewrite app_nil_r.
Qed.

Lemma vacc_close st acc : vacc st acc -> validates st (close_set acc).
Proof.
  intros (A1 & A2 & A3 & t & A4 & A5 & A6). unfold close_set. destruct (snd acc) as [|i l] eqn:E.
  - repeat split; try assumption. exists t, []. rewrite app_nil_r. repeat split; try assumption; try constructor.
    now rewrite A6.
  - repeat split; cbn [record s_sets s_regs s_errs s_trace]; try assumption.
    exists t, [VErr (i :: l)]. repeat split; try assumption.
    + now rewrite A3.
    + unfold flat_errs. cbn. rewrite app_nil_r. now rewrite A6.
    + repeat constructor. cbn. discriminate.
Qed.

Lemma vacc_init st : vacc st (st, []).
Proof. repeat split. exists []. rewrite app_nil_r. repeat split; constructor. Qed.

Lemma validate_set_ok r st s : validates st (validate_set r st s).
Proof.
  unfold validate_set. apply vacc_close.
  apply (fold_inv (vacc st)); [intros; now apply vacc_one| apply vacc_init].
Qed.

Lemma validate_root_ok st p r : validates st (validate_root st p r).
Proof.
  unfold validate_root. eapply validates_trans.
  - apply vacc_close. apply vacc_one. apply vacc_init.
  - apply fold_rel; [apply validates_refl| apply validates_trans|]. intros a s. apply validate_set_ok.
Qed.

(* ------------------------------------------------------------ shape of a run *)

Inductive shape (t : list event) (o : outcome) : Prop :=
| sh_loop :            (* RunDSL returned from the execution loop (or had no roots) *)
    only Exec t -> (loop_stop o \/ (o = Done /\ t = [])) -> shape t o
| sh_exec_errors :     (* errors reported while executing *)
    only Exec t -> reports t <> [] -> o = Errs (map XErr (reports t)) -> shape t o
| sh_validation te tp tv es :
    t = te ++ tp ++ tv -> only Exec te -> only Prepare tp -> only Validate tv ->
    reports te = [] -> fails tv <> [] ->
    o = Errs es -> flat_errs es = fails tv -> Forall is_verr es -> shape t o
| sh_done te tp tv tf :
    t = te ++ tp ++ tv ++ tf -> only Exec te -> only Prepare tp -> only Validate tv -> only Finalize tf ->
    reports te = [] -> fails tv = [] -> o = Done -> shape t o.

Lemma after_exec_shape p rs st :
  exec_ok (nroots p) st -> shape (fst (after_exec p rs st)) (snd (after_exec p rs st)).
Proof.
  intros [A B C]. unfold after_exec.
  destruct (s_errs st) as [|e0 es0] eqn:Ee.
  - assert (Hrep : reports (s_trace st) = []) by (destruct (reports (s_trace st)); [reflexivity|discriminate]).
    set (st1 := fold_left (fun st r => prepare_root st p r) rs st).
    assert (P1 : calls Prepare st st1).
    { unfold st1. apply (fold_rel (calls Prepare)); [apply calls_refl| apply calls_trans| intros; apply prepare_root_calls]. }
    set (st2 := fold_left (fun st r => validate_root st p r) rs st1).
    assert (P2 : validates st1 st2).
    { unfold st2. apply (fold_rel validates); [apply validates_refl| apply validates_trans| intros; apply validate_root_ok]. }
    destruct P1 as (_ & _ & E1 & tp & T1 & O1).
    destruct P2 as (_ & _ & tv & es & T2 & O2 & E2 & F2 & V2).
    rewrite E1, Ee in E2. cbn [app] in E2.
    destruct (s_errs st2) as [|e1 es1] eqn:Ee2.
    + set (st3 := fold_left (fun st r => finalize_root st p r) rs st2).
      assert (P3 : calls Finalize st2 st3).
      { unfold st3. apply (fold_rel (calls Finalize)); [apply calls_refl| apply calls_trans| intros; apply finalize_root_calls]. }
      destruct P3 as (_ & _ & _ & tf & T3 & O3). cbn [finish fst snd].
      apply (sh_done _ _ (s_trace st) tp tv tf); try assumption; try reflexivity.
      * rewrite T3, T2, T1. now rewrite <- !app_assoc.
      * rewrite <- F2, <- E2. reflexivity.
    + cbn [finish fst snd].
      apply (sh_validation _ _ (s_trace st) tp tv es); try assumption.
      * rewrite T2, T1. now rewrite <- !app_assoc.
      * rewrite <- F2. intro X. subst es. inversion V2 as [|x l Hx Hl]; subst.
        destruct e1 as [i|l0]; [destruct Hx|]. cbn in Hx. unfold flat_errs in X. cbn in X.
        destruct l0; [congruence|discriminate].
      * now rewrite E2.
  - cbn [finish fst snd]. apply sh_exec_errors; [assumption| |].
    + intro X. rewrite X in B. discriminate.
    + now rewrite <- B.
Qed.

Lemma exec_phase_ok p :
  match exec_phase p with
  | XDone rs st => exec_ok (nroots p) st
  | XStop st o => exec_ok (nroots p) st /\ (loop_stop o \/ (o = Done /\ s_trace st = []))
  end.
Proof.
  unfold exec_phase. pose proof (init_ok p) as H0.
  destruct (roots_of p (s_regs (init_state p))) as [rs| |] eqn:Er.
  - destruct rs as [|r rs]; [split; [assumption| right; split; reflexivity]|].
    pose proof (rounds_ok max_rounds p (r :: rs) [] (init_state p) H0) as H.
    destruct (rounds max_rounds p (r :: rs) [] (init_state p)) as [rs' st'|st' o].
    + destruct H as [[H _]|[_ ->]]; assumption.
    + destruct H as [H S]. split; [assumption| now left].
  - split; [assumption| left; now left].
  - exfalso. now apply (roots_of_not_stuck p (init_state p)).
Qed.

Theorem run_shape p : shape (fst (run_dsl p)) (snd (run_dsl p)).
Proof.
  unfold run_dsl. pose proof (exec_phase_ok p) as H.
  destruct (exec_phase p) as [rs st|st o].
  - now apply after_exec_shape.
  - destruct H as [[A _ _] S]. cbn [finish fst snd]. apply sh_loop; assumption.
Qed.

(* ------------------------------------------------------------ consequences of the shape *)

Lemma only_in ph t a : only ph t -> In a t -> ev_phase a = ph.
Proof. intros H Ha. unfold only in H. rewrite Forall_forall in H. now apply H. Qed.

Lemma shape_sorted t o : shape t o -> StronglySorted phase_le t.
Proof.
  intros [A _|A _ _|te tp tv es -> A B C _ _ _ _ _|te tp tv tf -> A B C D _ _ _]; try (eapply sorted_only; eassumption).
  - apply sorted_app; [eapply sorted_only; eassumption| |].
    + apply sorted_app; [eapply sorted_only; eassumption|eapply sorted_only; eassumption|].
      intros a b Ha Hb. unfold phase_le. rewrite (only_in _ _ _ B Ha), (only_in _ _ _ C Hb). cbn; lia.
    + intros a b Ha Hb. unfold phase_le. rewrite (only_in _ _ _ A Ha).
      apply in_app_or in Hb as [Hb|Hb]; [rewrite (only_in _ _ _ B Hb)|rewrite (only_in _ _ _ C Hb)]; cbn; lia.
  - apply sorted_app; [eapply sorted_only; eassumption| |].
    + apply sorted_app; [eapply sorted_only; eassumption| |].
      * apply sorted_app; [eapply sorted_only; eassumption|eapply sorted_only; eassumption|].
        intros a b Ha Hb. unfold phase_le. rewrite (only_in _ _ _ C Ha), (only_in _ _ _ D Hb). cbn; lia.
      * intros a b Ha Hb. unfold phase_le. rewrite (only_in _ _ _ B Ha).
        apply in_app_or in Hb as [Hb|Hb]; [rewrite (only_in _ _ _ C Hb)|rewrite (only_in _ _ _ D Hb)]; cbn; lia.
    + intros a b Ha Hb. unfold phase_le. rewrite (only_in _ _ _ A Ha).
      apply in_app_or in Hb as [Hb|Hb]; [rewrite (only_in _ _ _ B Hb)|].
      * cbn; lia.
      * apply in_app_or in Hb as [Hb|Hb]; [rewrite (only_in _ _ _ C Hb)|rewrite (only_in _ _ _ D Hb)]; cbn; lia.
Qed.

Lemma shape_blocks t o : shape t o ->
  exists te tp tv tf, t = te ++ tp ++ tv ++ tf /\
    only Exec te /\ only Prepare tp /\ only Validate tv /\ only Finalize tf.
Proof.
  intros [A _|A _ _|te tp tv es -> A B C _ _ _ _ _|te tp tv tf -> A B C D _ _ _].
  - exists t, [], [], []. rewrite !app_nil_r. repeat split; try assumption; constructor.
  - exists t, [], [], []. rewrite !app_nil_r. repeat split; try assumption; constructor.
  - exists te, tp, tv, []. rewrite !app_nil_r. repeat split; try assumption; constructor.
  - exists te, tp, tv, tf. repeat split; assumption.
Qed.

Lemma shape_exec_errors t o : shape t o -> reports t <> [] ->
  only Exec t /\ (o = Errs (map XErr (reports t)) \/ loop_stop o).
Proof.
  intros [A S|A _ E|te tp tv es -> A B C R _ _ _ _|te tp tv tf -> A B C D R _ _] H.
  - split; [assumption|]. destruct S as [S|[_ ->]]; [now right| exfalso; now apply H].
  - split; [assumption| now left].
  - exfalso. apply H. rewrite !reports_app, R, (reports_only _ _ B), (reports_only _ _ C); [reflexivity|discriminate|discriminate].
  - exfalso. apply H. rewrite !reports_app, R, (reports_only _ _ B), (reports_only _ _ C), (reports_only _ _ D); [reflexivity|discriminate|discriminate|discriminate].
Qed.

Lemma shape_validation_errors t o : shape t o -> fails t <> [] ->
  exists es, o = Errs es /\ flat_errs es = fails t /\ Forall is_verr es /\
    reports t = [] /\ forall e, In e t -> ev_phase e <> Finalize.
Proof.
  intros [A S|A _ E|te tp tv es -> A B C R F O FE V|te tp tv tf -> A B C D R F _] H.
  - exfalso. apply H. apply (fails_only _ _ A). discriminate.
  - exfalso. apply H. apply (fails_only _ _ A). discriminate.
  - exists es. rewrite !fails_app, (fails_only _ _ A), (fails_only _ _ B) by discriminate. cbn [app].
    repeat split; try assumption.
    + rewrite !reports_app, R, (reports_only _ _ B), (reports_only _ _ C); [reflexivity|discriminate|discriminate].
    + intros e He X. apply in_app_or in He as [He|He]; [rewrite (only_in _ _ _ A He) in X; discriminate|].
      apply in_app_or in He as [He|He]; [rewrite (only_in _ _ _ B He) in X| rewrite (only_in _ _ _ C He) in X]; discriminate.
  - exfalso. apply H.
    rewrite !fails_app, (fails_only _ _ A), (fails_only _ _ B), F, (fails_only _ _ D); [reflexivity|discriminate|discriminate|discriminate].
Qed.

Lemma shape_done t o : shape t o -> o = Done -> reports t = [] /\ fails t = [].
Proof.
  intros [A S|A _ E|te tp tv es -> A B C R F O FE V|te tp tv tf -> A B C D R F _] H.
  - destruct S as [[S|S]|[_ ->]]; [congruence|congruence|split; reflexivity].
  - congruence.
  - congruence.
  - split.
    + rewrite !reports_app, R, (reports_only _ _ B), (reports_only _ _ C), (reports_only _ _ D); [reflexivity|discriminate|discriminate|discriminate].
    + rewrite !fails_app, (fails_only _ _ A), (fails_only _ _ B), F, (fails_only _ _ D); [reflexivity|discriminate|discriminate|discriminate].
Qed.

Lemma shape_finalize t o : shape t o -> (exists e, In e t /\ ev_phase e = Finalize) -> o = Done.
Proof.
  intros [A S|A _ E|te tp tv es -> A B C R F O FE V|te tp tv tf -> A B C D R F O] (e & He & X); try assumption.
  - rewrite (only_in _ _ _ A He) in X; discriminate.
  - rewrite (only_in _ _ _ A He) in X; discriminate.
  - exfalso. apply in_app_or in He as [He|He]; [rewrite (only_in _ _ _ A He) in X; discriminate|].
    apply in_app_or in He as [He|He]; [rewrite (only_in _ _ _ B He) in X| rewrite (only_in _ _ _ C He) in X]; discriminate.
Qed.

Lemma shape_not_stuck t o : shape t o -> o <> Stuck.
Proof.
  intros [A S|A _ E|te tp tv es -> A B C R F O FE V|te tp tv tf -> A B C D R F O]; try congruence.
  destruct S as [[S|S]|[S _]]; congruence.
Qed.
