(* C11 - proofs about the model of DSLContext.Roots(): termination (depth fuel),
   completeness/soundness of the flattened dependency lists, cycle detection,
   topological order of the result. *)
From Coq Require Import List Bool Arith Lia Permutation.
Import ListNotations.
From Eval Require Import Model.

Lemma memb_In x l : memb x l = true <-> In x l.
Proof.
  unfold memb. rewrite existsb_exists. split.
  - intros (y & Hy & E). apply Nat.eqb_eq in E. now subst.
  - intro H. exists x. split; [assumption| apply Nat.eqb_refl].
Qed.

Lemma memb_false x l : memb x l = false <-> ~ In x l.
Proof. rewrite <- memb_In. destruct (memb x l); split; congruence. Qed.

(* ------------------------------------------------------------ list facts *)

Lemma snoc_split {A} (l : list A) a l1 x l2 :
  l ++ [a] = l1 ++ x :: l2 ->
  (l2 = [] /\ x = a /\ l1 = l) \/ (exists l2', l2 = l2' ++ [a] /\ l = l1 ++ x :: l2').
Proof.
  intro H. destruct (exists_last (l := x :: l2)) as (l2' & b & E); [discriminate|].
  rewrite E in H. rewrite app_assoc in H. apply app_inj_tail in H as [H1 H2]. subst b.
  destruct l2' as [|y l2'].
  - left. simpl in E. injection E as -> ->. rewrite app_nil_r in H1. auto.
  - right. simpl in E. injection E as -> ->. exists l2'. split; [reflexivity|assumption].
Qed.

Lemma filter_length_le {A} (f g : A -> bool) (U : list A) :
  (forall u, In u U -> g u = true -> f u = true) ->
  length (filter g U) <= length (filter f U).
Proof.
  induction U as [|a U IH]; intro H; simpl; [lia|].
  assert (IH' := IH (fun u Hu => H u (or_intror Hu))).
  destruct (g a) eqn:Eg.
  - rewrite (H a (or_introl eq_refl) Eg). simpl. lia.
  - destruct (f a); simpl; lia.
Qed.

Lemma NoDup_app_snoc {A} (l : list A) x : NoDup l -> ~ In x l -> NoDup (l ++ [x]).
Proof.
  intros Hn Hx. induction Hn as [|a l Ha Hn IH]; simpl; [constructor; [intros []|constructor]|].
  constructor.
  - intro X. apply in_app_or in X. destruct X as [X|[X|[]]]; [contradiction|]. subst. apply Hx. now left.
  - apply IH. intro X. apply Hx. now right.
Qed.

Lemma filter_len_le {A} (f : A -> bool) (l : list A) : length (filter f l) <= length l.
Proof. induction l as [|a l IH]; simpl; [lia|]. destruct (f a); simpl; lia. Qed.

Lemma filter_length_lt {A} (f g : A -> bool) (U : list A) x :
  (forall u, In u U -> g u = true -> f u = true) ->
  In x U -> f x = true -> g x = false ->
  length (filter g U) < length (filter f U).
Proof.
  induction U as [|a U IH]; intros H Hx Hf Hg; [destruct Hx|].
  assert (Hle := filter_length_le f g U (fun u Hu => H u (or_intror Hu))).
  simpl. destruct Hx as [->|Hx].
  - rewrite Hf, Hg. simpl. lia.
  - assert (IH' := IH (fun u Hu => H u (or_intror Hu)) Hx Hf Hg).
    destruct (g a) eqn:Eg.
    + rewrite (H a (or_introl eq_refl) Eg). simpl. lia.
    + destruct (f a); simpl; lia.
Qed.

Lemma sequence_map_some {A B} (f : A -> option B) (l : list A) :
  (forall x, In x l -> exists y, f x = Some y) ->
  exists ys, sequence (map f l) = Some ys /\ Forall2 (fun x y => f x = Some y) l ys.
Proof.
  induction l as [|a l IH]; intro H; simpl.
  - exists []. split; [reflexivity|constructor].
  - destruct (H a (or_introl eq_refl)) as [y Hy]. rewrite Hy.
    destruct (IH (fun x Hx => H x (or_intror Hx))) as (ys & E & F). rewrite E. simpl.
    exists (y :: ys). split; [reflexivity|]. constructor; assumption.
Qed.

Lemma sequence_map_inv {A B} (f : A -> option B) (l : list A) ys :
  sequence (map f l) = Some ys -> Forall2 (fun x y => f x = Some y) l ys.
Proof.
  revert ys. induction l as [|a l IH]; intros ys H; simpl in H.
  - injection H as <-. constructor.
  - destruct (f a) as [y|] eqn:E; [|discriminate].
    destruct (sequence (map f l)) as [zs|] eqn:E2; [|discriminate]. simpl in H. injection H as <-.
    constructor; [assumption| now apply IH].
Qed.

Lemma Forall2_imp {A B} (P Q : A -> B -> Prop) l l' :
  Forall2 P l l' -> (forall x y, P x y -> Q x y) -> Forall2 Q l l'.
Proof. intros F H. induction F; constructor; auto. Qed.

Lemma Forall2_in_l {A B} (P : A -> B -> Prop) l l' x :
  Forall2 P l l' -> In x l -> exists y, In y l' /\ P x y.
Proof.
  intros F. induction F as [|a b l l' H F IH]; intros Hx; [destruct Hx|].
  destruct Hx as [<-|Hx]; [exists b; split; [now left|assumption]|].
  destruct (IH Hx) as (y & Hy & Py). exists y. split; [now right|assumption].
Qed.

Lemma Forall2_in_r {A B} (P : A -> B -> Prop) l l' y :
  Forall2 P l l' -> In y l' -> exists x, In x l /\ P x y.
Proof.
  intros F. induction F as [|a b l l' H F IH]; intros Hy; [destruct Hy|].
  destruct Hy as [<-|Hy]; [exists a; split; [now left|assumption]|].
  destruct (IH Hy) as (x & Hx & Px). exists x. split; [now right|assumption].
Qed.

(* ------------------------------------------------------------ the DFS, generic facts *)

Section DFS.
Variable df : nat -> list nat.

Inductive reach : nat -> nat -> Prop :=
| reach_refl x : reach x x
| reach_step x d y : In d (df x) -> reach d y -> reach x y.

Lemma reach_trans a b c : reach a b -> reach b c -> reach a c.
Proof. induction 1 as [x|x d y Hd _ IH]; intro Hbc; [assumption|]. eapply reach_step; [exact Hd| now apply IH]. Qed.

Lemma reach_edge a b : In b (df a) -> reach a b.
Proof. intro H. eapply reach_step; [exact H| apply reach_refl]. Qed.

(* seen only grows, the sorted slice is only extended *)
Definition grows (s s' : dstate) : Prop :=
  incl (fst s) (fst s') /\ exists e, snd s' = snd s ++ e.

Lemma grows_refl s : grows s s.
Proof. split; [apply incl_refl| exists []; now rewrite app_nil_r]. Qed.

Lemma grows_trans a b c : grows a b -> grows b c -> grows a c.
Proof.
  intros [H1 [e1 E1]] [H2 [e2 E2]]. split; [eapply incl_tran; eauto|].
  exists (e1 ++ e2). rewrite E2, E1. now rewrite app_assoc.
Qed.

Lemma loop_grows rec root :
  (forall d s s', rec d s = Some s' -> grows s s') ->
  forall ds st st', sdr_loop rec root ds st = Some st' -> grows st st'.
Proof.
  intros Hrec. induction ds as [|d ds IH]; intros st st' H; cbn [sdr_loop] in H.
  - injection H as <-. apply grows_refl.
  - destruct (memb d (fst st)); [now apply IH|].
    destruct (rec d (root :: fst st, snd st)) as [s2|] eqn:E; [|discriminate].
    apply Hrec in E. apply IH in H. eapply grows_trans; [|exact H].
    destruct E as [E1 E2]. split; [|exact E2]. cbn [fst] in E1. intros x Hx. apply E1. now right.
Qed.

Lemma sdr_grows fuel : forall root st st', sdr fuel df root st = Some st' -> grows st st'.
Proof.
  induction fuel as [|f IH]; intros root st st' H; [discriminate|]. cbn [sdr] in H.
  destruct (sdr_loop (sdr f df) root (df root) st) as [[seen out]|] eqn:E; [|discriminate].
  injection H as <-. apply (loop_grows _ _ (fun d s s' => IH d s s')) in E.
  destruct E as [E1 [e E2]]. split; [exact E1|]. cbn [snd fst] in *. exists (e ++ [root]).
  rewrite E2. now rewrite app_assoc.
Qed.

(* ---- termination: depth fuel 2|U|+2 suffices on any graph closed in U *)
Section Fuel.
Variable U : list nat.
Hypothesis Uclosed : forall x d, In d (df x) -> In d U.

Definition unseen (s : list nat) : nat := length (filter (fun u => negb (memb u s)) U).

Lemma unseen_le s s' : incl s s' -> unseen s' <= unseen s.
Proof.
  intro H. apply filter_length_le. intros u _ Hu. apply negb_true_iff in Hu. apply negb_true_iff.
  apply memb_false. apply memb_false in Hu. intro X. apply Hu. now apply H.
Qed.

Lemma unseen_lt s s' x : incl s s' -> In x U -> ~ In x s -> In x s' -> unseen s' < unseen s.
Proof.
  intros H Hx Hn Hi. apply filter_length_lt with (x := x); try assumption.
  - intros u _ Hu. apply negb_true_iff in Hu. apply negb_true_iff.
    apply memb_false. apply memb_false in Hu. intro X. apply Hu. now apply H.
  - apply negb_true_iff. now apply memb_false.
  - apply negb_false_iff. now apply memb_In.
Qed.

Lemma unseen_pos s x : In x U -> ~ In x s -> 1 <= unseen s.
Proof.
  intros Hx Hn. unfold unseen.
  assert (In x (filter (fun u => negb (memb u s)) U)) as Hin.
  { apply filter_In. split; [assumption|]. apply negb_true_iff. now apply memb_false. }
  destruct (filter (fun u => negb (memb u s)) U); [destruct Hin| simpl; lia].
Qed.

Definition need (root : nat) (s : list nat) : nat :=
  2 * unseen s + (if memb root s then 1 else 0).

Lemma sdr_fuel_enough fuel : forall root st,
  In root U -> 1 <= fuel -> need root (fst st) <= fuel ->
  exists st', sdr fuel df root st = Some st'.
Proof.
  induction fuel as [|f IH]; intros root st Hroot H1 Hneed; [lia|].
  cbn [sdr].
  assert (Hloop : forall ds s, incl ds U -> incl (fst st) (fst s) ->
            exists s', sdr_loop (sdr f df) root ds s = Some s').
  { induction ds as [|d ds IHds]; intros s Hds Hs; cbn [sdr_loop]; [eauto|].
    assert (Hds' : incl ds U) by (intros x Hx; apply Hds; now right).
    assert (Hd : In d U) by (apply Hds; now left).
    destruct (memb d (fst s)) eqn:Em; [now apply IHds|].
    apply memb_false in Em.
    assert (Hinc : incl (fst st) (root :: fst s)) by (intros x Hx; right; now apply Hs).
    assert (exists s2, sdr f df d (root :: fst s, snd s) = Some s2) as [s2 E2].
    { unfold need in Hneed.
      destruct (Nat.eq_dec d root) as [->|Hne].
      - (* self dependency, root not marked yet *)
        assert (~ In root (fst st)) as Hn0 by (intro X; apply Em; now apply Hs).
        assert (memb root (fst st) = false) as Em0 by now apply memb_false.
        rewrite Em0 in Hneed.
        assert (Hlt := unseen_lt (fst st) (root :: fst s) root Hinc Hroot Hn0 (or_introl eq_refl)).
        apply IH; [assumption| lia |]. cbn [fst]. unfold need.
        assert (memb root (root :: fst s) = true) as -> by (apply memb_In; now left). lia.
      - assert (~ In d (root :: fst s)) as Hnd by (intros [X|X]; [congruence| contradiction]).
        assert (Hpos := unseen_pos (root :: fst s) d Hd Hnd).
        assert (Hle := unseen_le (fst st) (root :: fst s) Hinc).
        assert (memb d (root :: fst s) = false) as Emd by now apply memb_false.
        destruct (memb root (fst st)) eqn:Em0.
        + apply IH; [assumption| lia |]. cbn [fst]. unfold need. rewrite Emd. lia.
        + apply memb_false in Em0.
          assert (Hlt := unseen_lt (fst st) (root :: fst s) root Hinc Hroot Em0 (or_introl eq_refl)).
          apply IH; [assumption| lia |]. cbn [fst]. unfold need. rewrite Emd. lia. }
    rewrite E2. apply IHds; [assumption|].
    apply sdr_grows in E2. destruct E2 as [E2 _]. cbn [fst] in E2.
    intros x Hx. apply E2. right. now apply Hs. }
  destruct (Hloop (df root) st) as [[seen out] E].
  - intros d Hd. eapply Uclosed; eauto.
  - apply incl_refl.
  - rewrite E. eauto.
Qed.

Lemma sort_deps_fuel root : In root U ->
  exists s, sort_deps (S (S (2 * length U))) df root = Some s.
Proof.
  intro Hroot. unfold sort_deps.
  destruct (sdr_fuel_enough (S (S (2 * length U))) root ([], []) Hroot) as [st' E]; [lia| |].
  - unfold need, unseen. cbn [fst]. change (memb root []) with false.
    pose proof (filter_len_le (fun u => negb (memb u [])) U). cbv iota. lia.
  - rewrite E. simpl. eauto.
Qed.
End Fuel.

(* ---- soundness: everything appended is reachable from the root *)
Lemma sdr_sound fuel : forall root st st',
  sdr fuel df root st = Some st' ->
  forall x, In x (snd st') -> In x (snd st) \/ reach root x.
Proof.
  induction fuel as [|f IH]; intros root st st' H; [discriminate|]. cbn [sdr] in H.
  assert (Hloop : forall ds s s', incl ds (df root) -> sdr_loop (sdr f df) root ds s = Some s' ->
            forall x, In x (snd s') -> In x (snd s) \/ reach root x).
  { induction ds as [|d ds IHds]; intros s s' Hds Hl x Hx; cbn [sdr_loop] in Hl.
    - injection Hl as <-. now left.
    - assert (Hds' : incl ds (df root)) by (intros y Hy; apply Hds; now right).
      destruct (memb d (fst s)); [now apply (IHds _ _ Hds' Hl)|].
      destruct (sdr f df d (root :: fst s, snd s)) as [s2|] eqn:E; [|discriminate].
      destruct (IHds _ _ Hds' Hl x Hx) as [X|X]; [|now right].
      destruct (IH _ _ _ E x X) as [Y|Y]; [now left|]. right.
      eapply reach_step; [apply Hds; now left| exact Y]. }
  destruct (sdr_loop (sdr f df) root (df root) st) as [[seen out]|] eqn:E; [|discriminate].
  injection H as <-. intros x Hx. cbn [snd] in Hx. apply in_app_or in Hx. destruct Hx as [Hx|[<-|[]]].
  - apply (Hloop _ _ _ (incl_refl _) E x Hx).
  - right. apply reach_refl.
Qed.

(* ---- completeness: pending-set invariant
   I1: every marked node is appended or pending
   I2: every dependency of an appended node is appended or pending *)
Definition Inv (P : list nat) (st : dstate) : Prop :=
  (forall x, In x (fst st) -> In x (snd st) \/ In x P) /\
  (forall x, In x (snd st) -> forall d, In d (df x) -> In d (snd st) \/ In d P).

Lemma sdr_inv fuel : forall root P st st',
  Inv P st -> sdr fuel df root st = Some st' ->
  Inv P st' /\ In root (snd st').
Proof.
  induction fuel as [|f IH]; intros root P st st' HI H; [discriminate|].
  cbn [sdr] in H.
  assert (Hloop : forall ds st0 st1,
            Inv (root :: P) st0 -> sdr_loop (sdr f df) root ds st0 = Some st1 ->
            Inv (root :: P) st1 /\
            (forall d, In d ds -> In d (snd st1) \/ In d (root :: P))).
  { induction ds as [|d ds IHds]; intros st0 st1 HI0 Hl; cbn [sdr_loop] in Hl.
    - injection Hl as <-. split; [exact HI0|]. intros d [].
    - destruct (memb d (fst st0)) eqn:Em.
      + destruct (IHds _ _ HI0 Hl) as (A & C). split; [exact A|].
        intros d' [<-|Hd']; [|now apply C].
        apply memb_In in Em. destruct HI0 as [I1 _]. destruct (I1 _ Em) as [X|X]; [left| now right].
        apply (loop_grows _ _ (fun d s s' => sdr_grows f d s s')) in Hl.
        destruct Hl as [_ [e ->]]. apply in_or_app. now left.
      + destruct (sdr f df d (root :: fst st0, snd st0)) as [st2|] eqn:Es; [|discriminate].
        assert (Inv (root :: P) (root :: fst st0, snd st0)) as HI0'.
        { destruct HI0 as [I1 I2]. split; cbn [fst snd]; [|exact I2].
          intros x [<-|Hx]; [right; now left| now apply I1]. }
        destruct (IH _ _ _ _ HI0' Es) as (HI2 & Hd2).
        destruct (IHds _ _ HI2 Hl) as (A & C). split; [exact A|].
        intros d' [<-|Hd']; [left| now apply C].
        apply (loop_grows _ _ (fun d s s' => sdr_grows f d s s')) in Hl.
        destruct Hl as [_ [e ->]]. apply in_or_app. now left. }
  destruct (sdr_loop (sdr f df) root (df root) st) as [[seen out]|] eqn:El; [|discriminate].
  injection H as <-.
  assert (Inv (root :: P) st) as HIr.
  { destruct HI as [I1 I2]. split.
    - intros x Hx. destruct (I1 _ Hx); [now left| right; now right].
    - intros x Hx d Hd. destruct (I2 _ Hx _ Hd); [now left| right; now right]. }
  destruct (Hloop _ _ _ HIr El) as ([I1 I2] & Hdeps). cbn [fst snd] in *.
  split; [split|]; cbn [fst snd].
  - intros x Hx. destruct (I1 _ Hx) as [X|[<-|X]].
    + left. apply in_or_app. now left.
    + left. apply in_or_app. right. now left.
    + now right.
  - intros x Hx d Hd. apply in_app_or in Hx. destruct Hx as [Hx|[<-|[]]].
    + destruct (I2 _ Hx _ Hd) as [X|[<-|X]].
      * left. apply in_or_app. now left.
      * left. apply in_or_app. right. now left.
      * now right.
    + destruct (Hdeps _ Hd) as [X|[<-|X]].
      * left. apply in_or_app. now left.
      * left. apply in_or_app. right. now left.
      * now right.
  - apply in_or_app. right. now left.
Qed.

Lemma sort_deps_spec fuel root out :
  sort_deps fuel df root = Some out -> forall y, In y out <-> reach root y.
Proof.
  unfold sort_deps. destruct (sdr fuel df root ([], [])) as [[seen o]|] eqn:E; [|discriminate].
  cbn. intros [= <-] y. split.
  - intro Hy. destruct (sdr_sound _ _ _ _ E y Hy) as [[]|X]. exact X.
  - intro Hy.
    assert (Inv [] ([], [])) as H0 by (split; cbn; tauto).
    destruct (sdr_inv _ _ _ _ _ H0 E) as ([_ I2] & Hroot). cbn [fst snd] in *.
    assert (Hcl : forall a b, reach a b -> In a o -> In b o).
    { clear Hy Hroot E. induction 1 as [x|x d z Hd _ IHr]; intro Hx; [assumption|].
      apply IHr. destruct (I2 _ Hx _ Hd) as [X|[]]. exact X. }
    exact (Hcl _ _ Hy Hroot).
Qed.

(* ---- order: on a graph whose only cycles are self loops, every node is appended
   after all its other dependencies *)
Definition ordered (out : list nat) : Prop :=
  forall l1 x l2, out = l1 ++ x :: l2 -> forall d, In d (df x) -> d <> x -> In d l1.

Lemma ordered_nil : ordered [].
Proof. intros l1 x l2 H. destruct l1; discriminate. Qed.

Lemma ordered_snoc out x :
  ordered out -> (forall d, In d (df x) -> d <> x -> In d out) -> ordered (out ++ [x]).
Proof.
  intros Ho Hx l1 y l2 E d Hd Hne. apply snoc_split in E.
  destruct E as [(-> & -> & ->)|(l2' & -> & ->)].
  - now apply Hx.
  - eapply Ho; eauto.
Qed.

Section Order.
Hypothesis anti : forall a b, reach a b -> reach b a -> a = b.

Lemma sdr_ordered fuel : forall root P st st',
  (forall x, In x (fst st) -> In x (snd st) \/ In x P) ->
  (forall p, In p P -> reach p root) ->
  ordered (snd st) ->
  sdr fuel df root st = Some st' ->
  (forall x, In x (fst st') -> In x (snd st') \/ In x P) /\ ordered (snd st') /\ In root (snd st').
Proof.
  induction fuel as [|f IH]; intros root P st st' H1 HP Ho H; [discriminate|].
  cbn [sdr] in H.
  assert (Hloop : forall ds s0 s1, incl ds (df root) ->
            (forall x, In x (fst s0) -> In x (snd s0) \/ In x (root :: P)) ->
            ordered (snd s0) ->
            sdr_loop (sdr f df) root ds s0 = Some s1 ->
            (forall x, In x (fst s1) -> In x (snd s1) \/ In x (root :: P)) /\ ordered (snd s1) /\
            (forall d, In d ds -> d <> root -> In d (snd s1))).
  { induction ds as [|d ds IHds]; intros s0 s1 Hds I1 O0 Hl; cbn [sdr_loop] in Hl.
    - injection Hl as <-. repeat split; try assumption. intros d [].
    - assert (Hds' : incl ds (df root)) by (intros y Hy; apply Hds; now right).
      assert (Hd : In d (df root)) by (apply Hds; now left).
      destruct (memb d (fst s0)) eqn:Em.
      + destruct (IHds _ _ Hds' I1 O0 Hl) as (A & B & C). repeat split; try assumption.
        intros d' [<-|Hd'] Hne; [|now apply C].
        apply memb_In in Em. destruct (I1 _ Em) as [X|[X|X]].
        * apply (loop_grows _ _ (fun d s s' => sdr_grows f d s s')) in Hl.
          destruct Hl as [_ [e ->]]. apply in_or_app. now left.
        * congruence.
        * exfalso. apply Hne. apply anti; [apply HP in X; exact X| now apply reach_edge].
      + destruct (sdr f df d (root :: fst s0, snd s0)) as [s2|] eqn:Es; [|discriminate].
        assert (Q1 : forall x, In x (fst (root :: fst s0, snd s0)) ->
                     In x (snd (root :: fst s0, snd s0)) \/ In x (root :: P)).
        { cbn [fst snd]. intros x [<-|Hx]; [right; now left| now apply I1]. }
        assert (Q2 : forall p, In p (root :: P) -> reach p d).
        { intros p [<-|Hp]; [now apply reach_edge|].
          eapply reach_trans; [apply HP; exact Hp| now apply reach_edge]. }
        destruct (IH d (root :: P) _ _ Q1 Q2 O0 Es) as (A2 & B2 & C2).
        destruct (IHds _ _ Hds' A2 B2 Hl) as (A & B & C). repeat split; try assumption.
        intros d' [<-|Hd'] Hne; [|now apply C].
        apply (loop_grows _ _ (fun d s s' => sdr_grows f d s s')) in Hl.
        destruct Hl as [_ [e ->]]. apply in_or_app. now left. }
  destruct (sdr_loop (sdr f df) root (df root) st) as [[seen out]|] eqn:El; [|discriminate].
  injection H as <-.
  assert (Q0 : forall x, In x (fst st) -> In x (snd st) \/ In x (root :: P)).
  { intros x Hx. destruct (H1 x Hx); [now left| right; now right]. }
  destruct (Hloop _ _ _ (incl_refl _) Q0 Ho El) as (A & B & C). cbn [fst snd] in *.
  repeat split.
  - intros x Hx. destruct (A _ Hx) as [X|[<-|X]].
    + left. apply in_or_app. now left.
    + left. apply in_or_app. right. now left.
    + now right.
  - apply ordered_snoc; assumption.
  - apply in_or_app. right. now left.
Qed.

Lemma sort_deps_ordered fuel root out :
  sort_deps fuel df root = Some out -> ordered out /\ In root out.
Proof.
  unfold sort_deps. destruct (sdr fuel df root ([], [])) as [[seen o]|] eqn:E; [|discriminate].
  cbn. intros [= <-].
  assert (Q1 : forall x, In x (fst (@nil nat, @nil nat)) -> In x (snd (@nil nat, @nil nat)) \/ In x []) by (intros x []).
  assert (Q2 : forall p, In p [] -> reach p root) by (intros p []).
  destruct (sdr_ordered fuel root [] ([], []) _ Q1 Q2 ordered_nil E) as (_ & B & C).
  split; assumption.
Qed.
End Order.

(* ---- the first-occurrence merge keeps the order and removes duplicates *)
Definition add_post (acc s r : list nat) : Prop :=
  NoDup r /\ ordered r /\ incl acc r /\ incl s r /\ (forall x, In x r -> In x acc \/ In x s).

Definition merge_post (acc : list nat) (ss : list (list nat)) (r : list nat) : Prop :=
  NoDup r /\ ordered r /\ incl acc r /\ (forall s, In s ss -> incl s r) /\
  (forall x, In x r -> In x acc \/ exists s, In s ss /\ In x s).

Lemma add_new_fold s2 : forall s1 acc,
  ordered (s1 ++ s2) -> incl s1 acc -> NoDup acc -> ordered acc ->
  add_post acc s2 (fold_left add_new s2 acc).
Proof.
  unfold add_post. induction s2 as [|x s2 IH]; intros s1 acc Hs Hi Hn Ho; cbn [fold_left].
  - repeat split; try assumption; try apply incl_refl. + intros y []. + now left.
  - assert (Hs' : ordered ((s1 ++ [x]) ++ s2)) by (rewrite <- app_assoc; exact Hs).
    change (add_new acc x) with (if memb x acc then acc else acc ++ [x]). destruct (memb x acc) eqn:Em.
    + apply memb_In in Em.
      destruct (IH (s1 ++ [x]) acc Hs') as (A & B & C & D & F); try assumption.
      { intros y Hy. apply in_app_or in Hy. destruct Hy as [Hy|[<-|[]]]; [now apply Hi| assumption]. }
      repeat split; try assumption.
      * intros y [<-|Hy]; [now apply C| now apply D].
      * intros y Hy. destruct (F y Hy); [now left| right; now right].
    + apply memb_false in Em.
      destruct (IH (s1 ++ [x]) (acc ++ [x]) Hs') as (A & B & C & D & F).
      { intros y Hy. apply in_or_app. apply in_app_or in Hy. destruct Hy as [Hy|Hy]; [left; now apply Hi| now right]. }
      { apply NoDup_app_snoc; assumption. }
      { apply ordered_snoc; [assumption|]. intros d Hd Hne. apply Hi. eapply Hs; eauto. }
      repeat split; try assumption.
      * intros y Hy. apply C. apply in_or_app. now left.
      * intros y [<-|Hy]; [apply C; apply in_or_app; right; now left| now apply D].
      * intros y Hy. destruct (F y Hy) as [X|X]; [|right; now right].
        apply in_app_or in X. destruct X as [X|[<-|[]]]; [now left| right; now left].
Qed.

Lemma merge_fold ss : forall acc,
  (forall s, In s ss -> ordered s) -> NoDup acc -> ordered acc ->
  merge_post acc ss (fold_left (fun acc s => fold_left add_new s acc) ss acc).
Proof.
  unfold merge_post. induction ss as [|s ss IH]; intros acc Hs Hn Ho; cbn [fold_left].
  - repeat split; try assumption; try apply incl_refl. + intros s []. + now left.
  - destruct (add_new_fold s [] acc) as (A & B & C & D & F); try assumption.
    { apply Hs. now left. } { intros y []. }
    destruct (IH (fold_left add_new s acc)) as (A2 & B2 & C2 & D2 & F2); try assumption.
    { intros s' Hs'. apply Hs. now right. }
    repeat split; try assumption.
    + eapply incl_tran; eassumption.
    + intros s' [<-|Hs']; [eapply incl_tran; eassumption| now apply D2].
    + intros x Hx. destruct (F2 x Hx) as [X|(s' & Hs' & X)].
      * destruct (F x X) as [Y|Y]; [now left| right; exists s; split; [now left| assumption]].
      * right. exists s'. split; [now right| assumption].
Qed.

End DFS.

(* the first-occurrence merge without any order assumption *)
Definition merge_basic (acc : list nat) (ss : list (list nat)) (r : list nat) : Prop :=
  NoDup r /\ incl acc r /\ (forall s, In s ss -> incl s r) /\
  (forall x, In x r -> In x acc \/ exists s, In s ss /\ In x s).

Lemma add_new_fold_basic s : forall acc, NoDup acc ->
  NoDup (fold_left add_new s acc) /\ incl acc (fold_left add_new s acc) /\ incl s (fold_left add_new s acc) /\
  (forall x, In x (fold_left add_new s acc) -> In x acc \/ In x s).
Proof.
  induction s as [|x s IH]; intros acc Hn; cbn [fold_left].
  - repeat split; try assumption; try apply incl_refl. + intros y []. + now left.
  - assert (Hn' : NoDup (add_new acc x)).
    { unfold add_new. destruct (memb x acc) eqn:Em; [assumption|]. apply memb_false in Em. now apply NoDup_app_snoc. }
    assert (Hi : incl acc (add_new acc x) /\ In x (add_new acc x) /\ forall y, In y (add_new acc x) -> In y acc \/ y = x).
    { unfold add_new. destruct (memb x acc) eqn:Em.
      - apply memb_In in Em. repeat split; [apply incl_refl| assumption| now left].
      - repeat split; [intros y Hy; apply in_or_app; now left| apply in_or_app; right; now left|].
        intros y Hy. apply in_app_or in Hy as [Hy|[<-|[]]]; auto. }
    destruct Hi as (I1 & I2 & I3). destruct (IH _ Hn') as (A & B & C & D). repeat split; try assumption.
    + eapply incl_tran; eassumption.
    + intros y [<-|Hy]; [now apply B| now apply C].
    + intros y Hy. destruct (D y Hy) as [X|X]; [|right; now right].
      destruct (I3 y X) as [Y|Y]; [now left| right; left; now symmetry].
Qed.

Lemma merge_fold_basic ss : forall acc, NoDup acc ->
  merge_basic acc ss (fold_left (fun acc s => fold_left add_new s acc) ss acc).
Proof.
  unfold merge_basic. induction ss as [|s ss IH]; intros acc Hn; cbn [fold_left].
  - repeat split; try assumption; try apply incl_refl. + intros s []. + now left.
  - destruct (add_new_fold_basic s acc Hn) as (A & B & C & D).
    destruct (IH _ A) as (A2 & B2 & C2 & D2). repeat split; try assumption.
    + eapply incl_tran; eassumption.
    + intros s' [<-|Hs']; [eapply incl_tran; eassumption| now apply C2].
    + intros x Hx. destruct (D2 x Hx) as [X|(s' & Hs' & X)].
      * destruct (D x X) as [Y|Y]; [now left| right; exists s; split; [now left| assumption]].
      * right. exists s'. split; [now right| assumption].
Qed.

(* ------------------------------------------------------------ Roots() *)

Lemma reach_mono (f g : nat -> list nat) a b :
  (forall x d, In d (f x) -> reach g x d) -> reach f a b -> reach g a b.
Proof.
  intros H. induction 1 as [x|x d y Hd _ IH]; [apply reach_refl|].
  eapply reach_trans; [apply H; exact Hd| exact IH].
Qed.

Section Roots.
Variable n : nat.
Variable deps : nat -> list nat.
Variable regs : list nat.
Hypothesis Hdeps : forall x d, In d (deps x) -> d < n.
Hypothesis Hregs : forall r, In r regs -> r < n.

Let fuel := depth_fuel n.

Lemma fuel_eq : fuel = S (S (2 * length (seq 0 n))).
Proof. unfold fuel, depth_fuel. now rewrite seq_length. Qed.

Lemma in_U x : In x (seq 0 n) <-> x < n.
Proof. rewrite in_seq. lia. Qed.

Lemma reach_lt a b : a < n -> reach deps a b -> b < n.
Proof. intros Ha H. induction H as [x|x d y Hd _ IH]; [assumption|]. apply IH. eapply Hdeps; eauto. Qed.

Lemma pass1_some r : r < n -> exists s, sort_deps fuel deps r = Some s.
Proof.
  intro Hr. rewrite fuel_eq. apply sort_deps_fuel.
  - intros x d Hd. apply in_U. eapply Hdeps; eauto.
  - now apply in_U.
Qed.

Definition entry_ok (r : nat) (p : nat * list nat) : Prop :=
  exists s, sort_deps fuel deps r = Some s /\ p = (r, rev s).

Lemma flat_table_ok : exists tbl, flat_table fuel deps regs = Some tbl /\ Forall2 entry_ok regs tbl.
Proof.
  unfold flat_table.
  destruct (sequence_map_some (fun r => option_map (fun s => (r, rev s)) (sort_deps fuel deps r)) regs) as (tbl & E & F).
  - intros r Hr. destruct (pass1_some r (Hregs r Hr)) as [s ->]. simpl. eauto.
  - exists tbl. split; [exact E|].
    eapply Forall2_imp; [exact F|]. intros r p H. cbv beta in H.
    destruct (sort_deps fuel deps r) as [s|] eqn:Es; [|discriminate]. simpl in H. injection H as <-.
    exists s. split; [assumption|reflexivity].
Qed.

Lemma flat_table_inv tbl : flat_table fuel deps regs = Some tbl -> Forall2 entry_ok regs tbl.
Proof.
  intro E. destruct flat_table_ok as (tbl' & E' & F). congruence.
Qed.

Lemma lookup_in_gen l t r : Forall2 entry_ok l t -> In r l ->
  exists s, sort_deps fuel deps r = Some s /\ lookup t r = rev s.
Proof.
  intro F. induction F as [|r0 p l l' H F IH]; intro Hr; [destruct Hr|].
  destruct H as (s0 & Es0 & ->). unfold lookup. cbn [find fst].
  destruct (Nat.eqb r0 r) eqn:E.
  - apply Nat.eqb_eq in E. subst. exists s0. split; [assumption|reflexivity].
  - destruct Hr as [->|Hr]; [rewrite Nat.eqb_refl in E; discriminate|].
    apply IH. exact Hr.
Qed.

Lemma lookup_notin_gen l t r : Forall2 entry_ok l t -> ~ In r l -> lookup t r = [].
Proof.
  intro F. induction F as [|r0 p l l' H F IH]; intro Hr; [reflexivity|].
  destruct H as (s0 & Es0 & ->). unfold lookup. cbn [find fst].
  destruct (Nat.eqb r0 r) eqn:E.
  - apply Nat.eqb_eq in E. subst. exfalso. apply Hr. now left.
  - apply IH. intro X. apply Hr. now right.
Qed.

Lemma lookup_or_in_gen l t r : Forall2 entry_ok l t -> In r l -> lookup_or t deps r = lookup t r.
Proof.
  intro F. induction F as [|r0 p l l' H F IH]; intro Hr; [destruct Hr|].
  destruct H as (s0 & Es0 & ->). unfold lookup_or, lookup. cbn [find fst].
  destruct (Nat.eqb r0 r) eqn:E; [reflexivity|].
  destruct Hr as [->|Hr]; [rewrite Nat.eqb_refl in E; discriminate|]. apply IH. exact Hr.
Qed.

Lemma lookup_or_notin_gen l t r : Forall2 entry_ok l t -> ~ In r l -> lookup_or t deps r = deps r.
Proof.
  intro F. induction F as [|r0 p l l' H F IH]; intro Hr; [reflexivity|].
  destruct H as (s0 & Es0 & ->). unfold lookup_or. cbn [find fst].
  destruct (Nat.eqb r0 r) eqn:E.
  - apply Nat.eqb_eq in E. subst. exfalso. apply Hr. now left.
  - apply IH. intro X. apply Hr. now right.
Qed.

Section Table.
Variable tbl : list (nat * list nat).
Hypothesis Htbl : Forall2 entry_ok regs tbl.

(* successor function of the final sort: flattened list of a registered root, DependsOn
   of a root that is not registered *)
Let rd := lookup_or tbl deps.

Lemma lookup_in r : In r regs -> exists s, sort_deps fuel deps r = Some s /\ rd r = rev s.
Proof.
  intro Hr. unfold rd. rewrite (lookup_or_in_gen _ _ _ Htbl Hr). now apply (lookup_in_gen _ _ _ Htbl).
Qed.

Lemma lookup_notin r : ~ In r regs -> rd r = deps r.
Proof. apply lookup_or_notin_gen. exact Htbl. Qed.

Lemma rd_reach r : In r regs -> forall y, In y (rd r) <-> reach deps r y.
Proof.
  intros Hr y. destruct (lookup_in r Hr) as (s & Es & ->). rewrite <- in_rev.
  apply (sort_deps_spec deps _ _ _ Es).
Qed.

Lemma rd_edge x d : In d (rd x) -> reach deps x d.
Proof.
  intro H. destruct (in_dec Nat.eq_dec x regs) as [Hx|Hx].
  - now apply rd_reach.
  - rewrite (lookup_notin x Hx) in H. now apply reach_edge.
Qed.

Lemma rd_lt x d : In d (rd x) -> d < n.
Proof.
  intro H. destruct (in_dec Nat.eq_dec x regs) as [Hx|Hx].
  - apply rd_edge in H. eapply reach_lt; [apply Hregs; exact Hx| exact H].
  - rewrite (lookup_notin x Hx) in H. eapply Hdeps; eauto.
Qed.

Lemma reach_rd_deps a b : reach rd a b -> reach deps a b.
Proof. apply reach_mono. intros x d Hd. now apply rd_edge in Hd. Qed.

Lemma tbl_map : tbl = map (fun r => (r, rd r)) regs.
Proof.
  assert (G : forall l l', Forall2 entry_ok l l' -> (forall r, In r l -> In r regs) ->
            l' = map (fun r => (r, rd r)) l).
  { induction 1 as [|r p l l' H F IH]; intro Hin; [reflexivity|]. simpl. f_equal.
    - destruct H as (s & Es & ->). destruct (lookup_in r (Hin r (or_introl eq_refl))) as (s' & Es' & ->).
      congruence.
    - apply IH. intros r' Hr'. apply Hin. now right. }
  apply G; [exact Htbl| auto].
Qed.

Lemma mutual_spec : mutual tbl = true <->
  exists u v, In u regs /\ In v regs /\ u <> v /\ reach deps u v /\ reach deps v u.
Proof.
  unfold mutual. rewrite existsb_exists. split.
  - intros (p & Hp & H). apply existsb_exists in H as (q & Hq & H).
    rewrite tbl_map in Hp, Hq. apply in_map_iff in Hp as (u & <- & Hu). apply in_map_iff in Hq as (v & <- & Hv).
    cbn [fst snd] in H. apply andb_true_iff in H as [H H3]. apply andb_true_iff in H as [H1 H2].
    apply negb_true_iff, Nat.eqb_neq in H1. apply memb_In in H2, H3.
    exists u, v. repeat split; try assumption; [now apply rd_reach in H2| now apply rd_reach in H3].
  - intros (u & v & Hu & Hv & Hne & H1 & H2).
    exists (u, rd u). split; [rewrite tbl_map; apply in_map_iff; eauto|].
    apply existsb_exists. exists (v, rd v). split; [rewrite tbl_map; apply in_map_iff; eauto|].
    cbn [fst snd]. apply andb_true_iff. split; [apply andb_true_iff; split|].
    + apply negb_true_iff, Nat.eqb_neq. exact Hne.
    + apply memb_In. now apply rd_reach.
    + apply memb_In. now apply rd_reach.
Qed.

Lemma pass2_some r : r < n -> exists s, sort_deps fuel rd r = Some s.
Proof.
  intro Hr. rewrite fuel_eq. apply sort_deps_fuel.
  - intros x d Hd. apply in_U. eapply rd_lt; eauto.
  - now apply in_U.
Qed.

Lemma pass2_ok : exists ss, sequence (map (sort_deps fuel rd) regs) = Some ss /\
  Forall2 (fun r s => sort_deps fuel rd r = Some s) regs ss.
Proof. apply sequence_map_some. intros r Hr. apply pass2_some. now apply Hregs. Qed.

(* no cycle among registered roots: the graph of flattened lists has only self loops *)
Hypothesis no_self : self_dep deps regs = false.
Hypothesis no_mutual : mutual tbl = false.

Lemma self_dep_spec : self_dep deps regs = true <-> exists r, In r regs /\ In r (deps r).
Proof.
  unfold self_dep. rewrite existsb_exists. split; intros (r & Hr & H); exists r; (split; [assumption|]); now apply memb_In.
Qed.

(* the part of the result that needs no acyclicity: no duplicates, every registered
   root, only roots reachable from registered ones *)
Lemma roots_result_basic ss :
  Forall2 (fun r s => sort_deps fuel rd r = Some s) regs ss ->
  NoDup (merge_first ss) /\ incl regs (merge_first ss) /\
  (forall x, In x (merge_first ss) -> exists r, In r regs /\ reach deps r x).
Proof.
  intros F.
  pose proof (merge_fold_basic ss []  (NoDup_nil _)) as M.
  unfold merge_basic in M. fold (merge_first ss) in M. destruct M as (A & _ & D & G).
  split; [exact A|]. split.
  - intros r Hr. destruct (Forall2_in_l _ _ _ _ F Hr) as (s & Hs & Es).
    apply (D s Hs). apply (sort_deps_spec rd _ _ _ Es). apply reach_refl.
  - intros x Hx. destruct (G x Hx) as [[]|(s & Hs & Hxs)].
    destruct (Forall2_in_r _ _ _ _ F Hs) as (r & Hr & Es).
    exists r. split; [assumption|]. apply reach_rd_deps. now apply (sort_deps_spec rd _ _ _ Es).
Qed.

(* every dependency cycle lies among registered roots (where the cycle check sees it) *)
Hypothesis cyc_reg : forall a b, reach deps a b -> reach deps b a -> a <> b -> In a regs /\ In b regs.

Lemma rd_anti a b : reach rd a b -> reach rd b a -> a = b.
Proof.
  intros H1 H2. destruct (Nat.eq_dec a b) as [E|Hne]; [assumption|exfalso].
  apply reach_rd_deps in H1, H2. destruct (cyc_reg a b H1 H2 Hne) as [Ha Hb].
  assert (mutual tbl = true) as X by (apply mutual_spec; exists a, b; auto). congruence.
Qed.

Lemma roots_result ss :
  Forall2 (fun r s => sort_deps fuel rd r = Some s) regs ss ->
  NoDup (merge_first ss) /\ incl regs (merge_first ss) /\
  (forall x, In x (merge_first ss) -> exists r, In r regs /\ reach deps r x) /\
  (forall u v, In u regs -> reach deps u v -> u <> v ->
     forall l1 l2, merge_first ss = l1 ++ u :: l2 -> In v l1).
Proof.
  intros F.
  assert (Hord : forall s, In s ss -> ordered rd s).
  { intros s Hs. destruct (Forall2_in_r _ _ _ _ F Hs) as (r & _ & H).
    apply (sort_deps_ordered rd rd_anti _ _ _ H). }
  pose proof (merge_fold rd ss [] Hord (NoDup_nil _) (ordered_nil rd)) as M.
  unfold merge_post in M. fold (merge_first ss) in M. destruct M as (A & B & _ & D & G).
  split; [exact A|]. split; [|split].
  - intros r Hr. destruct (Forall2_in_l _ _ _ _ F Hr) as (s & Hs & Es).
    apply (D s Hs). apply (sort_deps_ordered rd rd_anti _ _ _ Es).
  - intros x Hx. destruct (G x Hx) as [[]|(s & Hs & Hxs)].
    destruct (Forall2_in_r _ _ _ _ F Hs) as (r & Hr & Es).
    exists r. split; [assumption|]. apply reach_rd_deps. now apply (sort_deps_spec rd _ _ _ Es).
  - intros u v Hu Huv Hne l1 l2 El. eapply B; [exact El| |congruence].
    now apply rd_reach.
Qed.
End Table.

Theorem roots_no_out_of_fuel : roots n deps regs <> OutOfFuel.
Proof.
  unfold roots. fold fuel. destruct (self_dep deps regs); [discriminate|].
  destruct flat_table_ok as (tbl & -> & F).
  destruct (mutual tbl); [discriminate|].
  destruct (pass2_ok tbl F) as (ss & -> & _). discriminate.
Qed.

Theorem roots_cycle_spec : roots n deps regs = Cycle <->
  (exists r, In r regs /\ In r (deps r)) \/
  (exists u v, In u regs /\ In v regs /\ u <> v /\ reach deps u v /\ reach deps v u).
Proof.
  unfold roots. fold fuel. destruct flat_table_ok as (tbl & E & F). rewrite E.
  destruct (self_dep deps regs) eqn:Es.
  - split; [intros _; left; now apply self_dep_spec| reflexivity].
  - destruct (mutual tbl) eqn:Em.
    + split; [intros _; right; now apply (mutual_spec tbl F)| reflexivity].
    + destruct (pass2_ok tbl F) as (ss & -> & _). split; [discriminate|].
      intros [H|H]; [apply self_dep_spec in H| apply (mutual_spec tbl F) in H]; congruence.
Qed.

Theorem roots_ok_basic l : roots n deps regs = Ok l ->
  NoDup l /\ incl regs l /\ (forall x, In x l -> exists r, In r regs /\ reach deps r x).
Proof.
  unfold roots. fold fuel. destruct flat_table_ok as (tbl & E & F). rewrite E.
  destruct (self_dep deps regs) eqn:Es; [discriminate|].
  destruct (mutual tbl) eqn:Em; [discriminate|].
  destruct (pass2_ok tbl F) as (ss & E2 & F2). rewrite E2. intros [= <-].
  apply (roots_result_basic tbl F ss F2).
Qed.

Theorem roots_ok_spec l :
  (forall a b, reach deps a b -> reach deps b a -> a <> b -> In a regs /\ In b regs) ->
  roots n deps regs = Ok l ->
  NoDup l /\ incl regs l /\
  (forall x, In x l -> exists r, In r regs /\ reach deps r x) /\
  (forall u v, In u regs -> reach deps u v -> u <> v ->
     forall l1 l2, l = l1 ++ u :: l2 -> In v l1).
Proof.
  intro H. unfold roots. fold fuel. destruct flat_table_ok as (tbl & E & F). rewrite E.
  destruct (self_dep deps regs) eqn:Es; [discriminate|].
  destruct (mutual tbl) eqn:Em; [discriminate|].
  destruct (pass2_ok tbl F) as (ss & E2 & F2). rewrite E2. intros [= <-].
  apply (roots_result tbl F Em H ss F2).
Qed.

Theorem roots_complete_spec :
  exists tbl, flat_table fuel deps regs = Some tbl /\
    forall r, In r regs -> forall y, In y (lookup tbl r) <-> reach deps r y.
Proof.
  destruct flat_table_ok as (tbl & E & F). exists tbl. split; [exact E|].
  intros r Hr y. rewrite <- (lookup_or_in_gen _ _ _ F Hr). now apply rd_reach.
Qed.

End Roots.
