(* C06 — property statements only. Every theorem is closed by lemmas of Lemmas.v
   and followed by Print Assumptions. *)
From Security Require Import Model Lemmas.

Section Chain.
  (* request contexts, error values, the user's four callbacks (one function of the
     scheme kind) and the credentials of the payload are arbitrary *)
  Variables ctx err : Type.
  Variable auth : kind -> sc -> list bytes -> ctx -> ctx * option err.
  Variable p : creds.

  Definition nonempty_reqs (reqs : list requirement) : Prop := Forall (fun r => r_schemes r <> []) reqs.

  (* The generated endpoint function (the if-chain emitted by the template, run as a
     program) computes the short-circuit OR-of-ANDs specification `secure`, for any
     number of requirements and schemes and for callbacks that may depend on and
     replace the context. *)
  Theorem chain_refines_spec reqs c :
    nonempty_reqs reqs -> run ctx err auth p reqs c = secure ctx err auth p reqs c.
  Proof. exact (run_refines ctx err auth p reqs c). Qed.

  (* Each callback receives its scheme's name and declared scopes, the REQUIREMENT's
     required scopes and the credentials of its kind taken from the payload. *)
  Theorem callback_sees_scopes reqs c cl :
    nonempty_reqs reqs -> In cl (o_calls (run ctx err auth p reqs c)) ->
    exists r s, In r reqs /\ In s (r_schemes r) /\
      c_kind cl = s_kind s /\
      c_sc cl = {| sc_name := s_name s; sc_scopes := s_scopes s; sc_required := r_scopes r |} /\
      c_cred cl = cred_for p s.
  Proof. intros H Hin. rewrite (run_refines ctx err auth p reqs c H) in Hin. exact (secure_calls ctx err auth p reqs c cl Hin). Qed.

  (* If the method is not invoked the caller gets the error of the last callback that ran. *)
  Theorem chain_error_is_last_failure reqs c :
    nonempty_reqs reqs -> o_invoked (run ctx err auth p reqs c) = [] ->
    exists x before last,
      o_error (run ctx err auth p reqs c) = Some x /\
      o_calls (run ctx err auth p reqs c) = before ++ [last] /\ c_res last = Some x.
  Proof. intros H. rewrite (run_refines ctx err auth p reqs c H). exact (secure_error_last ctx err auth p reqs c). Qed.

  (* User code runs at most once, and either it runs or an error is returned, never both. *)
  Theorem invoked_xor_error reqs c :
    nonempty_reqs reqs ->
    (exists c', o_invoked (run ctx err auth p reqs c) = [c'] /\ o_error (run ctx err auth p reqs c) = None) \/
    (o_invoked (run ctx err auth p reqs c) = [] /\ exists x, o_error (run ctx err auth p reqs c) = Some x).
  Proof. intros H. rewrite (run_refines ctx err auth p reqs c H). exact (secure_invoked_xor_error ctx err auth p reqs c). Qed.

  (* A method without requirements (NoSecurity, or nothing declared anywhere) is invoked
     with the request context and no callback runs. *)
  Theorem nosecurity_no_callbacks mreqs sreqs areqs c :
    has_nosecurity mreqs = true ->
    run ctx err auth p (effective_reqs mreqs sreqs areqs) c = {| o_invoked := [c]; o_error := None; o_calls := [] |}.
  Proof. intro H. destruct (effective_table mreqs sreqs areqs) as [H1 _]. rewrite (H1 H). reflexivity. Qed.

  Theorem no_requirements_no_callbacks c :
    run ctx err auth p [] c = {| o_invoked := [c]; o_error := None; o_calls := [] |}.
  Proof. reflexivity. Qed.

  (* Why nonempty_reqs: a requirement listing no scheme (`Security(func(){})`) emits an empty
     `if err != nil { }`; placed after a failing requirement it leaves the error in place, so
     the method is refused although that requirement is vacuously satisfied. *)
  Theorem empty_requirement_refuted (s : scheme) (c : ctx) (e : err) :
    snd (auth (s_kind s) (mk_sc s []) (cred_for p s) c) = Some e ->
    let reqs := [ {| r_schemes := [s]; r_scopes := [] |}; {| r_schemes := []; r_scopes := [] |} ] in
    o_invoked (run ctx err auth p reqs c) = [] /\
    Exists (fun r => Forall (fun s => accepts auth p c (r_scopes r) s = true) (r_schemes r)) reqs.
  Proof. exact (empty_req_not_invoked ctx err auth p s c e). Qed.

  (* --- callbacks whose verdict depends only on the scheme and the credentials --- *)
  Variable c0 : ctx.
  Hypothesis verdict_ignores_ctx : forall k s cr c1 c2, snd (auth k s cr c1) = snd (auth k s cr c2).

  (* The method is invoked iff some requirement has all of its schemes accepting. *)
  Theorem chain_is_or_of_ands reqs c :
    reqs <> [] -> nonempty_reqs reqs ->
    (o_invoked (run ctx err auth p reqs c) <> [] <->
     Exists (fun r => Forall (fun s => accepts auth p c0 (r_scopes r) s = true) (r_schemes r)) reqs).
  Proof.
    intros Hne H. rewrite (run_refines ctx err auth p reqs c H).
    exact (secure_or_of_ands ctx err auth p c0 verdict_ignores_ctx reqs c Hne).
  Qed.

  (* The callbacks run in exactly the short-circuit order: requirements in order up to and
     including the first satisfied one; within a requirement, schemes in order up to and
     including the first rejecting one; each with the arguments and verdict expected. *)
  Theorem chain_call_order reqs c :
    nonempty_reqs reqs ->
    map call_obs (o_calls (run ctx err auth p reqs c)) = expected_obs auth p c0 reqs.
  Proof.
    intros H. rewrite (run_refines ctx err auth p reqs c H).
    exact (secure_call_order ctx err auth p c0 verdict_ignores_ctx reqs c).
  Qed.
End Chain.
Print Assumptions chain_refines_spec.
Print Assumptions callback_sees_scopes.
Print Assumptions chain_error_is_last_failure.
Print Assumptions invoked_xor_error.
Print Assumptions nosecurity_no_callbacks.
Print Assumptions no_requirements_no_callbacks.
Print Assumptions empty_requirement_refuted.
Print Assumptions chain_is_or_of_ands.
Print Assumptions chain_call_order.

(* The three-level override table: NoSecurity empties; otherwise the method's own
   requirements, else the service's, else the API's. *)
Theorem inheritance_spec mreqs sreqs areqs :
  (has_nosecurity mreqs = true -> effective_reqs mreqs sreqs areqs = []) /\
  (has_nosecurity mreqs = false -> mreqs <> [] -> effective_reqs mreqs sreqs areqs = mreqs) /\
  (mreqs = [] -> sreqs <> [] -> effective_reqs mreqs sreqs areqs = sreqs) /\
  (mreqs = [] -> sreqs = [] -> effective_reqs mreqs sreqs areqs = areqs).
Proof. exact (effective_table mreqs sreqs areqs). Qed.
Print Assumptions inheritance_spec.

(* Within one requirement every scheme name is called at most once (SchemesData.Append),
   and requirements without repeated names are left alone. *)
Theorem data_reqs_no_repeated_scheme reqs r : In r (data_reqs reqs) -> NoDup (map s_name (r_schemes r)).
Proof. exact (data_reqs_NoDup reqs r). Qed.
Print Assumptions data_reqs_no_repeated_scheme.

Theorem data_reqs_identity reqs :
  Forall (fun r => NoDup (map s_name (r_schemes r))) reqs -> data_reqs reqs = reqs.
Proof. exact (data_reqs_id reqs). Qed.
Print Assumptions data_reqs_identity.

(* ---- credentials over HTTP ---- *)

(* A non-empty credential without spaces or tabs sent in a header (with or without the
   client-side "Bearer " prefix) reaches the callback exactly. *)
Theorem bearer_roundtrip_partial bearer_header c :
  c <> [] -> (forall b, In b c -> is_ows b = false) -> header_roundtrip bearer_header c = c.
Proof. intros H1 H2. exact (header_roundtrip_safe bearer_header c (conj H1 H2)). Qed.
Print Assumptions bearer_roundtrip_partial.

(* finding: a header credential containing a space loses everything up to the first space *)
Theorem bearer_space_refuted :
  exists c, header_roundtrip true c <> c /\ header_roundtrip false c <> c /\
            c = bytes_of_string "a b" /\ header_roundtrip true c = bytes_of_string "b".
Proof. exists (bytes_of_string "a b"). vm_compute. repeat split; discriminate. Qed.
Print Assumptions bearer_space_refuted.

(* finding: the empty token is sent as "Bearer ", trimmed in transit, and the callback is shown "Bearer" *)
Theorem bearer_empty_refuted : header_roundtrip true [] = bytes_of_string "Bearer" /\ header_roundtrip true [] <> [].
Proof. vm_compute. split; [reflexivity|discriminate]. Qed.
Print Assumptions bearer_empty_refuted.

(* Basic: the client refuses exactly the user names holding a ':' (RFC 7617); every other
   user name / password pair reaches the callback exactly. Nothing is ever delivered altered. *)
Theorem basic_roundtrip u pw :
  (has_colon u = true /\ basic_send u pw = None) \/ (has_colon u = false /\ basic_send u pw = Some (u, pw)).
Proof. exact (basic_send_spec u pw). Qed.
Print Assumptions basic_roundtrip.

Theorem basic_credentials_never_altered L p :
  (has_colon (p_user p) = true /\ transport L p = None) \/
  (has_colon (p_user p) = false /\ exists p', transport L p = Some p' /\ p_user p' = p_user p /\ p_pass p' = p_pass p).
Proof. exact (transport_basic L p). Qed.
Print Assumptions basic_credentials_never_altered.

(* credentials in the query string or the body are not touched *)
Theorem query_body_roundtrip c : arrive LQuery c = c /\ arrive LBody c = c.
Proof. split; reflexivity. Qed.
Print Assumptions query_body_roundtrip.

(* The request decoder removes the scheme prefix from the payload field of EVERY scheme whose
   credential is carried by a header - in particular from each of several schemes that read
   the same header (alternative JWT / OAuth2 / API-key requirements on one Authorization
   header) - and from no other field. Scheme names identify schemes, as in a goa design. *)
Theorem header_credentials_all_stripped L reqs r s a :
  (forall s1 s2, In s1 (flat_map r_schemes reqs) -> In s2 (flat_map r_schemes reqs) -> s_name s1 = s_name s2 -> s1 = s2) ->
  In r reqs -> In s (r_schemes r) -> attr_of s = Some a -> is_header (loc_of L a) = true ->
  In a (strip_fields L reqs).
Proof. exact (strip_fields_complete L reqs r s a). Qed.
Print Assumptions header_credentials_all_stripped.

Theorem only_header_credentials_stripped L reqs a :
  In a (strip_fields L reqs) ->
  is_header (loc_of L a) = true /\ exists r s, In r reqs /\ In s (r_schemes r) /\ attr_of s = Some a.
Proof. exact (strip_fields_sound L reqs a). Qed.
Print Assumptions only_header_credentials_stripped.

(* The decoder strips a credential exactly when the endpoint's own scheme copy says "header":
   the classification depends on the method's own mapping (L) and requirements only. *)
Theorem scheme_in_header_iff_stripped L reqs r s a :
  (forall s1 s2, In s1 (flat_map r_schemes reqs) -> In s2 (flat_map r_schemes reqs) -> s_name s1 = s_name s2 -> s1 = s2) ->
  In r reqs -> In s (r_schemes r) -> attr_of s = Some a ->
  (scheme_in L s = "header" <-> In a (strip_fields L reqs)).
Proof. exact (scheme_in_stripped L reqs r s a). Qed.
Print Assumptions scheme_in_header_iff_stripped.

(* End to end: inside the hypotheses above, what the callbacks are shown on the server is
   computed from exactly the credentials the client was given. *)
Theorem credentials_arrive_partial ctx err (auth : kind -> sc -> list bytes -> ctx -> ctx * option err) L p reqs c :
  wire_safe L p ->
  exists p', transport L p = Some p' /\ run ctx err auth p' reqs c = run ctx err auth p reqs c.
Proof. intro H. exists p. split; [exact (transport_safe L p H)|reflexivity]. Qed.
Print Assumptions credentials_arrive_partial.

(* ---- the request on the wire (client encoder / server decoder with named places) ---- *)

(* Fields set by the client that write ONE header all carrying the value v (alternative schemes
   sharing Authorization or X-Auth, or a single field): every attribute the server reads from
   that header - also one whose own field was left unset - is shown header_roundtrip of v, hence
   v itself when v is non-empty without space/tab. Basic must not own that header. *)
Theorem wire_shared_header_delivers b basic fs w n v :
  encode_wire b basic fs = Some w -> (basic = None \/ n <> authorization) ->
  (forall f, In f fs -> f_place f = PHeader n -> f_val f = v) ->
  (exists f, In f fs /\ f_place f = PHeader n) ->
  decode_place (PHeader n) true w = header_roundtrip (b && String.eqb n authorization) v.
Proof. exact (decode_header_group b basic fs w n v). Qed.
Print Assumptions wire_shared_header_delivers.

Theorem wire_shared_header_delivers_partial b basic fs w n v :
  encode_wire b basic fs = Some w -> (basic = None \/ n <> authorization) ->
  (forall f, In f fs -> f_place f = PHeader n -> f_val f = v) ->
  (exists f, In f fs /\ f_place f = PHeader n) ->
  v <> [] -> (forall x, In x v -> is_ows x = false) ->
  decode_place (PHeader n) true w = v.
Proof.
  intros He Hb Hall Hex Hne Hows. rewrite (decode_header_group b basic fs w n v He Hb Hall Hex).
  exact (header_roundtrip_safe _ v (conj Hne Hows)).
Qed.
Print Assumptions wire_shared_header_delivers_partial.

(* query-string and body credentials arrive exactly, whatever they contain *)
Theorem wire_query_delivers b basic fs w n v :
  encode_wire b basic fs = Some w ->
  (forall f, In f fs -> f_place f = PQuery n -> f_val f = v) -> (exists f, In f fs /\ f_place f = PQuery n) ->
  decode_place (PQuery n) false w = v.
Proof. exact (decode_query_value b basic fs w n v). Qed.
Print Assumptions wire_query_delivers.

Theorem wire_body_delivers b basic fs w n v :
  encode_wire b basic fs = Some w ->
  (forall f, In f fs -> f_place f = PBody n -> f_val f = v) -> (exists f, In f fs /\ f_place f = PBody n) ->
  decode_place (PBody n) false w = v.
Proof. exact (decode_body_value b basic fs w n v). Qed.
Print Assumptions wire_body_delivers.

(* Basic: refused exactly when the user name holds ':'; otherwise r.BasicAuth on the request the
   client built returns the pair given to the client, whatever else the payload carries *)
Theorem wire_basic_roundtrip b u pw fs :
  (has_colon u = true /\ encode_wire b (Some (u, pw)) fs = None) \/
  (has_colon u = false /\ exists w, encode_wire b (Some (u, pw)) fs = Some w /\ decode_basic w = Some (u, pw)).
Proof. exact (wire_basic b u pw fs). Qed.
Print Assumptions wire_basic_roundtrip.

(* Every credential travels in its designed place and nowhere else: a header is written only
   for a field designed for it (or Authorization by Basic), the query and the body hold exactly
   the fields designed for them. *)
Theorem wire_only_designed_places b basic fs w : encode_wire b basic fs = Some w ->
  (forall n x, In (n, x) (w_hdr w) -> (exists f, In f fs /\ f_place f = PHeader n) \/ (n = authorization /\ basic <> None)) /\
  (forall n x, In (n, x) (w_qry w) <-> exists f, In f fs /\ f_place f = PQuery n /\ x = f_val f) /\
  (forall n x, In (n, x) (w_body w) <-> exists f, In f fs /\ f_place f = PBody n /\ x = f_val f).
Proof. exact (wire_only_designed b basic fs w). Qed.
Print Assumptions wire_only_designed_places.

(* non-vacuity: JWT and OAuth2 tokens share the implicit Authorization header (only the OAuth2
   field is set), an API key goes to the query: both header attributes are shown the token *)
Example wire_example :
  let fs := [ {| f_attr := AAToken; f_place := PHeader authorization; f_val := bytes_of_string "tok" |};
              {| f_attr := AKey "key"; f_place := PQuery "k"; f_val := bytes_of_string "a b" |} ] in
  exists w, encode_wire true None fs = Some w /\
    get_last authorization (w_hdr w) = Some (bytes_of_string "Bearer tok") /\
    decode_place (PHeader authorization) true w = bytes_of_string "tok" /\
    decode_place (PQuery "k") false w = bytes_of_string "a b" /\ w_body w = [].
Proof. eexists. split; [reflexivity|]. vm_compute. repeat split. Qed.

(* non-vacuity: two alternative requirements, the first rejected by its second scheme,
   the second accepted; the trace is the short-circuit order and the method runs once *)
Example chain_example :
  let b := {| s_kind := Basic; s_name := "bas"; s_scopes := ["b:r"] |} in
  let k := {| s_kind := APIKey; s_name := "key"; s_scopes := [] |} in
  let j := {| s_kind := JWT; s_name := "jwt"; s_scopes := ["api:read"; "api:write"] |} in
  let reqs := [ {| r_schemes := [b; k]; r_scopes := ["b:r"] |}; {| r_schemes := [j]; r_scopes := ["api:write"] |};
                {| r_schemes := [k]; r_scopes := [] |} ] in
  let auth := fun (kd : kind) (s : sc) (cr : list bytes) (c : nat) =>
                (S c, if String.eqb (sc_name s) "key" then Some "no" else None) in
  let p := {| p_user := [117]; p_pass := [112]; p_token := [116]; p_atoken := []; p_keys := [("key", [107])] |}%N in
  let o := run nat string auth p reqs 0 in
  o_invoked o = [3] /\ o_error o = None /\
  map (fun cl => (sc_name (c_sc cl), sc_required (c_sc cl), c_res cl)) (o_calls o) =
    [("bas", ["b:r"], None); ("key", ["b:r"], Some "no"); ("jwt", ["api:write"], None)] /\
  o_error (run nat string auth p [ {| r_schemes := [b; k]; r_scopes := [] |}; {| r_schemes := [k; j]; r_scopes := [] |} ] 0) = Some "no".
Proof. vm_compute. repeat split. Qed.
