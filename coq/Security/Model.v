(* Security engine (C06) — executable model of
     codegen/service/templates/service_endpoint_method.go.tpl   the authorization chain of an endpoint
     codegen/service/service_data.go                            RequirementData / SchemesData.Append (dedup by name)
     expr/method.go  MethodExpr.Finalize                        inheritance of requirements, NoSecurity
     http/codegen/templates/request_encoder.go.tpl (client)     "Bearer " prefix, SetBasicAuth
     http/codegen/templates/request_decoder.go.tpl (server)     r.BasicAuth(), prefix stripping of header credentials
   Definitions only; proofs are in Lemmas.v, property statements in Properties.v. *)
From Coq Require Export List Bool String Ascii NArith Arith.
Export ListNotations.
Open Scope string_scope.
Open Scope list_scope.

(* credentials are byte strings *)
Definition bytes := list N.

Inductive kind := Basic | APIKey | JWT | OAuth2 | NoKind.

(* expr.SchemeExpr / service.SchemeData as far as the chain uses them *)
Record scheme := { s_kind : kind; s_name : string; s_scopes : list string }.

(* expr.SecurityExpr / service.RequirementData: all schemes must accept; r_scopes = required scopes *)
Record requirement := { r_schemes : list scheme; r_scopes : list string }.

(* ------------------------------------------------------------------ *)
(* expr/method.go Finalize: requirements a method ends up with         *)

Definition is_nokind (s : scheme) : bool := match s_kind s with NoKind => true | _ => false end.

(* `NoSecurity()` appends a requirement whose only scheme has kind NoKind *)
Definition has_nosecurity (mreqs : list requirement) : bool :=
  existsb (fun r => existsb is_nokind (r_schemes r)) mreqs.

Definition effective_reqs (mreqs sreqs areqs : list requirement) : list requirement :=
  if has_nosecurity mreqs then []
  else match mreqs with
       | _ :: _ => mreqs
       | [] => match sreqs with
               | _ :: _ => sreqs
               | [] => areqs
               end
       end.

(* service_data.go: the schemes of one RequirementData are collected with
   SchemesData.Append, which keeps the first scheme of every name *)
Fixpoint dedup_schemes (seen : list string) (ss : list scheme) : list scheme :=
  match ss with
  | [] => []
  | s :: r => if existsb (String.eqb (s_name s)) seen then dedup_schemes seen r
              else s :: dedup_schemes (s_name s :: seen) r
  end.

Definition data_reqs (reqs : list requirement) : list requirement :=
  map (fun r => {| r_schemes := dedup_schemes [] (r_schemes r); r_scopes := r_scopes r |}) reqs.

(* ------------------------------------------------------------------ *)
(* credentials carried by the payload                                   *)

Record creds := { p_user : bytes; p_pass : bytes; p_token : bytes; p_atoken : bytes;
                  p_keys : list (string * bytes) }.

Fixpoint lookup {A} (n : string) (l : list (string * A)) (d : A) : A :=
  match l with
  | [] => d
  | (k, v) :: r => if String.eqb k n then v else lookup n r d
  end.

(* the arguments handed to the Auth*Func of the scheme's kind *)
Definition cred_for (p : creds) (s : scheme) : list bytes :=
  match s_kind s with
  | Basic => [p_user p; p_pass p]
  | APIKey => [lookup (s_name s) (p_keys p) []]
  | JWT => [p_token p]
  | OAuth2 => [p_atoken p]
  | NoKind => []
  end.

(* security.XScheme value built by the endpoint for one callback *)
Record sc := { sc_name : string; sc_scopes : list string; sc_required : list string }.

Definition mk_sc (s : scheme) (required : list string) : sc :=
  {| sc_name := s_name s; sc_scopes := s_scopes s; sc_required := required |}.

(* ------------------------------------------------------------------ *)
(* the endpoint function as a program                                   *)

(* statements of the generated endpoint body:
     Call s rq        sc := security.KScheme{Name, Scopes, RequiredScopes: rq}; ctx, err = authKFn(ctx, cred…, &sc)
     IfErrNil b       if err == nil { b }
     IfErrNotNil b    if err != nil { b }
     ReturnErr        return nil, err
     Invoke           return s.Method(ctx, p)                                             *)
Inductive stmt :=
| Call (s : scheme) (required : list string)
| IfErrNil (body : list stmt)
| IfErrNotNil (body : list stmt)
| ReturnErr
| Invoke.

(* what the template emits for one requirement, for the chain, for the endpoint *)
Definition gen_req (r : requirement) : list stmt :=
  match r_schemes r with
  | [] => []
  | s :: ss => Call s (r_scopes r) :: map (fun s' => IfErrNil [Call s' (r_scopes r)]) ss
  end.

Definition gen_chain (reqs : list requirement) : list stmt :=
  match reqs with
  | [] => []
  | r :: rs => gen_req r ++ map (fun r' => IfErrNotNil (gen_req r')) rs
  end.

Definition gen_endpoint (reqs : list requirement) : list stmt :=
  match reqs with
  | [] => [Invoke]
  | _ => gen_chain reqs ++ [IfErrNotNil [ReturnErr]; Invoke]
  end.

Section Exec.
  (* request context, error values and the user's callbacks are arbitrary: the
     callback of the scheme's kind gets the scheme struct, the credentials and the
     current context and returns a new context and maybe an error *)
  Variables ctx err : Type.
  Variable auth : kind -> sc -> list bytes -> ctx -> ctx * option err.
  Variable p : creds.

  (* one recorded callback invocation *)
  Record call := { c_kind : kind; c_sc : sc; c_cred : list bytes; c_res : option err }.

  Record state := { st_ctx : ctx; st_err : option err; st_trace : list call;
                    st_ret : bool;            (* the function has returned *)
                    st_inv : list ctx }.      (* contexts the service method was invoked with *)

  Definition do_call (s : scheme) (rq : list string) (σ : state) : state :=
    let r := auth (s_kind s) (mk_sc s rq) (cred_for p s) (st_ctx σ) in
    {| st_ctx := fst r; st_err := snd r;
       st_trace := st_trace σ ++ [{| c_kind := s_kind s; c_sc := mk_sc s rq; c_cred := cred_for p s; c_res := snd r |}];
       st_ret := false; st_inv := st_inv σ |}.

  Fixpoint exec (s : stmt) (σ : state) : state :=
    if st_ret σ then σ else
    match s with
    | Call sch rq => do_call sch rq σ
    | IfErrNil b =>
        match st_err σ with
        | None => (fix go (b : list stmt) (σ : state) : state :=
                     match b with [] => σ | x :: b' => go b' (exec x σ) end) b σ
        | Some _ => σ
        end
    | IfErrNotNil b =>
        match st_err σ with
        | Some _ => (fix go (b : list stmt) (σ : state) : state :=
                     match b with [] => σ | x :: b' => go b' (exec x σ) end) b σ
        | None => σ
        end
    | ReturnErr => {| st_ctx := st_ctx σ; st_err := st_err σ; st_trace := st_trace σ; st_ret := true; st_inv := st_inv σ |}
    | Invoke => {| st_ctx := st_ctx σ; st_err := st_err σ; st_trace := st_trace σ; st_ret := true;
                   st_inv := st_inv σ ++ [st_ctx σ] |}
    end.

  Fixpoint exec_block (b : list stmt) (σ : state) : state :=
    match b with [] => σ | x :: b' => exec_block b' (exec x σ) end.

  Definition init (c : ctx) : state :=
    {| st_ctx := c; st_err := None; st_trace := []; st_ret := false; st_inv := [] |}.

  (* outcome of one request reaching the endpoint *)
  Record outcome := { o_invoked : list ctx;        (* one entry per invocation of the service method *)
                      o_error : option err;        (* error returned instead of invoking *)
                      o_calls : list call }.

  Definition run (reqs : list requirement) (c : ctx) : outcome :=
    let σ := exec_block (gen_endpoint reqs) (init c) in
    {| o_invoked := st_inv σ;
       o_error := match st_inv σ with [] => st_err σ | _ => None end;
       o_calls := st_trace σ |}.

  (* -------------------------------------------------------------- *)
  (* the specification: OR of ANDs, both with short-circuit          *)

  Definition mk_call (s : scheme) (rq : list string) (c : ctx) : call :=
    {| c_kind := s_kind s; c_sc := mk_sc s rq; c_cred := cred_for p s;
       c_res := snd (auth (s_kind s) (mk_sc s rq) (cred_for p s) c) |}.

  (* all schemes of a requirement, in order, until one rejects *)
  Fixpoint all_pass (rq : list string) (ss : list scheme) (c : ctx) : ctx * option err * list call :=
    match ss with
    | [] => (c, None, [])
    | s :: ss' =>
        let r := auth (s_kind s) (mk_sc s rq) (cred_for p s) c in
        match snd r with
        | Some e => (fst r, Some e, [mk_call s rq c])
        | None => let '(c', e', tr) := all_pass rq ss' (fst r) in (c', e', mk_call s rq c :: tr)
        end
    end.

  (* requirements in order until one is satisfied; e0 = error of the last failure so far *)
  Fixpoint any_pass (rs : list requirement) (c : ctx) (e0 : option err) : ctx * option err * list call :=
    match rs with
    | [] => (c, e0, [])
    | r :: rs' =>
        let '(c', e, tr) := all_pass (r_scopes r) (r_schemes r) c in
        match e with
        | None => (c', None, tr)
        | Some x => let '(c'', e', tr') := any_pass rs' c' (Some x) in (c'', e', tr ++ tr')
        end
    end.

  Definition secure (reqs : list requirement) (c : ctx) : outcome :=
    let '(c', e, tr) := any_pass reqs c None in
    match e with
    | None => {| o_invoked := [c']; o_error := None; o_calls := tr |}
    | Some x => {| o_invoked := []; o_error := Some x; o_calls := tr |}
    end.
End Exec.

Arguments c_kind {err}. Arguments c_sc {err}. Arguments c_cred {err}. Arguments c_res {err}.
Arguments o_invoked {ctx err}. Arguments o_error {ctx err}. Arguments o_calls {ctx err}.

(* ------------------------------------------------------------------ *)
(* callbacks whose verdict does not depend on the context: a scheme     *)
(* either accepts or rejects the credentials it is shown                *)

Definition accepts {ctx err} (auth : kind -> sc -> list bytes -> ctx -> ctx * option err) (p : creds) (c0 : ctx)
           (rq : list string) (s : scheme) : bool :=
  match snd (auth (s_kind s) (mk_sc s rq) (cred_for p s) c0) with None => true | Some _ => false end.

Definition req_accepts {ctx err} (auth : kind -> sc -> list bytes -> ctx -> ctx * option err) (p : creds) (c0 : ctx)
           (r : requirement) : bool :=
  forallb (accepts auth p c0 (r_scopes r)) (r_schemes r).

(* the prefix of l up to and including the first element satisfying f *)
Fixpoint upto_first {A} (f : A -> bool) (l : list A) : list A :=
  match l with
  | [] => []
  | x :: r => if f x then [x] else x :: upto_first f r
  end.

(* the (scheme, required scopes) pairs called, in order, by the short-circuit evaluation *)
Definition expected_calls {ctx err} (auth : kind -> sc -> list bytes -> ctx -> ctx * option err) (p : creds) (c0 : ctx)
           (reqs : list requirement) : list (scheme * list string) :=
  flat_map (fun r => map (fun s => (s, r_scopes r))
                         (upto_first (fun s => negb (accepts auth p c0 (r_scopes r) s)) (r_schemes r)))
           (upto_first (req_accepts auth p c0) reqs).

Definition is_none {A} (o : option A) : bool := match o with None => true | Some _ => false end.

(* what a recording Auther sees of one callback invocation: kind, scheme struct,
   credentials, and whether it accepted *)
Definition call_obs {err} (cl : call err) : kind * sc * list bytes * bool :=
  (c_kind cl, c_sc cl, c_cred cl, is_none (c_res cl)).

Definition expected_obs {ctx err} (auth : kind -> sc -> list bytes -> ctx -> ctx * option err) (p : creds) (c0 : ctx)
           (reqs : list requirement) : list (kind * sc * list bytes * bool) :=
  map (fun sr => (s_kind (fst sr), mk_sc (fst sr) (snd sr), cred_for p (fst sr), accepts auth p c0 (snd sr) (fst sr)))
      (expected_calls auth p c0 reqs).

(* ------------------------------------------------------------------ *)
(* HTTP transport of credentials                                        *)

Definition is_sp (b : N) : bool := N.eqb b 32.
Definition is_ows (b : N) : bool := N.eqb b 32 || N.eqb b 9.
Definition contains_space (c : bytes) : bool := existsb is_sp c.

(* strings.SplitN(c, " ", 2)[1] when c contains a space *)
Fixpoint after_first_space (c : bytes) : bytes :=
  match c with
  | [] => []
  | b :: r => if is_sp b then r else after_first_space r
  end.

(* server, request_decoder.go.tpl: every credential read from a header *)
Definition strip_prefix (c : bytes) : bytes :=
  if contains_space c then after_first_space c else c.

Definition bearer : bytes := [66; 101; 97; 114; 101; 114; 32]%N.   (* "Bearer " *)

(* client, request_encoder.go.tpl: Authorization header of a JWT / OAuth2 scheme *)
Definition add_prefix (bearer_header : bool) (c : bytes) : bytes :=
  if bearer_header && negb (contains_space c) then bearer ++ c else c.

(* net/http trims optional white space around header values *)
Fixpoint trim_left (c : bytes) : bytes :=
  match c with
  | [] => []
  | b :: r => if is_ows b then trim_left r else c
  end.
Definition trim (c : bytes) : bytes := rev (trim_left (rev (trim_left c))).

Definition header_roundtrip (bearer_header : bool) (c : bytes) : bytes :=
  strip_prefix (trim (add_prefix bearer_header c)).

(* Basic: SetBasicAuth joins with ':' (base64 is a bijection and left out),
   r.BasicAuth cuts at the first ':' *)
Definition basic_join (u pw : bytes) : bytes := u ++ 58%N :: pw.
Fixpoint cut_colon (s : bytes) : option (bytes * bytes) :=
  match s with
  | [] => None
  | b :: r => if N.eqb b 58 then Some ([], r)
              else match cut_colon r with Some (u, pw) => Some (b :: u, pw) | None => None end
  end.
(* client: a user name containing ':' is refused (RFC 7617), nothing is sent *)
Definition has_colon (u : bytes) : bool := existsb (fun b => N.eqb b 58) u.
Definition basic_send (u pw : bytes) : option (bytes * bytes) :=
  if has_colon u then None else cut_colon (basic_join u pw).

(* where the design puts a credential *)
Inductive loc :=
| LHeader (bearer_header : bool)   (* a request header; bearer_header: Authorization of a JWT/OAuth2 scheme *)
| LQuery                           (* query string parameter *)
| LBody.                           (* attribute of the request body *)

Record locs := { l_token : loc; l_atoken : loc; l_keys : list (string * loc) }.

Definition arrive (l : loc) (c : bytes) : bytes :=
  match l with
  | LHeader b => header_roundtrip b c
  | LQuery | LBody => c
  end.

(* payload the server hands to the endpoint for the payload given to the client *)
(* None: the client refuses to send the request *)
Definition transport (L : locs) (p : creds) : option creds :=
  match basic_send (p_user p) (p_pass p) with
  | None => None
  | Some up =>
    Some {| p_user := fst up; p_pass := snd up;
            p_token := arrive (l_token L) (p_token p);
            p_atoken := arrive (l_atoken L) (p_atoken p);
            p_keys := map (fun kv => (fst kv, arrive (lookup (fst kv) (l_keys L) (LHeader false)) (snd kv))) (p_keys p) |}
  end.

Definition no_ows (c : bytes) : Prop := forall b, In b c -> is_ows b = false.
Definition header_safe (c : bytes) : Prop := c <> [] /\ no_ows c.
Definition loc_safe (l : loc) (c : bytes) : Prop :=
  match l with LHeader _ => header_safe c | _ => True end.

(* single-valued credential attributes of the payload *)
Inductive cattr := AKey (scheme_name : string) | AToken | AAToken.

Definition attr_of (s : scheme) : option cattr :=
  match s_kind s with
  | APIKey => Some (AKey (s_name s))
  | JWT => Some AToken
  | OAuth2 => Some AAToken
  | Basic | NoKind => None
  end.

Definition loc_of (L : locs) (a : cattr) : loc :=
  match a with
  | AKey n => lookup n (l_keys L) (LHeader false)
  | AToken => l_token L
  | AAToken => l_atoken L
  end.

Definition is_header (l : loc) : bool := match l with LHeader _ => true | _ => false end.

Definition in_header (L : locs) (s : scheme) : bool :=
  match attr_of s with Some a => is_header (loc_of L a) | None => false end.

(* http/codegen/service_data.go: HeaderSchemes = the schemes of all requirements located in a
   header, first of every scheme name (SchemesData.Append); request_decoder.go.tpl strips the
   prefix from the payload field of each of them, in that order - also when several of them
   read the same header *)
Definition header_schemes (L : locs) (reqs : list requirement) : list scheme :=
  filter (in_header L) (dedup_schemes [] (flat_map r_schemes reqs)).

Definition strip_fields (L : locs) (reqs : list requirement) : list cattr :=
  flat_map (fun s => match attr_of s with Some a => [a] | None => [] end) (header_schemes L reqs).

(* expr/http_endpoint.go Finalize: the location class recorded on each scheme of an endpoint's
   own copy of the requirements (SchemeExpr.In). It is a function of the METHOD's mapping only:
   sibling methods inheriting the same service / API requirement each get their own. *)
Definition in_of_loc (l : loc) : string :=
  match l with LHeader _ => "header" | LQuery => "query" | LBody => "body" end.

Definition scheme_in (L : locs) (s : scheme) : string :=
  match attr_of s with
  | Some a => in_of_loc (loc_of L a)
  | None => match s_kind s with Basic => "header" | _ => "" end
  end.

Definition endpoint_ins (L : locs) (reqs : list requirement) : list (list (string * string)) :=
  map (fun r => map (fun s => (s_name s, scheme_in L s)) (r_schemes r)) reqs.

(* the hypothesis of the _partial theorems: the negation of the recorded findings *)
Definition wire_safe (L : locs) (p : creds) : Prop :=
  (forall b, In b (p_user p) -> N.eqb b 58 = false) /\
  loc_safe (l_token L) (p_token p) /\
  loc_safe (l_atoken L) (p_atoken p) /\
  (forall k v, In (k, v) (p_keys p) -> loc_safe (lookup k (l_keys L) (LHeader false)) v).

Fixpoint bytes_of_string (s : string) : bytes :=
  match s with
  | EmptyString => []
  | String a r => N_of_ascii a :: bytes_of_string r
  end.

(* ------------------------------------------------------------------ *)
(* the request on the wire (request_encoder.go.tpl, client side, and     *)
(* request_decoder.go.tpl, server side), with the NAMES of the places    *)

Inductive place :=
| PHeader (name : string)      (* canonical header name; implicit credentials: "Authorization" *)
| PQuery (name : string)
| PBody (name : string)        (* attribute of a body object *)
| PBodyWhole.                  (* Body("attr"): the body is this value *)

(* a credential attribute the client payload has set: where it goes, its value *)
Record field := { f_attr : cattr; f_place : place; f_val : bytes }.

(* net/http Header.Set / url.Values.Add / the JSON body, as logs of writes: for headers the LAST
   write to a name is the value of the header (Set replaces), for the query the FIRST Add is what
   r.URL.Query().Get returns *)
Record wire := { w_hdr : list (string * bytes); w_qry : list (string * bytes);
                 w_body : list (string * bytes); w_whole : option bytes }.

Definition authorization : string := "Authorization".
Definition basic_word : bytes := [66; 97; 115; 105; 99; 32]%N.   (* "Basic " *)

Definition get_last (n : string) (log : list (string * bytes)) : option bytes :=
  match find (fun kv => String.eqb (fst kv) n) (rev log) with Some kv => Some (snd kv) | None => None end.
Definition get_first (n : string) (log : list (string * bytes)) : option bytes :=
  match find (fun kv => String.eqb (fst kv) n) log with Some kv => Some (snd kv) | None => None end.

(* isBearer: some JWT / OAuth2 scheme of the requirements reads the Authorization header *)
Definition place_of (P : list (cattr * place)) (a : cattr) : place :=
  match find (fun ap => match fst ap, a with
                        | AKey n, AKey m => String.eqb n m
                        | AToken, AToken | AAToken, AAToken => true
                        | _, _ => false end) P with
  | Some ap => snd ap
  | None => PHeader authorization      (* unmapped: implicit Authorization header *)
  end.

Definition is_auth_header (pl : place) : bool :=
  match pl with PHeader n => String.eqb n authorization | _ => false end.

Definition bearer_auth (P : list (cattr * place)) (reqs : list requirement) : bool :=
  existsb (fun s => match s_kind s, attr_of s with
                    | JWT, Some a | OAuth2, Some a => is_auth_header (place_of P a)
                    | _, _ => false end) (flat_map r_schemes reqs).

(* the writes the generated client performs for the set credential fields, in payload order,
   then SetBasicAuth (which overwrites Authorization); None: refused (':' in the user name) *)
Definition hdr_write (bearer_a : bool) (f : field) : list (string * bytes) :=
  match f_place f with
  | PHeader n => [(n, add_prefix (bearer_a && String.eqb n authorization) (f_val f))]
  | _ => []
  end.
Definition qry_write (f : field) : list (string * bytes) :=
  match f_place f with PQuery n => [(n, f_val f)] | _ => [] end.
Definition body_write (f : field) : list (string * bytes) :=
  match f_place f with PBody n => [(n, f_val f)] | _ => [] end.
Definition whole_write (f : field) : list bytes :=
  match f_place f with PBodyWhole => [f_val f] | _ => [] end.

Definition encode_wire (bearer_a : bool) (basic : option (bytes * bytes)) (fs : list field) : option wire :=
  let basic_hdr := match basic with
                   | None => Some []
                   | Some (u, pw) => if has_colon u then None else Some [(authorization, basic_word ++ basic_join u pw)]
                   end in
  match basic_hdr with
  | None => None
  | Some bh => Some {| w_hdr := flat_map (hdr_write bearer_a) fs ++ bh;
                       w_qry := flat_map qry_write fs;
                       w_body := flat_map body_write fs;
                       w_whole := last (map Some (flat_map whole_write fs)) None |}
  end.

(* the server reads one credential attribute from its place; `stripped`: the attribute belongs
   to a header scheme (strip_fields), so a prefix is removed when the value holds a space *)
Definition orempty (o : option bytes) : bytes := match o with Some v => v | None => [] end.

Definition decode_place (pl : place) (stripped : bool) (w : wire) : bytes :=
  match pl with
  | PHeader n => let v := trim (orempty (get_last n (w_hdr w))) in if stripped then strip_prefix v else v
  | PQuery n => orempty (get_first n (w_qry w))
  | PBody n => orempty (get_first n (w_body w))
  | PBodyWhole => orempty (w_whole w)
  end.

(* r.BasicAuth on the Authorization header *)
Fixpoint drop_prefix (pre v : bytes) : option bytes :=
  match pre, v with
  | [], _ => Some v
  | a :: pre', b :: v' => if N.eqb a b then drop_prefix pre' v' else None
  | _ :: _, [] => None
  end.
Definition decode_basic (w : wire) : option (bytes * bytes) :=
  match get_last authorization (w_hdr w) with
  | Some v => match drop_prefix basic_word v with Some r => cut_colon r | None => None end
  | None => None
  end.

Definition is_header_place (pl : place) : bool := match pl with PHeader _ => true | _ => false end.
