(* Correspondence glue for C06: what the harness observed of the real goa code,
   the same observation computed from the model, compared by vm_compute. *)
From Security Require Import Model.

Definition kind_eq_dec (a b : kind) : {a = b} + {a <> b}.
Proof. decide equality. Defined.

Definition strs_eq_dec := list_eq_dec string_dec.

Definition scheme_eq_dec (a b : scheme) : {a = b} + {a <> b}.
Proof. decide equality; [apply strs_eq_dec|apply string_dec|apply kind_eq_dec]. Defined.

Definition requirement_eq_dec (a b : requirement) : {a = b} + {a <> b}.
Proof. decide equality; [apply strs_eq_dec|apply (list_eq_dec scheme_eq_dec)]. Defined.

Definition reqs_eq_dec := list_eq_dec requirement_eq_dec.

Definition sc_eq_dec (a b : sc) : {a = b} + {a <> b}.
Proof. decide equality; try apply strs_eq_dec; apply string_dec. Defined.

Definition bytes_eq_dec : forall a b : bytes, {a = b} + {a <> b} := list_eq_dec N.eq_dec.

Fixpoint stmt_eq_dec (a b : stmt) {struct a} : {a = b} + {a <> b}.
Proof.
  decide equality; try apply strs_eq_dec; try apply scheme_eq_dec; apply (list_eq_dec stmt_eq_dec).
Defined.

Definition mk_scheme (k : kind) (n : string) (scopes : list string) : scheme :=
  {| s_kind := k; s_name := n; s_scopes := scopes |}.
Definition mk_req (ss : list scheme) (rq : list string) : requirement := {| r_schemes := ss; r_scopes := rq |}.
Definition mk_creds u pw t a ks : creds := {| p_user := u; p_pass := pw; p_token := t; p_atoken := a; p_keys := ks |}.
Definition mk_locs t a ks : locs := {| l_token := t; l_atoken := a; l_keys := ks |}.

(* ---- tier A: requirements after Finalize, and as service data ---- *)
(* (index, method's own requirements incl. the NoSecurity marker, service's, API's,
    MethodExpr.Requirements after evaluation, service.MethodData.Requirements) *)
Definition inherit_case : Type :=
  nat * list requirement * list requirement * list requirement * list requirement * list requirement.

Definition inherit_mismatches (cs : list inherit_case) : list nat :=
  flat_map (fun c => match c with (i, m, s, a, fin, dat) =>
     let e := effective_reqs m s a in
     if reqs_eq_dec e fin then (if reqs_eq_dec (data_reqs e) dat then [] else [i]) else [i] end) cs.

(* ---- structural tie: the generated endpoint function parsed back ---- *)
Definition shape_mismatches (cs : list (nat * list requirement * list stmt)) : list nat :=
  flat_map (fun c => match c with (i, reqs, body) =>
     if list_eq_dec stmt_eq_dec (gen_endpoint reqs) body then [] else [i] end) cs.

(* ---- tier B: one exchange ---- *)
(* scripted callbacks: a scheme rejects iff its name is listed; the error names the scheme *)
Definition scripted (rejects : list string) (k : kind) (s : sc) (cr : list bytes) (c : unit) : unit * option string :=
  (tt, if existsb (String.eqb (sc_name s)) rejects then Some (sc_name s) else None).

Definition obs_call : Type := kind * sc * list bytes * bool.

Definition obs_call_eq_dec (a b : obs_call) : {a = b} + {a <> b}.
Proof.
  decide equality; [apply bool_dec|]. decide equality; [apply (list_eq_dec bytes_eq_dec)|].
  decide equality; [apply sc_eq_dec|apply kind_eq_dec].
Defined.

Definition mk_obs_call (k : kind) (n : string) (scopes required : list string) (cr : list bytes) (ok : bool) : obs_call :=
  (k, {| sc_name := n; sc_scopes := scopes; sc_required := required |}, cr, ok).

(* (index, requirements of the method, credential locations, credentials given to the client,
    rejecting schemes, times the method ran, callbacks observed, scheme named by the error the client got) *)
Definition exchange_case : Type :=
  nat * list requirement * locs * creds * list string * nat * list obs_call * option string.

Definition opt_string_eq_dec (a b : option string) : {a = b} + {a <> b}.
Proof. decide equality; apply string_dec. Defined.

Definition exchange_mismatches (cs : list exchange_case) : list nat :=
  flat_map (fun c => match c with (i, reqs, L, p, rejects, inv, calls, rej) =>
     match transport L p with
     | None => (* refused by the client: nothing reaches the server *)
       match inv, calls, rej with 0, [], None => [] | _, _, _ => [i] end
     | Some p' =>
       let o := run unit string (scripted rejects) p' reqs tt in
       if Nat.eqb (List.length (o_invoked o)) inv
          && (if list_eq_dec obs_call_eq_dec (map call_obs (o_calls o)) calls then true else false)
          && (if opt_string_eq_dec (o_error o) rej then true else false)
       then [] else [i]
     end end) cs.

(* ---- credential transport alone (also exercised by the witness streams) ---- *)
(* (index, location, sent, received) *)
Definition arrive_mismatches (cs : list (nat * loc * bytes * bytes)) : list nat :=
  flat_map (fun c => match c with (i, l, sent, got) =>
     if bytes_eq_dec (arrive l sent) got then [] else [i] end) cs.

(* byte strings are written by the harness as lists of small nat literals *)
Definition bs (l : list nat) : bytes := map N.of_nat l.

(* ---- request decoder: payload fields whose prefix is stripped, read from encode_decode.go ---- *)
Definition cattr_eq_dec (a b : cattr) : {a = b} + {a <> b}.
Proof. decide equality; apply string_dec. Defined.

Definition strip_mismatches (cs : list (nat * locs * list requirement * list cattr)) : list nat :=
  flat_map (fun c => match c with (i, L, reqs, fields) =>
     if list_eq_dec cattr_eq_dec (strip_fields L reqs) fields then [] else [i] end) cs.

(* ---- tier A: SchemeExpr.In of every scheme of HTTPEndpointExpr.Requirements ---- *)
Definition ins_eq_dec : forall a b : list (list (string * string)), {a = b} + {a <> b}.
Proof. apply list_eq_dec, list_eq_dec. decide equality; apply string_dec. Defined.

Definition ins_mismatches (cs : list (nat * locs * list requirement * list (list (string * string)))) : list nat :=
  flat_map (fun c => match c with (i, L, reqs, ins) =>
     if ins_eq_dec (endpoint_ins L reqs) ins then [] else [i] end) cs.

(* ---- the request on the wire ---- *)
Definition mk_field (a : cattr) (pl : place) (v : bytes) : field := {| f_attr := a; f_place := pl; f_val := v |}.

Definition opt_bytes_eq_dec (a b : option bytes) : {a = b} + {a <> b}.
Proof. decide equality; apply bytes_eq_dec. Defined.

Definition kvs_eq_dec : forall a b : list (string * bytes), {a = b} + {a <> b}.
Proof. apply list_eq_dec. decide equality; [apply bytes_eq_dec|apply string_dec]. Defined.

(* (index, places of the credential attributes, requirements, Basic pair given to the client if the
    endpoint has a Basic scheme, fields set by the client in payload order,
    observed: was a request sent, headers (name, value or absent; a Basic blob base64-decoded),
    first query values (name, value or absent), string attributes of a JSON object body, JSON string body) *)
Definition wire_case : Type :=
  nat * list (cattr * place) * list requirement * option (bytes * bytes) * list field *
  bool * list (string * option bytes) * list (string * option bytes) * list (string * bytes) * option bytes.

Definition wire_mismatches (cs : list wire_case) : list nat :=
  flat_map (fun c => match c with (i, P, reqs, basic, fs, sent, hdrs, qrys, body, whole) =>
     match encode_wire (bearer_auth P reqs) basic fs with
     | None => if sent then [i] else []
     | Some w =>
       if sent
          && forallb (fun h => if opt_bytes_eq_dec (get_last (fst h) (w_hdr w)) (snd h) then true else false) hdrs
          && forallb (fun q => if opt_bytes_eq_dec (get_first (fst q) (w_qry w)) (snd q) then true else false) qrys
          && (if kvs_eq_dec (w_body w) body then true else false)
          && (if opt_bytes_eq_dec (w_whole w) whole then true else false)
       then [] else [i]
     end end) cs.
