(* Proofs for the Security engine (C06). *)
From Security Require Import Model.
From Coq Require Import Lia.

Section ExecLemmas.
  Variables ctx err : Type.
  Variable auth : kind -> sc -> list bytes -> ctx -> ctx * option err.
  Variable p : creds.

  Notation state := (state ctx err).
  Notation exec := (exec ctx err auth p).
  Notation exec_block := (exec_block ctx err auth p).
  Notation do_call := (do_call ctx err auth p).
  Notation all_pass := (all_pass ctx err auth p).
  Notation any_pass := (any_pass ctx err auth p).
  Notation mk_call := (mk_call ctx err auth p).
  Notation run := (run ctx err auth p).
  Notation secure := (secure ctx err auth p).

  (* state σ after some callbacks: new context, new error, trace extended *)
  Definition upd (σ : state) (c : ctx) (e : option err) (tr : list (call err)) : state :=
    {| st_ctx := c; st_err := e; st_trace := st_trace _ _ σ ++ tr; st_ret := false; st_inv := st_inv _ _ σ |}.

  Lemma exec_ret s (σ : state) : st_ret _ _ σ = true -> exec s σ = σ.
  Proof. intro H. destruct s; simpl; rewrite H; reflexivity. Qed.

  Lemma exec_block_ret b (σ : state) : st_ret _ _ σ = true -> exec_block b σ = σ.
  Proof. induction b as [|x b IH]; simpl; intro H; [reflexivity|]. rewrite exec_ret by exact H. apply IH, H. Qed.

  Lemma exec_block_app a b (σ : state) : exec_block (a ++ b) σ = exec_block b (exec_block a σ).
  Proof. revert σ. induction a as [|x a IH]; simpl; intros; [reflexivity|apply IH]. Qed.

  Lemma exec_IfErrNil b (σ : state) :
    exec (IfErrNil b) σ =
    if st_ret _ _ σ then σ else match st_err _ _ σ with None => exec_block b σ | Some _ => σ end.
  Proof.
    simpl. destruct (st_ret _ _ σ); [reflexivity|]. destruct (st_err _ _ σ); [reflexivity|].
    revert σ. induction b as [|x b IH]; intros; simpl; [reflexivity|apply IH].
  Qed.

  Lemma exec_IfErrNotNil b (σ : state) :
    exec (IfErrNotNil b) σ =
    if st_ret _ _ σ then σ else match st_err _ _ σ with Some _ => exec_block b σ | None => σ end.
  Proof.
    simpl. destruct (st_ret _ _ σ); [reflexivity|]. destruct (st_err _ _ σ); [|reflexivity].
    revert σ. induction b as [|x b IH]; intros; simpl; [reflexivity|apply IH].
  Qed.

  Lemma exec_Call s rq (σ : state) : st_ret _ _ σ = false -> exec (Call s rq) σ = do_call s rq σ.
  Proof. intro H. simpl. rewrite H. reflexivity. Qed.

  Lemma upd_id (σ : state) : st_ret _ _ σ = false -> upd σ (st_ctx _ _ σ) (st_err _ _ σ) [] = σ.
  Proof. destruct σ; simpl; intro H; subst. unfold upd; simpl. rewrite app_nil_r. reflexivity. Qed.

  Lemma upd_upd (σ : state) c e tr c' e' tr' : upd (upd σ c e tr) c' e' tr' = upd σ c' e' (tr ++ tr').
  Proof. unfold upd; simpl. rewrite app_assoc. reflexivity. Qed.

  Lemma do_call_upd s rq (σ : state) :
    do_call s rq σ =
    upd σ (fst (auth (s_kind s) (mk_sc s rq) (cred_for p s) (st_ctx _ _ σ)))
          (snd (auth (s_kind s) (mk_sc s rq) (cred_for p s) (st_ctx _ _ σ)))
          [mk_call s rq (st_ctx _ _ σ)].
  Proof. reflexivity. Qed.

  (* the schemes after the first one of a requirement *)
  Lemma exec_tail_schemes rq ss : forall (σ : state), st_ret _ _ σ = false ->
    exec_block (map (fun s' => IfErrNil [Call s' rq]) ss) σ =
    match st_err _ _ σ with
    | Some _ => σ
    | None => let '(c', e', tr) := all_pass rq ss (st_ctx _ _ σ) in upd σ c' e' tr
    end.
  Proof.
    induction ss as [|s ss IH]; intros σ Hr; cbn [map Model.exec_block].
    - destruct (st_err _ _ σ) eqn:E; [reflexivity|]. simpl. rewrite <- E. symmetry. apply upd_id, Hr.
    - rewrite exec_IfErrNil, Hr. destruct (st_err _ _ σ) eqn:E.
      + rewrite IH by exact Hr. rewrite E. reflexivity.
      + cbn [Model.exec_block]. rewrite exec_Call by exact Hr. rewrite do_call_upd.
        set (r := auth (s_kind s) (mk_sc s rq) (cred_for p s) (st_ctx _ _ σ)).
        rewrite IH by reflexivity. simpl st_err. simpl st_ctx. cbn [Model.all_pass]. fold r.
        destruct (snd r) eqn:Er; [reflexivity|].
        destruct (all_pass rq ss (fst r)) as [[c' e'] tr]. rewrite upd_upd. reflexivity.
  Qed.

  Lemma exec_gen_req r : forall (σ : state), st_ret _ _ σ = false -> r_schemes r <> [] ->
    exec_block (gen_req r) σ =
    let '(c', e', tr) := all_pass (r_scopes r) (r_schemes r) (st_ctx _ _ σ) in upd σ c' e' tr.
  Proof.
    intros σ Hr Hne. unfold gen_req. destruct (r_schemes r) as [|s ss]; [congruence|].
    cbn [Model.exec_block]. rewrite exec_Call by exact Hr. rewrite do_call_upd.
    set (a := auth (s_kind s) (mk_sc s (r_scopes r)) (cred_for p s) (st_ctx _ _ σ)).
    rewrite exec_tail_schemes by reflexivity. simpl st_err. simpl st_ctx. cbn [Model.all_pass]. fold a.
    destruct (snd a) eqn:Ea; [reflexivity|].
    destruct (all_pass (r_scopes r) ss (fst a)) as [[c' e'] tr]. rewrite upd_upd. reflexivity.
  Qed.

  Definition nonempty (r : requirement) : Prop := r_schemes r <> [].

  (* the requirements after the first one *)
  Lemma exec_tail_reqs rs : Forall nonempty rs -> forall (σ : state), st_ret _ _ σ = false ->
    exec_block (map (fun r' => IfErrNotNil (gen_req r')) rs) σ =
    match st_err _ _ σ with
    | None => σ
    | Some x => let '(c', e', tr) := any_pass rs (st_ctx _ _ σ) (Some x) in upd σ c' e' tr
    end.
  Proof.
    induction rs as [|r rs IH]; intros Hne σ Hr; cbn [map Model.exec_block].
    - destruct (st_err _ _ σ) eqn:E; [|reflexivity]. simpl. rewrite <- E. symmetry. apply upd_id, Hr.
    - inversion Hne as [|? ? Hr0 Hrs]; subst.
      rewrite exec_IfErrNotNil, Hr. destruct (st_err _ _ σ) eqn:E.
      + rewrite exec_gen_req by assumption. cbn [Model.any_pass].
        destruct (all_pass (r_scopes r) (r_schemes r) (st_ctx _ _ σ)) as [[c' e'] tr].
        rewrite IH by (assumption || reflexivity). simpl st_err. simpl st_ctx.
        destruct e' as [x|]; [|reflexivity].
        destruct (any_pass rs c' (Some x)) as [[c'' e''] tr']. rewrite upd_upd. reflexivity.
      + rewrite IH by assumption. rewrite E. reflexivity.
  Qed.

  Lemma exec_gen_chain r rs : Forall nonempty (r :: rs) -> forall (σ : state), st_ret _ _ σ = false ->
    exec_block (gen_chain (r :: rs)) σ =
    let '(c', e', tr) := any_pass (r :: rs) (st_ctx _ _ σ) None in upd σ c' e' tr.
  Proof.
    intros Hne σ Hr. inversion Hne as [|? ? Hr0 Hrs]; subst.
    unfold gen_chain. rewrite exec_block_app, exec_gen_req by assumption. cbn [Model.any_pass].
    destruct (all_pass (r_scopes r) (r_schemes r) (st_ctx _ _ σ)) as [[c' e'] tr].
    rewrite exec_tail_reqs by (assumption || reflexivity). simpl st_err. simpl st_ctx.
    destruct e' as [x|]; [|reflexivity].
    destruct (any_pass rs c' (Some x)) as [[c'' e''] tr']. rewrite upd_upd. reflexivity.
  Qed.

  (* the generated endpoint computes the OR-of-ANDs specification *)
  Lemma run_refines reqs c : Forall nonempty reqs -> run reqs c = secure reqs c.
  Proof.
    intro Hne. destruct reqs as [|r rs]; [reflexivity|].
    unfold run, secure. unfold gen_endpoint. rewrite exec_block_app, exec_gen_chain by (assumption || reflexivity).
    simpl st_ctx.
    destruct (any_pass (r :: rs) c None) as [[c' e'] tr].
    cbn [Model.exec_block]. rewrite exec_IfErrNotNil. simpl st_ret. simpl st_err.
    destruct e' as [x|]; simpl; reflexivity.
  Qed.
End ExecLemmas.

(* ------------------------------------------------------------------ *)
(* facts about the specification, for every oracle                     *)
Section SpecLemmas.
  Variables ctx err : Type.
  Variable auth : kind -> sc -> list bytes -> ctx -> ctx * option err.
  Variable p : creds.

  Notation all_pass := (all_pass ctx err auth p).
  Notation any_pass := (any_pass ctx err auth p).
  Notation mk_call := (mk_call ctx err auth p).
  Notation secure := (secure ctx err auth p).
  Notation run := (run ctx err auth p).

  (* a call record produced for scheme s of a requirement with required scopes rq *)
  Definition call_of (cl : call err) (s : scheme) (rq : list string) : Prop :=
    c_kind cl = s_kind s /\ c_sc cl = mk_sc s rq /\ c_cred cl = cred_for p s.

  Lemma all_pass_calls rq ss : forall c c' e tr, all_pass rq ss c = (c', e, tr) ->
    forall cl, In cl tr -> exists s, In s ss /\ call_of cl s rq.
  Proof.
    induction ss as [|s ss IH]; intros c c' e tr H cl Hin; simpl in H.
    - inversion H; subst. destruct Hin.
    - destruct (snd (auth (s_kind s) (mk_sc s rq) (cred_for p s) c)) eqn:Ea.
      + inversion H; subst. destruct Hin as [<-|[]]. exists s. split; [left; reflexivity|]. repeat split.
      + destruct (all_pass rq ss (fst (auth (s_kind s) (mk_sc s rq) (cred_for p s) c))) as [[c1 e1] tr1] eqn:Ep.
        inversion H; subst. destruct Hin as [<-|Hin].
        * exists s. split; [left; reflexivity|]. repeat split.
        * destruct (IH _ _ _ _ Ep cl Hin) as [s' [Hs' Hc]]. exists s'. split; [right; exact Hs'|exact Hc].
  Qed.

  Lemma all_pass_err_last rq ss : forall c c' x tr, all_pass rq ss c = (c', Some x, tr) ->
    exists tr0 cl, tr = tr0 ++ [cl] /\ c_res cl = Some x.
  Proof.
    induction ss as [|s ss IH]; intros c c' x tr H; simpl in H.
    - inversion H.
    - destruct (snd (auth (s_kind s) (mk_sc s rq) (cred_for p s) c)) eqn:Ea.
      + inversion H; subst. exists [], (mk_call s rq c). split; [reflexivity|]. simpl. exact Ea.
      + destruct (all_pass rq ss (fst (auth (s_kind s) (mk_sc s rq) (cred_for p s) c))) as [[c1 e1] tr1] eqn:Ep.
        inversion H; subst. destruct (IH _ _ _ _ Ep) as [tr0 [cl [-> Hc]]].
        exists (mk_call s rq c :: tr0), cl. split; [reflexivity|exact Hc].
  Qed.

  Lemma any_pass_calls rs : forall c e0 c' e tr, any_pass rs c e0 = (c', e, tr) ->
    forall cl, In cl tr -> exists r s, In r rs /\ In s (r_schemes r) /\ call_of cl s (r_scopes r).
  Proof.
    induction rs as [|r rs IH]; intros c e0 c' e tr H cl Hin; simpl in H.
    - inversion H; subst. destruct Hin.
    - destruct (all_pass (r_scopes r) (r_schemes r) c) as [[c1 e1] tr1] eqn:Ep.
      destruct e1 as [x|].
      + destruct (any_pass rs c1 (Some x)) as [[c2 e2] tr2] eqn:Eq. inversion H; subst.
        apply in_app_or in Hin. destruct Hin as [Hin|Hin].
        * destruct (all_pass_calls _ _ _ _ _ _ Ep cl Hin) as [s [Hs Hc]]. exists r, s. repeat split; try (left; reflexivity); try assumption; apply Hc.
        * destruct (IH _ _ _ _ _ Eq cl Hin) as [r' [s [Hr' [Hs Hc]]]]. exists r', s. split; [right; exact Hr'|split; assumption].
      + inversion H; subst.
        destruct (all_pass_calls _ _ _ _ _ _ Ep cl Hin) as [s [Hs Hc]]. exists r, s. repeat split; try (left; reflexivity); try assumption; apply Hc.
  Qed.

  Lemma any_pass_err_last rs : forall c e0 c' x tr, any_pass rs c e0 = (c', Some x, tr) ->
    (rs = [] /\ e0 = Some x /\ tr = []) \/ (exists tr0 cl, tr = tr0 ++ [cl] /\ c_res cl = Some x).
  Proof.
    induction rs as [|r rs IH]; intros c e0 c' x tr H; simpl in H.
    - inversion H; subst. left. repeat split.
    - right. destruct (all_pass (r_scopes r) (r_schemes r) c) as [[c1 e1] tr1] eqn:Ep.
      destruct e1 as [y|]; [|inversion H].
      destruct (any_pass rs c1 (Some y)) as [[c2 e2] tr2] eqn:Eq. inversion H; subst.
      destruct (IH _ _ _ _ _ Eq) as [[-> [Hy ->]]|[tr0 [cl [-> Hc]]]].
      + inversion Hy; subst. rewrite app_nil_r. exact (all_pass_err_last _ _ _ _ _ _ Ep).
      + exists (tr1 ++ tr0), cl. split; [now rewrite app_assoc|exact Hc].
  Qed.

  (* every callback sees its scheme's declared scopes, the requirement's required scopes,
     and the credentials of its kind *)
  Lemma secure_calls reqs c cl : In cl (o_calls (secure reqs c)) ->
    exists r s, In r reqs /\ In s (r_schemes r) /\ call_of cl s (r_scopes r).
  Proof.
    unfold secure. destruct (any_pass reqs c None) as [[c' e] tr] eqn:E.
    intro H. apply (any_pass_calls _ _ _ _ _ _ E). destruct e; exact H.
  Qed.

  (* when the request is refused, the error is the one returned by the last callback invoked *)
  Lemma secure_error_last reqs c : o_invoked (secure reqs c) = [] ->
    exists x tr0 cl, o_error (secure reqs c) = Some x /\ o_calls (secure reqs c) = tr0 ++ [cl] /\ c_res cl = Some x.
  Proof.
    unfold secure. destruct (any_pass reqs c None) as [[c' e] tr] eqn:E.
    destruct e as [x|]; simpl; [|discriminate]. intros _.
    destruct (any_pass_err_last _ _ _ _ _ _ E) as [[_ [H _]]|[tr0 [cl [-> Hc]]]]; [discriminate|].
    exists x, tr0, cl. repeat split. exact Hc.
  Qed.

  (* the service method runs at most once, and never together with an error *)
  Lemma secure_invoked_xor_error reqs c :
    (exists c', o_invoked (secure reqs c) = [c'] /\ o_error (secure reqs c) = None) \/
    (o_invoked (secure reqs c) = [] /\ exists x, o_error (secure reqs c) = Some x).
  Proof.
    unfold secure. destruct (any_pass reqs c None) as [[c' e] tr].
    destruct e as [x|]; simpl; [right; split; [reflexivity|exists x; reflexivity]|left; exists c'; split; reflexivity].
  Qed.

  (* ---- callbacks whose verdict does not depend on the context ---- *)
  Variable c0 : ctx.
  Hypothesis Hpure : forall k s cr c1 c2, snd (auth k s cr c1) = snd (auth k s cr c2).

  Notation accepts := (accepts auth p c0).
  Notation req_accepts := (req_accepts auth p c0).

  Definition exp_obs (rq : list string) (s : scheme) : kind * sc * list bytes * bool :=
    (s_kind s, mk_sc s rq, cred_for p s, accepts rq s).

  Lemma all_pass_pure rq ss : forall c c' e tr, all_pass rq ss c = (c', e, tr) ->
    is_none e = forallb (accepts rq) ss /\
    map call_obs tr = map (exp_obs rq) (upto_first (fun s => negb (accepts rq s)) ss).
  Proof.
    induction ss as [|s ss IH]; intros c c' e tr H; simpl in H.
    - inversion H; subst. split; reflexivity.
    - assert (Hacc : accepts rq s = is_none (snd (auth (s_kind s) (mk_sc s rq) (cred_for p s) c))).
      { unfold Model.accepts. rewrite (Hpure _ _ _ c0 c). destruct (snd _); reflexivity. }
      destruct (snd (auth (s_kind s) (mk_sc s rq) (cred_for p s) c)) eqn:Ea.
      + inversion H; subst. simpl. rewrite Hacc. simpl. split; [reflexivity|].
        unfold call_obs, exp_obs. simpl. rewrite Ea, Hacc. reflexivity.
      + destruct (all_pass rq ss (fst (auth (s_kind s) (mk_sc s rq) (cred_for p s) c))) as [[c1 e1] tr1] eqn:Ep.
        inversion H; subst. destruct (IH _ _ _ _ Ep) as [H1 H2]. simpl. rewrite Hacc. simpl. split; [exact H1|].
        rewrite H2. unfold call_obs at 1, exp_obs at 2. simpl. rewrite Ea, Hacc. reflexivity.
  Qed.

  Definition req_obs (r : requirement) : list (kind * sc * list bytes * bool) :=
    map (exp_obs (r_scopes r)) (upto_first (fun s => negb (accepts (r_scopes r) s)) (r_schemes r)).

  Lemma expected_obs_flat reqs :
    expected_obs auth p c0 reqs = flat_map req_obs (upto_first req_accepts reqs).
  Proof.
    unfold expected_obs, expected_calls. induction (upto_first req_accepts reqs) as [|r l IH]; [reflexivity|].
    simpl. rewrite map_app, IH. f_equal. unfold req_obs. rewrite map_map. reflexivity.
  Qed.

  Lemma any_pass_pure rs : forall c e0 c' e tr, any_pass rs c e0 = (c', e, tr) ->
    is_none e = (existsb req_accepts rs || match rs with [] => is_none e0 | _ => false end) /\
    map call_obs tr = flat_map req_obs (upto_first req_accepts rs).
  Proof.
    induction rs as [|r rs IH]; intros c e0 c' e tr H; simpl in H.
    - inversion H; subst. split; reflexivity.
    - destruct (all_pass (r_scopes r) (r_schemes r) c) as [[c1 e1] tr1] eqn:Ep.
      destruct (all_pass_pure _ _ _ _ _ _ Ep) as [Hn Htr].
      destruct e1 as [x|].
      + destruct (any_pass rs c1 (Some x)) as [[c2 e2] tr2] eqn:Eq. inversion H; subst.
        destruct (IH _ _ _ _ _ Eq) as [H1 H2].
        assert (Hr : req_accepts r = false) by (unfold Model.req_accepts; rewrite <- Hn; reflexivity).
        simpl. rewrite Hr. simpl. split.
        * rewrite H1. destruct rs; simpl; [reflexivity|]. now rewrite orb_false_r.
        * rewrite map_app, Htr, H2. reflexivity.
      + inversion H; subst.
        assert (Hr : req_accepts r = true) by (unfold Model.req_accepts; rewrite <- Hn; reflexivity).
        simpl. rewrite Hr. simpl. split; [reflexivity|]. rewrite app_nil_r. exact Htr.
  Qed.

  Lemma existsb_Exists {A} (f : A -> bool) l : existsb f l = true <-> Exists (fun x => f x = true) l.
  Proof. rewrite existsb_exists, Exists_exists. reflexivity. Qed.

  (* OR of ANDs *)
  Lemma secure_or_of_ands reqs c : reqs <> [] ->
    (o_invoked (secure reqs c) <> [] <->
     Exists (fun r => Forall (fun s => accepts (r_scopes r) s = true) (r_schemes r)) reqs).
  Proof.
    intro Hne. unfold secure. destruct (any_pass reqs c None) as [[c' e] tr] eqn:E.
    destruct (any_pass_pure _ _ _ _ _ _ E) as [Hn _].
    assert (Hex : existsb req_accepts reqs = true <->
                  Exists (fun r => Forall (fun s => accepts (r_scopes r) s = true) (r_schemes r)) reqs).
    { rewrite existsb_Exists, !Exists_exists. split; intros [r [Hin Hr]]; exists r; (split; [exact Hin|]);
        unfold Model.req_accepts in *; [rewrite forallb_forall in Hr; rewrite Forall_forall; exact Hr|
                                        rewrite forallb_forall; rewrite Forall_forall in Hr; exact Hr]. }
    rewrite <- Hex. destruct reqs as [|r rs]; [congruence|]. rewrite orb_false_r in Hn.
    destruct e as [x|]; simpl in *.
    - split; [congruence|]. intro H. rewrite H in Hn. discriminate.
    - split; [intros _; symmetry; exact Hn|discriminate].
  Qed.

  Lemma secure_call_order reqs c : map call_obs (o_calls (secure reqs c)) = expected_obs auth p c0 reqs.
  Proof.
    unfold secure. destruct (any_pass reqs c None) as [[c' e] tr] eqn:E.
    destruct (any_pass_pure _ _ _ _ _ _ E) as [_ Htr]. rewrite expected_obs_flat, <- Htr.
    destruct e; reflexivity.
  Qed.
End SpecLemmas.

(* ------------------------------------------------------------------ *)
(* inheritance                                                          *)

Lemma has_nosecurity_nil : has_nosecurity [] = false.
Proof. reflexivity. Qed.

Lemma effective_table m s a :
  (has_nosecurity m = true -> effective_reqs m s a = []) /\
  (has_nosecurity m = false -> m <> [] -> effective_reqs m s a = m) /\
  (m = [] -> s <> [] -> effective_reqs m s a = s) /\
  (m = [] -> s = [] -> effective_reqs m s a = a).
Proof.
  unfold effective_reqs. repeat split.
  - intros ->. reflexivity.
  - intros -> H. destruct m; [congruence|reflexivity].
  - intros -> H. simpl. destruct s; [congruence|reflexivity].
  - intros -> ->. reflexivity.
Qed.

(* dedup keeps the first scheme of every name, in order *)
Lemma dedup_names_notin seen ss s : In s (dedup_schemes seen ss) -> ~ In (s_name s) seen.
Proof.
  revert seen. induction ss as [|x ss IH]; intros seen H; simpl in H; [destruct H|].
  destruct (existsb (String.eqb (s_name x)) seen) eqn:E.
  - apply IH, H.
  - destruct H as [<-|H].
    + intro Hin. assert (existsb (String.eqb (s_name x)) seen = true); [|congruence].
      apply existsb_exists. exists (s_name x). split; [exact Hin|apply String.eqb_refl].
    + intro Hin. apply (IH _ H). right. exact Hin.
Qed.

Lemma dedup_NoDup seen ss : NoDup (map s_name (dedup_schemes seen ss)).
Proof.
  revert seen. induction ss as [|x ss IH]; intros seen; simpl; [constructor|].
  destruct (existsb (String.eqb (s_name x)) seen); [apply IH|].
  simpl. constructor; [|apply IH].
  intro Hin. apply in_map_iff in Hin. destruct Hin as [s [Hn Hs]].
  apply dedup_names_notin in Hs. apply Hs. left. symmetry. exact Hn.
Qed.

Lemma dedup_id_NoDup ss : forall seen, NoDup (map s_name ss) -> (forall s, In s ss -> ~ In (s_name s) seen) ->
  dedup_schemes seen ss = ss.
Proof.
  induction ss as [|x ss IH]; intros seen Hnd Hseen; simpl; [reflexivity|].
  destruct (existsb (String.eqb (s_name x)) seen) eqn:E.
  - exfalso. apply existsb_exists in E. destruct E as [n [Hin Hn]]. apply String.eqb_eq in Hn. subst n.
    apply (Hseen x); [left; reflexivity|exact Hin].
  - f_equal. inversion Hnd as [|? ? Hx Hnd']; subst. apply IH; [exact Hnd'|].
    intros s Hs [Heq|Hin].
    + apply Hx. rewrite Heq. apply in_map. exact Hs.
    + apply (Hseen s); [right; exact Hs|exact Hin].
Qed.

(* ------------------------------------------------------------------ *)
(* credentials over HTTP                                                *)

Definition head_ok (c : bytes) : Prop := match c with [] => True | b :: _ => is_ows b = false end.

Lemma trim_left_noop c : head_ok c -> trim_left c = c.
Proof. destruct c as [|b r]; simpl; [reflexivity|]. intros ->. reflexivity. Qed.

Lemma trim_ends c : head_ok c -> head_ok (rev c) -> trim c = c.
Proof. intros H1 H2. unfold trim. rewrite (trim_left_noop c H1), (trim_left_noop _ H2). apply rev_involutive. Qed.

Lemma rev_head_in (c : bytes) : c <> [] -> exists x r, rev c = x :: r /\ In x c.
Proof.
  intro H. destruct (rev c) as [|x r] eqn:E.
  - exfalso. apply H. rewrite <- (rev_involutive c), E. reflexivity.
  - exists x, r. split; [reflexivity|]. apply in_rev. rewrite E. left. reflexivity.
Qed.

Lemma no_ows_head_ok c : no_ows c -> head_ok c.
Proof. destruct c; simpl; [trivial|]. intro H. apply H. left. reflexivity. Qed.

Lemma no_ows_rev c : no_ows c -> no_ows (rev c).
Proof. intros H b Hb. apply H. apply in_rev. exact Hb. Qed.

Lemma trim_no_ows c : no_ows c -> trim c = c.
Proof. intro H. apply trim_ends; apply no_ows_head_ok; [exact H|apply no_ows_rev, H]. Qed.

Lemma trim_bearer c : c <> [] -> no_ows c -> trim (bearer ++ c) = bearer ++ c.
Proof.
  intros Hne H. apply trim_ends; [reflexivity|].
  rewrite rev_app_distr. destruct (rev_head_in c Hne) as [x [r [-> Hx]]]. simpl. apply H, Hx.
Qed.

Lemma no_ows_no_space c : no_ows c -> contains_space c = false.
Proof.
  intro H. unfold contains_space. destruct (existsb is_sp c) eqn:E; [|reflexivity].
  apply existsb_exists in E. destruct E as [b [Hb Hs]]. specialize (H b Hb).
  unfold is_ows in H. unfold is_sp in Hs. rewrite Hs in H. discriminate.
Qed.

Lemma header_roundtrip_safe b c : header_safe c -> header_roundtrip b c = c.
Proof.
  intros [Hne H]. unfold header_roundtrip, add_prefix. rewrite (no_ows_no_space c H).
  destruct b; cbn [andb negb].
  - rewrite trim_bearer by assumption. reflexivity.
  - rewrite trim_no_ows by assumption. unfold strip_prefix. rewrite (no_ows_no_space c H). reflexivity.
Qed.

Lemma cut_colon_join u pw : (forall b, In b u -> N.eqb b 58 = false) -> cut_colon (basic_join u pw) = Some (u, pw).
Proof.
  unfold basic_join. induction u as [|b u IH]; intro H; simpl.
  - reflexivity.
  - rewrite (H b) by (left; reflexivity). rewrite IH; [reflexivity|]. intros x Hx. apply H. right. exact Hx.
Qed.

Lemma has_colon_false u : has_colon u = false -> forall b, In b u -> N.eqb b 58 = false.
Proof.
  unfold has_colon. intros H b Hb. destruct (N.eqb b 58) eqn:E; [|reflexivity].
  assert (existsb (fun b => N.eqb b 58) u = true) by (apply existsb_exists; exists b; split; assumption). congruence.
Qed.

Lemma no_colon_has_colon u : (forall b, In b u -> N.eqb b 58 = false) -> has_colon u = false.
Proof.
  intro H. unfold has_colon. destruct (existsb _ u) eqn:E; [|reflexivity].
  apply existsb_exists in E. destruct E as [b [Hb He]]. rewrite (H b Hb) in He. discriminate.
Qed.

(* what is sent is what arrives; a user name is refused exactly when it holds a colon *)
Lemma basic_send_spec u pw :
  (has_colon u = true /\ basic_send u pw = None) \/ (has_colon u = false /\ basic_send u pw = Some (u, pw)).
Proof.
  unfold basic_send. destruct (has_colon u) eqn:E; [left; split; reflexivity|right; split; [reflexivity|]].
  apply cut_colon_join, has_colon_false, E.
Qed.

Lemma arrive_safe l c : loc_safe l c -> arrive l c = c.
Proof. destruct l; simpl; intro H; [apply header_roundtrip_safe, H|reflexivity|reflexivity]. Qed.

Lemma map_keys_safe (f : string * bytes -> string * bytes) (l : list (string * bytes)) :
  (forall kv, In kv l -> f kv = kv) -> map f l = l.
Proof. induction l as [|x l IH]; simpl; intro H; [reflexivity|]. rewrite H by (left; reflexivity). rewrite IH; [reflexivity|]. intros kv Hk. apply H. right. exact Hk. Qed.

Lemma transport_safe L p : wire_safe L p -> transport L p = Some p.
Proof.
  intros [Hu [Ht [Ha Hk]]]. unfold transport.
  destruct (basic_send_spec (p_user p) (p_pass p)) as [[Hc _]|[_ ->]].
  - rewrite (no_colon_has_colon _ Hu) in Hc. discriminate.
  - simpl. rewrite (arrive_safe _ _ Ht), (arrive_safe _ _ Ha). rewrite map_keys_safe.
    + destruct p; reflexivity.
    + intros [k v] Hin. simpl. rewrite arrive_safe; [reflexivity|]. apply (Hk k v Hin).
Qed.

Lemma transport_basic L p :
  (has_colon (p_user p) = true /\ transport L p = None) \/
  (has_colon (p_user p) = false /\ exists p', transport L p = Some p' /\ p_user p' = p_user p /\ p_pass p' = p_pass p).
Proof.
  unfold transport. destruct (basic_send_spec (p_user p) (p_pass p)) as [[Hc ->]|[Hc ->]].
  - left. split; [exact Hc|reflexivity].
  - right. split; [exact Hc|]. eexists. split; [reflexivity|]. split; reflexivity.
Qed.

Lemma data_reqs_NoDup reqs r : In r (data_reqs reqs) -> NoDup (map s_name (r_schemes r)).
Proof.
  unfold data_reqs. intro H. apply in_map_iff in H. destruct H as [r0 [<- _]]. simpl. apply dedup_NoDup.
Qed.

Lemma data_reqs_id reqs :
  Forall (fun r => NoDup (map s_name (r_schemes r))) reqs -> data_reqs reqs = reqs.
Proof.
  unfold data_reqs. induction reqs as [|r reqs IH]; intro H; [reflexivity|].
  inversion H as [|? ? Hr Hrs]; subst. simpl. rewrite IH by exact Hrs.
  rewrite dedup_id_NoDup; [destruct r; reflexivity|exact Hr|intros s _ []].
Qed.

(* a requirement without schemes after a failing one: refused although vacuously satisfied *)
Lemma empty_req_not_invoked ctx err (auth : kind -> sc -> list bytes -> ctx -> ctx * option err) p (s : scheme) (c : ctx) (e : err) :
  snd (auth (s_kind s) (mk_sc s []) (cred_for p s) c) = Some e ->
  let reqs := [ {| r_schemes := [s]; r_scopes := [] |}; {| r_schemes := []; r_scopes := [] |} ] in
  o_invoked (run ctx err auth p reqs c) = [] /\
  Exists (fun r => Forall (fun s => accepts auth p c (r_scopes r) s = true) (r_schemes r)) reqs.
Proof.
  intro H. split.
  - unfold run. cbn. rewrite H. cbn. rewrite H. reflexivity.
  - apply Exists_cons_tl, Exists_cons_hd. constructor.
Qed.

(* ------------------------------------------------------------------ *)
(* every header-carried credential is stripped by the decoder           *)

Lemma dedup_covers l : forall seen s, In s l -> ~ In (s_name s) seen ->
  exists s', In s' (dedup_schemes seen l) /\ s_name s' = s_name s.
Proof.
  induction l as [|x l IH]; intros seen s Hin Hns; [destruct Hin|]. simpl.
  destruct (existsb (String.eqb (s_name x)) seen) eqn:E.
  - destruct Hin as [->|Hin].
    + exfalso. apply existsb_exists in E. destruct E as [n [Hn He]]. apply String.eqb_eq in He. subst n. exact (Hns Hn).
    + apply IH; assumption.
  - destruct Hin as [->|Hin].
    + exists s. split; [left; reflexivity|reflexivity].
    + destruct (string_dec (s_name s) (s_name x)) as [Heq|Hne].
      * exists x. split; [left; reflexivity|symmetry; exact Heq].
      * destruct (IH (s_name x :: seen) s Hin) as [s' [H1 H2]].
        { intros [H|H]; [apply Hne; symmetry; exact H|exact (Hns H)]. }
        exists s'. split; [right; exact H1|exact H2].
Qed.

Lemma dedup_subset l : forall seen s, In s (dedup_schemes seen l) -> In s l.
Proof.
  induction l as [|x l IH]; intros seen s H; simpl in H; [destruct H|].
  destruct (existsb (String.eqb (s_name x)) seen).
  - right. apply (IH _ _ H).
  - destruct H as [->|H]; [left; reflexivity|right; apply (IH _ _ H)].
Qed.

Lemma strip_fields_complete L reqs r s a :
  (forall s1 s2, In s1 (flat_map r_schemes reqs) -> In s2 (flat_map r_schemes reqs) -> s_name s1 = s_name s2 -> s1 = s2) ->
  In r reqs -> In s (r_schemes r) -> attr_of s = Some a -> is_header (loc_of L a) = true ->
  In a (strip_fields L reqs).
Proof.
  intros Huniq Hr Hs Ha Hh.
  assert (Hall : In s (flat_map r_schemes reqs)) by (apply in_flat_map; exists r; split; assumption).
  destruct (dedup_covers _ [] s Hall) as [s' [Hin Hname]]; [intros []|].
  assert (s' = s) by (apply Huniq; [apply (dedup_subset _ _ _ Hin)|exact Hall|exact Hname]). subst s'.
  unfold strip_fields. apply in_flat_map. exists s. split.
  - unfold header_schemes. apply filter_In. split; [exact Hin|]. unfold in_header. rewrite Ha. exact Hh.
  - rewrite Ha. left. reflexivity.
Qed.

Lemma strip_fields_sound L reqs a : In a (strip_fields L reqs) ->
  is_header (loc_of L a) = true /\ exists r s, In r reqs /\ In s (r_schemes r) /\ attr_of s = Some a.
Proof.
  unfold strip_fields. intro H. apply in_flat_map in H. destruct H as [s [Hs Ha]].
  unfold header_schemes in Hs. apply filter_In in Hs. destruct Hs as [Hd Hh].
  apply dedup_subset in Hd. apply in_flat_map in Hd. destruct Hd as [r [Hr Hsr]].
  unfold in_header in Hh. destruct (attr_of s) as [a'|] eqn:E; [|destruct Ha].
  destruct Ha as [<-|[]]. split; [exact Hh|]. exists r, s. repeat split; assumption.
Qed.

Lemma is_header_in l : is_header l = true <-> in_of_loc l = "header".
Proof. destruct l; simpl; split; intro H; try reflexivity; discriminate. Qed.

Lemma scheme_in_stripped L reqs r s a :
  (forall s1 s2, In s1 (flat_map r_schemes reqs) -> In s2 (flat_map r_schemes reqs) -> s_name s1 = s_name s2 -> s1 = s2) ->
  In r reqs -> In s (r_schemes r) -> attr_of s = Some a ->
  (scheme_in L s = "header" <-> In a (strip_fields L reqs)).
Proof.
  intros Hu Hr Hs Ha. unfold scheme_in. rewrite Ha. rewrite <- is_header_in. split.
  - intro H. exact (strip_fields_complete L reqs r s a Hu Hr Hs Ha H).
  - intro H. apply strip_fields_sound in H. apply H.
Qed.

(* ------------------------------------------------------------------ *)
(* the request on the wire                                              *)

Lemma find_all_same (n : string) (v : bytes) (log : list (string * bytes)) :
  (forall kv, In kv log -> fst kv = n -> snd kv = v) -> (exists kv, In kv log /\ fst kv = n) ->
  exists kv, find (fun kv => String.eqb (fst kv) n) log = Some kv /\ snd kv = v.
Proof.
  intros Hall [kv0 [Hin Hn]].
  destruct (find (fun kv => String.eqb (fst kv) n) log) as [kv|] eqn:E.
  - exists kv. split; [reflexivity|]. apply find_some in E. destruct E as [Hk He].
    apply String.eqb_eq in He. exact (Hall kv Hk He).
  - exfalso. pose proof (find_none _ _ E kv0 Hin) as H. simpl in H. rewrite Hn, String.eqb_refl in H. discriminate.
Qed.

Lemma get_last_all_same n v log :
  (forall kv, In kv log -> fst kv = n -> snd kv = v) -> (exists kv, In kv log /\ fst kv = n) -> get_last n log = Some v.
Proof.
  intros Hall [kv0 [Hin Hn]]. unfold get_last.
  destruct (find_all_same n v (rev log)) as [kv [-> Hv]].
  - intros kv Hk. apply Hall. apply in_rev. exact Hk.
  - exists kv0. split; [apply in_rev; rewrite rev_involutive; exact Hin|exact Hn].
  - rewrite Hv. reflexivity.
Qed.

Lemma get_first_all_same n v log :
  (forall kv, In kv log -> fst kv = n -> snd kv = v) -> (exists kv, In kv log /\ fst kv = n) -> get_first n log = Some v.
Proof.
  intros Hall Hex. unfold get_first. destruct (find_all_same n v log Hall Hex) as [kv [-> Hv]]. rewrite Hv. reflexivity.
Qed.

Lemma in_hdr_write b fs n x : In (n, x) (flat_map (hdr_write b) fs) <->
  exists f, In f fs /\ f_place f = PHeader n /\ x = add_prefix (b && String.eqb n authorization) (f_val f).
Proof.
  rewrite in_flat_map. split.
  - intros [f [Hf Hin]]. unfold hdr_write in Hin. destruct (f_place f) eqn:E; simpl in Hin; try contradiction.
    destruct Hin as [Heq|[]]. inversion Heq; subst. exists f. repeat split; assumption.
  - intros [f [Hf [Hp ->]]]. exists f. split; [exact Hf|]. unfold hdr_write. rewrite Hp. left. reflexivity.
Qed.

Lemma in_qry_write fs n x : In (n, x) (flat_map qry_write fs) <-> exists f, In f fs /\ f_place f = PQuery n /\ x = f_val f.
Proof.
  rewrite in_flat_map. split.
  - intros [f [Hf Hin]]. unfold qry_write in Hin. destruct (f_place f) eqn:E; simpl in Hin; try contradiction.
    destruct Hin as [Heq|[]]. inversion Heq; subst. exists f. repeat split; assumption.
  - intros [f [Hf [Hp ->]]]. exists f. split; [exact Hf|]. unfold qry_write. rewrite Hp. left. reflexivity.
Qed.

Lemma in_body_write fs n x : In (n, x) (flat_map body_write fs) <-> exists f, In f fs /\ f_place f = PBody n /\ x = f_val f.
Proof.
  rewrite in_flat_map. split.
  - intros [f [Hf Hin]]. unfold body_write in Hin. destruct (f_place f) eqn:E; simpl in Hin; try contradiction.
    destruct Hin as [Heq|[]]. inversion Heq; subst. exists f. repeat split; assumption.
  - intros [f [Hf [Hp ->]]]. exists f. split; [exact Hf|]. unfold body_write. rewrite Hp. left. reflexivity.
Qed.

Lemma encode_wire_inv b basic fs w : encode_wire b basic fs = Some w ->
  exists bh, w_hdr w = flat_map (hdr_write b) fs ++ bh /\ w_qry w = flat_map qry_write fs /\ w_body w = flat_map body_write fs /\
    match basic with
    | None => bh = []
    | Some (u, pw) => has_colon u = false /\ bh = [(authorization, basic_word ++ basic_join u pw)]
    end.
Proof.
  unfold encode_wire. destruct basic as [[u pw]|].
  - destruct (has_colon u) eqn:E; [discriminate|]. intro H. inversion H; subst; simpl.
    eexists. repeat split; reflexivity.
  - intro H. inversion H; subst; simpl. exists []. repeat split; reflexivity.
Qed.

(* several set fields writing one header with one value: the header holds that value *)
Lemma wire_header_value b basic fs w n v :
  encode_wire b basic fs = Some w -> (basic = None \/ n <> authorization) ->
  (forall f, In f fs -> f_place f = PHeader n -> f_val f = v) ->
  (exists f, In f fs /\ f_place f = PHeader n) ->
  get_last n (w_hdr w) = Some (add_prefix (b && String.eqb n authorization) v).
Proof.
  intros He Hb Hall [f0 [Hf0 Hp0]]. destruct (encode_wire_inv _ _ _ _ He) as [bh [Hh [_ [_ Hbh]]]]. rewrite Hh.
  apply get_last_all_same.
  - intros [m x] Hin Hm. simpl in Hm. subst m. simpl. apply in_app_or in Hin. destruct Hin as [Hin|Hin].
    + apply in_hdr_write in Hin. destruct Hin as [f [Hf [Hp ->]]]. rewrite (Hall f Hf Hp). reflexivity.
    + exfalso. destruct basic as [[u pw]|].
      * destruct Hbh as [_ ->]. destruct Hin as [Heq|[]]. inversion Heq. destruct Hb as [Hb|Hb]; [discriminate|]. apply Hb. symmetry. assumption.
      * subst bh. destruct Hin.
  - exists (n, add_prefix (b && String.eqb n authorization) v). split; [|reflexivity].
    apply in_or_app. left. apply in_hdr_write. exists f0. repeat split; try assumption. rewrite (Hall f0 Hf0 Hp0). reflexivity.
Qed.

Lemma decode_header_group b basic fs w n v :
  encode_wire b basic fs = Some w -> (basic = None \/ n <> authorization) ->
  (forall f, In f fs -> f_place f = PHeader n -> f_val f = v) ->
  (exists f, In f fs /\ f_place f = PHeader n) ->
  decode_place (PHeader n) true w = header_roundtrip (b && String.eqb n authorization) v.
Proof. intros He Hb Hall Hex. unfold decode_place. rewrite (wire_header_value _ _ _ _ _ _ He Hb Hall Hex). reflexivity. Qed.

Lemma decode_query_value b basic fs w n v :
  encode_wire b basic fs = Some w ->
  (forall f, In f fs -> f_place f = PQuery n -> f_val f = v) -> (exists f, In f fs /\ f_place f = PQuery n) ->
  decode_place (PQuery n) false w = v.
Proof.
  intros He Hall [f0 [Hf0 Hp0]]. destruct (encode_wire_inv _ _ _ _ He) as [bh [_ [Hq _]]]. unfold decode_place. rewrite Hq.
  rewrite (get_first_all_same n v); [reflexivity| |].
  - intros [m x] Hin Hm. simpl in Hm. subst m. apply in_qry_write in Hin. destruct Hin as [f [Hf [Hp ->]]]. simpl. exact (Hall f Hf Hp).
  - exists (n, v). split; [|reflexivity]. apply in_qry_write. exists f0. repeat split; try assumption. symmetry. exact (Hall f0 Hf0 Hp0).
Qed.

Lemma decode_body_value b basic fs w n v :
  encode_wire b basic fs = Some w ->
  (forall f, In f fs -> f_place f = PBody n -> f_val f = v) -> (exists f, In f fs /\ f_place f = PBody n) ->
  decode_place (PBody n) false w = v.
Proof.
  intros He Hall [f0 [Hf0 Hp0]]. destruct (encode_wire_inv _ _ _ _ He) as [bh [_ [_ [Hbd _]]]]. unfold decode_place. rewrite Hbd.
  rewrite (get_first_all_same n v); [reflexivity| |].
  - intros [m x] Hin Hm. simpl in Hm. subst m. apply in_body_write in Hin. destruct Hin as [f [Hf [Hp ->]]]. simpl. exact (Hall f Hf Hp).
  - exists (n, v). split; [|reflexivity]. apply in_body_write. exists f0. repeat split; try assumption. symmetry. exact (Hall f0 Hf0 Hp0).
Qed.

Lemma get_last_snoc n v log : get_last n (log ++ [(n, v)]) = Some v.
Proof. unfold get_last. rewrite rev_app_distr. simpl. rewrite String.eqb_refl. reflexivity. Qed.

Lemma drop_basic_word x : drop_prefix basic_word (basic_word ++ x) = Some x.
Proof. reflexivity. Qed.

Lemma wire_basic b u pw fs :
  (has_colon u = true /\ encode_wire b (Some (u, pw)) fs = None) \/
  (has_colon u = false /\ exists w, encode_wire b (Some (u, pw)) fs = Some w /\ decode_basic w = Some (u, pw)).
Proof.
  unfold encode_wire. destruct (has_colon u) eqn:E; [left; split; reflexivity|right; split; [reflexivity|]].
  eexists. split; [reflexivity|]. unfold decode_basic. cbn [w_hdr]. rewrite get_last_snoc. cbv beta iota. rewrite drop_basic_word.
  apply cut_colon_join, has_colon_false, E.
Qed.

(* nothing is written anywhere but in the designed places *)
Lemma wire_only_designed b basic fs w : encode_wire b basic fs = Some w ->
  (forall n x, In (n, x) (w_hdr w) -> (exists f, In f fs /\ f_place f = PHeader n) \/ (n = authorization /\ basic <> None)) /\
  (forall n x, In (n, x) (w_qry w) <-> exists f, In f fs /\ f_place f = PQuery n /\ x = f_val f) /\
  (forall n x, In (n, x) (w_body w) <-> exists f, In f fs /\ f_place f = PBody n /\ x = f_val f).
Proof.
  intro He. destruct (encode_wire_inv _ _ _ _ He) as [bh [Hh [Hq [Hbd Hbh]]]]. rewrite Hh, Hq, Hbd. repeat split.
  - intros n x Hin. apply in_app_or in Hin. destruct Hin as [Hin|Hin].
    + left. apply in_hdr_write in Hin. destruct Hin as [f [Hf [Hp _]]]. exists f. split; assumption.
    + right. destruct basic as [[u pw]|]; [|subst bh; destruct Hin].
      destruct Hbh as [_ ->]. destruct Hin as [Heq|[]]. inversion Heq. split; [reflexivity|discriminate].
  - apply in_qry_write.
  - apply in_qry_write.
  - apply in_body_write.
  - apply in_body_write.
Qed.
