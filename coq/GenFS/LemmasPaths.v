(* GenFS — where gen files land: codegen.SnakeCase yields a directory name, and every
   filepath.Join(codegen.Gendir, c1, c2, ...) with safe components lies in a sub-directory
   of gen/. Discharges all_gen_files_in_subdirs from the source-derived path table. *)
From GenFS Require Import Model.
From Coq Require Import String List NArith Bool Arith Lia.
Import ListNotations.
Local Open Scope N_scope.

Ltac bytes_arith :=
  repeat match goal with
  | H : _ && _ = true |- _ => apply andb_prop in H; destruct H
  | H : _ || _ = true |- _ => apply orb_prop in H; destruct H
  | H : (_ <=? _) = true |- _ => apply N.leb_le in H
  | H : (_ =? _) = true |- _ => apply N.eqb_eq in H
  | H : (_ =? _) = false |- _ => apply N.eqb_neq in H
  | H : (_ <=? _) = false |- _ => apply N.leb_gt in H
  end.

(* SnakeCase loop input bytes: letters, digits, underscore *)
Definition word_byte (b : N) : bool := is_upper b || is_lower b || is_digit b || (b =? 95).

Lemma to_lower_dir b : word_byte b = true -> dir_byte (to_lower b) = true.
Proof.
  unfold word_byte, to_lower. intro H. destruct (is_upper b) eqn:U.
  - clear H. unfold is_upper in U. bytes_arith. unfold dir_byte, is_lower.
    assert ((97 <=? b + 32) && (b + 32 <=? 122) = true) as ->; [|reflexivity].
    apply andb_true_intro; split; apply N.leb_le; lia.
  - simpl in H. exact H.
Qed.

Lemma dir_byte_us : dir_byte 95 = true.
Proof. reflexivity. Qed.

Lemma snake_loop_dir s : forall l u, Forall (fun b => word_byte b = true) s ->
  Forall (fun b => dir_byte b = true) (snake_loop l u s).
Proof.
  induction s as [|r rest IH]; intros l u H; [constructor|].
  inversion H as [|? ? Hr Hrest]; subst. simpl.
  apply Forall_app. split.
  - match goal with |- Forall _ (if ?c then _ else _) => destruct c end; repeat constructor.
  - constructor; [apply to_lower_dir; exact Hr|apply IH; exact Hrest].
Qed.

Lemma replace_all_from_forall (P : N -> Prop) old new s : forall k,
  Forall P s -> Forall P new -> Forall P (replace_all_from k old new s).
Proof.
  induction s as [|c r IH]; intros k Hs Hn; [constructor|].
  inversion Hs; subst. simpl. destruct k as [|k].
  - destruct (is_prefix old (c :: r)).
    + apply Forall_app; split; [exact Hn|apply IH; assumption].
    + constructor; [assumption|apply IH; assumption].
  - apply IH; assumption.
Qed.

Definition has_nonspace (s : bytes) : Prop := exists b, In b s /\ is_space b = false.

Lemma replace_all_nonspace old new s :
  new <> [] -> Forall (fun b => is_space b = false) new ->
  has_nonspace s -> has_nonspace (replace_all old new s).
Proof.
  intros Hne Hnew. unfold replace_all. induction s as [|c r IH]; intros [b [Hin Hb]]; [destruct Hin|].
  simpl. destruct (is_prefix old (c :: r)).
  - destruct new as [|n new']; [contradiction|]. inversion Hnew; subst.
    exists n. split; [left; reflexivity|assumption].
  - destruct Hin as [->|Hin].
    + exists b. split; [left; reflexivity|exact Hb].
    + destruct IH as [b' [Hin' Hb']]; [exists b; split; assumption|].
      exists b'. split; [right; exact Hin'|exact Hb'].
Qed.

Lemma replace_dash_map s :
  replace_all [45] [95] s = map (fun c => if c =? 45 then 95 else c) s.
Proof.
  unfold replace_all. induction s as [|c r IH]; [reflexivity|].
  change (replace_all_from 0 [45] [95] (c :: r))
    with (if (45 =? c) && true then [95] ++ replace_all_from 0 [45] [95] r else c :: replace_all_from 0 [45] [95] r).
  rewrite IH, andb_true_r, (N.eqb_sym 45 c). cbn [map app]. destruct (c =? 45); reflexivity.
Qed.

Section Fields.
  Variable R : N -> Prop.

  Lemma fields_from_words s : forall cur,
    Forall R cur -> Forall (fun b => is_space b = false -> R b) s ->
    Forall (fun w => w <> [] /\ Forall R w) (fields_from cur s).
  Proof.
    induction s as [|c r IH]; intros cur Hc Hs; simpl.
    - destruct cur as [|x cur']; [constructor|]. constructor; [|constructor].
      split; [intro E; apply (f_equal (@List.length N)) in E; rewrite rev_length in E; discriminate|].
      apply Forall_rev. exact Hc.
    - inversion Hs as [|? ? Hcr Hr]; subst. destruct (is_space c) eqn:Sp.
      + destruct cur as [|x cur']; [apply IH; [constructor|exact Hr]|].
        constructor; [|apply IH; [constructor|exact Hr]].
        split; [intro E; apply (f_equal (@List.length N)) in E; rewrite rev_length in E; discriminate|].
        apply Forall_rev. exact Hc.
      + apply IH; [constructor; [apply Hcr; reflexivity|exact Hc]|exact Hr].
  Qed.
End Fields.

Lemma fields_from_nonempty s : forall cur, cur <> [] \/ has_nonspace s -> fields_from cur s <> [].
Proof.
  induction s as [|c r IH]; intros cur H; simpl.
  - destruct H as [H|[b [[] _]]]. destruct cur; [contradiction|discriminate].
  - destruct (is_space c) eqn:Sp.
    + destruct cur as [|x cur'].
      * apply IH. right. destruct H as [H|[b [[->|Hin] Hb]]]; [contradiction|congruence|exists b; split; assumption].
      * discriminate.
    + apply IH. left. discriminate.
Qed.

Lemma join_with_forall (P : N -> Prop) sep ws :
  Forall P sep -> Forall (fun w => Forall P w) ws -> Forall P (join_with sep ws).
Proof.
  intros Hs. induction ws as [|w r IH]; intro H; [constructor|].
  inversion H; subst. simpl. destruct r as [|w2 r']; [assumption|].
  apply Forall_app; split; [assumption|]. apply Forall_app; split; [assumption|apply IH; assumption].
Qed.

Lemma join_with_nonempty sep w ws : w <> [] -> join_with sep (w :: ws) <> [].
Proof.
  intro H. simpl. destruct ws; [exact H|]. destruct w; [contradiction|discriminate].
Qed.

Definition nb (b : N) : Prop := name_byte b = true /\ is_space b = false.

Lemma oauth_lower_ok : Forall (fun b => name_byte b = true) oauth_lower /\ Forall (fun b => is_space b = false) oauth_lower.
Proof. split; repeat constructor. Qed.

Lemma nb_to_word b : nb b -> word_byte (if b =? 45 then 95 else b) = true.
Proof.
  intros [Hn Hs]. destruct (b =? 45) eqn:E; [reflexivity|].
  unfold name_byte in Hn. unfold word_byte.
  rewrite Hs, E in Hn. rewrite !orb_false_r in Hn. exact Hn.
Qed.

(* the directory name of a service *)
Lemma snake_case_dir_l name :
  Forall (fun b => name_byte b = true) name -> has_nonspace name ->
  snake_case name <> [] /\ Forall (fun b => dir_byte b = true) (snake_case name).
Proof.
  intros Hn Hx. unfold snake_case.
  set (s1 := replace_all oauth_upper oauth_lower name).
  assert (Forall (fun b => name_byte b = true) s1) as H1
    by (apply replace_all_from_forall; [exact Hn|apply oauth_lower_ok]).
  assert (has_nonspace s1) as X1
    by (apply replace_all_nonspace; [discriminate|apply oauth_lower_ok|exact Hx]).
  set (ws := fields s1).
  assert (Forall (fun w => w <> [] /\ Forall nb w) ws) as Hw.
  { apply fields_from_words; [constructor|].
    eapply Forall_impl; [|exact H1]. intros b Hb Hs. split; assumption. }
  assert (ws <> []) as Hwne by (apply fields_from_nonempty; right; exact X1).
  set (s2 := join_with [95] ws).
  assert (Forall nb s2) as H2.
  { apply join_with_forall; [repeat constructor|]. eapply Forall_impl; [|exact Hw]. intros w [_ Hwf]. exact Hwf. }
  assert (s2 <> []) as N2.
  { destruct ws as [|w r]; [contradiction|]. inversion Hw as [|? ? [Hne _] _]; subst.
    apply join_with_nonempty. exact Hne. }
  rewrite replace_dash_map.
  destruct s2 as [|n rest]; [contradiction|]. simpl.
  inversion H2 as [|? ? Hhead Hrest]; subst.
  split; [discriminate|]. constructor.
  - apply to_lower_dir. apply nb_to_word. exact Hhead.
  - apply snake_loop_dir. rewrite Forall_forall. intros b Hin. apply in_map_iff in Hin.
    destruct Hin as [c [<- Hc]]. apply nb_to_word. rewrite Forall_forall in Hrest. apply Hrest. exact Hc.
Qed.

(* ---- filepath.Join on safe components *)

Lemma bytes_eqb_eq a : forall b, bytes_eqb a b = true <-> a = b.
Proof.
  induction a as [|x a IH]; intros [|y b]; simpl; split; intro H; try reflexivity; try discriminate.
  - apply andb_prop in H. destruct H as [H1 H2]. apply N.eqb_eq in H1. apply IH in H2. congruence.
  - injection H as -> ->. rewrite N.eqb_refl. apply IH. reflexivity.
Qed.

Lemma split_no_slash c : forall cur,
  forallb (fun b => negb (b =? 47)) c = true -> split_slash_from cur c = [rev cur ++ c].
Proof.
  induction c as [|x c IH]; intros cur H; simpl.
  - rewrite app_nil_r. reflexivity.
  - simpl in H. apply andb_prop in H. destruct H as [Hx Hc].
    destruct (x =? 47); [discriminate|]. rewrite IH by exact Hc. simpl. rewrite <- app_assoc. reflexivity.
Qed.

Lemma safe_facts c : safe_component c = true ->
  bytes_eqb c [] = false /\ bytes_eqb c dot = false /\ bytes_eqb c dotdot = false /\
  forallb (fun b => negb (b =? 47)) c = true.
Proof.
  unfold safe_component. intro H. repeat (apply andb_prop in H; destruct H as [H ?]).
  repeat split; try assumption; apply negb_true_iff; assumption.
Qed.

Lemma join_clean_safe l : Forall (fun c => safe_component c = true) l -> join_clean l = l.
Proof.
  intro H. unfold join_clean.
  assert (filter (fun e => negb (bytes_eqb e [])) l = l) as ->.
  { induction H as [|c l Hc Hl IH]; [reflexivity|]. simpl.
    destruct (safe_facts c Hc) as [-> _]. simpl. rewrite IH. reflexivity. }
  assert (flat_map split_slash l = l) as ->.
  { induction H as [|c l Hc Hl IH]; [reflexivity|]. simpl.
    destruct (safe_facts c Hc) as [_ [_ [_ Hs]]]. change (split_slash c) with (split_slash_from [] c). rewrite (split_no_slash c [] Hs). simpl. rewrite IH. reflexivity. }
  assert (forall stack, clean_push stack l = rev l ++ stack) as Hp.
  { induction H as [|c l Hc Hl IH]; intro stack; [reflexivity|]. simpl.
    destruct (safe_facts c Hc) as [-> [-> [-> _]]]. simpl. rewrite IH. rewrite <- app_assoc. reflexivity. }
  rewrite Hp, app_nil_r, rev_involutive. reflexivity.
Qed.

Lemma gen_name_safe : safe_component gen_name = true.
Proof. reflexivity. Qed.

Lemma inst_safe svc sh : safe_component svc = true -> forallb comp_ok sh = true ->
  Forall (fun c => safe_component c = true) (inst svc sh).
Proof.
  intros Hs. induction sh as [|c sh IH]; intro H; [constructor|].
  simpl in H. apply andb_prop in H. destruct H as [Hc Hr]. simpl. constructor; [|apply IH; exact Hr].
  destruct c; simpl in *; try discriminate; assumption.
Qed.

Lemma shape_in_subdir_l svc sh :
  safe_component svc = true -> shape_ok sh = true -> in_gen_subdir_b (join_clean (inst svc sh)) = true.
Proof.
  intros Hs H. destruct sh as [|[| | |] [|c1 [|c2 rest]]]; try discriminate.
  unfold shape_ok in H.
  rewrite join_clean_safe.
  - reflexivity.
  - simpl. constructor; [apply gen_name_safe|]. apply (inst_safe svc (c1 :: c2 :: rest) Hs H).
Qed.

Lemma dir_is_safe c : c <> [] -> Forall (fun b => dir_byte b = true) c -> safe_component c = true.
Proof.
  intros Hne H. destruct c as [|x c]; [contradiction|]. inversion H as [|? ? Hx Hc]; subst.
  assert (forall b, dir_byte b = true -> (b =? 46) = false /\ (b =? 47) = false) as D.
  { intros b Hb. unfold dir_byte, is_lower, is_digit in Hb. split; apply N.eqb_neq; intro; subst; discriminate. }
  unfold safe_component. simpl. destruct (D x Hx) as [E46 E47]. rewrite E46, E47. simpl.
  rewrite forallb_forall. intros b Hin. rewrite Forall_forall in Hc. destruct (D b (Hc b Hin)) as [_ ->]. reflexivity.
Qed.

Lemma service_files_in_subdir_l name sh :
  Forall (fun b => name_byte b = true) name -> has_nonspace name -> shape_ok sh = true ->
  in_gen_subdir_b (join_clean (inst (snake_case name) sh)) = true.
Proof.
  intros Hn Hx Hsh. destruct (snake_case_dir_l name Hn Hx) as [Hne Hd].
  apply shape_in_subdir_l; [apply dir_is_safe; assumption|exact Hsh].
Qed.

(* ---- the path table translated from the source on this run *)
From GenFS Require Import Generated_mapranges.

Lemma path_sites_sweep : forallb path_site_ok gen_path_sites = true.
Proof. vm_compute. reflexivity. Qed.

Lemma path_sites_ok s : In s gen_path_sites -> path_site_ok s = true.
Proof. apply (proj1 (forallb_forall path_site_ok gen_path_sites) path_sites_sweep). Qed.

Lemma inventory_paths_in_subdir_l s name :
  In s gen_path_sites -> pinspected s = false ->
  Forall (fun b => name_byte b = true) name -> has_nonspace name ->
  in_gen_subdir_b (join_clean (inst (snake_case name) (pshape s))) = true.
Proof.
  intros Hin Hi Hn Hx. pose proof (path_sites_ok s Hin) as H. unfold path_site_ok in H.
  rewrite Hi, orb_false_r in H. apply service_files_in_subdir_l; assumption.
Qed.

(* without the restriction on the bytes SnakeCase can return "..": the file leaves gen/ *)
Lemma snake_case_dotdot :
  snake_case [46; 46] = [46; 46] /\
  join_clean (inst (snake_case [46; 46]) [PGendir; PSvc; PLit [115; 46; 103; 111]]) = [[115; 46; 103; 111]].
Proof. split; vm_compute; reflexivity. Qed.
