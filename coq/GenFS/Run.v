(* Correspondence glue: the harness writes, per history it executed with the real goa
   tool on one output directory, the files the generators rendered (path, digest of the
   rendered bytes, SkipExist flag as reported by the generator packages), the history, and
   the directory it found at the end (path, digest, index of the operation after which
   the file last changed on disk). The model is run on the same history with `files`
   instantiated by those rendered digests and compared entry by entry. *)
From GenFS Require Import Model.
From Coq Require Import List NArith Bool Arith.
Import ListNotations.

(* digests are opaque: the whole-file rewrite is the identity on them *)
Definition idfin : path -> content -> content := fun _ c => c.

(* everything numeric in a case file is written in N *)
Definition obs := list (path * content * N).
Definition case := (N * (list file * list file) * list op * obs)%type.

Definition files_of (gf ef : list file) (c : cmd) : list file :=
  match c with Gen => gf | Example => ef end.

Definition model_final (gf ef : list file) (ops : list op) : fs :=
  run (files_of gf ef) idfin ops empty.

Fixpoint lookup (o : obs) (p : path) : option entry :=
  match o with
  | [] => None
  | (q, c, t) :: r => if path_eqb p q then Some (c, N.to_nat t) else lookup r p
  end.

Definition content_eqb (a b : content) : bool := if list_eq_dec N.eq_dec a b then true else false.

Definition entry_eqb (a b : option entry) : bool :=
  match a, b with
  | None, None => true
  | Some (c1, t1), Some (c2, t2) => content_eqb c1 c2 && Nat.eqb t1 t2
  | _, _ => false
  end.

Definition op_paths (o : op) : list path :=
  match o with Edit p _ => [p] | Delete p => [p] | Run _ => [] end.

Definition candidates (gf ef : list file) (ops : list op) (o : obs) : list path :=
  map fpath gf ++ map fpath ef ++ flat_map op_paths ops ++ map (fun x => fst (fst x)) o.

(* the hypotheses of the theorems, evaluated on the observed generator output *)
Definition hyps_ok (gf ef : list file) : bool :=
  forallb (fun f => in_gen_subdir (fpath f)) gf && forallb fskip ef.

Definition case_ok (c : case) : bool :=
  match c with
  | (_, (gf, ef), ops, o) =>
      let m := model_final gf ef ops in
      hyps_ok gf ef && forallb (fun p => entry_eqb (m p) (lookup o p)) (candidates gf ef ops o)
  end.

Definition mismatches (cs : list case) : list N :=
  flat_map (fun c => if case_ok c then [] else [fst (fst (fst c))]) cs.

(* ---- path computation: codegen.SnakeCase and filepath.Join observed on the real code *)
Fixpoint list_bytes_eqb (a b : list bytes) : bool :=
  match a, b with
  | [], [] => true
  | x :: a', y :: b' => bytes_eqb x y && list_bytes_eqb a' b'
  | _, _ => false
  end.

Definition snake_mismatches (cs : list (N * bytes * bytes)) : list N :=
  flat_map (fun c => match c with (i, inp, out) => if bytes_eqb (snake_case inp) out then [] else [i] end) cs.

Definition join_mismatches (cs : list (N * list bytes * list bytes)) : list N :=
  flat_map (fun c => match c with (i, elems, out) => if list_bytes_eqb (join_clean elems) out then [] else [i] end) cs.
