(* C09 — property statements only. Every theorem is closed by a lemma of Lemmas.v and
   followed by Print Assumptions. `files` (what the generators render for a command) and
   `fin` (the whole-file rewrite) are universally quantified: the theorems hold for every
   generator output; that the real generator is a function of the design is OBSERVED by
   the harness (byte comparison across runs and processes), not proved. *)
From GenFS Require Import Model Generated_mapranges Run Lemmas LemmasPaths.
From Coq Require Import String List NArith Bool Permutation Sorted.
Import ListNotations.

(* After ANY history that ends in `gen`, from ANY initial directory, every path inside a
   sub-directory of gen/ holds exactly what a gen into an empty directory produces —
   whatever was there before (stale files, strays, edits). *)
Theorem gen_overwrites files fin (h : list op) (s0 : fs) (p : path) :
  in_gen_subdir p = true ->
  content_at (run files fin (h ++ [Run Gen]) s0) p = content_at (run files fin [Run Gen] empty) p.
Proof. exact (gen_overwrites_l files fin h s0 p). Qed.
Print Assumptions gen_overwrites.

(* ... and every generated file was written by that last gen (its mtime is the last run's) *)
Theorem gen_rewrites_every_file files fin (h : list op) (s0 : fs) (p : path) :
  in_gen_subdir p = true -> (exists f, In f (files Gen) /\ fpath f = p) ->
  stamp_at (run files fin (h ++ [Run Gen]) s0) p = Some (1 + length h).
Proof. exact (gen_writes_stamp_l files fin h s0 p). Qed.
Print Assumptions gen_rewrites_every_file.

(* gen; gen = gen, on the whole directory, after any history *)
Theorem gen_idempotent files fin (h : list op) (s0 : fs) (p : path) :
  all_gen_files_in_subdirs files ->
  content_at (run files fin (h ++ [Run Gen; Run Gen]) s0) p = content_at (run files fin (h ++ [Run Gen]) s0) p.
Proof. exact (gen_idempotent_l files fin h s0 p). Qed.
Print Assumptions gen_idempotent.

(* gen leaves everything outside the sub-directories of gen/ alone: bytes and mtime *)
Theorem gen_preserves_outside files fin (h : list op) (s0 : fs) (p : path) :
  all_gen_files_in_subdirs files -> in_gen_subdir p = false ->
  run files fin (h ++ [Run Gen]) s0 p = run files fin h s0 p.
Proof. exact (gen_preserves_outside_l files fin h s0 p). Qed.
Print Assumptions gen_preserves_outside.

(* `example` never modifies a file that already exists: same bytes, same mtime — for every
   history, every initial directory, every path *)
Theorem example_preserves_existing files fin (h : list op) (s0 : fs) (p : path) (e : entry) :
  all_example_files_skip files ->
  run files fin h s0 p = Some e -> run files fin (h ++ [Run Example]) s0 p = Some e.
Proof. exact (example_preserves_existing_l files fin h s0 p e). Qed.
Print Assumptions example_preserves_existing.

(* "exists" means exists: a file the user emptied (or an empty placeholder created before the
   first run) is an existing file like any other — zero length is not "missing" *)
Theorem example_preserves_empty_file files fin (h : list op) (s0 : fs) (p : path) (t : nat) :
  all_example_files_skip files ->
  run files fin h s0 p = Some ([], t) -> run files fin (h ++ [Run Example]) s0 p = Some ([], t).
Proof. exact (example_preserves_existing_l files fin h s0 p ([], t)). Qed.
Print Assumptions example_preserves_empty_file.

(* in particular a user's edit survives any number of example runs *)
Theorem edit_survives_examples files fin (h : list op) (s0 : fs) (p : path) (b : content) (n : nat) :
  all_example_files_skip files ->
  run files fin ((h ++ [Edit p b]) ++ repeat (Run Example) n) s0 p = Some (b, 1 + length h).
Proof. exact (edit_survives_examples_l files fin h s0 p b n). Qed.
Print Assumptions edit_survives_examples.

Theorem example_creates_only_declared files fin (h : list op) (s0 : fs) (p : path) :
  run files fin h s0 p = None -> (forall f, In f (files Example) -> fpath f <> p) ->
  run files fin (h ++ [Run Example]) s0 p = None.
Proof. exact (example_creates_only_declared_l files fin h s0 p). Qed.
Print Assumptions example_creates_only_declared.

Theorem example_creates_missing files fin (h : list op) (s0 : fs) (p : path) :
  run files fin h s0 p = None -> (exists f, In f (files Example) /\ fpath f = p) ->
  stamp_at (run files fin (h ++ [Run Example]) s0) p = Some (1 + length h).
Proof. exact (example_creates_missing_l files fin h s0 p). Qed.
Print Assumptions example_creates_missing.

(* a file that is absent before `example` (never created, or deleted by the user) is created
   with exactly the bytes example writes into an empty directory: the outcome does not
   depend on prior runs or on which other example files exist *)
Theorem example_independent_of_history files fin (h : list op) (s0 : fs) (p : path) :
  run files fin h s0 p = None ->
  content_at (run files fin (h ++ [Run Example]) s0) p = content_at (run files fin [Run Example] empty) p.
Proof. exact (example_independent_of_history_l files fin h s0 p). Qed.
Print Assumptions example_independent_of_history.

(* the cleanup before gen removes EVERY sub-directory of gen/, whatever its name, and
   nothing else *)
Theorem cleanup_removes_every_subdir (s : fs) (p : path) :
  cleanup s p = if in_gen_subdir p then None else s p.
Proof. exact (cleanup_spec s p). Qed.
Print Assumptions cleanup_removes_every_subdir.

(* If the generators do not read the ambient setting (observed: byte comparison of runs under
   different time zones, locales, environments, directory depths; supported statically by
   no_ambient_inputs below), then the directory after ANY history is the same whatever the
   setting of each individual invocation was: every theorem above carries over to
   histories run on different machines / in different environments. *)
Theorem ambient_irrelevant (A : Type) (filesA : A -> cmd -> list file) fin (a0 : A) (h : list (A * op)) (s0 : fs) :
  ambient_independent A filesA ->
  runA A filesA fin h s0 = run (filesA a0) fin (map snd h) s0.
Proof. intro H. exact (ambient_irrelevant_l A filesA fin a0 H h 1 s0). Qed.
Print Assumptions ambient_irrelevant.

(* Why the hypotheses are there. The unrestricted statements are false of File.Render: *)

(* a gen file directly in gen/ (not in a sub-directory) is appended to by the second gen *)
Theorem gen_idempotent_refuted :
  exists files fin h s0 p,
    content_at (run files fin (h ++ [Run Gen; Run Gen]) s0) p <> content_at (run files fin (h ++ [Run Gen]) s0) p.
Proof. exact (gen_idempotent_refuted_l). Qed.
Print Assumptions gen_idempotent_refuted.

(* without the removal of gen's sub-directories every generated file would be appended to *)
Theorem append_without_cleanup_refuted :
  exists files fin p, all_gen_files_in_subdirs files /\
    content_at (run_nc files fin [Run Gen; Run Gen] empty) p <> content_at (run files fin [Run Gen; Run Gen] empty) p.
Proof. exact (append_without_cleanup_refuted_l). Qed.
Print Assumptions append_without_cleanup_refuted.

(* an example file rendered without SkipExist clobbers the user's file *)
Theorem example_preserves_existing_refuted :
  exists files fin s0 p e,
    s0 p = Some e /\ content_at (run files fin [Run Example] s0) p <> Some (fst e).
Proof. exact (example_preserves_existing_refuted_l). Qed.
Print Assumptions example_preserves_existing_refuted.

(* ---- map iteration: any permutation of the entries gives the same result ---- *)

Theorem fold_perm_invariant {A B} (f : A -> B -> A) :
  (forall a x y, f (f a x) y = f (f a y) x) ->
  forall l1 l2, Permutation l1 l2 -> forall a, fold_left f l1 a = fold_left f l2 a.
Proof. exact (fold_left_perm f). Qed.
Print Assumptions fold_perm_invariant.

Theorem writes_map_perm_invariant {V W} (p : N -> V -> bool) (g : N -> V -> W) l1 l2 out :
  NoDup (map fst l1) -> Permutation l1 l2 -> forall q, writes_map p g l1 out q = writes_map p g l2 out q.
Proof. exact (keyed_writes_perm _ l1 l2 out). Qed.
Print Assumptions writes_map_perm_invariant.

Theorem deletes_map_perm_invariant {V W} (p : N -> V -> bool) l1 l2 (out : store W) :
  NoDup (map fst l1) -> Permutation l1 l2 -> forall q, deletes_map p l1 out q = deletes_map p l2 out q.
Proof. exact (keyed_writes_perm _ l1 l2 out). Qed.
Print Assumptions deletes_map_perm_invariant.

(* collect, then sort with ANY sorting function for an antisymmetric order *)
Theorem collect_then_sort_perm_invariant {A V} (le : A -> A -> Prop) (srt : list A -> list A)
  (p : N -> V -> bool) (g : N -> V -> A) l1 l2 :
  (forall a b, le a b -> le b a -> a = b) ->
  (forall l, Permutation (srt l) l) -> (forall l, StronglySorted le (srt l)) ->
  Permutation l1 l2 -> srt (collect p g l1) = srt (collect p g l2).
Proof. intros Ha Hp Hs. exact (collect_then_sort_perm_l A le Ha srt Hp Hs p g l1 l2). Qed.
Print Assumptions collect_then_sort_perm_invariant.

Theorem keyed_lookup_perm_invariant {V A} (c : N) (g : V -> A) l1 l2 init :
  NoDup (map fst l1) -> Permutation l1 l2 -> keyed_lookup c g l1 init = keyed_lookup c g l2 init.
Proof. exact (keyed_lookup_perm_l c g l1 l2 init). Qed.
Print Assumptions keyed_lookup_perm_invariant.

Theorem first_match_unique_perm_invariant {V A} (p : N -> V -> bool) (g : N -> V -> A) (c : N) l1 l2 :
  (forall k v, p k v = true -> k = c) ->
  NoDup (map fst l1) -> Permutation l1 l2 -> first_match p g l1 = first_match p g l2.
Proof. exact (first_match_unique_perm_l p g c l1 l2). Qed.
Print Assumptions first_match_unique_perm_invariant.

Theorem exists_test_perm_invariant {A} (P : A -> bool) l1 l2 :
  Permutation l1 l2 -> existsb P l1 = existsb P l2.
Proof. exact (existsb_perm P l1 l2). Qed.
Print Assumptions exists_test_perm_invariant.

Theorem commutative_acc_perm_invariant {A} (w : A -> N) l1 l2 a :
  Permutation l1 l2 -> fold_left (fun n e => (n + w e)%N) l1 a = fold_left (fun n e => (n + w e)%N) l2 a.
Proof. exact (sum_perm w l1 l2 a). Qed.
Print Assumptions commutative_acc_perm_invariant.

Theorem const_set_perm_invariant {A B} (P : A -> bool) (c : B) l1 l2 a :
  Permutation l1 l2 ->
  fold_left (fun b e => if P e then c else b) l1 a = fold_left (fun b e => if P e then c else b) l2 a.
Proof. exact (const_set_perm P c l1 l2 a). Qed.
Print Assumptions const_set_perm_invariant.

Theorem commuting_writes_perm_invariant {A B E} (f1 : A -> E -> A) (f2 : B -> E -> B) :
  (forall a x y, f1 (f1 a x) y = f1 (f1 a y) x) -> (forall b x y, f2 (f2 b x) y = f2 (f2 b y) x) ->
  forall l1 l2 s, Permutation l1 l2 ->
  fold_left (fun s e => (f1 (fst s) e, f2 (snd s) e)) l1 s = fold_left (fun s e => (f1 (fst s) e, f2 (snd s) e)) l2 s.
Proof. exact (pair_fold_perm f1 f2). Qed.
Print Assumptions commuting_writes_perm_invariant.

Theorem per_element_perm_invariant {A B} (f : A -> B) l1 l2 :
  Permutation l1 l2 -> Permutation (map f l1) (map f l2).
Proof. exact (Permutation_map f (l:=l1) (l':=l2)). Qed.
Print Assumptions per_element_perm_invariant.

Theorem singleton_perm_invariant {A} (l1 l2 : list A) : length l1 = 1 -> Permutation l1 l2 -> l1 = l2.
Proof. exact (singleton_perm l1 l2). Qed.
Print Assumptions singleton_perm_invariant.

(* the excluded shapes really are order-sensitive *)
Theorem multi_key_match_order_sensitive_refuted :
  exists (l1 l2 : list (N * N)), NoDup (map fst l1) /\ Permutation l1 l2 /\
    last_of_two 1 2 l1 0%N <> last_of_two 1 2 l2 0%N /\
    first_match (fun k _ => N.eqb k 1 || N.eqb k 2) (fun _ v => v) l1 <> first_match (fun k _ => N.eqb k 1 || N.eqb k 2) (fun _ v => v) l2.
Proof. exact (multi_key_refuted_l). Qed.
Print Assumptions multi_key_match_order_sensitive_refuted.

Theorem unsorted_append_order_sensitive_refuted :
  exists (l1 l2 : list (N * N)), Permutation l1 l2 /\ append_keys l1 <> append_keys l2.
Proof. exists [(1, 10); (2, 20)]%N, [(2, 20); (1, 10)]%N. exact append_keys_differs. Qed.
Print Assumptions unsorted_append_order_sensitive_refuted.

(* ---- the inventories translated from the goa source on this run ---- *)

(* every `range` over a map in the generator packages (eval, expr, codegen/*, http/codegen/*,
   grpc/codegen, cmd/goa) has an order-insensitive shape: full statement, no exclusions
   (the openapi:summary / swagger:summary loops were repaired: the summary is looked up by
   key, openapi:summary first) *)
Theorem all_sites_order_insensitive (s : site) :
  In s mapranges -> order_insensitive (sshape s) = true.
Proof. exact (sites_all s). Qed.
Print Assumptions all_sites_order_insensitive.

(* every codegen.File literal reachable from the example generators sets SkipExist: true,
   and none reachable from the gen generators does *)
Theorem all_example_file_sites_skip_exist (s : file_site) :
  In s file_sites -> (from_example s = true -> fs_skip s = true) /\ (from_gen s = true -> fs_skip s = false).
Proof. exact (file_sites_skip_l s). Qed.
Print Assumptions all_example_file_sites_skip_exist.

(* no generator package reads the clock, a global random source, the environment, the host
   identity or the local time zone (time.Local, and every location-dependent method of
   time.Time on a value not pinned by .UTC() / .In(time.UTC)), except the inspected uses *)
Theorem no_ambient_inputs (a : ambient_site) : In a ambient_sites -> aallowed a = true.
Proof. exact (proj1 (forallb_forall aallowed ambient_sites) ambient_sweep a). Qed.
Print Assumptions no_ambient_inputs.

(* ---- where gen files land: discharging all_gen_files_in_subdirs from the source ---- *)

(* codegen.SnakeCase (ASCII model, compared with the real function on every run) turns a
   name made of letters, digits, '_', '-' and blanks, not all blank, into a NON-EMPTY word
   over [a-z0-9_]: a directory name without '/', '.' or "..". _partial: the bytes of the
   name are restricted (see the _refuted companion); Goify stands between DSL names and
   SnakeCase in goa. *)
Theorem snake_case_is_directory_name_partial (name : bytes) :
  Forall (fun b => name_byte b = true) name -> has_nonspace name ->
  snake_case name <> [] /\ Forall (fun b => dir_byte b = true) (snake_case name).
Proof. exact (snake_case_dir_l name). Qed.
Print Assumptions snake_case_is_directory_name_partial.

Theorem snake_case_is_directory_name_refuted :
  exists name, has_nonspace name /\
    in_gen_subdir_b (join_clean (inst (snake_case name) [PGendir; PSvc; PLit [115; 46; 103; 111]%N])) = false.
Proof.
  exists [46; 46]%N. split; [exists 46%N; split; [left; reflexivity|reflexivity]|].
  destruct snake_case_dotdot as [_ ->]. reflexivity.
Qed.
Print Assumptions snake_case_is_directory_name_refuted.

(* filepath.Join (model of Join + Clean on relative slash paths, compared with the real
   function on every run) of safe components is the list of those components *)
Theorem join_of_safe_components (l : list bytes) :
  Forall (fun c => safe_component c = true) l -> join_clean l = l.
Proof. exact (join_clean_safe l). Qed.
Print Assumptions join_of_safe_components.

(* a Path computed as filepath.Join(codegen.Gendir, c1, c2, ...) with two or more further
   components, each a safe literal or a safe service directory, lies inside a sub-directory
   of gen/ *)
Theorem gen_path_in_subdir (svc : bytes) (sh : list pcomp) :
  safe_component svc = true -> shape_ok sh = true ->
  in_gen_subdir_b (join_clean (inst svc sh)) = true.
Proof. exact (shape_in_subdir_l svc sh). Qed.
Print Assumptions gen_path_in_subdir.

(* sweep over the table translated from the source on this run: the Path of every
   codegen.File literal reachable from the gen generators has such a shape (two inspected
   sites: user-type files under struct:pkg:path, the .proto file) *)
Theorem all_gen_path_sites_in_subdirs (s : path_site) :
  In s gen_path_sites -> path_site_ok s = true.
Proof. exact (path_sites_ok s). Qed.
Print Assumptions all_gen_path_sites_in_subdirs.

(* together: for every non-inspected gen file site of the source and every service name in
   the envelope the computed path is in a sub-directory of gen/ — the hypothesis
   all_gen_files_in_subdirs of gen_idempotent / gen_preserves_outside, derived from the code
   instead of observed *)
Theorem gen_files_in_subdirs_from_source_partial (s : path_site) (name : bytes) :
  In s gen_path_sites -> pinspected s = false ->
  Forall (fun b => name_byte b = true) name -> has_nonspace name ->
  in_gen_subdir_b (join_clean (inst (snake_case name) (pshape s))) = true.
Proof. exact (inventory_paths_in_subdir_l s name). Qed.
Print Assumptions gen_files_in_subdirs_from_source_partial.

Example snake_case_examples :
  snake_case [79; 108; 100; 78; 101; 119; 115]%N = [111; 108; 100; 95; 110; 101; 119; 115]%N /\   (* OldNews -> old_news *)
  snake_case [67; 78; 78; 78; 101; 119; 115]%N = [99; 110; 110; 95; 110; 101; 119; 115]%N /\       (* CNNNews -> cnn_news *)
  snake_case [32; 97; 32; 32; 98; 45; 67; 32]%N = [97; 95; 98; 95; 99]%N /\                         (* " a  b-C " -> a_b_c *)
  join_clean [gen_name; [99; 97; 108; 99]%N; []; [46]%N; [115; 46; 103; 111]%N] = [gen_name; [99; 97; 108; 99]%N; [115; 46; 103; 111]%N] /\
  20 <= List.length gen_path_sites /\ (exists s, In s gen_path_sites /\ shape_ok (pshape s) = true).
Proof.
  repeat split; try (vm_compute; reflexivity).
  - vm_compute. repeat constructor.
  - exists (mk_path_site "http/codegen/openapi/v3:Files#0@0" [PGendir; PLit [104;116;116;112]%N; PLit [111;112;101;110;97;112;105;51;46;106;115;111;110]%N] false).
    split; [vm_compute; tauto|reflexivity].
Qed.

(* non-vacuity *)
Example inventories_nonempty :
  20 <= length mapranges /\ 20 <= length file_sites /\
  (exists s, In s file_sites /\ from_example s = true) /\ (exists s, In s file_sites /\ from_gen s = true) /\
  (exists s, In s mapranges /\ sshape s = CollectThenSort) /\ (exists s, In s mapranges /\ sshape s = WritesMap).
Proof.
  split; [vm_compute; repeat constructor|]. split; [vm_compute; repeat constructor|].
  split; [exists (mk_file_site "codegen/service:exampleServiceFile#0" true false true); split; [vm_compute; tauto|reflexivity]|].
  split; [exists (mk_file_site "codegen/service:ClientFile#0" false true false); split; [vm_compute; tauto|reflexivity]|].
  split; [exists (mk_site "expr:sortedTagKeys#0" CollectThenSort); split; [vm_compute; tauto|reflexivity]|].
  exists (mk_site "expr:MetaExpr.Dup#0" WritesMap); split; [vm_compute; tauto|reflexivity].
Qed.

(* a history of the kind the harness executes: gen, example, edit, example, stray, gen *)
Example history_example :
  let files := fun c => match c with
     | Gen => [mk_file [0; 5; 1]%N [10]%N false; mk_file [0; 6; 2]%N [11]%N false]
     | Example => [mk_file [3; 4]%N [12]%N true] end in
  let h := [Run Gen; Run Example; Edit [3; 4]%N [99]%N; Run Example; Edit [0; 5; 8]%N [77]%N; Run Gen] in
  let s := run files idfin h empty in
  s [0; 5; 1]%N = Some ([10]%N, 6) /\ s [0; 6; 2]%N = Some ([11]%N, 6) /\
  s [3; 4]%N = Some ([99]%N, 3) /\ s [0; 5; 8]%N = None.
Proof. vm_compute. repeat split. Qed.
