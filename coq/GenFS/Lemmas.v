(* GenFS — proofs. Part 1: the output-directory machine, for every generator `files`,
   every rewrite function `fin`, every history and every initial directory.
   Part 2: order-insensitivity of the map-iteration shapes (iteration order = an
   arbitrary permutation of the entries). Part 3: sweeps over the translated inventories. *)
From GenFS Require Import Model Generated_mapranges Run.
From Coq Require Import String List NArith Bool Arith Lia Permutation Sorted.
Import ListNotations.

(* ------------------------------------------------------------------ basics *)

Lemma path_eqb_true a b : path_eqb a b = true <-> a = b.
Proof. unfold path_eqb. destruct (list_eq_dec N.eq_dec a b); split; congruence. Qed.

Lemma path_eq_dec (a b : path) : {a = b} + {a <> b}.
Proof. apply list_eq_dec, N.eq_dec. Qed.

Lemma upd_same s p e : upd s p e p = e.
Proof. unfold upd. destruct (path_eqb p p) eqn:E; [reflexivity|]. exfalso. assert (path_eqb p p = true) by (apply path_eqb_true; reflexivity). congruence. Qed.

Lemma upd_other s p e q : q <> p -> upd s p e q = s q.
Proof. intro H. unfold upd. destruct (path_eqb q p) eqn:E; [|reflexivity]. apply path_eqb_true in E. contradiction. Qed.

Section MachineLemmas.
  Variable files : cmd -> list file.
  Variable fin : path -> content -> content.

  Lemma render_other t s f q : fpath f <> q -> render fin t s f q = s q.
  Proof.
    intro H. unfold render. destruct (s (fpath f)) as [[old st]|].
    - destruct (fskip f); [reflexivity|]. apply upd_other. congruence.
    - apply upd_other. congruence.
  Qed.

  Lemma render_all_other t fl : forall s q, (forall f, In f fl -> fpath f <> q) -> render_all fin t s fl q = s q.
  Proof.
    induction fl as [|a fl IH]; intros s q H; [reflexivity|].
    unfold render_all in *. simpl. rewrite IH.
    - apply render_other. apply H. left; reflexivity.
    - intros f Hf. apply H. right; exact Hf.
  Qed.

  (* what a render leaves at q depends only on what was at q *)
  Lemma render_content_congr t1 t2 s1 s2 f q :
    content_at s1 q = content_at s2 q ->
    content_at (render fin t1 s1 f) q = content_at (render fin t2 s2 f) q.
  Proof.
    intro H. destruct (path_eq_dec (fpath f) q) as [E|E].
    - subst q. unfold content_at in *. unfold render.
      destruct (s1 (fpath f)) as [[o1 st1]|] eqn:E1; destruct (s2 (fpath f)) as [[o2 st2]|] eqn:E2;
        simpl in H; try discriminate.
      + injection H as ->. destruct (fskip f).
        * rewrite E1, E2. reflexivity.
        * rewrite !upd_same. reflexivity.
      + rewrite !upd_same. reflexivity.
    - unfold content_at. rewrite !render_other by assumption. exact H.
  Qed.

  Lemma render_all_content_congr t1 t2 fl : forall s1 s2 q,
    content_at s1 q = content_at s2 q ->
    content_at (render_all fin t1 s1 fl) q = content_at (render_all fin t2 s2 fl) q.
  Proof.
    induction fl as [|a fl IH]; intros s1 s2 q H; [exact H|].
    unfold render_all in *. simpl. apply IH. apply render_content_congr. exact H.
  Qed.

  Lemma run_from_app h : forall t s o,
    run_from files fin t (h ++ [o]) s = step files fin (t + length h) o (run_from files fin t h s).
  Proof.
    induction h as [|a h IH]; intros t s o; simpl.
    - rewrite Nat.add_0_r. reflexivity.
    - rewrite IH. replace (S t + length h) with (t + S (length h)) by lia. reflexivity.
  Qed.

  Lemma run_app h s o : run files fin (h ++ [o]) s = step files fin (1 + length h) o (run files fin h s).
  Proof. unfold run. apply run_from_app. Qed.

  (* ---------------- gen overwrites *)

  Lemma gen_overwrites_l h s0 p :
    in_gen_subdir p = true ->
    content_at (run files fin (h ++ [Run Gen]) s0) p = content_at (run files fin [Run Gen] empty) p.
  Proof.
    intro H. rewrite run_app. unfold run. simpl. unfold run_cmd.
    apply render_all_content_congr. unfold content_at, cleanup. rewrite H. reflexivity.
  Qed.

  Lemma render_all_keeps_stamp t fl : forall s p c,
    s p = Some (c, t) -> exists c', render_all fin t s fl p = Some (c', t).
  Proof.
    induction fl as [|a fl IH]; intros s p c H; [exists c; exact H|].
    unfold render_all in *. simpl.
    destruct (path_eq_dec (fpath a) p) as [E|E].
    - subst p. assert (exists c', render fin t s a (fpath a) = Some (c', t)) as [c' Hc].
      { unfold render. rewrite H. destruct (fskip a); [exists c; exact H|]. rewrite upd_same. eexists; reflexivity. }
      apply (IH _ _ _ Hc).
    - apply (IH _ _ c). rewrite render_other by assumption. exact H.
  Qed.

  Lemma render_all_writes_stamp t fl : forall s p,
    s p = None -> (exists f, In f fl /\ fpath f = p) -> exists c, render_all fin t s fl p = Some (c, t).
  Proof.
    induction fl as [|a fl IH]; intros s p Hn [f [Hin Hp]]; [destruct Hin|].
    unfold render_all in *. simpl.
    destruct (path_eq_dec (fpath a) p) as [E|E].
    - clear Hp Hin. subst p. assert (render fin t s a (fpath a) = Some (fin (fpath a) (fbody a), t)) as Hr.
      { unfold render. rewrite Hn. apply upd_same. }
      apply (render_all_keeps_stamp t fl _ _ _ Hr).
    - apply IH.
      + rewrite render_other by assumption. exact Hn.
      + destruct Hin as [->|Hin]; [contradiction|]. exists f; split; assumption.
  Qed.

  Lemma gen_writes_stamp_l h s0 p :
    in_gen_subdir p = true -> (exists f, In f (files Gen) /\ fpath f = p) ->
    stamp_at (run files fin (h ++ [Run Gen]) s0) p = Some (1 + length h).
  Proof.
    intros H Hf. rewrite run_app. simpl step. unfold run_cmd.
    destruct (render_all_writes_stamp (S (length h)) (files Gen) (cleanup (run files fin h s0)) p) as [c Hc].
    - unfold cleanup. rewrite H. reflexivity.
    - exact Hf.
    - unfold stamp_at. simpl in *. rewrite Hc. reflexivity.
  Qed.

  Lemma gen_preserves_outside_l h s0 p :
    all_gen_files_in_subdirs files -> in_gen_subdir p = false ->
    run files fin (h ++ [Run Gen]) s0 p = run files fin h s0 p.
  Proof.
    intros Hall H. rewrite run_app. simpl step. unfold run_cmd.
    rewrite render_all_other.
    - unfold cleanup. rewrite H. reflexivity.
    - intros f Hf E. subst p. rewrite (Hall f Hf) in H. discriminate.
  Qed.

  Lemma gen_idempotent_l h s0 p :
    all_gen_files_in_subdirs files ->
    content_at (run files fin (h ++ [Run Gen; Run Gen]) s0) p = content_at (run files fin (h ++ [Run Gen]) s0) p.
  Proof.
    intro Hall.
    replace (h ++ [Run Gen; Run Gen]) with ((h ++ [Run Gen]) ++ [Run Gen]) by (rewrite <- app_assoc; reflexivity).
    destruct (in_gen_subdir p) eqn:E.
    - rewrite (gen_overwrites_l (h ++ [Run Gen]) s0 p E), (gen_overwrites_l h s0 p E). reflexivity.
    - unfold content_at. rewrite (gen_preserves_outside_l (h ++ [Run Gen]) s0 p Hall E). reflexivity.
  Qed.

  (* ---------------- example never touches what exists *)

  Lemma render_skip_preserves t s f p e : fskip f = true -> s p = Some e -> render fin t s f p = Some e.
  Proof.
    intros Hs H. destruct (path_eq_dec (fpath f) p) as [E|E].
    - subst p. unfold render. rewrite H. destruct e as [c st]. rewrite Hs. exact H.
    - rewrite render_other by assumption. exact H.
  Qed.

  Lemma render_all_skip_preserves t fl : forall s p e,
    (forall f, In f fl -> fskip f = true) -> s p = Some e -> render_all fin t s fl p = Some e.
  Proof.
    induction fl as [|a fl IH]; intros s p e Hs H; [exact H|].
    unfold render_all in *. simpl. apply IH.
    - intros f Hf. apply Hs. right; exact Hf.
    - apply render_skip_preserves; [apply Hs; left; reflexivity|exact H].
  Qed.

  Lemma example_preserves_existing_l h s0 p e :
    all_example_files_skip files ->
    run files fin h s0 p = Some e -> run files fin (h ++ [Run Example]) s0 p = Some e.
  Proof.
    intros Hs H. rewrite run_app. simpl step. unfold run_cmd.
    apply render_all_skip_preserves; assumption.
  Qed.

  Lemma example_creates_only_declared_l h s0 p :
    run files fin h s0 p = None -> (forall f, In f (files Example) -> fpath f <> p) ->
    run files fin (h ++ [Run Example]) s0 p = None.
  Proof.
    intros H Hn. rewrite run_app. simpl step. unfold run_cmd. rewrite render_all_other; assumption.
  Qed.

  Lemma example_creates_missing_l h s0 p :
    run files fin h s0 p = None -> (exists f, In f (files Example) /\ fpath f = p) ->
    stamp_at (run files fin (h ++ [Run Example]) s0) p = Some (1 + length h).
  Proof.
    intros H Hf. rewrite run_app. simpl step. unfold run_cmd.
    destruct (render_all_writes_stamp (S (length h)) (files Example) (run files fin h s0) p H Hf) as [c Hc].
    unfold stamp_at. simpl in *. rewrite Hc. reflexivity.
  Qed.

  (* what example creates does not depend on what happened before *)
  Lemma example_independent_of_history_l h s0 p :
    run files fin h s0 p = None ->
    content_at (run files fin (h ++ [Run Example]) s0) p = content_at (run files fin [Run Example] empty) p.
  Proof.
    intro H. rewrite run_app. simpl step. unfold run_cmd.
    change (run files fin [Run Example] empty) with (render_all fin 1 empty (files Example)).
    apply render_all_content_congr. unfold content_at. rewrite H. reflexivity.
  Qed.

  (* a user edit is what is on disk right after it *)
  Lemma edit_is_kept_l h s0 p b :
    run files fin (h ++ [Edit p b]) s0 p = Some (b, 1 + length h).
  Proof. rewrite run_app. simpl. apply upd_same. Qed.

  Lemma edit_survives_examples_l h s0 p b n :
    all_example_files_skip files ->
    run files fin ((h ++ [Edit p b]) ++ repeat (Run Example) n) s0 p = Some (b, 1 + length h).
  Proof.
    intro Hs. induction n as [|n IH].
    - simpl. rewrite app_nil_r. apply edit_is_kept_l.
    - simpl repeat. rewrite repeat_cons, app_assoc.
      apply example_preserves_existing_l; [exact Hs|exact IH].
  Qed.
End MachineLemmas.

Section AmbientLemmas.
  Variable A : Type.
  Variable filesA : A -> cmd -> list file.
  Variable fin : path -> content -> content.

  Lemma step_files_ext (f g : cmd -> list file) t o s :
    (forall c, f c = g c) -> step f fin t o s = step g fin t o s.
  Proof. intro H. destruct o as [c| |]; try reflexivity. destruct c; simpl; rewrite H; reflexivity. Qed.

  Lemma ambient_irrelevant_l (a0 : A) :
    ambient_independent A filesA ->
    forall h t s, runA_from A filesA fin t h s = run_from (filesA a0) fin t (map snd h) s.
  Proof.
    intros H h. induction h as [|[a o] h IH]; intros t s; [reflexivity|].
    simpl. rewrite IH. f_equal. apply step_files_ext. intro c. apply H.
  Qed.
End AmbientLemmas.

Lemma cleanup_spec s p : cleanup s p = if in_gen_subdir p then None else s p.
Proof. reflexivity. Qed.

(* ---------------- why the cleanup and SkipExist are load-bearing: witnesses *)

(* a gen file directly in gen/ (NOT in a sub-directory): gen/x *)
Definition w_top (c : cmd) : list file :=
  match c with Gen => [mk_file [0; 7]%N [1]%N false] | Example => [] end.
(* a gen file in a sub-directory: gen/svc/x *)
Definition w_sub (c : cmd) : list file :=
  match c with Gen => [mk_file [0; 5; 7]%N [1]%N false] | Example => [] end.
(* an example file WITHOUT SkipExist *)
Definition w_noskip (c : cmd) : list file :=
  match c with Gen => [] | Example => [mk_file [3; 4]%N [2]%N false] end.

Lemma toplevel_gen_file_appended :
  content_at (run w_top idfin [Run Gen; Run Gen] empty) [0; 7]%N = Some [1; 1]%N /\
  content_at (run w_top idfin [Run Gen] empty) [0; 7]%N = Some [1]%N.
Proof. split; vm_compute; reflexivity. Qed.

Lemma append_without_cleanup :
  all_gen_files_in_subdirs w_sub /\
  content_at (run_nc w_sub idfin [Run Gen; Run Gen] empty) [0; 5; 7]%N = Some [1; 1]%N /\
  content_at (run w_sub idfin [Run Gen; Run Gen] empty) [0; 5; 7]%N = Some [1]%N.
Proof.
  split; [|split; vm_compute; reflexivity].
  intros f [<-|[]]. reflexivity.
Qed.

Lemma example_without_skip_clobbers :
  let s0 := upd empty [3; 4]%N (Some ([9]%N, 0)) in
  content_at (run w_noskip idfin [Run Example] s0) [3; 4]%N = Some [9; 2]%N.
Proof. vm_compute. reflexivity. Qed.

(* ------------------------------------------------------------------ part 2: iteration shapes *)

Lemma fold_left_perm {A B} (f : A -> B -> A) :
  (forall a x y, f (f a x) y = f (f a y) x) ->
  forall l1 l2, Permutation l1 l2 -> forall a, fold_left f l1 a = fold_left f l2 a.
Proof.
  intros Hc l1 l2 P. induction P; intro a; simpl; auto.
  - rewrite Hc. reflexivity.
  - rewrite IHP1. apply IHP2.
Qed.

(* a search that at most one element can satisfy does not depend on the order *)
Lemma find_unique_perm {A} (P : A -> bool) l1 l2 :
  Permutation l1 l2 ->
  (forall x y, In x l1 -> In y l1 -> P x = true -> P y = true -> x = y) ->
  find P l1 = find P l2.
Proof.
  intro Pm. induction Pm; intro U; simpl; auto.
  - destruct (P x); [reflexivity|]. apply IHPm. intros a b Ha Hb. apply U; right; assumption.
  - destruct (P x) eqn:Ex, (P y) eqn:Ey; try reflexivity.
    f_equal. apply U; simpl; auto.
  - rewrite IHPm1 by exact U. apply IHPm2.
    intros a b Ha Hb. apply U; eapply Permutation_in; try (apply Permutation_sym; exact Pm1); assumption.
Qed.

Lemma nodup_keys_inj {V} (l : list (N * V)) :
  NoDup (map fst l) -> forall x y, In x l -> In y l -> fst x = fst y -> x = y.
Proof.
  induction l as [|a l IH]; intros ND x y Hx Hy E; [destruct Hx|].
  simpl in ND. inversion ND as [|? ? Hn ND']; subst.
  destruct Hx as [->|Hx], Hy as [->|Hy]; auto.
  - exfalso. apply Hn. rewrite E. apply in_map. exact Hy.
  - exfalso. apply Hn. rewrite <- E. apply in_map. exact Hx.
Qed.

Definition key_is {V} (q : N) (e : N * V) : bool := N.eqb (fst e) q.

Lemma find_key_perm {V} (l1 l2 : list (N * V)) q :
  NoDup (map fst l1) -> Permutation l1 l2 -> find (key_is q) l1 = find (key_is q) l2.
Proof.
  intros ND P. apply find_unique_perm; [exact P|].
  intros x y Hx Hy Ex Ey. apply (nodup_keys_inj l1 ND); auto.
  unfold key_is in *. apply N.eqb_eq in Ex, Ey. congruence.
Qed.

Lemma find_key_none {V} (l : list (N * V)) q : ~ In q (map fst l) -> find (key_is q) l = None.
Proof.
  induction l as [|a l IH]; intro H; [reflexivity|]. simpl.
  unfold key_is at 1. destruct (N.eqb (fst a) q) eqn:E.
  - exfalso. apply H. left. apply N.eqb_eq. exact E.
  - apply IH. intro Hq. apply H. right. exact Hq.
Qed.

Lemma supd_same {V} (s : store V) k v : supd s k v k = v.
Proof. unfold supd. rewrite N.eqb_refl. reflexivity. Qed.
Lemma supd_other {V} (s : store V) k v q : q <> k -> supd s k v q = s q.
Proof. intro H. unfold supd. destruct (N.eqb q k) eqn:E; [apply N.eqb_eq in E; contradiction|reflexivity]. Qed.

(* closed form of a keyed-writes loop over a map (distinct keys) *)
Lemma keyed_writes_spec {V W} (w : N -> V -> option (option W)) (l : list (N * V)) :
  NoDup (map fst l) -> forall out q,
  keyed_writes w l out q =
    match find (key_is q) l with
    | Some e => match w (fst e) (snd e) with Some x => x | None => out q end
    | None => out q
    end.
Proof.
  induction l as [|a l IH]; intros ND out q; [reflexivity|].
  simpl in ND. inversion ND as [|? ? Hn ND']; subst.
  unfold keyed_writes in *. simpl. rewrite (IH ND').
  unfold key_is at 2. destruct (N.eqb (fst a) q) eqn:E.
  - apply N.eqb_eq in E. subst q. rewrite (find_key_none l (fst a) Hn).
    destruct (w (fst a) (snd a)); [apply supd_same|reflexivity].
  - assert (q <> fst a) as Hne by (intro; subst; rewrite N.eqb_refl in E; discriminate).
    destruct (find (key_is q) l) as [e|].
    + destruct (w (fst e) (snd e)); [reflexivity|].
      destruct (w (fst a) (snd a)); [apply supd_other; exact Hne|reflexivity].
    + destruct (w (fst a) (snd a)); [apply supd_other; exact Hne|reflexivity].
Qed.

Lemma keyed_writes_perm {V W} (w : N -> V -> option (option W)) (l1 l2 : list (N * V)) out :
  NoDup (map fst l1) -> Permutation l1 l2 -> forall q, keyed_writes w l1 out q = keyed_writes w l2 out q.
Proof.
  intros ND P q.
  assert (NoDup (map fst l2)) as ND2 by (eapply Permutation_NoDup; [apply Permutation_map; exact P|exact ND]).
  rewrite (keyed_writes_spec w l1 ND), (keyed_writes_spec w l2 ND2), (find_key_perm l1 l2 q ND P). reflexivity.
Qed.

Lemma filter_perm {A} (p : A -> bool) l1 l2 : Permutation l1 l2 -> Permutation (filter p l1) (filter p l2).
Proof.
  intro P. induction P; simpl; auto.
  - destruct (p x); auto.
  - destruct (p x), (p y); auto. apply perm_swap.
  - eapply perm_trans; eassumption.
Qed.

Lemma collect_perm {V A} (p : N -> V -> bool) (g : N -> V -> A) l1 l2 :
  Permutation l1 l2 -> Permutation (collect p g l1) (collect p g l2).
Proof. intro P. unfold collect. apply Permutation_map, filter_perm, P. Qed.

Section Sorting.
  Variable A : Type.
  Variable le : A -> A -> Prop.
  Hypothesis le_antisym : forall a b, le a b -> le b a -> a = b.

  (* a sorted list is determined by its elements *)
  Lemma sorted_perm_unique : forall l1 l2,
    StronglySorted le l1 -> StronglySorted le l2 -> Permutation l1 l2 -> l1 = l2.
  Proof.
    induction l1 as [|a r IH]; intros l2 S1 S2 P.
    - apply Permutation_nil in P. auto.
    - destruct l2 as [|b r2]; [apply Permutation_sym, Permutation_nil in P; discriminate|].
      inversion S1 as [|? ? S1' F1]; subst. inversion S2 as [|? ? S2' F2]; subst.
      assert (a = b) as ->.
      { assert (In b (a :: r)) as Hb by (eapply Permutation_in; [apply Permutation_sym; exact P|left; reflexivity]).
        assert (In a (b :: r2)) as Ha by (eapply Permutation_in; [exact P|left; reflexivity]).
        destruct Hb as [Hb|Hb]; [auto|]. destruct Ha as [Ha|Ha]; [auto|].
        rewrite Forall_forall in F1, F2. apply le_antisym; auto. }
      f_equal. apply IH; auto. eapply Permutation_cons_inv; exact P.
  Qed.

  (* any sorting function: returns a sorted permutation of its argument *)
  Variable srt : list A -> list A.
  Hypothesis srt_perm : forall l, Permutation (srt l) l.
  Hypothesis srt_sorted : forall l, StronglySorted le (srt l).

  Lemma sort_perm_invariant l1 l2 : Permutation l1 l2 -> srt l1 = srt l2.
  Proof.
    intro P. apply sorted_perm_unique; auto.
    eapply perm_trans; [apply srt_perm|]. eapply perm_trans; [exact P|]. apply Permutation_sym, srt_perm.
  Qed.

  Lemma collect_then_sort_perm_l {V} (p : N -> V -> bool) (g : N -> V -> A) l1 l2 :
    Permutation l1 l2 -> srt (collect p g l1) = srt (collect p g l2).
  Proof. intro P. apply sort_perm_invariant, collect_perm, P. Qed.
End Sorting.

Lemma keyed_lookup_spec {V A} (c : N) (g : V -> A) (l : list (N * V)) :
  NoDup (map fst l) -> forall init,
  keyed_lookup c g l init = match find (key_is c) l with Some e => g (snd e) | None => init end.
Proof.
  induction l as [|a l IH]; intros ND init; [reflexivity|].
  simpl in ND. inversion ND as [|? ? Hn ND']; subst.
  unfold keyed_lookup in *. simpl. rewrite (IH ND').
  unfold key_is at 2. destruct (N.eqb (fst a) c) eqn:E; [|reflexivity].
  apply N.eqb_eq in E. subst c. rewrite (find_key_none l (fst a) Hn). reflexivity.
Qed.

Lemma keyed_lookup_perm_l {V A} (c : N) (g : V -> A) l1 l2 init :
  NoDup (map fst l1) -> Permutation l1 l2 -> keyed_lookup c g l1 init = keyed_lookup c g l2 init.
Proof.
  intros ND P.
  assert (NoDup (map fst l2)) as ND2 by (eapply Permutation_NoDup; [apply Permutation_map; exact P|exact ND]).
  rewrite (keyed_lookup_spec c g l1 ND), (keyed_lookup_spec c g l2 ND2), (find_key_perm l1 l2 c ND P). reflexivity.
Qed.

Lemma first_match_unique_perm_l {V A} (p : N -> V -> bool) (g : N -> V -> A) (c : N) l1 l2 :
  (forall k v, p k v = true -> k = c) ->
  NoDup (map fst l1) -> Permutation l1 l2 -> first_match p g l1 = first_match p g l2.
Proof.
  intros Hp ND P. unfold first_match. f_equal. apply find_unique_perm; [exact P|].
  intros x y Hx Hy Ex Ey. apply (nodup_keys_inj l1 ND); auto.
  rewrite (Hp _ _ Ex), (Hp _ _ Ey). reflexivity.
Qed.

Lemma existsb_perm {A} (P : A -> bool) l1 l2 : Permutation l1 l2 -> existsb P l1 = existsb P l2.
Proof.
  intro Pm. induction Pm; simpl; auto.
  - rewrite IHPm. reflexivity.
  - destruct (P x), (P y); reflexivity.
  - congruence.
Qed.

Lemma sum_perm {A} (w : A -> N) l1 l2 a :
  Permutation l1 l2 -> fold_left (fun n e => (n + w e)%N) l1 a = fold_left (fun n e => (n + w e)%N) l2 a.
Proof. intro P. apply fold_left_perm; [|exact P]. intros; lia. Qed.

Lemma const_set_perm {A B} (P : A -> bool) (c : B) l1 l2 a :
  Permutation l1 l2 ->
  fold_left (fun b e => if P e then c else b) l1 a = fold_left (fun b e => if P e then c else b) l2 a.
Proof. intro Pm. apply fold_left_perm; [|exact Pm]. intros b x y. destruct (P x), (P y); reflexivity. Qed.

Lemma pair_fold_perm {A B E} (f1 : A -> E -> A) (f2 : B -> E -> B) :
  (forall a x y, f1 (f1 a x) y = f1 (f1 a y) x) -> (forall b x y, f2 (f2 b x) y = f2 (f2 b y) x) ->
  forall l1 l2 s, Permutation l1 l2 ->
  fold_left (fun s e => (f1 (fst s) e, f2 (snd s) e)) l1 s = fold_left (fun s e => (f1 (fst s) e, f2 (snd s) e)) l2 s.
Proof.
  intros H1 H2 l1 l2 s P. apply fold_left_perm; [|exact P].
  intros [a b] x y. simpl. rewrite H1, H2. reflexivity.
Qed.

Lemma singleton_perm {A} (l1 l2 : list A) : length l1 = 1 -> Permutation l1 l2 -> l1 = l2.
Proof.
  intros H P. destruct l1 as [|a [|b r]]; try discriminate.
  symmetry. apply Permutation_length_1_inv. exact P.
Qed.

(* the shapes that are NOT order-insensitive: witnesses (two entries, two orders) *)
Lemma last_of_two_differs :
  let l1 := [(1, 10); (2, 20)]%N in let l2 := [(2, 20); (1, 10)]%N in
  NoDup (map fst l1) /\ Permutation l1 l2 /\ last_of_two 1 2 l1 0%N = 20%N /\ last_of_two 1 2 l2 0%N = 10%N.
Proof.
  repeat split; try (vm_compute; reflexivity).
  - repeat constructor; simpl; intuition discriminate.
  - apply perm_swap.
Qed.

Lemma first_of_two_differs :
  let p := fun (k v : N) => N.eqb k 1 || N.eqb k 2 in
  let l1 := [(1, 10); (2, 20)]%N in let l2 := [(2, 20); (1, 10)]%N in
  NoDup (map fst l1) /\ Permutation l1 l2 /\
  first_match p (fun _ v => v) l1 = Some 10%N /\ first_match p (fun _ v => v) l2 = Some 20%N.
Proof.
  repeat split; try (vm_compute; reflexivity).
  - repeat constructor; simpl; intuition discriminate.
  - apply perm_swap.
Qed.

Lemma append_keys_differs :
  let l1 := [(1, 10); (2, 20)]%N in let l2 := [(2, 20); (1, 10)]%N in
  Permutation l1 l2 /\ append_keys l1 <> append_keys l2.
Proof. split; [apply perm_swap|vm_compute; discriminate]. Qed.

(* ------------------------------------------------------------------ part 3: inventories *)

Definition site_ok (s : site) : bool := order_insensitive (sshape s).

Lemma sites_sweep : forallb site_ok mapranges = true.
Proof. vm_compute. reflexivity. Qed.

Lemma sites_all s : In s mapranges -> order_insensitive (sshape s) = true.
Proof. apply (proj1 (forallb_forall site_ok mapranges) sites_sweep). Qed.

Lemma file_sites_sweep : forallb file_site_ok file_sites = true.
Proof. vm_compute. reflexivity. Qed.

Lemma file_sites_ok s : In s file_sites -> file_site_ok s = true.
Proof. apply (proj1 (forallb_forall file_site_ok file_sites) file_sites_sweep). Qed.

Lemma ambient_sweep : forallb aallowed ambient_sites = true.
Proof. vm_compute. reflexivity. Qed.

Lemma gen_idempotent_refuted_l :
  exists files fin h s0 p,
    content_at (run files fin (h ++ [Run Gen; Run Gen]) s0) p <> content_at (run files fin (h ++ [Run Gen]) s0) p.
Proof.
  exists w_top, idfin, [], empty, [0; 7]%N. simpl app.
  destruct toplevel_gen_file_appended as [-> ->]. discriminate.
Qed.

Lemma append_without_cleanup_refuted_l :
  exists files fin p, all_gen_files_in_subdirs files /\
    content_at (run_nc files fin [Run Gen; Run Gen] empty) p <> content_at (run files fin [Run Gen; Run Gen] empty) p.
Proof.
  exists w_sub, idfin, [0; 5; 7]%N. destruct append_without_cleanup as [H [-> ->]].
  split; [exact H|discriminate].
Qed.

Lemma example_preserves_existing_refuted_l :
  exists files fin s0 p e,
    s0 p = Some e /\ content_at (run files fin [Run Example] s0) p <> Some (fst e).
Proof.
  exists w_noskip, idfin, (upd empty [3; 4]%N (Some ([9]%N, 0))), [3; 4]%N, ([9]%N, 0).
  split; [vm_compute; reflexivity|]. rewrite example_without_skip_clobbers. discriminate.
Qed.

Lemma multi_key_refuted_l :
  exists (l1 l2 : list (N * N)), NoDup (map fst l1) /\ Permutation l1 l2 /\
    last_of_two 1 2 l1 0%N <> last_of_two 1 2 l2 0%N /\
    first_match (fun k _ => N.eqb k 1 || N.eqb k 2) (fun _ v => v) l1 <> first_match (fun k _ => N.eqb k 1 || N.eqb k 2) (fun _ v => v) l2.
Proof.
  exists [(1, 10); (2, 20)]%N, [(2, 20); (1, 10)]%N.
  destruct last_of_two_differs as [ND [P [-> ->]]]. destruct first_of_two_differs as [_ [_ [-> ->]]].
  repeat split; auto; discriminate.
Qed.

Lemma file_sites_skip_l (s : file_site) :
  In s file_sites -> (from_example s = true -> fs_skip s = true) /\ (from_gen s = true -> fs_skip s = false).
Proof.
  intro Hin. pose proof (file_sites_ok s Hin) as H. unfold file_site_ok in H.
  apply andb_prop in H. destruct H as [H1 H2].
  split; intro E; rewrite E in *; simpl in *; [exact H1|destruct (fs_skip s); [discriminate|reflexivity]].
Qed.
