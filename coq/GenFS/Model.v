(* GenFS — the output directory of goa as a state machine over generator invocations.

   Anchors (goa source):
     codegen/file.go            File.Render: SkipExist short-circuit, O_CREATE|O_APPEND, then
                                finalizeGoSource re-reads and rewrites the whole file
     cmd/goa/gen.go             cleanupDirs + the generated main: every SUB-DIRECTORY of gen/ is
                                removed before `gen` runs (files directly in gen/ are not)
     codegen/generator/*.go     gen = Service, Transport, OpenAPI files; example = Example files

   Definitions only; everything is computable. The generator itself (which files, with
   which bytes) is a Section variable: its determinism is observed by the harness, not
   proved. Map iteration is modelled as an arbitrary permutation of the entry list
   (second half of this file: the iteration shapes of the map-range inventory). *)
From Coq Require Import List NArith Bool String Arith.
Import ListNotations.

(* ---------------------------------------------------------------- file system *)

(* A path is its list of components; component 0 stands for "gen" (codegen.Gendir). *)
Definition path := list N.
(* File contents are kept abstract: a sequence of rendered chunks. Appending to a file
   concatenates sequences; the whole-file rewrite is a function of the sequence. *)
Definition content := list N.

Record file := mk_file { fpath : path; fbody : content; fskip : bool }.

Inductive cmd := Gen | Example.

Inductive op :=
| Run (c : cmd)                       (* goa gen / goa example in a fresh process *)
| Edit (p : path) (b : content)       (* the user writes a file (creates or replaces) *)
| Delete (p : path).                  (* the user removes a file *)

(* bytes and the logical time (index of the operation) of the last write: the model's mtime *)
Definition entry := (content * nat)%type.
Definition fs := path -> option entry.

Definition empty : fs := fun _ => None.

Definition path_eqb (a b : path) : bool := if list_eq_dec N.eq_dec a b then true else false.

Definition upd (s : fs) (p : path) (e : option entry) : fs :=
  fun q => if path_eqb q p then e else s q.

Definition gen_id : N := 0%N.

(* p lies inside a sub-directory of gen/: gen/<dir>/<...> *)
Definition in_gen_subdir (p : path) : bool :=
  match p with
  | g :: _ :: _ :: _ => N.eqb g gen_id
  | _ => false
  end.

(* cmd/goa cleanupDirs + os.RemoveAll: every sub-directory of gen/ disappears *)
Definition cleanup (s : fs) : fs := fun p => if in_gen_subdir p then None else s p.

Definition content_at (s : fs) (p : path) : option content := option_map fst (s p).
Definition stamp_at (s : fs) (p : path) : option nat := option_map snd (s p).

Section Machine.
  (* what the generators produce for a command: path, rendered bytes, SkipExist *)
  Variable files : cmd -> list file.
  (* finalizeGoSource (Go files) / identity (others): whole-file rewrite of what is on
     disk after the append *)
  Variable fin : path -> content -> content.

  (* File.Render at logical time t *)
  Definition render (t : nat) (s : fs) (f : file) : fs :=
    match s (fpath f) with
    | Some (old, _) =>
        if fskip f then s
        else upd s (fpath f) (Some (fin (fpath f) (old ++ fbody f), t))
    | None => upd s (fpath f) (Some (fin (fpath f) (fbody f), t))
    end.

  Definition render_all (t : nat) (s : fs) (fl : list file) : fs := fold_left (render t) fl s.

  Definition run_cmd (t : nat) (c : cmd) (s : fs) : fs :=
    match c with
    | Gen => render_all t (cleanup s) (files Gen)
    | Example => render_all t s (files Example)
    end.

  Definition step (t : nat) (o : op) (s : fs) : fs :=
    match o with
    | Run c => run_cmd t c s
    | Edit p b => upd s p (Some (b, t))
    | Delete p => upd s p None
    end.

  Fixpoint run_from (t : nat) (h : list op) (s : fs) : fs :=
    match h with
    | [] => s
    | o :: r => run_from (S t) r (step t o s)
    end.

  (* operations are numbered from 1 *)
  Definition run (h : list op) (s : fs) : fs := run_from 1 h s.

  (* the same machine WITHOUT the cleanup (what File.Render alone would do) *)
  Definition step_nc (t : nat) (o : op) (s : fs) : fs :=
    match o with
    | Run c => render_all t s (files c)
    | Edit p b => upd s p (Some (b, t))
    | Delete p => upd s p None
    end.

  Fixpoint run_nc_from (t : nat) (h : list op) (s : fs) : fs :=
    match h with
    | [] => s
    | o :: r => run_nc_from (S t) r (step_nc t o s)
    end.

  Definition run_nc (h : list op) (s : fs) : fs := run_nc_from 1 h s.

  Definition all_gen_files_in_subdirs : Prop :=
    forall f, In f (files Gen) -> in_gen_subdir (fpath f) = true.
  Definition all_example_files_skip : Prop :=
    forall f, In f (files Example) -> fskip f = true.
End Machine.

(* The same machine when every invocation runs in its own ambient setting (time zone,
   locale, environment, working directory, machine): the generators are given the setting. *)
Section Ambient.
  Variable A : Type.
  Variable filesA : A -> cmd -> list file.
  Variable fin : path -> content -> content.

  Fixpoint runA_from (t : nat) (h : list (A * op)) (s : fs) : fs :=
    match h with
    | [] => s
    | (a, o) :: r => runA_from (S t) r (step (filesA a) fin t o s)
    end.

  Definition runA (h : list (A * op)) (s : fs) : fs := runA_from 1 h s.

  (* what the property asks of the generators: the setting is not an input *)
  Definition ambient_independent : Prop := forall a b c, filesA a c = filesA b c.
End Ambient.

(* ---------------------------------------------------------------- map iteration shapes *)

(* A Go map is a list of entries with pairwise distinct keys; `range` visits them in an
   arbitrary order, i.e. any permutation of the list. Keys are numbers here. *)
Definition store (V : Type) := N -> option V.
Definition supd {V} (s : store V) (k : N) (v : option V) : store V :=
  fun q => if N.eqb q k then v else s q.

(* keyed writes: every entry writes (or deletes, or leaves alone) the slot of its own key *)
Definition keyed_writes {V W} (w : N -> V -> option (option W)) (l : list (N * V)) (out : store W) : store W :=
  fold_left (fun s e => match w (fst e) (snd e) with Some x => supd s (fst e) x | None => s end) l out.

(* writes_map: `for k, v := range m { if p k v { out[k] = g k v } }` *)
Definition writes_map {V W} (p : N -> V -> bool) (g : N -> V -> W) : list (N * V) -> store W -> store W :=
  keyed_writes (fun k v => if p k v then Some (Some (g k v)) else None).

(* deletes: `for k, v := range m { if p k v { delete(out, k) } }` *)
Definition deletes_map {V W} (p : N -> V -> bool) : list (N * V) -> store W -> store W :=
  keyed_writes (fun k v => if p k v then Some None else None).

(* collect_then_sort: `for k, v := range m { if p { xs = append(xs, g k v) } }; sort(xs)` *)
Definition collect {V A} (p : N -> V -> bool) (g : N -> V -> A) (l : list (N * V)) : list A :=
  map (fun e => g (fst e) (snd e)) (filter (fun e => p (fst e) (snd e)) l).

(* keyed_lookup: `for k, v := range m { if k == c { x = g v } }` / `return g v` *)
Definition keyed_lookup {V A} (c : N) (g : V -> A) (l : list (N * V)) (init : A) : A :=
  fold_left (fun a e => if N.eqb (fst e) c then g (snd e) else a) l init.

(* first match with early return *)
Definition first_match {V A} (p : N -> V -> bool) (g : N -> V -> A) (l : list (N * V)) : option A :=
  option_map (fun e => g (fst e) (snd e)) (find (fun e => p (fst e) (snd e)) l).

(* multi-key match, last write wins: `if k == c1 || k == c2 { x = v }` *)
Definition last_of_two {V} (c1 c2 : N) (l : list (N * V)) (init : V) : V :=
  fold_left (fun a e => if N.eqb (fst e) c1 || N.eqb (fst e) c2 then snd e else a) l init.

(* unsorted append: `for k := range m { xs = append(xs, k) }` used as is *)
Definition append_keys {V} (l : list (N * V)) : list N := map fst l.

(* ---------------------------------------------------------------- inventories *)

Inductive shape :=
| WritesMap | CollectThenSort | KeyedLookup | ExistsTest | CommutativeAcc | PerElementWrite
| CommutingWrites | Singleton | NoEffect
| InspectedHarmless           (* allow-listed after inspection, translate/c09/allowlist.json *)
| KnownSensitive              (* allow-listed as a recorded finding: NOT order-insensitive, breaks the sweep *)
| CollectDerivedSort           (* collected elements are not the keys themselves, or sorted through a comparator *)
| OrderSensitiveAppend | StringConcat | LastWriteWins | MultiKeyMatch | FirstMatchAmbiguous
| DerivedKeyWrite | Unknown.

Record site := mk_site { sname : string; sshape : shape }.

Definition order_insensitive (s : shape) : bool :=
  match s with
  | WritesMap | CollectThenSort | KeyedLookup | ExistsTest | CommutativeAcc | PerElementWrite
  | CommutingWrites | Singleton | NoEffect | InspectedHarmless => true
  | _ => false
  end.

Definition is_known_sensitive (s : shape) : bool :=
  match s with KnownSensitive => true | _ => false end.

(* a composite literal of type codegen.File in the generator packages *)
Record file_site := mk_file_site { fsname : string; from_example : bool; from_gen : bool; fs_skip : bool }.

Definition file_site_ok (s : file_site) : bool :=
  (implb (from_example s) (fs_skip s)) && (implb (from_gen s) (negb (fs_skip s))).

(* a use of an ambient input (clock, global random source, environment) *)
Record ambient_site := mk_ambient { aname : string; aallowed : bool }.

(* ---------------------------------------------------------------- paths of generated files *)

(* Where gen files land is computed by codegen.SnakeCase (directory of a service) and
   filepath.Join(codegen.Gendir, ...). Strings are lists of byte values; the definitions
   below mirror the Go code for ASCII input (SnakeCase walks its argument byte by byte). *)
Definition bytes := list N.

Definition is_upper (b : N) : bool := (65 <=? b)%N && (b <=? 90)%N.
Definition is_lower (b : N) : bool := (97 <=? b)%N && (b <=? 122)%N.
Definition is_digit (b : N) : bool := (48 <=? b)%N && (b <=? 57)%N.
Definition to_lower (b : N) : N := if is_upper b then (b + 32)%N else b.
(* strings.Fields on ASCII: space, \t \n \v \f \r *)
Definition is_space (b : N) : bool := (b =? 32)%N || ((9 <=? b)%N && (b <=? 13)%N).

Fixpoint bytes_eqb (a b : bytes) : bool :=
  match a, b with
  | [], [] => true
  | x :: a', y :: b' => (x =? y)%N && bytes_eqb a' b'
  | _, _ => false
  end.

Fixpoint is_prefix (p s : bytes) : bool :=
  match p, s with
  | [], _ => true
  | x :: p', y :: s' => (x =? y)%N && is_prefix p' s'
  | _ :: _, [] => false
  end.

(* strings.ReplaceAll old new (old non-empty): leftmost non-overlapping occurrences.
   skip = bytes of the current occurrence still to be dropped *)
Fixpoint replace_all_from (skip : nat) (old new s : bytes) : bytes :=
  match s with
  | [] => []
  | c :: r =>
      match skip with
      | S k => replace_all_from k old new r
      | O => if is_prefix old s then new ++ replace_all_from (List.length old - 1) old new r
             else c :: replace_all_from 0 old new r
      end
  end.
Definition replace_all (old new s : bytes) : bytes := replace_all_from 0 old new s.

(* strings.Fields *)
Fixpoint fields_from (cur : bytes) (s : bytes) : list bytes :=
  match s with
  | [] => match cur with [] => [] | _ => [rev cur] end
  | c :: r =>
      if is_space c then match cur with [] => fields_from [] r | _ => rev cur :: fields_from [] r end
      else fields_from (c :: cur) r
  end.
Definition fields (s : bytes) : list bytes := fields_from [] s.

Fixpoint join_with (sep : bytes) (ws : list bytes) : bytes :=
  match ws with
  | [] => []
  | [w] => w
  | w :: r => w ++ sep ++ join_with sep r
  end.

(* the loop of codegen.SnakeCase from the second byte on *)
Fixpoint snake_loop (lastLower lastUnder : bool) (s : bytes) : bytes :=
  match s with
  | [] => []
  | r :: rest =>
      let isLower := is_lower r || is_digit r in
      let isUnder := (r =? 95)%N in
      let sep :=
        if negb isLower && negb isUnder then
          if lastLower && negb lastUnder then true
          else match rest with
               | rn :: _ => is_lower rn && negb (rn =? 95)%N && negb lastUnder
               | [] => false
               end
        else false in
      (if sep then [95%N] else []) ++ to_lower r :: snake_loop isLower isUnder rest
  end.

Definition oauth_upper : bytes := [79; 65; 117; 116; 104]%N.   (* "OAuth" *)
Definition oauth_lower : bytes := [111; 97; 117; 116; 104]%N.  (* "oauth" *)

Definition snake_case (name : bytes) : bytes :=
  let s := replace_all [45%N] [95%N] (join_with [95%N] (fields (replace_all oauth_upper oauth_lower name))) in
  match s with
  | [] => []
  | n :: rest => to_lower n :: snake_loop false false rest
  end.

(* what may appear in a name handed to SnakeCase / what comes out *)
Definition name_byte (b : N) : bool :=
  is_upper b || is_lower b || is_digit b || (b =? 95)%N || (b =? 45)%N || is_space b.
Definition dir_byte (b : N) : bool := is_lower b || is_digit b || (b =? 95)%N.

(* filepath.Join on slash-separated relative paths: drop empty elements, join with "/",
   then path.Clean: no empty and "." components, ".." removes the component before it *)
Fixpoint split_slash_from (cur : bytes) (s : bytes) : list bytes :=
  match s with
  | [] => [rev cur]
  | c :: r => if (c =? 47)%N then rev cur :: split_slash_from [] r else split_slash_from (c :: cur) r
  end.
Definition split_slash (s : bytes) : list bytes := split_slash_from [] s.

Definition dot : bytes := [46%N].
Definition dotdot : bytes := [46; 46]%N.

(* the stack holds the cleaned components, innermost first *)
Fixpoint clean_push (stack : list bytes) (cs : list bytes) : list bytes :=
  match cs with
  | [] => stack
  | c :: r =>
      if bytes_eqb c [] || bytes_eqb c dot then clean_push stack r
      else if bytes_eqb c dotdot then
        match stack with
        | top :: below => if bytes_eqb top dotdot then clean_push (c :: stack) r else clean_push below r
        | [] => clean_push [c] r
        end
      else clean_push (c :: stack) r
  end.

Definition join_clean (elems : list bytes) : list bytes :=
  rev (clean_push [] (flat_map split_slash (filter (fun e => negb (bytes_eqb e [])) elems))).

Definition gen_name : bytes := [103; 101; 110]%N.  (* "gen" *)

Definition in_gen_subdir_b (p : list bytes) : bool :=
  match p with
  | g :: _ :: _ :: _ => bytes_eqb g gen_name
  | _ => false
  end.

(* the argument list of a filepath.Join(...) that computes the Path of a gen file *)
Inductive pcomp :=
| PGendir                 (* codegen.Gendir *)
| PLit (s : bytes)        (* a string literal *)
| PSvc                    (* a SnakeCase result: <service>.PathName, codegen.SnakeCase(...) *)
| POther.                 (* anything else *)

Definition safe_component (c : bytes) : bool :=
  negb (bytes_eqb c []) && negb (bytes_eqb c dot) && negb (bytes_eqb c dotdot) && forallb (fun b => negb (b =? 47)%N) c.

Definition comp_ok (c : pcomp) : bool :=
  match c with PLit s => safe_component s | PSvc => true | _ => false end.

Definition shape_ok (sh : list pcomp) : bool :=
  match sh with
  | PGendir :: c1 :: c2 :: rest => forallb comp_ok (c1 :: c2 :: rest)
  | _ => false
  end.

(* one service name for every PSvc slot is enough: what matters is that it is safe *)
Definition inst (svc : bytes) (sh : list pcomp) : list bytes :=
  map (fun c => match c with PGendir => gen_name | PLit s => s | PSvc => svc | POther => [] end) sh.

Record path_site := mk_path_site { psname : string; pshape : list pcomp; pinspected : bool }.
Definition path_site_ok (s : path_site) : bool := shape_ok (pshape s) || pinspected s.
