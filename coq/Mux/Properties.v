(* C16 — property statements only (filled in below). *)
From Mux Require Import Model Lemmas.

Theorem unescape_escape m s : unescape m (escape m s) = Some s.
Proof. exact (Lemmas.unescape_escape m s). Qed.
Print Assumptions unescape_escape.
