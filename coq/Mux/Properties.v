(* C16 — property statements only. Every theorem is closed by a lemma of Lemmas.v
   and followed by Print Assumptions. *)
From Mux Require Import Model Lemmas.

(* ------------------------------------------------------------ percent codec *)

(* url.PathUnescape(url.PathEscape(s)) = s, the same for the query codec and for the
   encoding of whole paths: all byte strings, all three modes *)
Theorem unescape_escape m s : unescape m (escape m s) = Some s.
Proof. exact (Lemmas.unescape_escape m s). Qed.
Print Assumptions unescape_escape.

(* http/mux.go unescape undoes url.PathEscape *)
Theorem mux_unescape_path_escape s : unescape_or_id (escape PathSeg s) = s.
Proof. exact (unescape_or_id_escape s). Qed.
Print Assumptions mux_unescape_path_escape.

(* url.PathEscape never leaves a '/' *)
Theorem path_escape_no_slash s : ~ In slash (escape PathSeg s).
Proof. exact (escape_seg_no_slash s). Qed.
Print Assumptions path_escape_no_slash.

(* URL.setPath: Path is the decoding; RawPath is empty exactly when the received path
   is the default encoding of Path, and is the received path otherwise *)
Theorem set_path_spec wire p raw :
  set_path wire = Some (p, raw) ->
  unescape Path wire = Some p /\ (raw = [] <-> wire = escape Path p) /\ (raw <> [] -> raw = wire).
Proof. exact (Lemmas.set_path_spec wire p raw). Qed.
Print Assumptions set_path_spec.

Theorem set_path_default_encoding p : set_path (escape Path p) = Some (p, []).
Proof. exact (set_path_total_on_escaped p). Qed.
Print Assumptions set_path_default_encoding.

(* URL.EscapedPath always decodes to Path, whatever RawPath holds *)
Theorem escaped_path_decodes path raw : unescape Path (escaped_path path raw) = Some path.
Proof. exact (Lemmas.escaped_path_decodes path raw). Qed.
Print Assumptions escaped_path_decodes.

(* RawPath of a URL built by substituting url.PathEscape(values) into a pattern: empty
   exactly when no value contains '/', ';' or ',' *)
Theorem build_url_rawpath ip : wf_ipat ip = true ->
  exists path, set_path (build_url ip) = Some (path, if forallb neutral (ivals ip) then [] else build_url ip).
Proof.
  intro H. unfold wf_ipat in H. apply andb_prop in H as [H _].
  exists (slash :: join_slash (dsegs ip)).
  rewrite (build_url_set_path ip (wf_pattern_lit_plain ip H)), (dsegs_neutral_iff ip (wf_pattern_lit_plain ip H)).
  reflexivity.
Qed.
Print Assumptions build_url_rawpath.

(* ----------------------------------------------------------------- matching *)

(* a {name} wildcard captures one segment of the routed path: never a '/' *)
Theorem single_segment_no_slash pat rp caps k v :
  matches pat (path_segs rp) = Some caps -> In (k, v) caps -> k <> [star] -> ~ In slash v.
Proof. exact (Lemmas.single_segment_no_slash pat rp caps k v). Qed.
Print Assumptions single_segment_no_slash.

(* a trailing {*name} captures all that is left, slashes included *)
Theorem catchall_captures_rest pre n xs caps rest :
  matches pre xs = Some caps -> (forall m, ~ In (CatchAll m) pre) -> rest <> [] ->
  matches (pre ++ [CatchAll n]) (xs ++ rest) = Some (caps ++ [([star], join_slash rest)]).
Proof. exact (Lemmas.catchall_captures_rest pre n xs caps rest). Qed.
Print Assumptions catchall_captures_rest.

(* ... including nothing at all ("/f/" for "/f/{*p}") *)
Theorem empty_catchall_ok pre n xs caps :
  matches pre xs = Some caps -> (forall m, ~ In (CatchAll m) pre) ->
  matches (pre ++ [CatchAll n]) (xs ++ [[]]) = Some (caps ++ [([star], [])]).
Proof. exact (Lemmas.empty_catchall_ok pre n xs caps). Qed.
Print Assumptions empty_catchall_ok.

(* chi: {name} refuses an empty last segment and accepts an empty inner one *)
Theorem var_empty_segment n l :
  matches [Var n] [[]] = None /\ matches [Var n; Lit l] [[]; l] = Some [(n, [])].
Proof. exact (conj (var_empty_last_no_match n) (var_empty_inner_matches n l)). Qed.
Print Assumptions var_empty_segment.

(* ------------------------------------------- the property's URL construction *)

(* the URL built by substituting escaped values into a pattern is matched by that
   pattern; Vars then holds, per wildcard, the value itself when RawPath is set and
   the value unescaped once more when RawPath is empty *)
Theorem build_url_matches ip : wf_ipat ip = true ->
  captured (pat_of ip) (build_url ip) =
    Some (if forallb neutral (ivals ip) then icaps unescape_or_id ip else icaps idv ip).
Proof. exact (captured_build_url ip). Qed.
Print Assumptions build_url_matches.

(* exactly which built URLs give their values back: some value contains / ; or , (chi
   then routes on RawPath) or every value survives url.PathUnescape unchanged *)
Theorem vars_roundtrip_iff ip : wf_ipat ip = true ->
  (captured (pat_of ip) (build_url ip) = Some (icaps idv ip)
   <-> forallb neutral (ivals ip) = false \/ forallb stable (ivals ip) = true).
Proof. exact (Lemmas.vars_roundtrip_iff ip). Qed.
Print Assumptions vars_roundtrip_iff.

Theorem vars_roundtrip_partial ip : wf_ipat ip = true ->
  forallb neutral (ivals ip) = false \/ forallb stable (ivals ip) = true ->
  captured (pat_of ip) (build_url ip) = Some (icaps idv ip).
Proof. intros H. exact (proj2 (Lemmas.vars_roundtrip_iff ip H)). Qed.
Print Assumptions vars_roundtrip_partial.

(* in particular: values without any '%' *)
Theorem vars_roundtrip_no_percent ip : wf_ipat ip = true ->
  (forall v, In v (ivals ip) -> ~ In pct v) ->
  captured (pat_of ip) (build_url ip) = Some (icaps idv ip).
Proof.
  intros H Hv. apply (proj2 (Lemmas.vars_roundtrip_iff ip H)). right. apply forallb_forall.
  intros v Hin. exact (stable_no_pct v (Hv v Hin)).
Qed.
Print Assumptions vars_roundtrip_no_percent.

(* the finding: "%41" placed in /u/{id} comes back as "A" *)
Theorem vars_double_unescape_refuted :
  exists ip got, wf_ipat ip = true /\ captured (pat_of ip) (build_url ip) = Some got /\ got <> icaps idv ip.
Proof.
  exists w_ip, [(b_id, v_A)]. destruct w_ip_facts as (H1 & _ & H3 & H4).
  split; [exact H1|]. split; [exact H3|]. rewrite H4. discriminate.
Qed.
Print Assumptions vars_double_unescape_refuted.

(* ---------------------------------------------------------------- the muxer *)

(* every muxer built from NewMuxer by Use and Handle keeps the wildcard-name table in
   step with the routes *)
Theorem reachable_wf m : reachable m -> wf_mux m.
Proof. exact (Lemmas.reachable_wf m). Qed.
Print Assumptions reachable_wf.

(* pattern resolution: for every registered route, in either wildcard form, the pattern
   rebuilt from chi's pattern is the registered one *)
Theorem resolve_pattern_id m r : reachable m -> In r (routes m) ->
  resolve_wildcard m (r_meth r) (chi_render (r_pat r)) = goa_render (r_pat r).
Proof. intro H. exact (resolve_registered m r (Lemmas.reachable_wf m H)). Qed.
Print Assumptions resolve_pattern_id.

(* one request, whatever the installed middlewares asked before routing (pre), for any
   precedence oracle that picks from the matching set: the handler reached is registered
   for the method and matches; Vars is what that pattern captured, the catch-all under its
   own name; the handler and the middlewares after next are told the registered pattern,
   and so was every middleware that asked before next — pattern and
   Vars; otherwise 404 with the negotiated encoder, or 405 when only another method matches.
   goa's SmartRedirectSlashes, when mounted, is a transparent layer (every recording
   middleware runs, same dispatch, same pattern and Vars) except for the requests it
   redirects: the routed string (RawPath when set, else Path) is longer than "/", no route
   of the method matches it, one matches it with the trailing slash toggled — then 301 to
   that string and nothing after it runs; it never answers a request that a route matches *)
Theorem serve_spec pick m me wire pre ar ap : sound pick -> reachable m ->
  match set_path wire with
  | None => serve pick m me wire pre ar ap = None
  | Some (path, raw) =>
    let segs := path_segs (route_path path raw) in
    let sp := match_path path raw in
    let n := asking (mws m) pre in
    exists o, serve pick m me wire pre ar ap = Some o /\
      match o_out o with
      | Handled h vs hp =>
        o_ran o = rec_ids (mws m) /\
        exists r capt, In r (cands m me segs) /\ r_h r = h /\ captured (r_pat r) wire = Some capt /\
          vs = map (rename (opt_name (catchall_name (r_pat r)))) capt /\
          hp = goa_render (r_pat r) /\ o_post o = goa_render (r_pat r) /\
          o_pre o = repeat (hp, vs) n
      | NotFound e => smart_redirects m me sp = false /\ o_ran o = rec_ids (mws m) /\
          cands m me segs = [] /\ other_method_matches m segs = false /\ e = response_encoder ar ap /\
          o_pre o = repeat ([], []) n /\ o_post o = []
      | MethodNotAllowed => smart_redirects m me sp = false /\ o_ran o = rec_ids (mws m) /\
          cands m me segs = [] /\ other_method_matches m segs = true /\
          o_pre o = repeat ([], []) n /\ o_post o = []
      | Redirected loc => smart_redirects m me sp = true /\ cands m me segs = [] /\
          loc = hex_escape_non_ascii (toggle_slash sp) /\ o_ran o = rec_ids (before_smart (mws m))
      end
  end.
Proof. intros Hs Hm. exact (Lemmas.serve_spec pick Hs m me wire pre ar ap (Lemmas.reachable_wf m Hm)). Qed.
Print Assumptions serve_spec.

(* the pattern (and the variables) reported to a middleware before next are the ones
   reported to the handler and after next *)
Theorem resolve_before_routing_agrees pick m me wire pre ar ap o h vs hp : sound pick -> reachable m ->
  serve pick m me wire pre ar ap = Some o -> o_out o = Handled h vs hp ->
  (forall a, In a (o_pre o) -> a = (hp, vs)) /\ o_post o = hp /\
  length (o_pre o) = asking (mws m) pre /\ o_ran o = rec_ids (mws m).
Proof. intros Hs Hm. exact (pre_agrees pick m me wire pre ar ap o h vs hp Hs (Lemmas.reachable_wf m Hm)). Qed.
Print Assumptions resolve_before_routing_agrees.

Theorem dispatch_sound pick m me wire pre ar ap o h vs hp : sound pick -> reachable m ->
  serve pick m me wire pre ar ap = Some o -> o_out o = Handled h vs hp ->
  exists path raw r, set_path wire = Some (path, raw) /\
    In r (cands m me (path_segs (route_path path raw))) /\ r_h r = h.
Proof. intros Hs Hm. exact (Lemmas.dispatch_sound pick Hs m me wire pre ar ap o h vs hp (Lemmas.reachable_wf m Hm)). Qed.
Print Assumptions dispatch_sound.

(* a handler runs iff the matching set is not empty; otherwise 301 iff SmartRedirectSlashes
   is mounted and the path matches with its slash toggled, else 404 iff no route of any
   method matches the path, 405 iff only routes of other methods do *)
Theorem dispatch_404 pick m me wire pre ar ap o path raw : sound pick -> reachable m ->
  serve pick m me wire pre ar ap = Some o -> set_path wire = Some (path, raw) ->
  let segs := path_segs (route_path path raw) in
  let sp := match_path path raw in
  ((exists h vs hp, o_out o = Handled h vs hp) <-> cands m me segs <> []) /\
  (o_out o = NotFound (response_encoder ar ap) <->
     cands m me segs = [] /\ smart_redirects m me sp = false /\ other_method_matches m segs = false) /\
  (o_out o = MethodNotAllowed <->
     cands m me segs = [] /\ smart_redirects m me sp = false /\ other_method_matches m segs = true) /\
  ((exists loc, o_out o = Redirected loc) <-> smart_redirects m me sp = true).
Proof. intros Hs Hm. exact (dispatch_unhandled_iff pick Hs m me wire pre ar ap o path raw (Lemmas.reachable_wf m Hm)). Qed.
Print Assumptions dispatch_404.

(* exactly one registered route matches: its handler runs, its pattern is reported *)
Theorem dispatch_unique pick m me wire pre ar ap o path raw r : sound pick -> reachable m ->
  serve pick m me wire pre ar ap = Some o -> set_path wire = Some (path, raw) ->
  cands m me (path_segs (route_path path raw)) = [r] ->
  exists vs, o_out o = Handled (r_h r) vs (goa_render (r_pat r)) /\ o_post o = goa_render (r_pat r).
Proof. intros Hs Hm. exact (Lemmas.dispatch_unique pick Hs m me wire pre ar ap o path raw r (Lemmas.reachable_wf m Hm)). Qed.
Print Assumptions dispatch_unique.

(* end to end: the URL built for a registered pattern is never answered 404/405; a
   handler of the same method whose pattern matches runs and is told its own pattern, as
   is every middleware before and after next; when it is the handler of that pattern,
   Vars maps every wildcard name to `returned` — with or without SmartRedirectSlashes *)
Theorem built_request_served pick m r ip pre ar ap : sound pick -> reachable m ->
  In r (routes m) -> r_pat r = pat_of ip -> wf_ipat ip = true ->
  exists o r' vs,
    serve pick m (r_meth r) (build_url ip) pre ar ap = Some o /\
    In r' (routes m) /\ r_meth r' = r_meth r /\ captured (r_pat r') (build_url ip) <> None /\
    o_out o = Handled (r_h r') vs (goa_render (r_pat r')) /\ o_post o = goa_render (r_pat r') /\
    o_pre o = repeat (goa_render (r_pat r'), vs) (asking (mws m) pre) /\ o_ran o = rec_ids (mws m) /\
    (r' = r -> vs = returned ip).
Proof. intros Hs Hm. exact (Lemmas.built_request_served pick Hs m r ip pre ar ap (Lemmas.reachable_wf m Hm)). Qed.
Print Assumptions built_request_served.

(* ... and `returned` is the client's values exactly under the condition of vars_roundtrip_iff *)
Theorem returned_values_iff ip :
  returned ip = values_of ip <-> forallb neutral (ivals ip) = false \/ forallb stable (ivals ip) = true.
Proof. exact (returned_iff ip). Qed.
Print Assumptions returned_values_iff.

(* the finding end to end, whatever chi's precedence: Handle(GET,"/u/{id}"), GET /u/%2541 *)
Theorem serve_double_unescape_refuted :
  exists m ip, reachable m /\ wf_ipat ip = true /\ values_of ip = [(b_id, v_pct41)] /\
    forall pick ar ap, sound pick ->
      exists o, serve pick m GET (build_url ip) [] ar ap = Some o /\
                o_out o = Handled 0 [(b_id, v_A)] (goa_render (pat_of ip)).
Proof.
  exists w_mux, w_ip. destruct w_ip_facts as (H1 & H2 & _). split; [exact w_mux_reachable|].
  split; [exact H1|]. split; [exact H2|]. intros pick ar ap Hs. exact (double_unescape_served pick Hs ar ap).
Qed.
Print Assumptions serve_double_unescape_refuted.

(* ------------------------------------- ResolvePattern before the request is routed *)

(* regression cases of the defect fixed by bd5b058 (the early call wrote into the request's
   routing context and matched the decoded path): Use(mw); Handle(GET,"/f/{*p}"); mw asks
   before next; GET /f/a/b — early call, handler and late call all get "/f/{*p}" and
   {p: "a/b"}, whatever chi's precedence *)
Theorem resolve_before_routing_regression pick ar ap : sound pick ->
  exists o, serve pick w_mux2 GET w_wire2 [true] ar ap = Some o /\
    o_pre o = [(w_pat2_goa, [(b_p, v_a_b)])] /\ o_out o = Handled 0 [(b_p, v_a_b)] w_pat2_goa /\ o_post o = w_pat2_goa /\
    goa_render [Lit b_f; CatchAll b_p] = w_pat2_goa.
Proof. intro Hs. exact (resolve_before_routing_served pick Hs ar ap). Qed.
Print Assumptions resolve_before_routing_regression.

(* GET /u/a%2Fb against "/u/{id}" (#0) and "/u/{a}/{b}" (#1): the early call now reports
   "/u/{id}" and {id: "a/b"}, the route chi runs *)
Theorem resolve_decoded_path_regression ar ap :
  exists o, serve first_pick w_mux3 GET w_wire3 [true] ar ap = Some o /\
    o_pre o = [(goa_render [Lit b_u; Var b_id], [(b_id, v_a_b)])] /\
    o_out o = Handled 0 [(b_id, v_a_b)] (goa_render [Lit b_u; Var b_id]) /\
    o_post o = goa_render [Lit b_u; Var b_id].
Proof. exact (resolve_decoded_path_served ar ap). Qed.
Print Assumptions resolve_decoded_path_regression.

(* regression (the follow-up repair): a URL with an empty path is routed by chi as "/" and
   the early call now matches "/" too *)
Theorem resolve_empty_path_regression :
  exists m, reachable m /\ forall pick ar ap, sound pick ->
    exists o, serve pick m GET [] [true] ar ap = Some o /\
      o_pre o = [([slash], [])] /\ o_out o = Handled 0 [] [slash] /\ o_post o = [slash].
Proof.
  exists w_mux4. split; [exact w_mux4_reachable|]. intros pick ar ap Hs.
  destruct (empty_path_served pick Hs ar ap) as (o & E & H1 & H2 & H3 & _).
  exists o. split; [exact E|]. split; [exact H1|]. split; [exact H2|exact H3].
Qed.
Print Assumptions resolve_empty_path_regression.

(* ----------------------------------- http/middleware.SmartRedirectSlashes via Use *)

(* it never answers a request that a route of the method matches (as chi routes it):
   pattern, Vars and dispatch are those of serve_spec *)
Theorem smart_transparent m me path raw :
  cands m me (path_segs (route_path path raw)) <> [] -> smart_redirects m me (match_path path raw) = false.
Proof. exact (smart_quiet m me path raw). Qed.
Print Assumptions smart_transparent.

Theorem smart_not_mounted m me path : existsb is_smart (mws m) = false -> smart_redirects m me path = false.
Proof. exact (no_smart_quiet m me path). Qed.
Print Assumptions smart_not_mounted.

(* regression (the repair of SmartRedirectSlashes): Use(SmartRedirectSlashes);
   Handle(GET,"/u/{id}"); the URL built for id = "a/" is /u/a%2F: it reaches the handler with
   id = "a/"; /u/a%2F/ is redirected to /u/a%2F, the client's escaping kept — whatever
   chi's precedence *)
Theorem smart_redirect_regression pick ar ap : sound pick ->
  wf_ipat w_ip5 = true /\ routes w_mux5 = [{| r_meth := GET; r_pat := pat_of w_ip5; r_h := 0 |}] /\
  (exists o, serve pick w_mux5 GET (build_url w_ip5) [] ar ap = Some o /\
             o_out o = Handled 0 [(b_id, [x61; x2f])] (goa_render (pat_of w_ip5))) /\
  (exists o, serve pick w_mux5 GET (build_url w_ip5 ++ [slash]) [] ar ap = Some o /\
             o_out o = Redirected (build_url w_ip5)).
Proof. intro Hs. exact (smart_redirect_served pick Hs ar ap). Qed.
Print Assumptions smart_redirect_regression.

(* ------------------------------------- Handle: the wildPath regexp on the pattern text *)

(* what Handle computes from the TEXT of a well-formed pattern (regexp match + ReplaceAllString)
   is what the structured model uses: chi is given chi_render p, the wildcard table the
   catch-all's name, and a pattern without a catch-all is left alone — all patterns of any
   length over literals, {name} and a trailing {*name} *)
Theorem handle_rewrite_render p : wf_pattern p = true ->
  rewrite_pattern (goa_render p) = (chi_render p, catchall_name p).
Proof. exact (rewrite_pattern_render p). Qed.
Print Assumptions handle_rewrite_render.

(* ... so the wildcard table Handle builds is a function of the pattern text *)
Theorem handle_table_from_text me p h m : wf_pattern p = true ->
  wild (handle me p h m) =
    match rewrite_pattern (goa_render p) with
    | (cp, Some n) => (me, cp, n) :: wild m
    | (_, None) => wild m
    end.
Proof. intro H. rewrite (rewrite_pattern_render p H). reflexivity. Qed.
Print Assumptions handle_table_from_text.

(* for ANY text: a captured wildcard name obeys the documented grammar [a-zA-Z0-9_]+ ... *)
Theorem wildcard_name_grammar s n : find_wild s = Some n -> name_ok n = true.
Proof. exact (find_wild_name_ok s n). Qed.
Print Assumptions wildcard_name_grammar.

(* ... and a text the regexp does not match is registered unchanged, with no table entry *)
Theorem rewrite_no_match s : find_wild s = None -> rewrite_pattern s = (s, None).
Proof. exact (rewrite_pattern_no_match s). Qed.
Print Assumptions rewrite_no_match.

(* non-vacuity and the behaviour outside the envelope: "/a/{*x}/b/{*y}" -> "/a/*/b/*" with
   name x (every match replaced, the first name kept); "/a/{*x-y}" is not a catch-all *)
Example rewrite_examples :
  rewrite_pattern [x2f;x61;x2f;x7b;x2a;x78;x7d;x2f;x62;x2f;x7b;x2a;x79;x7d]
    = ([x2f;x61;x2f;x2a;x2f;x62;x2f;x2a], Some [x78]) /\
  rewrite_pattern [x2f;x61;x2f;x7b;x2a;x78;x2d;x79;x7d] = ([x2f;x61;x2f;x7b;x2a;x78;x2d;x79;x7d], None) /\
  rewrite_pattern (goa_render (pat_of ex_ip)) = (chi_render (pat_of ex_ip), Some b_p).
Proof. vm_compute. repeat split. Qed.

(* ------------------------------------------------- chi's precedence, modelled *)

(* chi_pick (static edge first, then {name}, then the catch-all, with backtracking) only ever
   returns a registered candidate whose pattern matches the routed segments ... *)
Theorem chi_pick_sound segs cs r : chi_pick segs cs = Some r ->
  In r cs /\ is_some (matches (r_pat r) segs) = true.
Proof. exact (chi_pick_in segs cs r). Qed.
Print Assumptions chi_pick_sound.

(* ... and always finds one when some candidate matches (the search is complete: no request
   that a registered route matches is answered 404 because of the search order) *)
Theorem chi_pick_complete segs cs r : In r cs -> is_some (matches (r_pat r) segs) = true ->
  chi_pick segs cs <> None.
Proof. exact (Lemmas.chi_pick_complete segs cs r). Qed.
Print Assumptions chi_pick_complete.

(* hence chi's precedence is an instance of the `sound pick` every theorem above quantifies
   over, and on the matching set of a request it is chi_pick itself *)
Theorem chi_precedence_is_sound_pick :
  sound chi_pick_total /\
  forall m me segs, chi_pick_total segs (cands m me segs) = chi_pick segs (cands m me segs).
Proof. exact (conj chi_pick_total_sound chi_pick_total_on_cands). Qed.
Print Assumptions chi_precedence_is_sound_pick.

(* non-vacuity: "/u/{id}" (#0), "/u/me" (#1), "/u/{*p}" (#2) all match /u/me: the literal wins;
   /u/x goes to {id}; /u/x/y only the catch-all matches *)
Example chi_precedence_example :
  let r0 := {| r_meth := GET; r_pat := [Lit b_u; Var b_id]; r_h := 0 |} in
  let r1 := {| r_meth := GET; r_pat := [Lit b_u; Lit [x6d; x65]]; r_h := 1 |} in
  let r2 := {| r_meth := GET; r_pat := [Lit b_u; CatchAll b_p]; r_h := 2 |} in
  chi_pick [b_u; [x6d; x65]] [r0; r1; r2] = Some r1 /\
  chi_pick [b_u; [x78]] [r0; r2] = Some r0 /\
  chi_pick [b_u; [x78]; [x79]] [r2] = Some r2.
Proof. vm_compute. repeat split. Qed.

(* ------------------------------------------------------- the not-found body *)

(* the 404 body is the well-formed fault unless the text encoder was negotiated *)
Theorem notfound_body_partial ar ap :
  (forall h, response_encoder ar ap <> EText h) ->
  notfound_body (response_encoder ar ap) = Some notfound_error /\
  eb_name_fault notfound_error = true /\ eb_fault notfound_error = true /\ eb_msg_404 notfound_error = true.
Proof. intro H. split; [exact (notfound_body_wellformed ar ap H)|repeat split]. Qed.
Print Assumptions notfound_body_partial.

(* exactly when that happens: Accept is text/html or text/plain, literally or after
   mime.ParseMediaType normalised it *)
Theorem notfound_text_encoder_iff ar ap h :
  response_encoder ar ap = EText h <->
  (ar = (if h then MHtml else MPlain)) \/ (ar = MOther /\ ap = Some (if h then MHtml else MPlain)).
Proof. exact (text_encoder_iff ar ap h). Qed.
Print Assumptions notfound_text_encoder_iff.

(* the finding: Accept text/html gives a 404 without a body *)
Theorem notfound_text_refuted : exists ar ap, notfound_body (response_encoder ar ap) = None.
Proof. exists MHtml, None. reflexivity. Qed.
Print Assumptions notfound_text_refuted.

(* ------------------------------------------------------------ Use and Handle *)

(* middlewares given to Use before the first Handle are installed by it, in order *)
Theorem use_before_handle fs me p h : exists m', uses fs new_muxer = Some m' /\ mws (handle me p h m') = fs.
Proof. exact (use_then_handle fs me p h). Qed.
Print Assumptions use_before_handle.

(* the finding: Use after any Handle panics *)
Theorem use_after_handle_refuted f me p h m : use f (handle me p h m) = None.
Proof. exact (use_after_handle f me p h m). Qed.
Print Assumptions use_after_handle_refuted.

(* ------------------------------------------------------------- non-vacuity *)

(* a reachable muxer with three routes (two methods), a pattern with a single-segment
   wildcard holding "a/b" and an empty catch-all: hypotheses of the theorems above are
   satisfiable, and the request is served as they say *)
Example built_request_example :
  wf_ipat ex_ip = true /\ reachable ex_mux /\ length (routes ex_mux) = 3 /\
  exists o, serve first_pick ex_mux GET (build_url ex_ip) [] MEmpty None = Some o /\
            o_out o = Handled 1 [(b_id, v_a_b); (b_p, [])] (goa_render (pat_of ex_ip)).
Proof. exact ex_facts. Qed.

Example sound_pick_exists : sound first_pick.
Proof. exact first_pick_sound. Qed.
