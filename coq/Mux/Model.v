(* Mux engine — executable model of
     http/mux.go     NewMuxer / Use / Handle / Vars / unescape / ResolvePattern /
                     resolveWildcard / ensureContext and the not-found handler
     net/url         shouldEscape / escape / unescape / setPath / EscapedPath / validEncoded
                     (the three modes goa meets: path segment, whole path, query component)
     chi v5          Mux.routeHTTP (routing on RawPath when set, else Path), tree.FindRoute
                     (what is recorded in the routing context), Context.RoutePattern,
                     the matching rules for static / {param} / catch-all nodes;
                     the precedence between overlapping routes is NOT modelled (oracle `pick`).
   Definitions only; proofs are in Lemmas.v, property statements in Properties.v. *)
From Coq Require Export List Bool NArith Lia.
From Coq.Strings Require Export Byte.
Export ListNotations.

Definition bstr := list byte.

(* ------------------------------------------------------------------ bytes *)

Definition bn (b : byte) : N := Byte.to_N b.
Definition in_range (c : byte) (lo hi : N) : bool := (lo <=? bn c)%N && (bn c <=? hi)%N.
Definition is_alnum (c : byte) : bool := in_range c 97 122 || in_range c 65 90 || in_range c 48 57.
Definition ceq (c : byte) (k : N) : bool := (bn c =? k)%N.

Definition slash : byte := x2f.
Definition star : byte := x2a.
Definition lbrace : byte := x7b.
Definition rbrace : byte := x7d.
Definition pct : byte := x25.
Definition plus : byte := x2b.
Definition space : byte := x20.

Fixpoint beq (a b : bstr) : bool :=
  match a, b with
  | [], [] => true
  | x :: a', y :: b' => Byte.eqb x y && beq a' b'
  | _, _ => false
  end.

Definition is_nil {A} (l : list A) : bool := match l with [] => true | _ => false end.
Definition is_some {A} (o : option A) : bool := match o with Some _ => true | None => false end.

(* ------------------------------------------------------ net/url percent codec *)

Inductive mode := PathSeg | Path | Query.

(* net/url shouldEscape for encodePathSegment, encodePath, encodeQueryComponent *)
Definition should_escape (m : mode) (c : byte) : bool :=
  if is_alnum c then false
  else if ceq c 45 || ceq c 95 || ceq c 46 || ceq c 126 then false        (* - _ . ~ *)
  else if ceq c 36 || ceq c 38 || ceq c 43 || ceq c 44 || ceq c 47 || ceq c 58
       || ceq c 59 || ceq c 61 || ceq c 63 || ceq c 64 then                 (* $ & + , / : ; = ? @ *)
    match m with
    | Path => ceq c 63
    | PathSeg => ceq c 47 || ceq c 59 || ceq c 44 || ceq c 63
    | Query => true
    end
  else true.

Definition hexdigit (k : N) : byte :=
  match Byte.of_N (if (k <? 10)%N then 48 + k else 55 + k)%N with Some b => b | None => x00 end.

Definition unhex (c : byte) : option N :=
  if in_range c 48 57 then Some (bn c - 48)%N
  else if in_range c 97 102 then Some (bn c - 87)%N
  else if in_range c 65 70 then Some (bn c - 55)%N
  else None.

Definition escape_byte (m : mode) (c : byte) : bstr :=
  if should_escape m c then
    match m, Byte.eqb c space with
    | Query, true => [plus]
    | _, _ => [pct; hexdigit (bn c / 16)%N; hexdigit (bn c mod 16)%N]
    end
  else [c].

(* url.PathEscape = escape PathSeg, url.QueryEscape = escape Query *)
Definition escape (m : mode) (s : bstr) : bstr := flat_map (escape_byte m) s.

Inductive ust := UNormal | UPct | UPctH (a : N).

(* net/url unescape as a one-pass decoder: final state and output; None = EscapeError *)
Fixpoint feed (m : mode) (st : ust) (s : bstr) : option (ust * bstr) :=
  match s with
  | [] => Some (st, [])
  | c :: r =>
    match st with
    | UNormal =>
      if Byte.eqb c pct then feed m UPct r
      else let c' := if match m with Query => Byte.eqb c plus | _ => false end then space else c in
           match feed m UNormal r with Some (st', o) => Some (st', c' :: o) | None => None end
    | UPct => match unhex c with Some a => feed m (UPctH a) r | None => None end
    | UPctH a =>
      match unhex c with
      | Some b => match Byte.of_N (16 * a + b)%N with
                  | Some x => match feed m UNormal r with Some (st', o) => Some (st', x :: o) | None => None end
                  | None => None end
      | None => None
      end
    end
  end.

(* url.PathUnescape = unescape PathSeg, url.QueryUnescape = unescape Query *)
Definition unescape (m : mode) (s : bstr) : option bstr :=
  match feed m UNormal s with Some (UNormal, o) => Some o | _ => None end.

(* http/mux.go unescape: PathUnescape, the input itself on error *)
Definition unescape_or_id (s : bstr) : bstr :=
  match unescape PathSeg s with Some u => u | None => s end.

(* net/url validEncoded (mode encodePath) *)
Definition valid_encoded_byte (c : byte) : bool :=
  if ceq c 33 || ceq c 36 || ceq c 38 || ceq c 39 || ceq c 40 || ceq c 41 || ceq c 42 || ceq c 43
     || ceq c 44 || ceq c 59 || ceq c 61 || ceq c 58 || ceq c 64 || ceq c 91 || ceq c 93 || ceq c 37
  then true else negb (should_escape Path c).
Definition valid_encoded (s : bstr) : bool := forallb valid_encoded_byte s.

(* URL.setPath: (Path, RawPath) from the path as received; None = parse error *)
Definition set_path (wire : bstr) : option (bstr * bstr) :=
  match unescape Path wire with
  | None => None
  | Some p => Some (p, if beq wire (escape Path p) then [] else wire)
  end.

(* URL.EscapedPath *)
Definition escaped_path (path raw : bstr) : bstr :=
  if negb (is_nil raw) && valid_encoded raw
     && match unescape Path raw with Some p => beq p path | None => false end
  then raw
  else if beq path [star] then [star]
  else escape Path path.

(* http/middleware.SmartRedirectSlashes: RawPath when set, else Path (no "" -> "/" step) *)
Definition match_path (path raw : bstr) : bstr := if is_nil raw then path else raw.

(* chi Mux.routeHTTP: the string that is routed *)
Definition route_path (path raw : bstr) : bstr :=
  let rp := if is_nil raw then path else raw in
  if is_nil rp then [slash] else rp.

(* ------------------------------------------------------------ path segments *)

Fixpoint split_slash (s : bstr) : list bstr :=
  match s with
  | [] => [[]]
  | c :: r =>
    if Byte.eqb c slash then [] :: split_slash r
    else match split_slash r with
         | h :: t => (c :: h) :: t
         | [] => [[c]]
         end
  end.

Fixpoint join_slash (l : list bstr) : bstr :=
  match l with
  | [] => []
  | x :: r => match r with [] => x | _ => x ++ slash :: join_slash r end
  end.

(* the segments of an absolute path: "/" -> [""], "/a/b" -> ["a";"b"], "/a/" -> ["a";""];
   a path that does not start with '/' has none (chi's root node only has "/…" edges,
   and no registered pattern is empty) *)
Definition path_segs (p : bstr) : list bstr :=
  match p with
  | c :: r => if Byte.eqb c slash then split_slash r else []
  | [] => []
  end.

(* ------------------------------------------------------------------ patterns *)

Inductive seg := Lit (s : bstr) | Var (n : bstr) | CatchAll (n : bstr).
Definition pattern := list seg.

Definition is_name_byte (c : byte) : bool := is_alnum c || ceq c 95.
Definition name_ok (n : bstr) : bool := negb (is_nil n) && forallb is_name_byte n.
(* bytes a literal segment may use: those PathEscape leaves alone *)
Definition plain (c : byte) : bool := negb (should_escape PathSeg c).

Fixpoint wf_segs (p : pattern) : bool :=
  match p with
  | [] => true
  | Lit s :: r => negb (is_nil s) && forallb plain s && wf_segs r
  | Var n :: r => name_ok n && wf_segs r
  | CatchAll n :: r => name_ok n && is_nil r
  end.

(* "/" is [Lit ""]; anything else is a non-empty list of non-empty segments, a
   catch-all only in last position *)
Definition wf_pattern (p : pattern) : bool :=
  match p with
  | [] => false
  | [Lit []] => true
  | _ => wf_segs p
  end.

(* goa = true: the pattern as given to Handle ("/{*name}"); false: as given to chi ("/*") *)
Definition render_seg (goa : bool) (s : seg) : bstr :=
  match s with
  | Lit s => s
  | Var n => lbrace :: n ++ [rbrace]
  | CatchAll n => if goa then lbrace :: star :: n ++ [rbrace] else [star]
  end.
Definition render (goa : bool) (p : pattern) : bstr := slash :: join_slash (map (render_seg goa) p).
Definition goa_render := render true.
Definition chi_render := render false.

Fixpoint catchall_name (p : pattern) : option bstr :=
  match p with
  | [] => None
  | [CatchAll n] => Some n
  | _ :: r => catchall_name r
  end.

(* chi tree: two patterns land on the same node iff they agree up to parameter names *)
Definition seg_same_shape (a b : seg) : bool :=
  match a, b with
  | Lit s, Lit t => beq s t
  | Var _, Var _ => true
  | CatchAll _, CatchAll _ => true
  | _, _ => false
  end.
Fixpoint same_shape (p q : pattern) : bool :=
  match p, q with
  | [], [] => true
  | a :: p', b :: q' => seg_same_shape a b && same_shape p' q'
  | _, _ => false
  end.

(* chi matching of one pattern against the segments of the routed path; the
   result lists (key, raw captured text) in pattern order, the catch-all under "*".
   - a {name} node takes one segment (never a '/'), and refuses the empty segment
     when nothing follows it (tree.go: "short-circuit ... for empty param values");
   - a catch-all takes all that is left, possibly nothing, but needs the '/' before it. *)
Fixpoint matches (pat : pattern) (segs : list bstr) : option (list (bstr * bstr)) :=
  match pat, segs with
  | [], [] => Some []
  | CatchAll _ :: _, _ :: _ => Some [([star], join_slash segs)]
  | Lit s :: pat', x :: segs' => if beq s x then matches pat' segs' else None
  | Var n :: pat', x :: segs' =>
      if is_nil x && is_nil segs' then None
      else match matches pat' segs' with Some c => Some ((n, x) :: c) | None => None end
  | _, _ => None
  end.

(* ---------------------------------------------- the property's URL construction *)

(* a pattern together with a value for each wildcard *)
Inductive iseg := ILit (s : bstr) | IVar (n v : bstr) | ICatchAll (n v : bstr).
Definition ipat := list iseg.

Definition pat_seg (i : iseg) : seg :=
  match i with ILit s => Lit s | IVar n _ => Var n | ICatchAll n _ => CatchAll n end.
Definition pat_of (ip : ipat) : pattern := map pat_seg ip.

(* the text each segment stands for *)
Definition dseg (i : iseg) : bstr := match i with ILit s => s | IVar _ v => v | ICatchAll _ v => v end.
(* what the client writes: url.PathEscape of each value *)
Definition wseg (i : iseg) : bstr :=
  match i with ILit s => s | IVar _ v => escape PathSeg v | ICatchAll _ v => escape PathSeg v end.

Definition build_url (ip : ipat) : bstr := slash :: join_slash (map wseg ip).

Fixpoint values_of (ip : ipat) : list (bstr * bstr) :=
  match ip with
  | [] => []
  | ILit _ :: r => values_of r
  | IVar n v :: r => (n, v) :: values_of r
  | ICatchAll n v :: r => (n, v) :: values_of r
  end.

(* the envelope of the construction: a well-formed pattern; single-segment values
   are not empty (an empty catch-all is allowed) *)
Definition iseg_ok (i : iseg) : bool := match i with IVar _ v => negb (is_nil v) | _ => true end.
Definition wf_ipat (ip : ipat) : bool := wf_pattern (pat_of ip) && forallb iseg_ok ip.

(* bytes that url.PathEscape escapes and the default path encoding does not: / ; , *)
Definition neutral_byte (c : byte) : bool := negb (ceq c 47 || ceq c 59 || ceq c 44).
Definition neutral (v : bstr) : bool := forallb neutral_byte v.
(* the value survives http/mux.go unescape *)
Definition stable (v : bstr) : bool := beq (unescape_or_id v) v.


(* keys chi reports for the wildcards of an instantiated pattern, with a transformation
   of the values (identity: what chi captures from the decoded Path; PathEscape: what it
   captures from RawPath) *)
Definition idv (v : bstr) : bstr := v.
Definition iseg_seg (f : bstr -> bstr) (i : iseg) : bstr :=
  match i with ILit s => s | IVar _ v => f v | ICatchAll _ v => f v end.
Fixpoint icaps (f : bstr -> bstr) (ip : ipat) : list (bstr * bstr) :=
  match ip with
  | [] => []
  | ILit _ :: r => icaps f r
  | IVar n v :: r => (n, f v) :: icaps f r
  | ICatchAll _ v :: r => ([star], f v) :: icaps f r
  end.

(* one request, one pattern: what chi captures for it and what Vars makes of it
   (keys still chi's: the catch-all under "*") *)
Definition captured (pat : pattern) (wire : bstr) : option (list (bstr * bstr)) :=
  match set_path wire with
  | None => None
  | Some (path, raw) =>
    match matches pat (path_segs (route_path path raw)) with
    | None => None
    | Some caps => Some (map (fun kv => (fst kv, unescape_or_id (snd kv))) caps)
    end
  end.


(* Vars' key for a captured parameter: chi's "*" becomes the catch-all's name *)
Definition rename (nm : bstr) (kv : bstr * bstr) : bstr * bstr :=
  (if beq (fst kv) [star] then nm else fst kv, snd kv).
Definition opt_name (o : option bstr) : bstr := match o with Some n => n | None => [] end.


(* ------------------------------------------- Handle: the wildPath regexp, on pattern text *)

(* wildPath = regexp.MustCompile(`/{\*([a-zA-Z0-9_]+)}`). The name is the maximal run of name
   bytes (a shorter run would be followed by a name byte, not by '}'): no backtracking. *)
Fixpoint span_name (s : bstr) : bstr * bstr :=
  match s with
  | c :: r => if is_name_byte c then let (n, t) := span_name r in (c :: n, t) else ([], s)
  | [] => ([], [])
  end.

(* a match that starts at the first byte: the captured name and what follows the match *)
Definition wild_here (s : bstr) : option (bstr * bstr) :=
  match s with
  | a :: b :: c :: r =>
    if Byte.eqb a slash && Byte.eqb b lbrace && Byte.eqb c star then
      match span_name r with
      | (n, d :: t) => if negb (is_nil n) && Byte.eqb d rbrace then Some (n, t) else None
      | (_, []) => None
      end
    else None
  | _ => None
  end.

(* wildPath.FindStringSubmatch(pattern)[1]: the leftmost match *)
Fixpoint find_wild (s : bstr) : option bstr :=
  match wild_here s with
  | Some (n, _) => Some n
  | None => match s with _ :: r => find_wild r | [] => None end
  end.

(* wildPath.ReplaceAllString(pattern, "/*"): non-overlapping matches, left to right; every
   step consumes at least one byte, so length-of-input fuel is enough *)
Fixpoint replace_wild_all (fuel : nat) (s : bstr) : bstr :=
  match fuel with
  | O => s
  | S f =>
    match wild_here s with
    | Some (_, t) => slash :: star :: replace_wild_all f t
    | None => match s with c :: r => c :: replace_wild_all f r | [] => [] end
    end
  end.

(* what Handle gives to chi and what it files in the wildcard table, from the pattern text *)
Definition rewrite_pattern (s : bstr) : bstr * option bstr :=
  match find_wild s with
  | Some n => (replace_wild_all (length s) s, Some n)
  | None => (s, None)
  end.

(* ------------------------------------------------------------------- the mux *)

Inductive method := GET | POST | PUT | DELETE | PATCH | HEAD | OPTIONS | TRACE | CONNECT.
Definition method_eqb (a b : method) : bool :=
  match a, b with
  | GET, GET | POST, POST | PUT, PUT | DELETE, DELETE | PATCH, PATCH | HEAD, HEAD
  | OPTIONS, OPTIONS | TRACE, TRACE | CONNECT, CONNECT => true
  | _, _ => false
  end.

Record route := { r_meth : method; r_pat : pattern; r_h : nat }.

(* goahttp.mux: middlewares waiting for the first Handle (None afterwards),
   middlewares installed in chi, chi's routes, the wildcard-name table keyed by
   method::rewritten-pattern *)
(* a middleware given to Use: one of the harness's recording middlewares, or goa's own
   http/middleware.SmartRedirectSlashes (the only one in that package that reads chi's context) *)
Inductive mwk := MRec (id : nat) | MSmart.
Definition is_smart (k : mwk) : bool := match k with MSmart => true | MRec _ => false end.
Fixpoint rec_ids (l : list mwk) : list nat :=
  match l with [] => [] | MRec i :: r => i :: rec_ids r | MSmart :: r => rec_ids r end.
(* the middlewares that run before the first SmartRedirectSlashes of the chain *)
Fixpoint before_smart (l : list mwk) : list mwk :=
  match l with [] => [] | MSmart :: _ => [] | k :: r => k :: before_smart r end.
(* how many recording middlewares of the chain ask ResolvePattern/Vars before next *)
Fixpoint asking (l : list mwk) (pre : list bool) : nat :=
  match l, pre with
  | MRec _ :: r, b :: p => (if b then 1 else 0) + asking r p
  | MSmart :: r, _ :: p => asking r p
  | _, _ => 0
  end.

Record mux := { pending : option (list mwk); mws : list mwk; routes : list route;
                wild : list (method * bstr * bstr) }.

Definition new_muxer : mux := {| pending := Some []; mws := []; routes := []; wild := [] |}.

(* Use: queued before the first Handle; afterwards goa forwards to chi.Mux.Use,
   which panics once a route exists — and Handle always adds one (None = panic) *)
Definition use (f : mwk) (m : mux) : option mux :=
  match pending m with
  | Some l => Some {| pending := Some (l ++ [f]); mws := mws m; routes := routes m; wild := wild m |}
  | None => None
  end.

Fixpoint wild_get (me : method) (k : bstr) (t : list (method * bstr * bstr)) : option bstr :=
  match t with
  | [] => None
  | (me', k', n) :: r => if method_eqb me me' && beq k k' then Some n else wild_get me k r
  end.

Definition same_endpoint (me : method) (p : pattern) (r : route) : bool :=
  method_eqb me (r_meth r) && same_shape p (r_pat r).

(* Handle: install the queued middlewares, rewrite "/{*name}" to "/*" and remember
   the name, register with chi (a second registration of the same method and node
   replaces the first) *)
Definition handle (me : method) (p : pattern) (h : nat) (m : mux) : mux :=
  {| pending := None;
     mws := match pending m with Some l => mws m ++ l | None => mws m end;
     routes := filter (fun r => negb (same_endpoint me p r)) (routes m) ++ [{| r_meth := me; r_pat := p; r_h := h |}];
     wild := match catchall_name p with
             | Some n => (me, chi_render p, n) :: wild m
             | None => wild m
             end |}.

(* chi routing context: the part goa reads *)
Record cctx := { rpats : list bstr; ukeys : list bstr; uvals : list bstr; mna : bool }.
Definition ctx0 : cctx := {| rpats := []; ukeys := []; uvals := []; mna := false |}.

(* strings.Replace(p, "/*/", "/", -1), one pass *)
Fixpoint replace1 (s : bstr) : bstr :=
  match s with
  | a :: t =>
    match t with
    | b :: c :: r =>
      if Byte.eqb a slash && Byte.eqb b star && Byte.eqb c slash then slash :: replace1 r
      else a :: replace1 t
    | _ => s
    end
  | [] => []
  end.
(* chi replaceWildcards: repeat until nothing changes (each pass that changes shortens) *)
Definition replace_wild (s : bstr) : bstr := Nat.iter (length s) replace1 s.

Definition strip_suffix (suf s : bstr) : bstr :=
  let n := (length s - length suf)%nat in
  if Nat.leb (length suf) (length s) && beq (skipn n s) suf then firstn n s else s.

(* chi Context.RoutePattern *)
Definition route_pattern (c : cctx) : bstr :=
  let p := replace_wild (concat (rpats c)) in
  if beq p [slash] then p else strip_suffix [slash] (strip_suffix [slash; slash] p).

(* ---- the not-found handler: ResponseEncoder on the Accept header ---- *)
Inductive mt := MEmpty | MJson | MXml | MGob | MHtml | MPlain | MOther.
Inductive enc := EJson | EXml | EGob | EText (html : bool).

Definition negotiate (a : mt) : option enc :=
  match a with
  | MEmpty | MJson => Some EJson
  | MXml => Some EXml
  | MGob => Some EGob
  | MHtml => Some (EText true)
  | MPlain => Some (EText false)
  | MOther => None
  end.

(* raw: the Accept header as sent; parsed: what mime.ParseMediaType makes of it (oracle) *)
Definition response_encoder (raw : mt) (parsed : option mt) : enc :=
  match negotiate raw with
  | Some e => e
  | None =>
    match parsed with
    | Some p => match negotiate p with Some e => e | None => EJson end
    | None => EJson
    end
  end.

(* what the body decodes to: the text encoder refuses an *ErrorResponse, the error
   is dropped, nothing is written *)
Record errbody := { eb_name_fault : bool; eb_has_id : bool; eb_msg_404 : bool;
                    eb_temporary : bool; eb_timeout : bool; eb_fault : bool }.
Definition notfound_error : errbody :=
  {| eb_name_fault := true; eb_has_id := true; eb_msg_404 := true;
     eb_temporary := false; eb_timeout := false; eb_fault := true |}.
Definition notfound_body (e : enc) : option errbody :=
  match e with EText _ => None | _ => Some notfound_error end.

(* ---- one request through ServeHTTP ---- *)
Inductive outcome :=
| Handled (h : nat) (vs : list (bstr * bstr)) (hpat : bstr)
| NotFound (e : enc)
| MethodNotAllowed
| Redirected (loc : bstr).      (* 301 by SmartRedirectSlashes; loc = Location without "//host" *)

(* o_ran: the recording middlewares entered, in order;
   o_pre: what ResolvePattern and Vars returned to each installed middleware that asked
   before calling next (chain order); o_post: what it returns after next came back *)
Record obs := { o_ran : list nat; o_pre : list (bstr * list (bstr * bstr)); o_out : outcome; o_post : bstr }.


Section Dispatch.
  (* chi's choice among the registered routes that match (static before param before
     catch-all, with backtracking) is not modelled: any function of the routed
     segments and the matching routes *)
  Variable pick : list bstr -> list route -> option route.

  Definition cands (m : mux) (me : method) (segs : list bstr) : list route :=
    filter (fun r => method_eqb (r_meth r) me && is_some (matches (r_pat r) segs)) (routes m).

  Definition other_method_matches (m : mux) (segs : list bstr) : bool :=
    existsb (fun r => is_some (matches (r_pat r) segs)) (routes m).

  (* tree.FindRoute on a context: appends the pattern, keys and values on success *)
  Definition find_route (m : mux) (c : cctx) (me : method) (rp : bstr) : cctx * option route :=
    let segs := path_segs rp in
    match pick segs (cands m me segs) with
    | Some r =>
      match matches (r_pat r) segs with
      | Some caps =>
        ({| rpats := rpats c ++ [chi_render (r_pat r)]; ukeys := ukeys c ++ map fst caps;
            uvals := uvals c ++ map snd caps; mna := mna c |}, Some r)
      | None => (c, None)
      end
    | None =>
      ({| rpats := rpats c; ukeys := ukeys c; uvals := uvals c;
          mna := mna c || other_method_matches m segs |}, None)
    end.

  (* goahttp ensureContext: the context to read from. When the request's context has no
     pattern yet (a middleware running before chi routed) a SCRATCH context is matched, on
     the string chi routes (RawPath when set, else Path, "" as "/"); the request's own
     context is never written *)
  Definition ensure_context (m : mux) (c : cctx) (me : method) (mp : bstr) : cctx * bool :=
    if negb (is_nil (route_pattern c)) then (c, true)
    else match find_route m ctx0 me mp with
         | (c', Some _) => (c', true)
         | (c', None) => (c', false)
         end.

  Definition resolve_wildcard (m : mux) (me : method) (p : bstr) : bstr :=
    match wild_get me p (wild m) with
    | Some n => firstn (length p - 2) p ++ slash :: lbrace :: star :: n ++ [rbrace]
    | None => p
    end.

  Definition resolve_pattern (m : mux) (c : cctx) (me : method) (mp : bstr) : bstr :=
    let (c', ok) := ensure_context m c me mp in
    if ok then resolve_wildcard m me (route_pattern c') else [].

  Fixpoint zip_vars (name_of_star : bstr) (ks vs : list bstr) : list (bstr * bstr) :=
    match ks, vs with
    | k :: ks', v :: vs' =>
      ((if beq k [star] then name_of_star else k), unescape_or_id v) :: zip_vars name_of_star ks' vs'
    | _, _ => []
    end.

  (* Vars: the (key, value) assignments in the order they are made *)
  Definition vars (m : mux) (c : cctx) (me : method) (mp : bstr) : list (bstr * bstr) :=
    let (c', ok) := ensure_context m c me mp in
    if ok then
      zip_vars (match wild_get me (route_pattern c') (wild m) with Some n => n | None => [] end)
               (ukeys c') (uvals c')
    else [].

  (* what a middleware that asks before next is told: ResolvePattern and Vars *)
  Definition pre_answer (m : mux) (me : method) (mp : bstr) : bstr * list (bstr * bstr) :=
    (resolve_pattern m ctx0 me mp, vars m ctx0 me mp).

  (* ---- http/middleware.SmartRedirectSlashes mounted with Use ----
     On the string chi routes, short of the "" -> "/" step (RawPath when set, else Path): when
     it is longer than "/", matches no route of the method but does with its trailing slash
     toggled, answer 301 to "//host"+that string; otherwise call next. It matches on fresh chi contexts: nothing else changes. *)
  Definition toggle_slash (p : bstr) : bstr :=
    match rev p with
    | c :: r => if Byte.eqb c slash then rev r else p ++ [slash]
    | [] => [slash]
    end.
  Definition smart_redirects (m : mux) (me : method) (path : bstr) : bool :=
    existsb is_smart (mws m) && Nat.ltb 1 (length path)
    && is_nil (cands m me (path_segs path)) && negb (is_nil (cands m me (path_segs (toggle_slash path)))).

  (* net/http hexEscapeNonASCII, applied by http.Redirect to the Location *)
  Definition hex_lower (k : N) : byte :=
    match Byte.of_N (if (k <? 10)%N then 48 + k else 87 + k)%N with Some b => b | None => x00 end.
  Definition hex_escape_non_ascii (s : bstr) : bstr :=
    flat_map (fun c => if (128 <=? bn c)%N then [pct; hex_lower (bn c / 16)%N; hex_lower (bn c mod 16)%N] else [c]) s.

  (* pre: for each installed middleware, whether it calls ResolvePattern and Vars before next
     (the flag at a SmartRedirectSlashes position is ignored) *)
  Definition serve (m : mux) (me : method) (wire : bstr) (pre : list bool) (acc_raw : mt) (acc_parsed : option mt)
    : option obs :=
    match set_path wire with
    | None => None
    | Some (path, raw) =>
      let mp := route_path path raw in
      let sp := match_path path raw in
      if smart_redirects m me sp then
        Some {| o_ran := rec_ids (before_smart (mws m));
                o_pre := repeat (pre_answer m me mp) (asking (before_smart (mws m)) pre);
                o_out := Redirected (hex_escape_non_ascii (toggle_slash sp));
                o_post := resolve_pattern m ctx0 me mp |}
      else
      let pres := repeat (pre_answer m me mp) (asking (mws m) pre) in
      match find_route m ctx0 me mp with
      | (c2, Some r) =>
        Some {| o_ran := rec_ids (mws m); o_pre := pres;
                o_out := Handled (r_h r) (vars m c2 me mp) (resolve_pattern m c2 me mp);
                o_post := resolve_pattern m c2 me mp |}
      | (c2, None) =>
        Some {| o_ran := rec_ids (mws m); o_pre := pres;
                o_out := if mna c2 then MethodNotAllowed else NotFound (response_encoder acc_raw acc_parsed);
                o_post := resolve_pattern m c2 me mp |}
      end
    end.
End Dispatch.

(* one particular precedence: the first matching route in registration order *)
Definition first_pick : list bstr -> list route -> option route := fun _ cs => hd_error cs.

(* ------------------------------------------------ chi's precedence (tree.findRoute) *)

(* For patterns made of whole segments chi's radix tree search is a depth-first search over
   the routes that still agree with the path: at each segment the routes continuing with that
   literal (static edge) are tried first, then those continuing with a {name} (param edge, not
   for an empty last segment), then a catch-all takes the rest; a branch that fails is
   abandoned and the next kind is tried (backtracking). *)
Definition adv_lit (x : bstr) (st : list (route * pattern)) : list (route * pattern) :=
  flat_map (fun rp => match snd rp with Lit s :: q => if beq s x then [(fst rp, q)] else [] | _ => [] end) st.
Definition adv_var (st : list (route * pattern)) : list (route * pattern) :=
  flat_map (fun rp => match snd rp with Var _ :: q => [(fst rp, q)] | _ => [] end) st.
Definition first_catchall (st : list (route * pattern)) : option route :=
  match filter (fun rp => match snd rp with CatchAll _ :: _ => true | _ => false end) st with
  | rp :: _ => Some (fst rp)
  | [] => None
  end.
Definition first_done (st : list (route * pattern)) : option route :=
  match filter (fun rp => is_nil (snd rp)) st with rp :: _ => Some (fst rp) | [] => None end.

Fixpoint chi_dfs (segs : list bstr) (st : list (route * pattern)) : option route :=
  match segs with
  | [] => first_done st
  | x :: segs' =>
    match chi_dfs segs' (adv_lit x st) with
    | Some r => Some r
    | None =>
      match (if is_nil x && is_nil segs' then None else chi_dfs segs' (adv_var st)) with
      | Some r => Some r
      | None => first_catchall st
      end
    end
  end.

Definition chi_pick : list bstr -> list route -> option route :=
  fun segs cs => chi_dfs segs (map (fun r => (r, r_pat r)) cs).

(* total version for the theorems stated over every `sound` precedence: chi_pick itself
   wherever it answers (it always does on a non-empty matching set, see chi_pick_complete) *)
Definition chi_pick_total : list bstr -> list route -> option route :=
  fun segs cs => match chi_pick segs cs with Some r => Some r | None => hd_error cs end.
