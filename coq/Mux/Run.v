(* Correspondence glue: what the harness observes of net/url and of a goahttp.Muxer,
   the same observations computed from the model, and the comparisons evaluated by
   vm_compute on the cases the harness wrote. *)
From Mux Require Import Model.

Definition obeq (a b : option bstr) : bool :=
  match a, b with
  | Some x, Some y => beq x y
  | None, None => true
  | _, _ => false
  end.

(* ------------------------------------------------------------ codec stream *)

Inductive ccase :=
(* s, url.PathEscape s, url.QueryEscape s, url.PathUnescape s, url.QueryUnescape s (None = error) *)
| CCodec (s pe qe : bstr) (pu qu : option bstr)
(* wire path given to url.Parse("http://h"+wire): None = error, else Path, RawPath, EscapedPath() *)
| CSetPath (wire : bstr) (r : option (bstr * bstr * bstr))
(* (&url.URL{Path, RawPath}).EscapedPath() on arbitrary fields *)
| CEscapedPath (path raw res : bstr)
(* Handle(method, text) on a fresh muxer, then a request that reaches the handler: the pattern
   chi was given (last entry of RoutePatterns) and what ResolvePattern returns *)
| CRewrite (text chipat resolved : bstr).

Definition ccase_ok (c : ccase) : bool :=
  match c with
  | CCodec s pe qe pu qu =>
    beq (escape PathSeg s) pe && beq (escape Query s) qe
    && obeq (unescape PathSeg s) pu && obeq (unescape Query s) qu
  | CSetPath wire r =>
    match set_path wire, r with
    | None, None => true
    | Some (p, raw), Some (p', raw', esc) => beq p p' && beq raw raw' && beq (escaped_path p raw) esc
    | _, _ => false
    end
  | CEscapedPath path raw res => beq (escaped_path path raw) res
  | CRewrite text chipat resolved =>
    let (p, n) := rewrite_pattern text in
    (* ResolvePattern reads chi's Context.RoutePattern() (which folds "/*/" and trims a trailing
       '/') and looks THAT up in the table, whose key is the pattern as given to chi *)
    let rp := route_pattern {| rpats := [p]; ukeys := []; uvals := []; mna := false |} in
    beq p chipat
    && beq (match n with
            | Some n => if beq rp p then firstn (length rp - 2) rp ++ slash :: lbrace :: star :: n ++ [rbrace] else rp
            | None => rp
            end) resolved
  end.

Definition codec_mismatches (cs : list (N * ccase)) : list N :=
  flat_map (fun c => if ccase_ok (snd c) then [] else [fst c]) cs.

(* ---------------------------------------------------------- routing stream *)

Inductive op := OUse (f : mwk) | OHandle (me : method) (p : pattern) (h : nat).

(* runs the registration calls; returns the mux and the positions of the calls that panicked *)
Fixpoint build (ops : list op) (i : nat) (m : mux) : mux * list nat :=
  match ops with
  | [] => (m, [])
  | OUse f :: r =>
    match use f m with
    | Some m' => build r (S i) m'
    | None => let (m', ps) := build r (S i) m in (m', i :: ps)
    end
  | OHandle me p h :: r => build r (S i) (handle me p h m)
  end.

Inductive ctype := CTJson | CTXml | CTGob | CTHtml | CTPlain | CTOther.
Definition ct_of_enc (e : enc) : ctype :=
  match e with EJson => CTJson | EXml => CTXml | EGob => CTGob | EText true => CTHtml | EText false => CTPlain end.
Definition ctype_eqb (a b : ctype) : bool :=
  match a, b with
  | CTJson, CTJson | CTXml, CTXml | CTGob, CTGob | CTHtml, CTHtml | CTPlain, CTPlain | CTOther, CTOther => true
  | _, _ => false
  end.

Inductive oout :=
| OHandled (h : nat) (vs : list (bstr * bstr)) (hpat : bstr)   (* vs: the map Vars returned, sorted by key *)
| O404 (ct : ctype) (body : option errbody)
| O405
| O301 (loc : bstr)              (* Location without the "//host" prefix *)
| OOther.

Record robs := { ro_panics : list nat;      (* registration calls that panicked *)
                 ro_ran : list nat;          (* middlewares entered, in order *)
                 ro_pre : list (bstr * list (bstr * bstr)); (* ResolvePattern and Vars before next, per asking middleware *)
                 ro_out : oout;
                 ro_post : bstr }.           (* ResolvePattern after next (outermost middleware) *)

Record rcase := { rc_ops : list op; rc_meth : method; rc_wire : bstr; rc_pre : list bool;
                  rc_acc_raw : mt; rc_acc_parsed : option mt;
                  rc_reached : option nat;     (* oracle: handler chi chose for the routed path *)
                  rc_obs : option robs }.      (* None: url.Parse refused the URL *)

Definition choose (h : option nat) (cs : list route) : option route :=
  match h with
  | Some k => match find (fun r => Nat.eqb (r_h r) k) cs with Some r => Some r | None => hd_error cs end
  | None => hd_error cs
  end.

Definition pick_obs (reached : option nat) : list bstr -> list route -> option route :=
  fun _ cs => choose reached cs.

(* Go map semantics of the assignments Vars makes: the last one for a key wins *)
Fixpoint has_key (k : bstr) (l : list (bstr * bstr)) : bool :=
  match l with [] => false | (k', _) :: r => beq k k' || has_key k r end.
Fixpoint last_wins (l : list (bstr * bstr)) : list (bstr * bstr) :=
  match l with
  | [] => []
  | (k, v) :: r => if has_key k r then last_wins r else (k, v) :: last_wins r
  end.
Definition kv_in (kv : bstr * bstr) (l : list (bstr * bstr)) : bool :=
  existsb (fun x => beq (fst x) (fst kv) && beq (snd x) (snd kv)) l.
Definition same_map (model observed : list (bstr * bstr)) : bool :=
  let m := last_wins model in
  Nat.eqb (length m) (length observed) && forallb (fun kv => kv_in kv observed) m.

Definition bool_eqb (a b : bool) := if a then b else negb b.
Definition errbody_eqb (a b : errbody) : bool :=
  bool_eqb (eb_name_fault a) (eb_name_fault b) && bool_eqb (eb_has_id a) (eb_has_id b)
  && bool_eqb (eb_msg_404 a) (eb_msg_404 b) && bool_eqb (eb_temporary a) (eb_temporary b)
  && bool_eqb (eb_timeout a) (eb_timeout b) && bool_eqb (eb_fault a) (eb_fault b).

Fixpoint nat_list_eqb (a b : list nat) : bool :=
  match a, b with
  | [], [] => true
  | x :: a', y :: b' => Nat.eqb x y && nat_list_eqb a' b'
  | _, _ => false
  end.

Definition out_ok (model : outcome) (o : oout) : bool :=
  match model, o with
  | Handled h vs hp, OHandled h' vs' hp' => Nat.eqb h h' && same_map vs vs' && beq hp hp'
  | NotFound e, O404 ct body =>
    ctype_eqb (ct_of_enc e) ct
    && match notfound_body e, body with
       | Some a, Some b => errbody_eqb a b
       | None, None => true
       | _, _ => false
       end
  | MethodNotAllowed, O405 => true
  | Redirected l, O301 l' => beq l l'
  | _, _ => false
  end.

Fixpoint pre_ok (model observed : list (bstr * list (bstr * bstr))) : bool :=
  match model, observed with
  | [], [] => true
  | (p, vs) :: a, (p', vs') :: b => beq p p' && same_map vs vs' && pre_ok a b
  | _, _ => false
  end.

(* chi's precedence as modelled (chi_pick) predicts the handler chi chose *)
Definition reached_ok (m : mux) (c : rcase) : bool :=
  match set_path (rc_wire c) with
  | None => true
  | Some (path, raw) =>
    let segs := path_segs (route_path path raw) in
    match chi_pick segs (cands m (rc_meth c) segs), rc_reached c with
    | Some r, Some h => Nat.eqb (r_h r) h
    | None, None => true
    | Some _, None => smart_redirects m (rc_meth c) (match_path path raw)
    | None, Some _ => false
    end
  end.

Definition rcase_ok (c : rcase) : bool :=
  let (m, panics) := build (rc_ops c) 0 new_muxer in
  reached_ok m c &&
  match serve (pick_obs (rc_reached c)) m (rc_meth c) (rc_wire c) (rc_pre c)
              (rc_acc_raw c) (rc_acc_parsed c), rc_obs c with
  | None, None => true
  | Some mo, Some o =>
    nat_list_eqb panics (ro_panics o)
    && nat_list_eqb (o_ran mo) (ro_ran o)
    && pre_ok (o_pre mo) (ro_pre o)
    && out_ok (o_out mo) (ro_out o)
    && (is_nil (o_ran mo) || beq (o_post mo) (ro_post o))
  | _, _ => false
  end.

Definition route_mismatches (cs : list (N * rcase)) : list N :=
  flat_map (fun c => if rcase_ok (snd c) then [] else [fst c]) cs.

(* short constructors for the case files *)
Definition mkobs := Build_robs.
Definition mkcase := Build_rcase.
Definition mkerr := Build_errbody.
