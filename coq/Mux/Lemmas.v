(* Mux engine — proofs. *)
From Mux Require Import Model.
From Coq Require Import PeanoNat Lia ZifyBool ZifyNat ZifyN.

(* ---------------------------------------------------------------- basics *)

Lemma byte_eqb_eq a b : Byte.eqb a b = true <-> a = b.
Proof. split; [apply Byte.byte_dec_bl|apply Byte.byte_dec_lb]. Qed.

Lemma byte_eqb_refl a : Byte.eqb a a = true.
Proof. now apply byte_eqb_eq. Qed.

Lemma byte_eqb_neq a b : Byte.eqb a b = false <-> a <> b.
Proof.
  split; intro H.
  - intro E. apply byte_eqb_eq in E. congruence.
  - destruct (Byte.eqb a b) eqn:E; [apply byte_eqb_eq in E; contradiction|reflexivity].
Qed.

Lemma beq_eq a : forall b, beq a b = true <-> a = b.
Proof.
  induction a as [|x a IH]; destruct b as [|y b]; cbn; try (split; congruence).
  rewrite andb_true_iff, byte_eqb_eq, IH. split; [intros [-> ->]; reflexivity|intro E; injection E; auto].
Qed.

Lemma beq_refl a : beq a a = true.
Proof. now apply beq_eq. Qed.

Lemma beq_neq a b : beq a b = false <-> a <> b.
Proof.
  split; intro H.
  - intro E. apply beq_eq in E. congruence.
  - destruct (beq a b) eqn:E; [apply beq_eq in E; contradiction|reflexivity].
Qed.

Lemma is_nil_true {A} (l : list A) : is_nil l = true <-> l = [].
Proof. destruct l; cbn; split; congruence. Qed.

(* ------------------------------------------------------------------ codec *)

Lemma feed_app m s1 : forall st s2 st1 o1,
  feed m st s1 = Some (st1, o1) ->
  feed m st (s1 ++ s2) = match feed m st1 s2 with Some (st2, o2) => Some (st2, o1 ++ o2) | None => None end.
Proof.
  induction s1 as [|c r IH]; intros st s2 st1 o1 H.
  - cbn in H. injection H as <- <-. cbn. destruct (feed m st s2) as [[? ?]|]; reflexivity.
  - cbn [feed app] in *. destruct st.
    + destruct (Byte.eqb c pct); [now apply IH|].
      destruct (feed m UNormal r) as [[st' o]|] eqn:E; [|discriminate].
      injection H as <- <-. rewrite (IH _ s2 _ _ E).
      destruct (feed m st' s2) as [[? ?]|]; reflexivity.
    + destruct (unhex c); [now apply IH|discriminate].
    + destruct (unhex c) as [b|]; [|discriminate]. destruct (Byte.of_N (16 * a + b)); [|discriminate].
      destruct (feed m UNormal r) as [[st' o]|] eqn:E; [|discriminate].
      injection H as <- <-. rewrite (IH _ s2 _ _ E).
      destruct (feed m st' s2) as [[? ?]|]; reflexivity.
Qed.

(* the per-byte fact is a closed computation for each of the 3 x 256 cases *)
Lemma byte_rt m c : feed m UNormal (escape_byte m c) = Some (UNormal, [c]).
Proof. destruct m; destruct c; vm_compute; reflexivity. Qed.

Lemma feed_escape m s : feed m UNormal (escape m s) = Some (UNormal, s).
Proof.
  induction s as [|c r IH]; [reflexivity|].
  unfold escape in *. cbn [flat_map]. rewrite (feed_app _ _ _ _ _ _ (byte_rt m c)), IH. reflexivity.
Qed.

Lemma unescape_escape m s : unescape m (escape m s) = Some s.
Proof. unfold unescape. now rewrite feed_escape. Qed.

Lemma unescape_or_id_escape s : unescape_or_id (escape PathSeg s) = s.
Proof. unfold unescape_or_id. now rewrite unescape_escape. Qed.

Lemma escape_app m a b : escape m (a ++ b) = escape m a ++ escape m b.
Proof. unfold escape. apply flat_map_app. Qed.

Lemma unescape_app m a b a' b' :
  unescape m a = Some a' -> unescape m b = Some b' -> unescape m (a ++ b) = Some (a' ++ b').
Proof.
  unfold unescape. intros Ha Hb.
  destruct (feed m UNormal a) as [[[| |] oa]|] eqn:Ea; try discriminate. injection Ha as ->.
  rewrite (feed_app _ _ _ _ _ _ Ea).
  destruct (feed m UNormal b) as [[[| |] ob]|] eqn:Eb; try discriminate. injection Hb as ->. reflexivity.
Qed.

(* a byte PathEscape leaves alone is left alone by the path encoding, and decodes to itself *)
Lemma plain_facts c : plain c = true ->
  escape_byte PathSeg c = [c] /\ escape_byte Path c = [c] /\ Byte.eqb c pct = false /\ Byte.eqb c slash = false
  /\ Byte.eqb c star = false /\ Byte.eqb c lbrace = false /\ Byte.eqb c rbrace = false.
Proof. destruct c; vm_compute; intro H; try discriminate H; repeat split. Qed.

Lemma escape_plain m s : m <> Query -> forallb plain s = true -> escape m s = s.
Proof.
  intros Hm. induction s as [|c r IH]; [reflexivity|]. cbn [forallb]. rewrite andb_true_iff. intros [Hc Hr].
  unfold escape in *. cbn [flat_map]. rewrite (IH Hr).
  destruct (plain_facts c Hc) as (H1 & H2 & _). destruct m; [rewrite H1|rewrite H2|contradiction]; reflexivity.
Qed.

Lemma unescape_plain m s : m <> Query -> forallb plain s = true -> unescape m s = Some s.
Proof. intros Hm Hs. rewrite <- (escape_plain m s Hm Hs) at 1. apply unescape_escape. Qed.

(* PathEscape output never contains a '/' *)
Lemma escape_byte_seg_no_slash c : ~ In slash (escape_byte PathSeg c).
Proof. destruct c; vm_compute; intuition discriminate. Qed.

Lemma escape_seg_no_slash s : ~ In slash (escape PathSeg s).
Proof.
  unfold escape. rewrite in_flat_map. intros (c & _ & H). exact (escape_byte_seg_no_slash c H).
Qed.

Lemma escape_nil_iff m s : escape m s = [] <-> s = [].
Proof.
  split; [|intros ->; reflexivity]. destruct s as [|c r]; [reflexivity|].
  unfold escape. cbn [flat_map]. intro H. apply app_eq_nil in H as [H _].
  exfalso. revert H. destruct m; destruct c; vm_compute; discriminate.
Qed.

(* ---------------------------------------------------------------- set_path *)

Lemma set_path_spec wire p raw :
  set_path wire = Some (p, raw) ->
  unescape Path wire = Some p /\ (raw = [] <-> wire = escape Path p) /\ (raw <> [] -> raw = wire).
Proof.
  unfold set_path. destruct (unescape Path wire) as [q|] eqn:E; [|discriminate].
  intro H. injection H as <- <-. split; [reflexivity|].
  destruct (beq wire (escape Path q)) eqn:B.
  - apply beq_eq in B. split; [split; auto|congruence].
  - apply beq_neq in B. split; [|reflexivity]. split; [|contradiction].
    intros ->. cbn in E. injection E as <-. exfalso. apply B. reflexivity.
Qed.

Lemma set_path_total_on_escaped p : set_path (escape Path p) = Some (p, []).
Proof. unfold set_path. rewrite unescape_escape, beq_refl. reflexivity. Qed.

Lemma escaped_path_decodes path raw : unescape Path (escaped_path path raw) = Some path.
Proof.
  unfold escaped_path.
  destruct (negb (is_nil raw) && valid_encoded raw &&
            match unescape Path raw with Some p => beq p path | None => false end) eqn:C.
  - apply andb_true_iff in C as [_ C]. destruct (unescape Path raw) as [p|]; [|discriminate].
    apply beq_eq in C. now subst.
  - destruct (beq path [star]) eqn:S; [apply beq_eq in S; subst; reflexivity|apply unescape_escape].
Qed.

(* -------------------------------------------------------------- split / join *)

Lemma split_slash_nonempty s : split_slash s <> [].
Proof.
  destruct s as [|c r]; cbn; [discriminate|]. destruct (Byte.eqb c slash); [discriminate|].
  destruct (split_slash r); discriminate.
Qed.

Lemma join_split s : join_slash (split_slash s) = s.
Proof.
  induction s as [|c r IH]; [reflexivity|]. cbn [split_slash].
  destruct (Byte.eqb c slash) eqn:E.
  - apply byte_eqb_eq in E. subst c. cbn [join_slash].
    destruct (split_slash r) eqn:S; [exfalso; exact (split_slash_nonempty r S)|]. cbn [app]. now rewrite IH.
  - destruct (split_slash r) as [|h t] eqn:S; [exfalso; exact (split_slash_nonempty r S)|].
    cbn [join_slash] in *. destruct t; rewrite <- IH; reflexivity.
Qed.

Lemma split_slash_no_slash s x : In x (split_slash s) -> ~ In slash x.
Proof.
  revert x. induction s as [|c r IH]; intros x; cbn [split_slash].
  - intros [<-|[]] [].
  - destruct (Byte.eqb c slash) eqn:E.
    + intros [<-|H]; [intros []|now apply IH].
    + destruct (split_slash r) as [|h t] eqn:S; [exfalso; exact (split_slash_nonempty r S)|].
      intros [<-|H].
      * intros [->|H]; [rewrite byte_eqb_refl in E; discriminate|]. apply (IH h); [now left|assumption].
      * apply IH. now right.
Qed.

Lemma split_app_noslash x : ~ In slash x -> forall r,
  split_slash (x ++ slash :: r) = x :: split_slash r.
Proof.
  induction x as [|c x IH]; intros Hx r.
  - cbn. reflexivity.
  - cbn [app split_slash]. destruct (Byte.eqb c slash) eqn:E.
    + apply byte_eqb_eq in E. subst. exfalso. apply Hx. now left.
    + rewrite IH; [reflexivity|]. intro H. apply Hx. now right.
Qed.

Lemma split_noslash x : ~ In slash x -> split_slash x = [x].
Proof.
  induction x as [|c x IH]; intro Hx; [reflexivity|].
  cbn [split_slash]. destruct (Byte.eqb c slash) eqn:E.
  - apply byte_eqb_eq in E. subst. exfalso. apply Hx. now left.
  - rewrite IH; [reflexivity|]. intro H. apply Hx. now right.
Qed.

Lemma split_join l : l <> [] -> (forall x, In x l -> ~ In slash x) -> split_slash (join_slash l) = l.
Proof.
  induction l as [|x r IH]; [congruence|]. intros _ H. cbn [join_slash].
  destruct r as [|y r'].
  - apply split_noslash. apply H. now left.
  - rewrite split_app_noslash by (apply H; now left). f_equal. apply IH; [discriminate|].
    intros z Hz. apply H. now right.
Qed.

Lemma join_slash_cons x y r : join_slash (x :: y :: r) = x ++ slash :: join_slash (y :: r).
Proof. reflexivity. Qed.

(* ----------------------------------------------- the URL built from a pattern *)

Lemma feed_mode_path st s : feed Path st s = feed PathSeg st s.
Proof.
  revert st. induction s as [|c r IH]; intro st; [reflexivity|].
  cbn [feed]. destruct st.
  - destruct (Byte.eqb c pct); [apply IH|]. now rewrite IH.
  - destruct (unhex c); [apply IH|reflexivity].
  - destruct (unhex c); [|reflexivity]. destruct (Byte.of_N (16 * a + n)); [|reflexivity]. now rewrite IH.
Qed.

Lemma unescape_mode_path s : unescape Path s = unescape PathSeg s.
Proof. unfold unescape. now rewrite feed_mode_path. Qed.

Definition dsegs (ip : ipat) : list bstr := map dseg ip.
Definition wsegs (ip : ipat) : list bstr := map wseg ip.

Definition lit_plain (i : iseg) : bool := match i with ILit s => forallb plain s | _ => true end.

Lemma wf_segs_lit_plain ip : wf_segs (pat_of ip) = true -> forallb lit_plain ip = true.
Proof.
  induction ip as [|i r IH]; [reflexivity|]. destruct i; cbn [pat_of map pat_seg wf_segs forallb lit_plain].
  - rewrite !andb_true_iff. intros [[_ H1] H2]. split; [assumption|now apply IH].
  - rewrite andb_true_iff. intros [_ H]. now apply IH.
  - rewrite andb_true_iff. intros [_ H]. apply is_nil_true in H.
    destruct r; [reflexivity|discriminate].
Qed.

Lemma wf_pattern_lit_plain ip : wf_pattern (pat_of ip) = true -> forallb lit_plain ip = true.
Proof.
  destruct ip as [|i r]; [discriminate|].
  destruct i as [s| |]; try (apply wf_segs_lit_plain).
  destruct s; [|apply wf_segs_lit_plain]. destruct r; [reflexivity|apply wf_segs_lit_plain].
Qed.

Lemma wseg_is_escape i : lit_plain i = true -> wseg i = escape PathSeg (dseg i).
Proof.
  destruct i; cbn; try reflexivity. intro H. symmetry. apply escape_plain; [discriminate|assumption].
Qed.

Lemma wsegs_is_escape ip : forallb lit_plain ip = true -> wsegs ip = map (escape PathSeg) (dsegs ip).
Proof.
  unfold wsegs, dsegs. rewrite map_map. intro H. apply map_ext_in. intros i Hi.
  apply wseg_is_escape. rewrite forallb_forall in H. now apply H.
Qed.

Lemma unescape_join l l' :
  Forall2 (fun a b => unescape Path a = Some b) l l' ->
  unescape Path (join_slash l) = Some (join_slash l').
Proof.
  induction 1 as [|a b r r' Hab Hr IH]; [reflexivity|].
  destruct Hr as [|a2 b2 r2 r2' H2 Hr2].
  - exact Hab.
  - rewrite !join_slash_cons. apply unescape_app; [assumption|].
    change (slash :: join_slash (a2 :: r2)) with ([slash] ++ join_slash (a2 :: r2)).
    change (slash :: join_slash (b2 :: r2')) with ([slash] ++ join_slash (b2 :: r2')).
    apply unescape_app; [reflexivity|exact IH].
Qed.

Lemma unescape_build_url ip : forallb lit_plain ip = true ->
  unescape Path (build_url ip) = Some (slash :: join_slash (dsegs ip)).
Proof.
  intro H. unfold build_url.
  change (slash :: join_slash (map wseg ip)) with ([slash] ++ join_slash (map wseg ip)).
  change (slash :: join_slash (dsegs ip)) with ([slash] ++ join_slash (dsegs ip)).
  apply unescape_app; [reflexivity|]. apply unescape_join.
  unfold dsegs. induction ip as [|i r IH]; [constructor|].
  cbn [forallb] in H. apply andb_true_iff in H as [Hi Hr]. cbn [map]. constructor; [|now apply IH].
  rewrite (wseg_is_escape i Hi), unescape_mode_path. apply unescape_escape.
Qed.

Lemma escape_path_join l : escape Path (join_slash l) = join_slash (map (escape Path) l).
Proof.
  induction l as [|x r IH]; [reflexivity|]. destruct r as [|y r'].
  - reflexivity.
  - rewrite join_slash_cons. cbn [map]. rewrite join_slash_cons, escape_app.
    change (slash :: join_slash (y :: r')) with ([slash] ++ join_slash (y :: r')).
    rewrite escape_app, IH. reflexivity.
Qed.

(* counting percent signs separates the two encodings *)
Definition cnt (s : bstr) : nat := length (filter (Byte.eqb pct) s).

Lemma cnt_app a b : cnt (a ++ b) = cnt a + cnt b.
Proof. unfold cnt. now rewrite filter_app, app_length. Qed.

Lemma cnt_byte_le c : cnt (escape_byte Path c) <= cnt (escape_byte PathSeg c).
Proof. destruct c; vm_compute; lia. Qed.

Lemma cnt_byte_lt c : neutral_byte c = false -> cnt (escape_byte Path c) < cnt (escape_byte PathSeg c).
Proof. destruct c; vm_compute; intro H; try discriminate H; lia. Qed.

Lemma escape_byte_neutral c : neutral_byte c = true -> escape_byte PathSeg c = escape_byte Path c.
Proof. destruct c; vm_compute; intro H; try discriminate H; reflexivity. Qed.

Lemma cnt_escape_le x : cnt (escape Path x) <= cnt (escape PathSeg x).
Proof.
  induction x as [|c r IH]; [cbn; lia|]. unfold escape in *. cbn [flat_map]. rewrite !cnt_app.
  pose proof (cnt_byte_le c). lia.
Qed.

Lemma cnt_escape_lt x : neutral x = false -> cnt (escape Path x) < cnt (escape PathSeg x).
Proof.
  induction x as [|c r IH]; [discriminate|]. unfold neutral, escape in *. cbn [forallb flat_map]. rewrite !cnt_app.
  intro H. apply andb_false_iff in H as [H|H].
  - pose proof (cnt_byte_lt c H). pose proof (cnt_escape_le r). unfold escape in *. lia.
  - pose proof (cnt_byte_le c). specialize (IH H). lia.
Qed.

Lemma escape_neutral x : neutral x = true -> escape PathSeg x = escape Path x.
Proof.
  induction x as [|c r IH]; [reflexivity|]. unfold neutral, escape in *. cbn [forallb flat_map].
  intro H. apply andb_true_iff in H as [Hc Hr]. now rewrite (escape_byte_neutral c Hc), IH.
Qed.

Lemma cnt_join_cons m x y r :
  cnt (join_slash (map (escape m) (x :: y :: r))) = cnt (escape m x) + cnt (join_slash (map (escape m) (y :: r))).
Proof. cbn [map]. rewrite join_slash_cons, cnt_app. reflexivity. Qed.

Lemma cnt_join_le l : cnt (join_slash (map (escape Path) l)) <= cnt (join_slash (map (escape PathSeg) l)).
Proof.
  induction l as [|x r IH]; [cbn; lia|]. destruct r as [|y r'].
  - cbn [map join_slash]. apply cnt_escape_le.
  - rewrite !cnt_join_cons. pose proof (cnt_escape_le x). lia.
Qed.

Lemma cnt_join_lt l : forallb neutral l = false ->
  cnt (join_slash (map (escape Path) l)) < cnt (join_slash (map (escape PathSeg) l)).
Proof.
  induction l as [|x r IH]; [discriminate|]. cbn [forallb]. intro H. destruct r as [|y r'].
  - cbn [map join_slash]. cbn [forallb] in H. rewrite andb_true_r in H. now apply cnt_escape_lt.
  - rewrite !cnt_join_cons. apply andb_false_iff in H as [H|H].
    + pose proof (cnt_escape_lt x H). pose proof (cnt_join_le (y :: r')). lia.
    + pose proof (cnt_escape_le x). specialize (IH H). lia.
Qed.

Lemma join_neutral l : forallb neutral l = true ->
  join_slash (map (escape PathSeg) l) = join_slash (map (escape Path) l).
Proof.
  intro H. f_equal. apply map_ext_in. intros x Hx. apply escape_neutral.
  rewrite forallb_forall in H. now apply H.
Qed.

(* RawPath of the built URL is empty exactly when no segment contains / ; , *)
Lemma build_url_set_path ip : forallb lit_plain ip = true ->
  set_path (build_url ip) =
    Some (slash :: join_slash (dsegs ip), if forallb neutral (dsegs ip) then [] else build_url ip).
Proof.
  intro H. unfold set_path. rewrite (unescape_build_url ip H). f_equal. f_equal.
  change (slash :: join_slash (dsegs ip)) with ([slash] ++ join_slash (dsegs ip)).
  rewrite escape_app, escape_path_join. unfold build_url. fold (wsegs ip). rewrite (wsegs_is_escape ip H).
  destruct (forallb neutral (dsegs ip)) eqn:N.
  - rewrite (join_neutral _ N). cbn [escape flat_map app]. change (escape_byte Path slash) with [slash].
    cbn [app]. now rewrite beq_refl.
  - match goal with |- (if ?b then _ else _) = _ => destruct b eqn:B end; [|reflexivity].
    apply beq_eq in B. cbn in B. injection B as B. pose proof (cnt_join_lt _ N) as L. rewrite B in L. lia.
Qed.

Lemma literal_neutral s : forallb plain s = true -> neutral s = true.
Proof.
  unfold neutral. rewrite !forallb_forall. intros H c Hc. specialize (H c Hc).
  revert H. destruct c; vm_compute; congruence.
Qed.

Lemma neutral_no_slash v : neutral v = true -> ~ In slash v.
Proof. unfold neutral. rewrite forallb_forall. intros H Hs. specialize (H _ Hs). discriminate H. Qed.

(* values of the wildcards, as a plain list *)
Definition ivals (ip : ipat) : list bstr := map snd (values_of ip).

Lemma dsegs_neutral_iff ip : forallb lit_plain ip = true ->
  forallb neutral (dsegs ip) = forallb neutral (ivals ip).
Proof.
  unfold dsegs, ivals. induction ip as [|i r IH]; [reflexivity|]. cbn [forallb]. intro H.
  apply andb_true_iff in H as [Hi Hr]. specialize (IH Hr). destruct i; cbn [map dseg values_of snd forallb].
  - cbn in Hi. now rewrite (literal_neutral _ Hi), IH.
  - now rewrite IH.
  - now rewrite IH.
Qed.

(* ------------------------------------------------ matching the built segments *)

(* catch-all only in last position *)
Fixpoint ca_last (p : pattern) : bool :=
  match p with
  | [] => true
  | CatchAll _ :: r => is_nil r
  | _ :: r => ca_last r
  end.

Lemma wf_segs_ca_last p : wf_segs p = true -> ca_last p = true.
Proof.
  induction p as [|s r IH]; [reflexivity|]. destruct s; cbn [wf_segs ca_last]; rewrite ?andb_true_iff.
  - intros [_ H]. now apply IH.
  - intros [_ H]. now apply IH.
  - now intros [_ H].
Qed.

Lemma wf_pattern_ca_last p : wf_pattern p = true -> ca_last p = true.
Proof.
  destruct p as [|s r]; [discriminate|]. destruct s as [l| |]; try apply wf_segs_ca_last.
  destruct l; [|apply wf_segs_ca_last]. destruct r; [reflexivity|apply wf_segs_ca_last].
Qed.

Lemma matches_inst f ip :
  (forall v, f v = [] -> v = []) ->
  ca_last (pat_of ip) = true -> forallb iseg_ok ip = true ->
  matches (pat_of ip) (map (iseg_seg f) ip) = Some (icaps f ip).
Proof.
  intro Hf. induction ip as [|i r IH]; [reflexivity|].
  cbn [pat_of map forallb]. intros Hc Hok. apply andb_true_iff in Hok as [Hi Hr].
  destruct i as [s|n v|n v]; cbn [pat_seg iseg_seg matches icaps ca_last] in *.
  - rewrite beq_refl. now apply IH.
  - assert (E : is_nil (f v) = false).
    { destruct (f v) eqn:Efv; [|reflexivity]. apply Hf in Efv. subst. discriminate Hi. }
    rewrite E. cbn [andb]. fold (pat_of r). rewrite (IH Hc Hr). reflexivity.
  - apply is_nil_true in Hc. apply map_eq_nil in Hc. subst r. reflexivity.
Qed.

Lemma iseg_seg_id ip : map (iseg_seg idv) ip = dsegs ip.
Proof. unfold dsegs. apply map_ext. now intros []. Qed.

Lemma iseg_seg_esc ip : map (iseg_seg (escape PathSeg)) ip = wsegs ip.
Proof. unfold wsegs. apply map_ext. now intros []. Qed.

Lemma wsegs_no_slash ip : forallb lit_plain ip = true -> forall x, In x (wsegs ip) -> ~ In slash x.
Proof.
  intros H x Hx. rewrite (wsegs_is_escape ip H) in Hx. apply in_map_iff in Hx as (y & <- & _).
  apply escape_seg_no_slash.
Qed.

Lemma map_unesc_icaps_esc ip :
  map (fun kv : bstr * bstr => (fst kv, unescape_or_id (snd kv))) (icaps (escape PathSeg) ip) = icaps idv ip.
Proof.
  induction ip as [|i r IH]; [reflexivity|]. destruct i; cbn [icaps map fst snd]; rewrite ?unescape_or_id_escape, IH; reflexivity.
Qed.

(* the URL built from a pattern is matched by that pattern; what Vars then holds *)
Lemma captured_build_url ip : wf_ipat ip = true ->
  captured (pat_of ip) (build_url ip) =
    Some (if forallb neutral (ivals ip) then icaps unescape_or_id ip else icaps idv ip).
Proof.
  unfold wf_ipat. rewrite andb_true_iff. intros [Hwf Hok].
  pose proof (wf_pattern_lit_plain ip Hwf) as Hl. pose proof (wf_pattern_ca_last _ Hwf) as Hc.
  assert (Hne : ip <> []) by (destruct ip; [discriminate Hwf|discriminate]).
  unfold captured. rewrite (build_url_set_path ip Hl), (dsegs_neutral_iff ip Hl).
  destruct (forallb neutral (ivals ip)) eqn:N.
  - unfold route_path. cbn [is_nil path_segs]. rewrite byte_eqb_refl.
    rewrite split_join.
    + rewrite <- iseg_seg_id, (matches_inst idv ip (fun v H => H) Hc Hok). f_equal.
      clear. induction ip as [|i r IH]; [reflexivity|]. destruct i; cbn [icaps map fst snd]; now rewrite ?IH.
    + unfold dsegs. destruct ip; [congruence|discriminate].
    + rewrite <- (dsegs_neutral_iff ip Hl) in N. rewrite forallb_forall in N.
      intros x Hx. apply neutral_no_slash. now apply N.
  - unfold route_path, build_url. cbn [is_nil path_segs]. rewrite byte_eqb_refl. fold (wsegs ip).
    rewrite split_join.
    + rewrite <- iseg_seg_esc, (matches_inst (escape PathSeg) ip (fun v H => proj1 (escape_nil_iff _ v) H) Hc Hok).
      now rewrite map_unesc_icaps_esc.
    + unfold wsegs. destruct ip; [congruence|discriminate].
    + apply wsegs_no_slash. assumption.
Qed.

Lemma icaps_keys f g ip : map fst (icaps f ip) = map fst (icaps g ip).
Proof. induction ip as [|i r IH]; [reflexivity|]. destruct i; cbn [icaps map fst]; now rewrite ?IH. Qed.

Lemma icaps_vals f ip : map snd (icaps f ip) = map f (ivals ip).
Proof.
  unfold ivals. induction ip as [|i r IH]; [reflexivity|]. destruct i; cbn [icaps values_of map snd]; now rewrite ?IH.
Qed.

Lemma icaps_eq_iff f ip : icaps f ip = icaps idv ip <-> forall v, In v (ivals ip) -> f v = v.
Proof.
  unfold ivals. induction ip as [|i r IH]; [cbn; tauto|]. destruct i; cbn [icaps values_of map snd In].
  - exact IH.
  - split.
    + intros E w [<-|Hv]; [unfold idv in E; congruence|]. injection E as _ E. now apply IH.
    + intro H. rewrite (H v) by now left. unfold idv at 1. f_equal. apply IH. intros w Hw. apply H. now right.
  - split.
    + intros E w [<-|Hv]; [unfold idv in E; congruence|]. injection E as _ E. now apply IH.
    + intro H. rewrite (H v) by now left. unfold idv at 1. f_equal. apply IH. intros w Hw. apply H. now right.
Qed.

(* exactly when do all values come back *)
Lemma vars_roundtrip_iff ip : wf_ipat ip = true ->
  (captured (pat_of ip) (build_url ip) = Some (icaps idv ip)
   <-> forallb neutral (ivals ip) = false \/ forallb stable (ivals ip) = true).
Proof.
  intro H. rewrite (captured_build_url ip H). destruct (forallb neutral (ivals ip)) eqn:N.
  - split.
    + intro E. right. injection E as E. rewrite icaps_eq_iff in E. apply forallb_forall.
      intros v Hv. unfold stable. apply beq_eq. now apply E.
    + intros [D|S]; [discriminate|]. f_equal. apply icaps_eq_iff. intros v Hv.
      rewrite forallb_forall in S. specialize (S v Hv). now apply beq_eq in S.
  - split; [now left|reflexivity].
Qed.

(* ------------------------------------------------- rendering, RoutePattern *)

Definition rs := render_seg false.

Lemma join_map_cons {A} (f : A -> bstr) x y r :
  join_slash (map f (x :: y :: r)) = f x ++ slash :: join_slash (map f (y :: r)).
Proof. reflexivity. Qed.
Definition seg_wf (s : seg) : bool :=
  match s with Lit l => forallb plain l | Var n => name_ok n | CatchAll n => name_ok n end.

Lemma wf_segs_seg_wf p : wf_segs p = true -> forallb seg_wf p = true.
Proof.
  induction p as [|s r IH]; [reflexivity|]. destruct s; cbn [wf_segs forallb seg_wf]; rewrite ?andb_true_iff.
  - intros [[_ H1] H2]. auto.
  - intros [H1 H2]. auto.
  - intros [H1 H2]. apply is_nil_true in H2. subst. auto.
Qed.

Lemma wf_pattern_seg_wf p : wf_pattern p = true -> forallb seg_wf p = true.
Proof.
  destruct p as [|s r]; [discriminate|]. destruct s as [l| |]; try apply wf_segs_seg_wf.
  destruct l; [|apply wf_segs_seg_wf]. destruct r; [reflexivity|apply wf_segs_seg_wf].
Qed.

Lemma name_byte_facts c : is_name_byte c = true ->
  Byte.eqb c slash = false /\ Byte.eqb c star = false /\ Byte.eqb c lbrace = false /\ Byte.eqb c rbrace = false.
Proof. destruct c; vm_compute; intro H; try discriminate H; repeat split. Qed.

Definition nostar (s : bstr) : bool := forallb (fun c => negb (Byte.eqb c star)) s.
Definition noslash (s : bstr) : bool := forallb (fun c => negb (Byte.eqb c slash)) s.

Lemma nostar_app a b : nostar (a ++ b) = nostar a && nostar b.
Proof. apply forallb_app. Qed.
Lemma noslash_app a b : noslash (a ++ b) = noslash a && noslash b.
Proof. apply forallb_app. Qed.

Lemma noslash_not_in s : noslash s = true -> ~ In slash s.
Proof.
  unfold noslash. rewrite forallb_forall. intros H Hs. specialize (H _ Hs).
  rewrite byte_eqb_refl in H. discriminate.
Qed.

Lemma plain_nostar l : forallb plain l = true -> nostar l = true /\ noslash l = true.
Proof.
  unfold nostar, noslash. rewrite !forallb_forall. intro H. split; intros c Hc;
    destruct (plain_facts c (H c Hc)) as (_ & _ & _ & Hs & Hst & _); [now rewrite Hst|now rewrite Hs].
Qed.

Lemma name_nostar n : forallb is_name_byte n = true -> nostar n = true /\ noslash n = true.
Proof.
  unfold nostar, noslash. rewrite !forallb_forall. intro H. split; intros c Hc;
    destruct (name_byte_facts c (H c Hc)) as (Hs & Hst & _); [now rewrite Hst|now rewrite Hs].
Qed.

Lemma rs_noslash s : seg_wf s = true -> noslash (rs s) = true.
Proof.
  destruct s as [l|n|n]; cbn [seg_wf rs render_seg].
  - intro H. now apply plain_nostar.
  - unfold name_ok. rewrite andb_true_iff. intros [_ H]. apply name_nostar in H as [_ H].
    change (lbrace :: n ++ [rbrace]) with ([lbrace] ++ n ++ [rbrace]). now rewrite !noslash_app, H.
  - reflexivity.
Qed.

(* a '*' immediately followed by '/' *)
Fixpoint has_ss (s : bstr) : bool :=
  match s with
  | a :: t => match t with b :: _ => (Byte.eqb a star && Byte.eqb b slash) || has_ss t | [] => false end
  | [] => false
  end.

Lemma replace1_id s : has_ss s = false -> replace1 s = s.
Proof.
  induction s as [|a t IH]; [reflexivity|]. intro H.
  destruct t as [|b [|c r]]; try reflexivity.
  cbn [replace1]. cbn [has_ss] in H. fold (has_ss (b :: c :: r)) in H.
  apply orb_false_iff in H as [H1 H2].
  destruct (Byte.eqb a slash && Byte.eqb b star && Byte.eqb c slash) eqn:C.
  - apply andb_true_iff in C as [C C3]. apply andb_true_iff in C as [C1 C2].
    cbn [has_ss] in H2. rewrite C2, C3 in H2. discriminate.
  - f_equal. now apply IH.
Qed.

Lemma iter_id {A} (f : A -> A) x n : f x = x -> Nat.iter n f x = x.
Proof. intro H. induction n as [|n IH]; [reflexivity|]. change (Nat.iter (S n) f x) with (f (Nat.iter n f x)). now rewrite IH. Qed.

Lemma replace_wild_id s : has_ss s = false -> replace_wild s = s.
Proof. intro H. apply iter_id. now apply replace1_id. Qed.

Lemma has_ss_nostar_app a b : nostar a = true -> has_ss (a ++ b) = has_ss b.
Proof.
  induction a as [|x a IH]; [reflexivity|]. unfold nostar in *. cbn [forallb]. rewrite andb_true_iff. intros [Hx Ha].
  cbn [app has_ss]. destruct (a ++ b) as [|y l] eqn:E.
  - apply app_eq_nil in E as [_ ->]. reflexivity.
  - apply negb_true_iff in Hx. rewrite Hx. cbn [andb orb]. now apply IH.
Qed.

(* the rendering for chi: no '*' except possibly as the very last byte *)
Lemma join_rs_shape p : forallb seg_wf p = true -> ca_last p = true ->
  exists a b, join_slash (map rs p) = a ++ b /\ nostar a = true /\
    ((b = [] /\ catchall_name p = None) \/ (b = [star] /\ exists n, catchall_name p = Some n)).
Proof.
  induction p as [|x r IH]; intros Hw Hc.
  - exists [], []. repeat split. now left.
  - cbn [forallb] in Hw. apply andb_true_iff in Hw as [Hx Hr]. destruct r as [|y r'].
    + destruct x as [l|n|n]; cbn [map join_slash rs render_seg seg_wf catchall_name] in *.
      * exists l, []. rewrite app_nil_r. split; [reflexivity|]. split; [now apply plain_nostar|now left].
      * exists (lbrace :: n ++ [rbrace]), []. rewrite app_nil_r. split; [reflexivity|]. split; [|now left].
        unfold name_ok in Hx. apply andb_true_iff in Hx as [_ Hx]. apply name_nostar in Hx as [Hx _].
        change (lbrace :: n ++ [rbrace]) with ([lbrace] ++ n ++ [rbrace]). now rewrite !nostar_app, Hx.
      * exists [], [star]. repeat split. right. split; [reflexivity|]. now exists n.
    + assert (Hnc : ca_last (y :: r') = true /\ forall n, x <> CatchAll n).
      { destruct x; cbn [ca_last] in Hc; try (split; [assumption|discriminate]). discriminate. }
      destruct Hnc as [Hc' Hnc]. destruct (IH Hr Hc') as (a & b & E & Ha & Hb).
      exists (rs x ++ slash :: a), b. rewrite join_map_cons, E.
      split; [now rewrite <- app_assoc|]. split.
      * change (slash :: a) with ([slash] ++ a). rewrite !nostar_app, Ha.
        destruct x as [l|n|n]; cbn [rs render_seg seg_wf] in *.
        -- apply plain_nostar in Hx as [Hx _]. now rewrite Hx.
        -- unfold name_ok in Hx. apply andb_true_iff in Hx as [_ Hx]. apply name_nostar in Hx as [Hx _].
           change (lbrace :: n ++ [rbrace]) with ([lbrace] ++ n ++ [rbrace]). now rewrite !nostar_app, Hx.
        -- exfalso. now apply (Hnc n).
      * destruct x; cbn [catchall_name]; exact Hb.
Qed.

Lemma chi_render_no_ss p : wf_pattern p = true -> has_ss (chi_render p) = false.
Proof.
  intro H. destruct (join_rs_shape p (wf_pattern_seg_wf p H) (wf_pattern_ca_last p H)) as (a & b & E & Ha & Hb).
  unfold chi_render, render. fold rs. rewrite E. change (slash :: a ++ b) with ((slash :: a) ++ b).
  rewrite has_ss_nostar_app; [destruct Hb as [[-> _]|[-> _]]; reflexivity|].
  unfold nostar in *. cbn [forallb]. now rewrite Ha.
Qed.

Lemma last_app_nonempty {A} (l1 l2 : list A) d : l2 <> [] -> last (l1 ++ l2) d = last l2 d.
Proof.
  intro H. induction l1 as [|x l1 IH]; [reflexivity|]. cbn [app].
  destruct (l1 ++ l2) eqn:E; [apply app_eq_nil in E as [_ E]; contradiction|]. exact IH.
Qed.

Lemma last_in {A} (l : list A) d : l <> [] -> In (last l d) l.
Proof.
  induction l as [|x l IH]; [congruence|]. intros _. destruct l as [|y l']; [now left|].
  right. apply IH. discriminate.
Qed.

(* a rendered pattern other than "/" does not end in '/' *)
Lemma join_rs_last p : wf_segs p = true -> p <> [] ->
  join_slash (map rs p) <> [] /\ last (join_slash (map rs p)) x00 <> slash.
Proof.
  induction p as [|x r IH]; [congruence|]. intros Hw _. destruct r as [|y r'].
  - cbn [map join_slash]. destruct x as [l|n|n]; cbn [wf_segs rs render_seg] in *.
    + rewrite !andb_true_iff in Hw. destruct Hw as [[Hne Hp] _]. apply negb_true_iff in Hne.
      assert (l <> []) by (destruct l; [discriminate|discriminate]). split; [assumption|].
      pose proof (last_in l x00 H) as Hin. rewrite forallb_forall in Hp.
      destruct (plain_facts _ (Hp _ Hin)) as (_ & _ & _ & Hs & _). intro E. rewrite E, byte_eqb_refl in Hs. discriminate.
    + split; [discriminate|]. change (lbrace :: n ++ [rbrace]) with ((lbrace :: n) ++ [rbrace]).
      rewrite last_last. discriminate.
    + split; discriminate.
  - assert (Hr : wf_segs (y :: r') = true).
    { destruct x; cbn [wf_segs] in Hw; rewrite ?andb_true_iff in Hw; try tauto.
      destruct Hw as [_ Hw]. discriminate. }
    destruct (IH Hr ltac:(discriminate)) as [Hne Hl]. rewrite join_map_cons.
    split; [destruct (rs x); discriminate|].
    change (rs x ++ slash :: join_slash (map rs (y :: r'))) with (rs x ++ [slash] ++ join_slash (map rs (y :: r'))).
    rewrite app_assoc, last_app_nonempty; assumption.
Qed.

Lemma strip_noop suf s : suf <> [] -> last suf x00 = slash -> last s x00 <> slash -> strip_suffix suf s = s.
Proof.
  intros Hne Hs Hl. unfold strip_suffix.
  destruct (Nat.leb (length suf) (length s) && beq (skipn (length s - length suf) s) suf) eqn:C; [|reflexivity].
  apply andb_true_iff in C as [_ C]. apply beq_eq in C. exfalso. apply Hl.
  rewrite <- (firstn_skipn (length s - length suf) s), C, last_app_nonempty; assumption.
Qed.

Lemma route_pattern_single p ks vs b : wf_pattern p = true ->
  route_pattern {| rpats := [chi_render p]; ukeys := ks; uvals := vs; mna := b |} = chi_render p.
Proof.
  intro H. unfold route_pattern. cbn [rpats concat]. rewrite app_nil_r, (replace_wild_id _ (chi_render_no_ss p H)).
  destruct (beq (chi_render p) [slash]) eqn:B; [reflexivity|].
  assert (Hw : wf_segs p = true /\ p <> []).
  { destruct p as [|s r]; [discriminate|]. split; [|discriminate].
    destruct s as [l| |]; try exact H. destruct l; [|exact H]. destruct r; [|exact H].
    cbn in B. discriminate. }
  destruct Hw as [Hw Hne]. destruct (join_rs_last p Hw Hne) as [Hj Hl].
  assert (Hlast : last (chi_render p) x00 <> slash).
  { unfold chi_render, render. fold rs. change (slash :: join_slash (map rs p)) with ([slash] ++ join_slash (map rs p)).
    now rewrite last_app_nonempty. }
  rewrite (strip_noop [slash; slash]); try assumption; try discriminate; try reflexivity.
  apply strip_noop; try assumption; try discriminate; reflexivity.
Qed.

Lemma chi_render_nonempty p : is_nil (chi_render p) = false.
Proof. reflexivity. Qed.

(* ResolvePattern's reconstruction of "/{*name}" *)
Lemma render_catchall_base p n : ca_last p = true -> catchall_name p = Some n -> forall pre,
  exists base, pre ++ slash :: join_slash (map (render_seg false) p) = base ++ [slash; star] /\
               pre ++ slash :: join_slash (map (render_seg true) p) = base ++ slash :: lbrace :: star :: n ++ [rbrace].
Proof.
  induction p as [|x r IH]; [discriminate|]. intros Hc Hn pre. destruct r as [|y r'].
  - destruct x; try discriminate. cbn in Hn. injection Hn as ->. exists pre. split; reflexivity.
  - assert (Hx : render_seg false x = render_seg true x /\ ca_last (y :: r') = true /\ catchall_name (y :: r') = Some n).
    { destruct x; cbn [ca_last catchall_name] in *; try (repeat split; assumption). discriminate. }
    destruct Hx as (Ex & Hc' & Hn'). destruct (IH Hc' Hn' (pre ++ slash :: render_seg true x)) as (base & E1 & E2).
    exists base. rewrite !join_map_cons, Ex. rewrite <- E1, <- E2, <- !app_assoc. split; reflexivity.
Qed.

Lemma resolve_render p n : ca_last p = true -> catchall_name p = Some n ->
  firstn (length (chi_render p) - 2) (chi_render p) ++ slash :: lbrace :: star :: n ++ [rbrace] = goa_render p.
Proof.
  intros Hc Hn. destruct (render_catchall_base p n Hc Hn []) as (base & E1 & E2). cbn [app] in E1, E2.
  unfold chi_render, goa_render, render. rewrite E1, E2, app_length. cbn [length].
  replace (length base + 2 - 2) with (length base) by lia. now rewrite firstn_app, Nat.sub_diag, firstn_all, app_nil_r.
Qed.

Lemma render_no_catchall p : ca_last p = true -> catchall_name p = None -> chi_render p = goa_render p.
Proof.
  unfold chi_render, goa_render, render. intros Hc Hn. f_equal. f_equal.
  induction p as [|x r IH]; [reflexivity|]. cbn [map]. destruct r as [|y r'].
  - destruct x; try reflexivity. discriminate.
  - destruct x; cbn [ca_last catchall_name] in *; try (f_equal; now apply IH). discriminate.
Qed.

(* ------------------------------------------------- the wildcard-name table *)

Lemma method_eqb_eq a b : method_eqb a b = true <-> a = b.
Proof. destruct a, b; cbn; split; congruence. Qed.

Lemma method_eqb_refl a : method_eqb a a = true.
Proof. now apply method_eqb_eq. Qed.

Definition has_star (s : bstr) : bool := negb (nostar s).

Lemma chi_render_star p : wf_pattern p = true ->
  has_star (chi_render p) = is_some (catchall_name p).
Proof.
  intro H. destruct (join_rs_shape p (wf_pattern_seg_wf p H) (wf_pattern_ca_last p H)) as (a & b & E & Ha & Hb).
  unfold has_star, chi_render, render. fold rs. rewrite E.
  change (slash :: a ++ b) with ([slash] ++ a ++ b). rewrite !nostar_app, Ha.
  destruct Hb as [[-> ->]|[-> [n ->]]]; reflexivity.
Qed.

Lemma wild_get_none me key t :
  (forall me' k n, In (me', k, n) t -> has_star k = true) -> has_star key = false -> wild_get me key t = None.
Proof.
  intros H Hk. induction t as [|[[me' k] n] t IH]; [reflexivity|]. cbn [wild_get].
  destruct (method_eqb me me' && beq key k) eqn:C.
  - apply andb_true_iff in C as [_ C]. apply beq_eq in C. subst k.
    rewrite (H me' key n) in Hk by now left. discriminate.
  - apply IH. intros m2 k2 n2 Hin. apply (H m2 k2 n2). now right.
Qed.

Lemma rs_inj_shape a b : seg_wf a = true -> seg_wf b = true -> rs a = rs b -> seg_same_shape a b = true.
Proof.
  destruct a as [l|n|n], b as [l'|n'|n']; cbn [seg_wf rs render_seg seg_same_shape]; intros Ha Hb E; try reflexivity.
  - subst. apply beq_refl.
  - subst l. cbn [forallb] in Ha. apply andb_true_iff in Ha as [Ha _]. discriminate Ha.
  - subst l. discriminate Ha.
  - subst l'. cbn [forallb] in Hb. apply andb_true_iff in Hb as [Hb _]. discriminate Hb.
  - discriminate E.
  - subst l'. discriminate Hb.
  - discriminate E.
Qed.

Lemma map_rs_inj_shape p : forall q, forallb seg_wf p = true -> forallb seg_wf q = true ->
  map rs p = map rs q -> same_shape p q = true.
Proof.
  induction p as [|a p IH]; destruct q as [|b q]; cbn [map forallb same_shape]; try discriminate; [reflexivity|].
  rewrite !andb_true_iff. intros [Ha Hp] [Hb Hq] E. injection E as E1 E2.
  split; [now apply rs_inj_shape|now apply IH].
Qed.

Lemma rs_segments_noslash p : forallb seg_wf p = true -> forall x, In x (map rs p) -> ~ In slash x.
Proof.
  rewrite forallb_forall. intros H x Hx. apply in_map_iff in Hx as (s & <- & Hs).
  apply noslash_not_in, rs_noslash. now apply H.
Qed.

Lemma chi_render_inj_shape p q : wf_pattern p = true -> wf_pattern q = true ->
  chi_render p = chi_render q -> same_shape p q = true.
Proof.
  intros Hp Hq E. unfold chi_render, render in E. fold rs in E. injection E as E.
  pose proof (wf_pattern_seg_wf p Hp) as Wp. pose proof (wf_pattern_seg_wf q Hq) as Wq.
  apply map_rs_inj_shape; try assumption.
  rewrite <- (split_join (map rs p)), <- (split_join (map rs q)), E; try reflexivity.
  - destruct q; [discriminate Hq|discriminate].
  - now apply rs_segments_noslash.
  - destruct p; [discriminate Hp|discriminate].
  - now apply rs_segments_noslash.
Qed.

(* what Handle maintains *)
Definition wf_mux (m : mux) : Prop :=
  (forall r, In r (routes m) ->
     wf_pattern (r_pat r) = true /\
     wild_get (r_meth r) (chi_render (r_pat r)) (wild m) = catchall_name (r_pat r))
  /\ (forall me k n, In (me, k, n) (wild m) -> has_star k = true).

Lemma new_muxer_wf : wf_mux new_muxer.
Proof. split; intros; contradiction. Qed.

Lemma use_wf f m m' : wf_mux m -> use f m = Some m' -> wf_mux m'.
Proof. unfold use. destruct (pending m); [|discriminate]. intros H E. injection E as <-. exact H. Qed.

Lemma handle_wf me p h m : wf_mux m -> wf_pattern p = true -> wf_mux (handle me p h m).
Proof.
  intros [Hr Hk] Hp. pose proof (chi_render_star p Hp) as Hs. split.
  - intros r Hin. cbn [handle routes wild] in *. apply in_app_iff in Hin as [Hin|[<-|[]]].
    + apply filter_In in Hin as [Hin Hne]. destruct (Hr r Hin) as [Hw Hg]. split; [assumption|].
      destruct (catchall_name p) as [n|] eqn:Cn; [|assumption]. cbn [wild_get].
      destruct (method_eqb (r_meth r) me && beq (chi_render (r_pat r)) (chi_render p)) eqn:C; [|assumption].
      exfalso. apply andb_true_iff in C as [C1 C2]. apply method_eqb_eq in C1. apply beq_eq in C2.
      unfold same_endpoint in Hne. rewrite <- C1, method_eqb_refl in Hne.
      rewrite (chi_render_inj_shape p (r_pat r) Hp Hw (eq_sym C2)) in Hne. discriminate.
    + cbn [r_pat r_meth]. split; [assumption|]. destruct (catchall_name p) as [n|] eqn:Cn.
      * cbn [wild_get]. now rewrite method_eqb_refl, beq_refl.
      * apply wild_get_none; [assumption|]. now rewrite Hs.
  - intros me' k n Hin. cbn [handle wild] in Hin. destruct (catchall_name p) as [n'|] eqn:Cn.
    + destruct Hin as [E|Hin]; [injection E as <- <- <-; now rewrite Hs|now apply (Hk me' k n)].
    + now apply (Hk me' k n).
Qed.

(* any muxer obtained from NewMuxer by Use and Handle (of well-formed patterns) *)
Inductive reachable : mux -> Prop :=
| reach_new : reachable new_muxer
| reach_use f m m' : reachable m -> use f m = Some m' -> reachable m'
| reach_handle me p h m : reachable m -> wf_pattern p = true -> reachable (handle me p h m).

Lemma reachable_wf m : reachable m -> wf_mux m.
Proof.
  induction 1; [apply new_muxer_wf|eapply use_wf; eassumption|now apply handle_wf].
Qed.

(* ------------------------------------------------------------ one request *)

Lemma zip_vars_caps nm caps :
  zip_vars nm (map fst caps) (map snd caps)
  = map (rename nm) (map (fun kv : bstr * bstr => (fst kv, unescape_or_id (snd kv))) caps).
Proof.
  induction caps as [|[k v] r IH]; [reflexivity|]. cbn [map zip_vars fst snd]. rewrite IH. reflexivity.
Qed.

Section Serve.
  Variable pick : list bstr -> list route -> option route.
  Hypothesis pick_sound : forall segs cs, match pick segs cs with Some r => In r cs | None => cs = [] end.

  Lemma cands_in m me segs r : In r (cands m me segs) ->
    In r (routes m) /\ r_meth r = me /\ exists caps, matches (r_pat r) segs = Some caps.
  Proof.
    unfold cands. rewrite filter_In, andb_true_iff, method_eqb_eq. intros (Hin & Hm & Hs).
    repeat split; try assumption. destruct (matches (r_pat r) segs) as [c|]; [now exists c|discriminate].
  Qed.

  Lemma find_route_ctx0 m me rp :
    match find_route pick m ctx0 me rp with
    | (c, Some r) => In r (cands m me (path_segs rp)) /\
        exists caps, matches (r_pat r) (path_segs rp) = Some caps /\
          c = {| rpats := [chi_render (r_pat r)]; ukeys := map fst caps; uvals := map snd caps; mna := false |}
    | (c, None) => cands m me (path_segs rp) = [] /\
          c = {| rpats := []; ukeys := []; uvals := []; mna := other_method_matches m (path_segs rp) |}
    end.
  Proof.
    unfold find_route. pose proof (pick_sound (path_segs rp) (cands m me (path_segs rp))) as Hp.
    destruct (pick (path_segs rp) (cands m me (path_segs rp))) as [r|].
    - destruct (cands_in _ _ _ _ Hp) as (_ & _ & caps & Hc). rewrite Hc. split; [assumption|].
      exists caps. split; [assumption|reflexivity].
    - split; [assumption|reflexivity].
  Qed.

  (* reading a context chi has routed on *)
  Lemma read_routed m me mp r caps : wf_pattern (r_pat r) = true ->
    wild_get me (chi_render (r_pat r)) (wild m) = catchall_name (r_pat r) ->
    let c2 := {| rpats := [chi_render (r_pat r)]; ukeys := map fst caps; uvals := map snd caps; mna := false |} in
    resolve_pattern pick m c2 me mp = goa_render (r_pat r) /\
    vars pick m c2 me mp =
      map (rename (opt_name (catchall_name (r_pat r)))) (map (fun kv : bstr * bstr => (fst kv, unescape_or_id (snd kv))) caps).
  Proof.
    intros Hw Hg c2. unfold resolve_pattern, vars, ensure_context, resolve_wildcard. subst c2.
    rewrite !(route_pattern_single _ _ _ _ Hw).
    change (negb (is_nil (chi_render (r_pat r)))) with true. cbv beta iota.
    rewrite ?(route_pattern_single _ _ _ _ Hw), !Hg. cbn [ukeys uvals].
    pose proof (wf_pattern_ca_last _ Hw) as Hc. split.
    - destruct (catchall_name (r_pat r)) as [n|] eqn:Cn; [now apply resolve_render|now apply render_no_catchall].
    - destruct (catchall_name (r_pat r)); apply zip_vars_caps.
  Qed.

  (* what a middleware asking before next is told: the same as after routing, as soon as
     the string goa matches is the string chi routes *)
  Lemma pre_answer_found m me rp c2 r : find_route pick m ctx0 me rp = (c2, Some r) ->
    pre_answer pick m me rp = (resolve_pattern pick m c2 me rp, vars pick m c2 me rp).
  Proof.
    intro E. pose proof (find_route_ctx0 m me rp) as Hf. rewrite E in Hf. destruct Hf as (_ & caps & _ & ->).
    unfold pre_answer, resolve_pattern, vars, ensure_context.
    change (route_pattern ctx0) with (@nil byte). cbn [is_nil negb]. rewrite E.
    set (c2 := {| rpats := [chi_render (r_pat r)]; ukeys := map fst caps; uvals := map snd caps; mna := false |}).
    assert (Hn : is_nil (route_pattern c2) = false \/ is_nil (route_pattern c2) = true) by (destruct (is_nil (route_pattern c2)); auto).
    destruct Hn as [Hn|Hn]; rewrite Hn; cbn [negb]; reflexivity.
  Qed.

  Lemma pre_answer_none m me rp c2 : find_route pick m ctx0 me rp = (c2, None) ->
    pre_answer pick m me rp = ([], []) /\ resolve_pattern pick m c2 me rp = [].
  Proof.
    intro E. pose proof (find_route_ctx0 m me rp) as Hf. rewrite E in Hf. destruct Hf as (_ & ->).
    unfold pre_answer, resolve_pattern, vars, ensure_context.
    change (route_pattern ctx0) with (@nil byte).
    change (route_pattern {| rpats := []; ukeys := []; uvals := []; mna := other_method_matches m (path_segs rp) |}) with (@nil byte).
    cbn [is_nil negb]. rewrite E. split; reflexivity.
  Qed.

  Lemma match_route_path wire path raw : set_path wire = Some (path, raw) -> wire <> [] ->
    match_path path raw = route_path path raw.
  Proof.
    intros E Hw. destruct (set_path_spec _ _ _ E) as (_ & Hr & _). unfold route_path, match_path.
    destruct raw as [|c raw']; cbn [is_nil]; [|reflexivity].
    destruct path as [|c p']; [|reflexivity]. exfalso. apply Hw. now apply Hr.
  Qed.

  (* match_path is route_path short of the "" -> "/" step *)
  Lemma match_path_cases path raw :
    match_path path raw = route_path path raw \/ match_path path raw = [].
  Proof.
    unfold route_path, match_path. destruct raw; cbn [is_nil]; [|now left]. destruct path; [now right|now left].
  Qed.

  (* SmartRedirectSlashes never answers a request that some route of the method matches *)
  Lemma smart_quiet m me path raw :
    cands m me (path_segs (route_path path raw)) <> [] -> smart_redirects m me (match_path path raw) = false.
  Proof.
    intro Hc. unfold smart_redirects. destruct (match_path_cases path raw) as [E|E]; rewrite E.
    - destruct (cands m me (path_segs (route_path path raw))); [congruence|]. cbn [is_nil]. now rewrite andb_false_r.
    - cbn [length Nat.ltb Nat.leb]. now rewrite andb_false_r.
  Qed.

  (* one request, whatever the middlewares asked before routing *)
  Lemma serve_spec m me wire pre ar ap : wf_mux m ->
    match set_path wire with
    | None => serve pick m me wire pre ar ap = None
    | Some (path, raw) =>
      let segs := path_segs (route_path path raw) in
      let sp := match_path path raw in
      let n := asking (mws m) pre in
      exists o, serve pick m me wire pre ar ap = Some o /\
        match o_out o with
        | Handled h vs hp =>
          o_ran o = rec_ids (mws m) /\
          exists r capt, In r (cands m me segs) /\ r_h r = h /\ captured (r_pat r) wire = Some capt /\
            vs = map (rename (opt_name (catchall_name (r_pat r)))) capt /\
            hp = goa_render (r_pat r) /\ o_post o = goa_render (r_pat r) /\
            o_pre o = repeat (hp, vs) n
        | NotFound e => smart_redirects m me sp = false /\ o_ran o = rec_ids (mws m) /\
            cands m me segs = [] /\ other_method_matches m segs = false /\ e = response_encoder ar ap /\
            o_pre o = repeat ([], []) n /\ o_post o = []
        | MethodNotAllowed => smart_redirects m me sp = false /\ o_ran o = rec_ids (mws m) /\
            cands m me segs = [] /\ other_method_matches m segs = true /\
            o_pre o = repeat ([], []) n /\ o_post o = []
        | Redirected loc => smart_redirects m me sp = true /\ cands m me segs = [] /\
            loc = hex_escape_non_ascii (toggle_slash sp) /\ o_ran o = rec_ids (before_smart (mws m))
        end
    end.
  Proof.
    intros [Hr Hk]. unfold serve. destruct (set_path wire) as [[path raw]|] eqn:Esp; [|reflexivity]. cbv zeta.
    destruct (smart_redirects m me (match_path path raw)) eqn:Esm.
    { eexists. split; [reflexivity|]. cbn [o_out o_ran]. split; [reflexivity|]. split; [|split; reflexivity].
      destruct (cands m me (path_segs (route_path path raw))) eqn:Ec; [reflexivity|].
      rewrite smart_quiet in Esm; [discriminate|]. rewrite Ec. discriminate. }
    pose proof (find_route_ctx0 m me (route_path path raw)) as Hf.
    destruct (find_route pick m ctx0 me (route_path path raw)) as [c2 [r|]] eqn:Ef.
    - destruct Hf as (Hin & caps & Hm & ->). destruct (cands_in _ _ _ _ Hin) as (Hrin & Hme & _).
      destruct (Hr r Hrin) as [Hw Hg]. rewrite Hme in Hg.
      eexists. split; [reflexivity|]. cbn [o_pre o_out o_post o_ran]. split; [reflexivity|].
      destruct (read_routed m me (route_path path raw) r caps Hw Hg) as [E1 E2].
      exists r, (map (fun kv : bstr * bstr => (fst kv, unescape_or_id (snd kv))) caps).
      split; [assumption|]. split; [reflexivity|]. split; [unfold captured; now rewrite Esp, Hm|].
      split; [exact E2|]. split; [exact E1|]. split; [exact E1|].
      rewrite (pre_answer_found _ _ _ _ _ Ef). reflexivity.
    - destruct Hf as (Hc & ->). eexists. split; [reflexivity|]. cbn [o_pre o_out o_post o_ran mna].
      destruct (pre_answer_none _ _ _ _ Ef) as [-> ->].
      destruct (other_method_matches m (path_segs (route_path path raw))) eqn:O.
      + split; [reflexivity|]. split; [reflexivity|]. split; [assumption|]. split; [reflexivity|]. split; reflexivity.
      + split; [reflexivity|]. split; [reflexivity|]. split; [assumption|]. split; [reflexivity|]. split; [reflexivity|]. split; reflexivity.
  Qed.
End Serve.

(* ------------------------------------------------ matching: what is captured *)

(* a {name} wildcard captures one of the segments of the routed path: never a '/' *)
Lemma matches_var_segment pat : forall segs caps k v,
  matches pat segs = Some caps -> In (k, v) caps -> k <> [star] -> In v segs.
Proof.
  induction pat as [|s pat IH]; intros segs caps k v Hm Hin Hk.
  - destruct segs; [injection Hm as <-; contradiction|discriminate].
  - destruct segs as [|x segs']; [destruct s; discriminate|]. destruct s as [l|n|n]; cbn [matches] in Hm.
    + destruct (beq l x); [|discriminate]. right. eapply IH; eassumption.
    + destruct (is_nil x && is_nil segs'); [discriminate|].
      destruct (matches pat segs') as [c|] eqn:E; [|discriminate]. injection Hm as <-.
      destruct Hin as [Hin|Hin]; [injection Hin as _ <-; now left|]. right. eapply IH; eassumption.
    + injection Hm as <-. destruct Hin as [Hin|[]]. injection Hin as <- _. now contradiction Hk.
Qed.

Lemma single_segment_no_slash pat rp caps k v :
  matches pat (path_segs rp) = Some caps -> In (k, v) caps -> k <> [star] -> ~ In slash v.
Proof.
  intros Hm Hin Hk. pose proof (matches_var_segment _ _ _ _ _ Hm Hin Hk) as Hs.
  unfold path_segs in Hs. destruct rp as [|c r]; [contradiction|]. destruct (Byte.eqb c slash); [|contradiction].
  eapply split_slash_no_slash; eassumption.
Qed.

(* prefix of literals and {name} segments, then a catch-all: it takes the whole rest *)
Lemma catchall_captures_rest pre n : forall xs caps rest,
  matches pre xs = Some caps -> (forall m, ~ In (CatchAll m) pre) -> rest <> [] ->
  matches (pre ++ [CatchAll n]) (xs ++ rest) = Some (caps ++ [([star], join_slash rest)]).
Proof.
  induction pre as [|s pre IH]; intros xs caps rest Hm Hnc Hr.
  - destruct xs; [|discriminate]. injection Hm as <-. cbn [app]. destruct rest; [congruence|reflexivity].
  - destruct xs as [|x xs']; [destruct s; discriminate|].
    assert (Hnc' : forall m, ~ In (CatchAll m) pre) by (intros m H; apply (Hnc m); now right).
    destruct s as [l|v|c]; cbn [matches app] in *.
    + destruct (beq l x); [|discriminate]. now apply IH.
    + destruct (is_nil x && is_nil xs') eqn:E; [discriminate|].
      assert (E' : is_nil x && is_nil (xs' ++ rest) = false).
      { destruct x; [|reflexivity]. cbn in *. destruct xs'; [discriminate|reflexivity]. }
      rewrite E'. destruct (matches pre xs') as [c|] eqn:Em; [|discriminate]. injection Hm as <-.
      now rewrite (IH _ _ _ Em Hnc' Hr).
    + exfalso. apply (Hnc c). now left.
Qed.

Lemma empty_catchall_ok pre n xs caps :
  matches pre xs = Some caps -> (forall m, ~ In (CatchAll m) pre) ->
  matches (pre ++ [CatchAll n]) (xs ++ [[]]) = Some (caps ++ [([star], [])]).
Proof. intros Hm Hnc. apply (catchall_captures_rest pre n xs caps [[]] Hm Hnc). discriminate. Qed.

(* chi: a {name} wildcard does not take an empty last segment, but takes an empty inner one *)
Lemma var_empty_last_no_match n : matches [Var n] [[]] = None.
Proof. reflexivity. Qed.
Lemma var_empty_inner_matches n l : matches [Var n; Lit l] [[]; l] = Some [(n, [])].
Proof. cbn. now rewrite beq_refl. Qed.

(* --------------------------------------------- the built request, end to end *)

Lemma name_not_star n : name_ok n = true -> beq n [star] = false.
Proof.
  unfold name_ok. rewrite andb_true_iff. intros [_ H]. apply beq_neq. intros ->. discriminate H.
Qed.

Lemma rename_icaps f ip : forallb seg_wf (pat_of ip) = true -> ca_last (pat_of ip) = true ->
  map (rename (opt_name (catchall_name (pat_of ip)))) (icaps f ip)
  = map (fun nv : bstr * bstr => (fst nv, f (snd nv))) (values_of ip).
Proof.
  induction ip as [|i r IH]; [reflexivity|]. cbn [pat_of map forallb]. fold (pat_of r).
  rewrite andb_true_iff. intros [Hi Hr] Hc.
  destruct i as [s|n v|n v]; cbn [pat_seg icaps values_of map seg_wf ca_last] in *.
  - replace (catchall_name (Lit s :: pat_of r)) with (catchall_name (pat_of r)) by (destruct (pat_of r); reflexivity).
    now apply IH.
  - replace (catchall_name (Var n :: pat_of r)) with (catchall_name (pat_of r)) by (destruct (pat_of r); reflexivity).
    unfold rename at 1. cbn [fst snd]. rewrite (name_not_star n Hi). f_equal. now apply IH.
  - apply is_nil_true in Hc. apply map_eq_nil in Hc. subst r. cbn. reflexivity.
Qed.

Lemma captured_matches pat wire capt : captured pat wire = Some capt ->
  exists path raw, set_path wire = Some (path, raw) /\ is_some (matches pat (path_segs (route_path path raw))) = true.
Proof.
  unfold captured. destruct (set_path wire) as [[path raw]|]; [|discriminate].
  destruct (matches pat (path_segs (route_path path raw))) eqn:E; [|discriminate].
  intros _. exists path, raw. now rewrite E.
Qed.

(* the values Vars returns for a built request when the handler of that pattern runs *)
Definition returned (ip : ipat) : list (bstr * bstr) :=
  map (fun nv : bstr * bstr => (fst nv, (if forallb neutral (ivals ip) then unescape_or_id else idv) (snd nv))) (values_of ip).

Section Built.
  Variable pick : list bstr -> list route -> option route.
  Hypothesis pick_sound : forall segs cs, match pick segs cs with Some r => In r cs | None => cs = [] end.

  Lemma build_url_nonempty ip : build_url ip <> [].
  Proof. discriminate. Qed.

  Lemma no_smart_quiet m me path : existsb is_smart (mws m) = false -> smart_redirects m me path = false.
  Proof. intro H. unfold smart_redirects. now rewrite H. Qed.

  Lemma built_request_served m r ip pre ar ap :
    wf_mux m -> In r (routes m) -> r_pat r = pat_of ip -> wf_ipat ip = true ->
    exists o r' vs,
      serve pick m (r_meth r) (build_url ip) pre ar ap = Some o /\
      In r' (routes m) /\ r_meth r' = r_meth r /\
      captured (r_pat r') (build_url ip) <> None /\
      o_out o = Handled (r_h r') vs (goa_render (r_pat r')) /\ o_post o = goa_render (r_pat r') /\
      o_pre o = repeat (goa_render (r_pat r'), vs) (asking (mws m) pre) /\ o_ran o = rec_ids (mws m) /\
      (r' = r -> vs = returned ip).
  Proof.
    intros Hm Hin Hp Hw. pose proof (captured_build_url ip Hw) as Hcap.
    destruct (captured_matches _ _ _ Hcap) as (path & raw & Esp & Hmatch).
    pose proof (serve_spec pick pick_sound m (r_meth r) (build_url ip) pre ar ap Hm) as Hs. rewrite Esp in Hs.
    destruct Hs as (o & Eo & Hout).
    assert (Hc : In r (cands m (r_meth r) (path_segs (route_path path raw)))).
    { unfold cands. apply filter_In. split; [assumption|]. now rewrite method_eqb_refl, Hp, Hmatch. }
    destruct (o_out o) as [h vs hp| | |loc] eqn:Eout.
    - destruct Hout as (Hran & r' & capt & Hin' & <- & Hc' & -> & -> & Hpost & Hpre).
      destruct (cands_in _ _ _ _ Hin') as (Hr' & Hme' & _).
      exists o, r', (map (rename (opt_name (catchall_name (r_pat r')))) capt).
      split; [assumption|]. split; [assumption|]. split; [assumption|]. split; [rewrite Hc'; discriminate|].
      split; [exact Eout|]. split; [assumption|]. split; [exact Hpre|]. split; [assumption|].
      intros ->. rewrite Hp in *. rewrite Hcap in Hc'. injection Hc' as <-.
      unfold wf_ipat in Hw. apply andb_true_iff in Hw as [Hw _]. unfold returned.
      destruct (forallb neutral (ivals ip));
        apply rename_icaps; (apply wf_pattern_seg_wf || apply wf_pattern_ca_last); assumption.
    - destruct Hout as (_ & _ & Hout & _). rewrite Hout in Hc. contradiction.
    - destruct Hout as (_ & _ & Hout & _). rewrite Hout in Hc. contradiction.
    - destruct Hout as (_ & Hout & _). rewrite Hout in Hc. contradiction.
  Qed.

  (* dispatch: the handler reached belongs to the matching set; 404/405/301 iff it is empty *)
  Lemma dispatch_sound m me wire pre ar ap o h vs hp : wf_mux m ->
    serve pick m me wire pre ar ap = Some o -> o_out o = Handled h vs hp ->
    exists path raw r, set_path wire = Some (path, raw) /\
      In r (cands m me (path_segs (route_path path raw))) /\ r_h r = h.
  Proof.
    intros Hm Es Eo. pose proof (serve_spec pick pick_sound m me wire pre ar ap Hm) as Hs.
    destruct (set_path wire) as [[path raw]|]; [|congruence].
    destruct Hs as (o' & Eo' & Hout). rewrite Es in Eo'. injection Eo' as <-. rewrite Eo in Hout.
    destruct Hout as (_ & r & _ & Hin & Hh & _). now exists path, raw, r.
  Qed.

  Lemma dispatch_unhandled_iff m me wire pre ar ap o path raw : wf_mux m ->
    serve pick m me wire pre ar ap = Some o -> set_path wire = Some (path, raw) ->
    let segs := path_segs (route_path path raw) in
    let sp := match_path path raw in
    ((exists h vs hp, o_out o = Handled h vs hp) <-> cands m me segs <> []) /\
    (o_out o = NotFound (response_encoder ar ap) <->
       cands m me segs = [] /\ smart_redirects m me sp = false /\ other_method_matches m segs = false) /\
    (o_out o = MethodNotAllowed <->
       cands m me segs = [] /\ smart_redirects m me sp = false /\ other_method_matches m segs = true) /\
    ((exists loc, o_out o = Redirected loc) <-> smart_redirects m me sp = true).
  Proof.
    intros Hm Es Esp. pose proof (serve_spec pick pick_sound m me wire pre ar ap Hm) as Hs. rewrite Esp in Hs.
    destruct Hs as (o' & Eo' & Hout). rewrite Es in Eo'. injection Eo' as <-. cbv zeta.
    destruct (o_out o) as [h vs hp|e| |loc].
    - destruct Hout as (_ & r & _ & Hin & _).
      assert (Hne : cands m me (path_segs (route_path path raw)) <> []) by (intro E; rewrite E in Hin; contradiction).
      pose proof (smart_quiet m me path raw Hne) as Hq.
      split; [split; [intros _; exact Hne|intros _; now exists h, vs, hp]|].
      split; [split; [discriminate|intros (E & _); contradiction]|].
      split; [split; [discriminate|intros (E & _); contradiction]|].
      split; [intros (loc & E); discriminate|intro E; congruence].
    - destruct Hout as (Hsm & _ & Hc & Ho & -> & _).
      split; [split; [intros (h & vs & hp & E); discriminate|intro H; contradiction]|].
      split; [split; [intros _; repeat split; assumption|reflexivity]|].
      split; [split; [discriminate|intros (_ & _ & E); congruence]|].
      split; [intros (loc & E); discriminate|intro E; congruence].
    - destruct Hout as (Hsm & _ & Hc & Ho & _).
      split; [split; [intros (h & vs & hp & E); discriminate|intro H; contradiction]|].
      split; [split; [discriminate|intros (_ & _ & E); congruence]|].
      split; [split; [intros _; repeat split; assumption|reflexivity]|].
      split; [intros (loc & E); discriminate|intro E; congruence].
    - destruct Hout as (Hsm & Hc & _).
      split; [split; [intros (h & vs & hp & E); discriminate|intro H; contradiction]|].
      split; [split; [discriminate|intros (_ & E & _); congruence]|].
      split; [split; [discriminate|intros (_ & E & _); congruence]|].
      split; [intros _; exact Hsm|intros _; now exists loc].
  Qed.

  Lemma dispatch_unique m me wire pre ar ap o path raw r : wf_mux m ->
    serve pick m me wire pre ar ap = Some o -> set_path wire = Some (path, raw) ->
    cands m me (path_segs (route_path path raw)) = [r] ->
    exists vs, o_out o = Handled (r_h r) vs (goa_render (r_pat r)) /\ o_post o = goa_render (r_pat r).
  Proof.
    intros Hm Es Esp Hc. pose proof (serve_spec pick pick_sound m me wire pre ar ap Hm) as Hs. rewrite Esp in Hs.
    destruct Hs as (o' & Eo' & Hout). rewrite Es in Eo'. injection Eo' as <-.
    destruct (o_out o) as [h vs hp|e| |loc].
    - destruct Hout as (_ & r' & capt & Hin & <- & _ & _ & -> & Hpost & _). rewrite Hc in Hin. destruct Hin as [<-|[]].
      now exists vs.
    - destruct Hout as (_ & _ & E & _). rewrite E in Hc. discriminate.
    - destruct Hout as (_ & _ & E & _). rewrite E in Hc. discriminate.
    - destruct Hout as (_ & E & _). rewrite E in Hc. discriminate.
  Qed.
End Built.

(* exactly which built requests give their values back *)
Lemma returned_iff ip :
  returned ip = values_of ip <-> forallb neutral (ivals ip) = false \/ forallb stable (ivals ip) = true.
Proof.
  unfold returned, ivals. destruct (forallb neutral (map snd (values_of ip))) eqn:N.
  - split.
    + intro E. right. apply forallb_forall. intros v Hv. apply in_map_iff in Hv as ([k v'] & <- & Hin).
      unfold stable. apply beq_eq. cbn [snd].
      assert (H : forall l, map (fun nv : bstr * bstr => (fst nv, unescape_or_id (snd nv))) l = l ->
                            forall kv, In kv l -> unescape_or_id (snd kv) = snd kv).
      { induction l as [|a l IH]; [contradiction|]. cbn [map]. intros El kv [<-|Hk].
        - injection El as E1 _. destruct a. cbn in *. congruence.
        - injection El as _ E2. now apply IH. }
      exact (H _ E _ Hin).
    + intros [D|S]; [discriminate|]. rewrite forallb_forall in S.
      rewrite <- (map_id (values_of ip)) at 2. apply map_ext_in. intros [k v] Hin. cbn [fst snd]. f_equal.
      apply beq_eq. apply S. apply in_map_iff. now exists (k, v).
  - split; [now left|]. intros _. rewrite <- (map_id (values_of ip)) at 2. apply map_ext. now intros [k v].
Qed.

Lemma stable_no_pct v : ~ In pct v -> stable v = true.
Proof.
  intro H. unfold stable, unescape_or_id, unescape.
  assert (F : feed PathSeg UNormal v = Some (UNormal, v)).
  { induction v as [|c r IH]; [reflexivity|]. cbn [feed].
    destruct (Byte.eqb c pct) eqn:E; [apply byte_eqb_eq in E; subst; exfalso; apply H; now left|].
    rewrite IH; [reflexivity|]. intro Hr. apply H. now right. }
  rewrite F. apply beq_refl.
Qed.

(* ------------------------------------------------------- pattern resolution *)

Lemma resolve_registered m r : wf_mux m -> In r (routes m) ->
  resolve_wildcard m (r_meth r) (chi_render (r_pat r)) = goa_render (r_pat r).
Proof.
  intros [Hr _] Hin. destruct (Hr r Hin) as [Hw Hg]. unfold resolve_wildcard. rewrite Hg.
  pose proof (wf_pattern_ca_last _ Hw) as Hc. destruct (catchall_name (r_pat r)) as [n|] eqn:Cn.
  - now apply resolve_render.
  - now apply render_no_catchall.
Qed.

(* ------------------------------------ a mux with one route: no precedence left *)

Definition sound (pick : list bstr -> list route -> option route) : Prop :=
  forall segs cs, match pick segs cs with Some r => In r cs | None => cs = [] end.

Lemma first_pick_sound : sound first_pick.
Proof. intros segs [|r cs]; cbn; auto. Qed.

Section Single.
  Variable pick : list bstr -> list route -> option route.
  Hypothesis pick_sound : sound pick.
  Variable m : mux.
  Variable r0 : route.
  Hypothesis single : routes m = [r0].

  Lemma pick_single me segs : pick segs (cands m me segs) = first_pick segs (cands m me segs).
  Proof.
    pose proof (pick_sound segs (cands m me segs)) as H. unfold cands in *. rewrite single in *. cbn [filter] in *.
    destruct (method_eqb (r_meth r0) me && is_some (matches (r_pat r0) segs)); cbn [first_pick hd_error].
    - destruct (pick segs [r0]) as [r|]; [destruct H as [<-|[]]; reflexivity|discriminate].
    - destruct (pick segs []) as [r|]; [contradiction|reflexivity].
  Qed.

  Lemma find_route_single c me rp : find_route pick m c me rp = find_route first_pick m c me rp.
  Proof. unfold find_route. now rewrite pick_single. Qed.

  Lemma ensure_context_single c me p : ensure_context pick m c me p = ensure_context first_pick m c me p.
  Proof. unfold ensure_context. now rewrite find_route_single. Qed.

  Lemma resolve_pattern_single c me p : resolve_pattern pick m c me p = resolve_pattern first_pick m c me p.
  Proof. unfold resolve_pattern. now rewrite ensure_context_single. Qed.

  Lemma vars_single c me p : vars pick m c me p = vars first_pick m c me p.
  Proof. unfold vars. now rewrite ensure_context_single. Qed.

  Lemma serve_single me wire pre ar ap : serve pick m me wire pre ar ap = serve first_pick m me wire pre ar ap.
  Proof.
    unfold serve, pre_answer. destruct (set_path wire) as [[path raw]|]; [|reflexivity].
    rewrite find_route_single, resolve_pattern_single, vars_single.
    destruct (find_route first_pick m ctx0 me (route_path path raw)) as [c2 [r|]];
      now rewrite ?resolve_pattern_single, ?vars_single.
  Qed.
End Single.

(* ------------------------------------------------------- the not-found body *)

Lemma text_encoder_iff ar ap h :
  response_encoder ar ap = EText h <->
  (ar = (if h then MHtml else MPlain)) \/ (ar = MOther /\ ap = Some (if h then MHtml else MPlain)).
Proof.
  destruct h, ar; cbn; try (split; [discriminate|intros [H|[H _]]; discriminate]);
    try (split; [now left|reflexivity]);
    (split; [intro H; right; split; [reflexivity|]; destruct ap as [[]|]; cbn in H; try discriminate; reflexivity
            |intros [H|[_ ->]]; [discriminate|reflexivity]]).
Qed.

Lemma notfound_body_wellformed ar ap :
  (forall h, response_encoder ar ap <> EText h) -> notfound_body (response_encoder ar ap) = Some notfound_error.
Proof. intro H. destruct (response_encoder ar ap) eqn:E; try reflexivity. exfalso. now apply (H html). Qed.

(* ----------------------------------------------------------- Use and Handle *)

Lemma use_after_handle f me p h m : use f (handle me p h m) = None.
Proof. reflexivity. Qed.

Fixpoint uses (fs : list mwk) (m : mux) : option mux :=
  match fs with
  | [] => Some m
  | f :: r => match use f m with Some m' => uses r m' | None => None end
  end.

Lemma uses_pending fs : forall m l, pending m = Some l ->
  exists m', uses fs m = Some m' /\ pending m' = Some (l ++ fs) /\ mws m' = mws m /\ routes m' = routes m /\ wild m' = wild m.
Proof.
  induction fs as [|f fs IH]; intros m l Hp.
  - exists m. rewrite app_nil_r. auto.
  - cbn [uses]. unfold use. rewrite Hp.
    destruct (IH {| pending := Some (l ++ [f]); mws := mws m; routes := routes m; wild := wild m |} (l ++ [f]) eq_refl)
      as (m' & E & P & M & R & W).
    exists m'. rewrite <- app_assoc in P. auto.
Qed.

(* middlewares given to Use before the first Handle are installed by it, in order *)
Lemma use_then_handle fs me p h : exists m', uses fs new_muxer = Some m' /\ mws (handle me p h m') = fs.
Proof.
  destruct (uses_pending fs new_muxer [] eq_refl) as (m' & E & P & M & _). exists m'. split; [assumption|].
  cbn [handle mws]. rewrite P, M. reflexivity.
Qed.

(* ------------------------------------------------------------- witnesses *)

Definition b_u : bstr := [x75].                       (* "u" *)
Definition b_f : bstr := [x66].                       (* "f" *)
Definition b_id : bstr := [x69; x64].                 (* "id" *)
Definition b_p : bstr := [x70].                       (* "p" *)
Definition b_a : bstr := [x61].
Definition b_b : bstr := [x62].
Definition v_pct41 : bstr := [x25; x34; x31].         (* "%41" *)
Definition v_A : bstr := [x41].                       (* "A" *)
Definition v_a_b : bstr := [x61; x2f; x62].           (* "a/b" *)

(* GET /u/{id} with the value "%41": the request is /u/%2541, Vars returns "A" *)
Definition w_ip : ipat := [ILit b_u; IVar b_id v_pct41].
Definition w_mux : mux := handle GET (pat_of w_ip) 0 new_muxer.

Lemma w_ip_facts : wf_ipat w_ip = true /\ values_of w_ip = [(b_id, v_pct41)] /\
  captured (pat_of w_ip) (build_url w_ip) = Some [(b_id, v_A)] /\ icaps idv w_ip = [(b_id, v_pct41)].
Proof. vm_compute. auto. Qed.

Lemma w_mux_reachable : reachable w_mux.
Proof. apply reach_handle; [apply reach_new|reflexivity]. Qed.

Lemma double_unescape_served pick : sound pick -> forall ar ap,
  exists o, serve pick w_mux GET (build_url w_ip) [] ar ap = Some o /\
            o_out o = Handled 0 [(b_id, v_A)] (goa_render (pat_of w_ip)).
Proof.
  intros Hs ar ap. rewrite (serve_single pick Hs w_mux _ eq_refl). eexists. split; vm_compute; reflexivity.
Qed.

(* Use(mw); Handle(GET, "/f/{*p}"); the middleware calls ResolvePattern before next; GET /f/a/b *)
Definition w_mux2 : mux :=
  match use (MRec 0) new_muxer with Some m => handle GET [Lit b_f; CatchAll b_p] 0 m | None => new_muxer end.
Definition w_wire2 : bstr := [x2f; x66; x2f; x61; x2f; x62].                (* "/f/a/b" *)
Definition w_pat2_goa : bstr := [x2f; x66; x2f; x7b; x2a; x70; x7d].         (* "/f/{*p}" *)

Lemma w_mux2_reachable : reachable w_mux2.
Proof.
  unfold w_mux2. destruct (use (MRec 0) new_muxer) as [m|] eqn:E; [|discriminate].
  apply reach_handle; [|reflexivity]. eapply reach_use; [apply reach_new|exact E].
Qed.

(* regression (fixed by bd5b058): the early call, the handler and the late call agree *)
Lemma resolve_before_routing_served pick : sound pick -> forall ar ap,
  exists o, serve pick w_mux2 GET w_wire2 [true] ar ap = Some o /\
    o_pre o = [(w_pat2_goa, [(b_p, v_a_b)])] /\ o_out o = Handled 0 [(b_p, v_a_b)] w_pat2_goa /\ o_post o = w_pat2_goa /\
    goa_render [Lit b_f; CatchAll b_p] = w_pat2_goa.
Proof.
  intros Hs ar ap. rewrite (serve_single pick Hs w_mux2 _ eq_refl). eexists. split; [vm_compute; reflexivity|].
  vm_compute. repeat split.
Qed.

(* Use(mw); Handle(GET,"/u/{id}") #0; Handle(GET,"/u/{a}/{b}") #1; GET /u/a%2Fb: the early
   ResolvePattern matches the decoded path /u/a/b and reports route #1, chi then routes
   the raw path to #0 *)
Definition w_mux3 : mux :=
  match use (MRec 0) new_muxer with
  | Some m => handle GET [Lit b_u; Var b_a; Var b_b] 1 (handle GET [Lit b_u; Var b_id] 0 m)
  | None => new_muxer
  end.
Definition w_wire3 : bstr := [x2f; x75; x2f; x61; x25; x32; x46; x62].       (* "/u/a%2Fb" *)

Lemma w_mux3_reachable : reachable w_mux3.
Proof.
  unfold w_mux3. destruct (use (MRec 0) new_muxer) as [m|] eqn:E; [|discriminate].
  apply reach_handle; [|reflexivity]. apply reach_handle; [|reflexivity]. eapply reach_use; [apply reach_new|exact E].
Qed.

Lemma resolve_decoded_path_served : forall ar ap,
  exists o, serve first_pick w_mux3 GET w_wire3 [true] ar ap = Some o /\
    o_pre o = [(goa_render [Lit b_u; Var b_id], [(b_id, v_a_b)])] /\
    o_out o = Handled 0 [(b_id, v_a_b)] (goa_render [Lit b_u; Var b_id]) /\
    o_post o = goa_render [Lit b_u; Var b_id].
Proof.
  intros ar ap. eexists. split; [vm_compute; reflexivity|]. vm_compute. repeat split.
Qed.

(* regression: Use(mw); Handle(GET,"/"); a request whose URL has an empty path
   ("http://host"): chi routes "/" and so does the early call *)
Definition w_mux4 : mux :=
  match use (MRec 0) new_muxer with Some m => handle GET [Lit []] 0 m | None => new_muxer end.

Lemma w_mux4_reachable : reachable w_mux4.
Proof.
  unfold w_mux4. destruct (use (MRec 0) new_muxer) as [m|] eqn:E; [|discriminate].
  apply reach_handle; [|reflexivity]. eapply reach_use; [apply reach_new|exact E].
Qed.

Lemma empty_path_served pick : sound pick -> forall ar ap,
  exists o, serve pick w_mux4 GET [] [true] ar ap = Some o /\
    o_pre o = [([slash], [])] /\ o_out o = Handled 0 [] [slash] /\ o_post o = [slash] /\ goa_render [Lit []] = [slash].
Proof.
  intros Hs ar ap. rewrite (serve_single pick Hs w_mux4 _ eq_refl). eexists. split; [vm_compute; reflexivity|].
  vm_compute. repeat split.
Qed.

(* every middleware that asked before next was told what the handler is told *)
Lemma pre_agrees pick m me wire pre ar ap o h vs hp : sound pick -> wf_mux m ->
  serve pick m me wire pre ar ap = Some o -> o_out o = Handled h vs hp ->
  (forall a, In a (o_pre o) -> a = (hp, vs)) /\ o_post o = hp /\
  length (o_pre o) = asking (mws m) pre /\ o_ran o = rec_ids (mws m).
Proof.
  intros Hs Hm Es Eo. pose proof (serve_spec pick Hs m me wire pre ar ap Hm) as H.
  destruct (set_path wire) as [[path raw]|]; [|congruence].
  destruct H as (o' & Eo' & Hout). rewrite Es in Eo'. injection Eo' as <-. rewrite Eo in Hout.
  destruct Hout as (Hran & r & capt & _ & _ & _ & _ & Ehp & Epost & Hpre).
  split; [|split; [|split]].
  - intros a Ha. rewrite Hpre in Ha. now apply repeat_spec in Ha.
  - congruence.
  - rewrite Hpre. apply repeat_length.
  - exact Hran.
Qed.

(* regression: SmartRedirectSlashes looks at the string chi routes: GET /u/a%2F (value "a/" for
   /u/{id}) reaches its handler; GET /u/a%2F/ is sent to /u/a%2F, the escaping kept *)
Definition w_mux5 : mux :=
  match use MSmart new_muxer with Some m => handle GET [Lit b_u; Var b_id] 0 m | None => new_muxer end.
Definition w_ip5 : ipat := [ILit b_u; IVar b_id [x61; x2f]].                     (* id = "a/" *)

Lemma w_mux5_reachable : reachable w_mux5.
Proof.
  unfold w_mux5. destruct (use MSmart new_muxer) as [m|] eqn:E; [|discriminate].
  apply reach_handle; [|reflexivity]. eapply reach_use; [apply reach_new|exact E].
Qed.

Lemma smart_redirect_served pick : sound pick -> forall ar ap,
  wf_ipat w_ip5 = true /\ routes w_mux5 = [{| r_meth := GET; r_pat := pat_of w_ip5; r_h := 0 |}] /\
  (exists o, serve pick w_mux5 GET (build_url w_ip5) [] ar ap = Some o /\
             o_out o = Handled 0 [(b_id, [x61; x2f])] (goa_render (pat_of w_ip5))) /\
  (exists o, serve pick w_mux5 GET (build_url w_ip5 ++ [slash]) [] ar ap = Some o /\
             o_out o = Redirected (build_url w_ip5)).
Proof.
  intros Hs ar ap. split; [reflexivity|]. split; [reflexivity|].
  rewrite !(serve_single pick Hs w_mux5 _ eq_refl). split; eexists; split; vm_compute; reflexivity.
Qed.

(* non-vacuity material: three routes, a built request with an encoded slash and an empty catch-all *)
Definition ex_ip : ipat := [ILit b_u; IVar b_id v_a_b; ICatchAll b_p []].
Definition ex_mux : mux :=
  handle POST [Lit b_u; Var b_a] 2 (handle GET (pat_of ex_ip) 1 (handle GET [Lit []] 0 new_muxer)).
Lemma ex_facts :
  wf_ipat ex_ip = true /\ reachable ex_mux /\ length (routes ex_mux) = 3 /\
  exists o, serve first_pick ex_mux GET (build_url ex_ip) [] MEmpty None = Some o /\
            o_out o = Handled 1 [(b_id, v_a_b); (b_p, [])] (goa_render (pat_of ex_ip)).
Proof.
  split; [reflexivity|]. split; [repeat (apply reach_handle; [|reflexivity]); apply reach_new|].
  split; [reflexivity|]. eexists. split; vm_compute; reflexivity.
Qed.

(* --------------------------------------- Handle's regexp rewrite, on the pattern text *)

Lemma wild_here_nonslash a r : Byte.eqb a slash = false -> wild_here (a :: r) = None.
Proof. intro H. destruct r as [|b [|c r']]; cbn [wild_here]; try reflexivity. now rewrite H. Qed.

Lemma find_wild_nil : find_wild [] = None.
Proof. reflexivity. Qed.

Lemma find_wild_step s c : wild_here (c :: s) = None -> find_wild (c :: s) = find_wild s.
Proof. intro H. cbn [find_wild]. now rewrite H. Qed.

Lemma replace_wild_nil f : replace_wild_all f [] = [].
Proof. destruct f; reflexivity. Qed.

Lemma replace_wild_step f c s : wild_here (c :: s) = None ->
  replace_wild_all (S f) (c :: s) = c :: replace_wild_all f s.
Proof. intro H. cbn [replace_wild_all]. now rewrite H. Qed.

Lemma find_wild_noslash a T : noslash a = true -> find_wild (a ++ T) = find_wild T.
Proof.
  induction a as [|c a IH]; [reflexivity|]. unfold noslash in *. cbn [forallb app]. rewrite andb_true_iff.
  intros [Hc Ha]. apply negb_true_iff in Hc. rewrite find_wild_step by now apply wild_here_nonslash. now apply IH.
Qed.

Lemma replace_wild_noslash a : forall f T, noslash a = true -> length a <= f ->
  replace_wild_all f (a ++ T) = a ++ replace_wild_all (f - length a) T.
Proof.
  induction a as [|c a IH]; intros f T Hn Hl.
  - cbn [app length]. now rewrite Nat.sub_0_r.
  - unfold noslash in *. cbn [forallb] in Hn. apply andb_true_iff in Hn as [Hc Ha]. apply negb_true_iff in Hc.
    destruct f as [|f]; [cbn in Hl; lia|]. cbn [app length] in *.
    rewrite replace_wild_step by now apply wild_here_nonslash. cbn [Nat.sub]. rewrite IH; [reflexivity|assumption|lia].
Qed.

Lemma span_name_run n : forall t, forallb is_name_byte n = true ->
  match t with c :: _ => is_name_byte c = false | [] => True end -> span_name (n ++ t) = (n, t).
Proof.
  induction n as [|c n IH]; intros t Hn Ht.
  - cbn [app]. destruct t as [|d t']; [reflexivity|]. cbn [span_name]. now rewrite Ht.
  - cbn [forallb] in Hn. apply andb_true_iff in Hn as [Hc Hn]. cbn [app span_name]. rewrite Hc, (IH t Hn Ht). reflexivity.
Qed.

Lemma wild_here_catchall n : name_ok n = true ->
  wild_here (slash :: lbrace :: star :: n ++ [rbrace]) = Some (n, []).
Proof.
  unfold name_ok. rewrite andb_true_iff. intros [Hne Hn]. cbn [wild_here].
  rewrite !byte_eqb_refl. cbn [andb]. rewrite (span_name_run n [rbrace] Hn eq_refl).
  rewrite Hne, byte_eqb_refl. reflexivity.
Qed.

(* the name the regexp captures obeys the documented grammar [a-zA-Z0-9_]+ *)
Lemma span_name_ok s n t : span_name s = (n, t) -> forallb is_name_byte n = true.
Proof.
  revert n t. induction s as [|c r IH]; intros n t H; cbn [span_name] in H.
  - injection H as <- _. reflexivity.
  - destruct (is_name_byte c) eqn:Ec.
    + destruct (span_name r) as [n' t'] eqn:E. injection H as <- _. cbn [forallb]. rewrite Ec. exact (IH _ _ eq_refl).
    + injection H as <- _. reflexivity.
Qed.

Lemma wild_here_name_ok s n t : wild_here s = Some (n, t) -> name_ok n = true.
Proof.
  destruct s as [|a [|b [|c r]]]; try discriminate. cbn [wild_here].
  destruct (Byte.eqb a slash && Byte.eqb b lbrace && Byte.eqb c star); [|discriminate].
  destruct (span_name r) as [n' [|d t']] eqn:E; [discriminate|].
  destruct (negb (is_nil n') && Byte.eqb d rbrace) eqn:C; [|discriminate]. intro H. injection H as <- _.
  apply andb_true_iff in C as [C _]. unfold name_ok. rewrite C. exact (span_name_ok _ _ _ E).
Qed.

Lemma find_wild_name_ok s n : find_wild s = Some n -> name_ok n = true.
Proof.
  induction s as [|c r IH]; [discriminate|]. cbn [find_wild].
  destruct (wild_here (c :: r)) as [[n' t]|] eqn:E.
  - intro H. injection H as <-. exact (wild_here_name_ok _ _ _ E).
  - exact IH.
Qed.

(* a '/' followed by a literal or {name} segment does not start a match *)
Lemma wild_here_plain_seg x rest : seg_wf x = true -> (forall n, x <> CatchAll n) -> render_seg true x <> [] ->
  wild_here (slash :: render_seg true x ++ rest) = None.
Proof.
  intros Hw Hnc Hne. destruct x as [l|n|n]; cbn [render_seg seg_wf] in *.
  - destruct l as [|b l']; [congruence|]. cbn [forallb] in Hw. apply andb_true_iff in Hw as [Hb _].
    destruct (plain_facts b Hb) as (_ & _ & _ & _ & _ & Hlb & _).
    cbn [app]. destruct (l' ++ rest) as [|c r']; cbn [wild_here]; [reflexivity|]. rewrite Hlb, andb_false_r. reflexivity.
  - unfold name_ok in Hw. apply andb_true_iff in Hw as [Hne' Hn]. destruct n as [|c n']; [discriminate|].
    cbn [forallb] in Hn. apply andb_true_iff in Hn as [Hc _]. destruct (name_byte_facts c Hc) as (_ & Hst & _).
    cbn [app wild_here]. rewrite Hst, andb_false_r. reflexivity.
  - exfalso. now apply (Hnc n).
Qed.

Lemma render_seg_true_noslash x : seg_wf x = true -> (forall n, x <> CatchAll n) -> noslash (render_seg true x) = true.
Proof.
  intros Hw Hnc. destruct x as [l|n|n]; [| |exfalso; now apply (Hnc n)].
  - exact (rs_noslash (Lit l) Hw).
  - exact (rs_noslash (Var n) Hw).
Qed.

Lemma render_seg_same x : (forall n, x <> CatchAll n) -> render_seg false x = render_seg true x.
Proof. destruct x; try reflexivity. intro H. exfalso. now apply (H n). Qed.

Definition Jt (p : pattern) : bstr := join_slash (map (render_seg true) p).
Definition Jf (p : pattern) : bstr := join_slash (map (render_seg false) p).

Lemma rewrite_segments p : wf_segs p = true -> p <> [] -> forall f, length (slash :: Jt p) <= f ->
  find_wild (slash :: Jt p) = catchall_name p /\ replace_wild_all f (slash :: Jt p) = slash :: Jf p.
Proof.
  induction p as [|x r IH]; [congruence|]. intros Hw _ f Hf. unfold Jt, Jf in *.
  assert (Hx : seg_wf x = true /\ render_seg true x <> []).
  { destruct x as [l|n|n]; cbn [wf_segs seg_wf render_seg] in *; rewrite ?andb_true_iff in Hw.
    - destruct Hw as [[Hne Hp] _]. split; [assumption|]. destruct l; [discriminate|discriminate].
    - destruct Hw as [Hn _]. split; [assumption|discriminate].
    - destruct Hw as [Hn _]. split; [assumption|discriminate]. }
  destruct Hx as [Hsx Hnx]. destruct r as [|y r'].
  - cbn [map join_slash] in *. destruct x as [l|n|n].
    + assert (Hnc : forall m, Lit l <> CatchAll m) by discriminate.
      pose proof (wild_here_plain_seg (Lit l) [] Hsx Hnc Hnx) as Hh. rewrite app_nil_r in Hh.
      pose proof (render_seg_true_noslash (Lit l) Hsx Hnc) as Hns. cbn [render_seg] in *. split.
      * rewrite find_wild_step by assumption. rewrite <- (app_nil_r l), find_wild_noslash by assumption. reflexivity.
      * destruct f as [|f]; [cbn in Hf; lia|]. rewrite replace_wild_step by assumption.
        rewrite <- (app_nil_r l) at 1. rewrite replace_wild_noslash; [|assumption|cbn in Hf; lia].
        now rewrite replace_wild_nil, app_nil_r.
    + assert (Hnc : forall m, Var n <> CatchAll m) by discriminate.
      pose proof (wild_here_plain_seg (Var n) [] Hsx Hnc Hnx) as Hh. rewrite app_nil_r in Hh.
      pose proof (render_seg_true_noslash (Var n) Hsx Hnc) as Hns. cbn [render_seg] in *. split.
      * rewrite find_wild_step by assumption. rewrite <- (app_nil_r (lbrace :: n ++ [rbrace])), find_wild_noslash by assumption. reflexivity.
      * destruct f as [|f]; [cbn in Hf; lia|]. rewrite replace_wild_step by assumption.
        rewrite <- (app_nil_r (lbrace :: n ++ [rbrace])) at 1. rewrite replace_wild_noslash; [|assumption|cbn [length] in *; lia].
        now rewrite replace_wild_nil, app_nil_r.
    + cbn [render_seg seg_wf catchall_name] in *. pose proof (wild_here_catchall n Hsx) as Hh. split.
      * cbn [find_wild]. now rewrite Hh.
      * destruct f as [|f]; [cbn in Hf; lia|]. cbn [replace_wild_all]. rewrite Hh, replace_wild_nil. reflexivity.
  - assert (Hnc : forall m, x <> CatchAll m).
    { intros m ->. cbn [wf_segs] in Hw. apply andb_true_iff in Hw as [_ Hw]. discriminate. }
    assert (Hr : wf_segs (y :: r') = true).
    { destruct x; cbn [wf_segs] in Hw; rewrite ?andb_true_iff in Hw; try tauto. exfalso. now apply (Hnc n). }
    rewrite !join_map_cons in *. rewrite (render_seg_same x Hnc).
    pose proof (wild_here_plain_seg x (slash :: join_slash (map (render_seg true) (y :: r'))) Hsx Hnc Hnx) as Hh.
    pose proof (render_seg_true_noslash x Hsx Hnc) as Hns.
    destruct f as [|f]; [cbn in Hf; lia|].
    assert (Hlen : length (render_seg true x) <= f /\
                   length (slash :: join_slash (map (render_seg true) (y :: r'))) <= f - length (render_seg true x)).
    { cbn [length] in *. rewrite app_length in Hf. cbn [length] in Hf. lia. }
    destruct Hlen as [Hl1 Hl2].
    destruct (IH Hr ltac:(discriminate) (f - length (render_seg true x)) Hl2) as [IH1 IH2]. split.
    + rewrite find_wild_step by assumption. rewrite find_wild_noslash by assumption. rewrite IH1.
      destruct x; reflexivity.
    + rewrite replace_wild_step by assumption. rewrite replace_wild_noslash by assumption. now rewrite IH2.
Qed.

(* Handle's text rewrite agrees with the structured model: chi gets chi_render p, the table
   gets the catch-all's name, nothing is rewritten when there is no catch-all *)
Lemma rewrite_pattern_render p : wf_pattern p = true ->
  rewrite_pattern (goa_render p) = (chi_render p, catchall_name p).
Proof.
  intro Hw. destruct p as [|x r]; [discriminate|].
  assert (Hc : (x :: r = [Lit []]) \/ (wf_segs (x :: r) = true)).
  { destruct x as [l| |]; try (now right). destruct l; [|now right]. destruct r; [now left|now right]. }
  destruct Hc as [->|Hs]; [reflexivity|].
  destruct (rewrite_segments (x :: r) Hs ltac:(discriminate) (length (goa_render (x :: r))) (le_n _)) as [H1 H2].
  unfold rewrite_pattern. change (goa_render (x :: r)) with (slash :: Jt (x :: r)) in *. rewrite H1.
  pose proof (wf_pattern_ca_last _ Hw) as Hca.
  destruct (catchall_name (x :: r)) as [n|] eqn:Cn.
  - now rewrite H2.
  - f_equal. symmetry. now apply render_no_catchall.
Qed.

Lemma rewrite_pattern_no_match s : find_wild s = None -> rewrite_pattern s = (s, None).
Proof. intro H. unfold rewrite_pattern. now rewrite H. Qed.

(* ------------------------------------------------------ chi's precedence is sound *)

Lemma matches_nil_segs q : is_some (matches q []) = true -> q = [].
Proof. destruct q as [|s q]; [reflexivity|]. destruct s; discriminate. Qed.

Lemma filter_head {A} (f : A -> bool) (l : list A) x t : filter f l = x :: t -> In x l /\ f x = true.
Proof. intro H. apply filter_In. rewrite H. now left. Qed.

Lemma filter_nil_false {A} (f : A -> bool) (l : list A) x : filter f l = [] -> In x l -> f x = false.
Proof.
  intros H Hin. destruct (f x) eqn:E; [|reflexivity]. assert (Hx : In x (filter f l)) by (apply filter_In; now split).
  rewrite H in Hx. contradiction.
Qed.

Lemma first_done_some st r : first_done st = Some r -> In (r, []) st.
Proof.
  unfold first_done. match goal with |- context [filter ?f st] => destruct (filter f st) as [|[r0 q0] l] eqn:F end; [discriminate|].
  cbn [fst]. intro H. injection H as <-. apply filter_head in F as [Hin Hq]. cbn [snd] in Hq. apply is_nil_true in Hq. now subst.
Qed.

Lemma first_done_complete st r : In (r, []) st -> first_done st <> None.
Proof.
  intro Hin. unfold first_done. match goal with |- context [filter ?f st] => destruct (filter f st) as [|rp l] eqn:F end; [|discriminate].
  pose proof (filter_nil_false _ _ _ F Hin) as H. discriminate H.
Qed.

Lemma first_catchall_some st r : first_catchall st = Some r -> exists n q, In (r, CatchAll n :: q) st.
Proof.
  unfold first_catchall. match goal with |- context [filter ?f st] => destruct (filter f st) as [|[r0 q0] l] eqn:F end; [discriminate|].
  cbn [fst]. intro H. injection H as <-. apply filter_head in F as [Hin Hq]. cbn [snd] in Hq.
  destruct q0 as [|[| |n] q0]; try discriminate. now exists n, q0.
Qed.

Lemma first_catchall_complete st r n q : In (r, CatchAll n :: q) st -> first_catchall st <> None.
Proof.
  intro Hin. unfold first_catchall. match goal with |- context [filter ?f st] => destruct (filter f st) as [|rp l] eqn:F end; [|discriminate].
  pose proof (filter_nil_false _ _ _ F Hin) as H. discriminate H.
Qed.

Lemma chi_dfs_in segs : forall st r, chi_dfs segs st = Some r ->
  exists q, In (r, q) st /\ is_some (matches q segs) = true.
Proof.
  induction segs as [|x segs' IH]; intros st r H.
  - cbn [chi_dfs] in H. apply first_done_some in H. now exists [].
  - cbn [chi_dfs] in H. destruct (chi_dfs segs' (adv_lit x st)) as [r1|] eqn:E1.
    + injection H as <-. destruct (IH _ _ E1) as (q & Hin & Hm). unfold adv_lit in Hin.
      apply in_flat_map in Hin as ([r0 p0] & Hin0 & Hin1). cbn [fst snd] in Hin1.
      destruct p0 as [|[s| |] q0]; try contradiction. destruct (beq s x) eqn:B; [|contradiction].
      destruct Hin1 as [Heq|[]]. injection Heq as <- <-. exists (Lit s :: q0). split; [assumption|].
      cbn [matches]. now rewrite B.
    + destruct (is_nil x && is_nil segs') eqn:C.
      * apply first_catchall_some in H as (n & q0 & Hin). exists (CatchAll n :: q0). split; [assumption|reflexivity].
      * destruct (chi_dfs segs' (adv_var st)) as [r2|] eqn:E2.
        -- injection H as <-. destruct (IH _ _ E2) as (q & Hin & Hm). unfold adv_var in Hin.
           apply in_flat_map in Hin as ([r0 p0] & Hin0 & Hin1). cbn [fst snd] in Hin1.
           destruct p0 as [|[|n|] q0]; try contradiction. destruct Hin1 as [Heq|[]]. injection Heq as <- <-.
           exists (Var n :: q0). split; [assumption|]. cbn [matches]. rewrite C.
           destruct (matches q0 segs'); [reflexivity|discriminate].
        -- apply first_catchall_some in H as (n & q0 & Hin). exists (CatchAll n :: q0). split; [assumption|reflexivity].
Qed.

Lemma chi_dfs_complete segs : forall st r q, In (r, q) st -> is_some (matches q segs) = true ->
  chi_dfs segs st <> None.
Proof.
  induction segs as [|x segs' IH]; intros st r q Hin Hm.
  - apply matches_nil_segs in Hm. subst q. cbn [chi_dfs]. now apply (first_done_complete st r).
  - cbn [chi_dfs]. destruct q as [|[s|n|n] q0]; [discriminate| | |].
    + cbn [matches] in Hm. destruct (beq s x) eqn:B; [|discriminate].
      assert (Hin' : In (r, q0) (adv_lit x st)).
      { unfold adv_lit. apply in_flat_map. exists (r, Lit s :: q0). split; [assumption|]. cbn [fst snd]. rewrite B. now left. }
      pose proof (IH _ _ _ Hin' Hm) as Hn. destruct (chi_dfs segs' (adv_lit x st)); [discriminate|contradiction].
    + cbn [matches] in Hm. destruct (is_nil x && is_nil segs') eqn:C; [discriminate|].
      destruct (matches q0 segs') eqn:Em; [|discriminate].
      destruct (chi_dfs segs' (adv_lit x st)); [discriminate|].
      assert (Hin' : In (r, q0) (adv_var st)).
      { unfold adv_var. apply in_flat_map. exists (r, Var n :: q0). split; [assumption|]. now left. }
      assert (Hm' : is_some (matches q0 segs') = true) by now rewrite Em.
      pose proof (IH _ _ _ Hin' Hm') as Hn. destruct (chi_dfs segs' (adv_var st)); [discriminate|contradiction].
    + destruct (chi_dfs segs' (adv_lit x st)); [discriminate|].
      destruct (if is_nil x && is_nil segs' then None else chi_dfs segs' (adv_var st)); [discriminate|].
      now apply (first_catchall_complete st r n q0).
Qed.

(* what chi_pick returns is one of the candidates and matches the path *)
Lemma chi_pick_in segs cs r : chi_pick segs cs = Some r ->
  In r cs /\ is_some (matches (r_pat r) segs) = true.
Proof.
  unfold chi_pick. intro H. destruct (chi_dfs_in _ _ _ H) as (q & Hin & Hm).
  apply in_map_iff in Hin as (r0 & Heq & Hin). injection Heq as <- <-. now split.
Qed.

(* it always answers when some candidate matches: backtracking makes the search complete *)
Lemma chi_pick_complete segs cs r : In r cs -> is_some (matches (r_pat r) segs) = true ->
  chi_pick segs cs <> None.
Proof.
  intros Hin Hm. unfold chi_pick. apply (chi_dfs_complete segs _ r (r_pat r)); [|assumption].
  apply in_map_iff. now exists r.
Qed.

Lemma chi_pick_total_sound : sound chi_pick_total.
Proof.
  intros segs cs. unfold chi_pick_total. destruct (chi_pick segs cs) as [r|] eqn:E.
  - exact (proj1 (chi_pick_in _ _ _ E)).
  - destruct cs as [|r cs']; [reflexivity|now left].
Qed.

(* on the matching set of a request the total version IS chi's precedence *)
Lemma chi_pick_total_on_cands m me segs : chi_pick_total segs (cands m me segs) = chi_pick segs (cands m me segs).
Proof.
  unfold chi_pick_total. destruct (chi_pick segs (cands m me segs)) as [r|] eqn:E; [reflexivity|].
  destruct (cands m me segs) as [|r cs'] eqn:Ec; [reflexivity|]. exfalso.
  assert (Hin : In r (cands m me segs)) by (rewrite Ec; now left).
  unfold cands in Hin. apply filter_In in Hin as [_ Hm]. apply andb_true_iff in Hm as [_ Hm].
  rewrite <- Ec in E. refine (chi_pick_complete segs (cands m me segs) r _ Hm E). rewrite Ec. now left.
Qed.
