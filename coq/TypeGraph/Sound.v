(* TypeGraph engine — soundness of the hash inside the class [cls] (hash_sound_partial):
   the string the hasher builds for a type without user types can be parsed back. *)
From TypeGraph Require Import Model Lemmas.
From Coq Require Import Lia Permutation ZifyBool ZifyNat ZifyN.

(* ---- byte strings ---- *)

Lemma split_at (c : N) a b x y : ~ In c a -> ~ In c b -> a ++ c :: x = b ++ c :: y -> a = b /\ x = y.
Proof.
  revert b. induction a as [|p a IH]; intros [|q b] Ha Hb H; simpl in *.
  - injection H as ->. auto.
  - injection H as <- _. exfalso. apply Hb. now left.
  - injection H as -> _. exfalso. apply Ha. now left.
  - injection H as -> H. destruct (IH b) as [-> ->]; auto.
Qed.

(* a stop byte: ':' '-' '_' *)
Definition stop (c : N) : Prop := c = 58%N \/ c = 45%N \/ c = 95%N.
Definition stops (r : bytes) : Prop := match r with [] => True | c :: _ => stop c end.
Definition no_stop (s : bytes) : Prop := forall c, In c s -> ~ stop c.

Lemma split_stop a b x y : no_stop a -> no_stop b -> stops x -> stops y -> a ++ x = b ++ y -> a = b /\ x = y.
Proof.
  revert b. induction a as [|p a IH]; intros [|q b] Ha Hb Hx Hy H; simpl in *.
  - auto.
  - subst x. simpl in Hx. exfalso. apply (Hb q); [now left|exact Hx].
  - subst y. simpl in Hy. exfalso. apply (Ha p); [now left|exact Hy].
  - injection H as -> H. destruct (IH b) as [-> ->]; auto.
    + intros c Hc. apply Ha. now right.
    + intros c Hc. apply Hb. now right.
Qed.

Lemma prim_name_no_stop p : no_stop (prim_name p).
Proof.
  intros c Hc [H|[H|H]]; subst c; destruct p; simpl in Hc;
    repeat (destruct Hc as [Hc|Hc]; [discriminate Hc|]); exact Hc.
Qed.

Lemma prim_name_inj p q : prim_name p = prim_name q -> p = q.
Proof. destruct p, q; simpl; intro H; try reflexivity; discriminate H. Qed.

Lemma prim_names_parse p q r1 r2 : stops r1 -> stops r2 -> prim_name p ++ r1 = prim_name q ++ r2 -> p = q /\ r1 = r2.
Proof.
  intros H1 H2 H. destruct (split_stop _ _ _ _ (prim_name_no_stop p) (prim_name_no_stop q) H1 H2 H) as [Hn Hr].
  split; [now apply prim_name_inj|exact Hr].
Qed.

Lemma prim_name_head p : exists c s, prim_name p = c :: s /\ c <> 95%N.
Proof. destruct p; simpl; eexists _, _; (split; [reflexivity|discriminate]). Qed.

(* ---- sorting commutes with a key preserving map ---- *)
Section SortMap.
  Context {A B : Type} (key : A -> bytes) (key' : B -> bytes) (g : A -> B).
  Hypothesis g_key : forall x, key' (g x) = key x.

  Lemma insert_map x l : insert key' (g x) (map g l) = map g (insert key x l).
  Proof.
    induction l as [|y r IH]; simpl; [reflexivity|]. rewrite !g_key.
    destruct (blt (key y) (key x)); simpl; [now rewrite IH|reflexivity].
  Qed.

  Lemma isort_map l : isort key' (map g l) = map g (isort key l).
  Proof. induction l as [|x r IH]; simpl; [reflexivity|]. now rewrite IH, insert_map. Qed.
End SortMap.

(* ---- how a hash ends ---- *)
Definition ends (t : ty) : bool * bool := snd (hp t).
Definition dash (t : ty) : bool := fst (ends t).
Definition star (t : ty) : bool := snd (ends t).

Definition last_field (L : list (fld ty)) : option (fld ty) := match rev L with [] => None | f :: _ => Some f end.
Definition dash_last (L : list (fld ty)) : bool := match last_field L with Some f => dash (ftype f) | None => false end.
Definition star_last (L : list (fld ty)) : bool := match last_field L with Some f => star (ftype f) | None => false end.

Definition entry (f : fld ty) : bytes * (bytes * (bool * bool)) := (fname f, hp (ftype f)).

Lemma sorted_entries fs : isort fst (map entry fs) = map entry (isort fname fs).
Proof. apply isort_map. reflexivity. Qed.

Lemma last_ends_entries L : last_ends (map entry L) = match last_field L with Some f => ends (ftype f) | None => (false, false) end.
Proof.
  unfold last_ends, last_field. rewrite <- map_rev. destruct (rev L) as [|f r]; simpl; [reflexivity|].
  unfold ends. now destruct (hp (ftype f)) as [h e].
Qed.

Definition obj_body (L : list (fld ty)) : bytes :=
  flat_map (fun f => attributePrefix ++ fname f ++ attributeTypePrefix ++ hpure (ftype f)) L.
Definition union_body (L : list (fld ty)) : bytes :=
  flat_map (fun f => unionAttributePrefix ++ fname f ++ unionAttributeTypePrefix ++ hpure (ftype f)) L.

Lemma flat_map_map {A B C} (g : A -> B) (h : B -> list C) l : flat_map h (map g l) = flat_map (fun x => h (g x)) l.
Proof. induction l as [|x r IH]; simpl; [reflexivity|]. now rewrite IH. Qed.

Lemma hp_obj key fs :
  hp (TObj key fs) = (objectPrefix ++ obj_body (isort fname fs), (true, star_last (isort fname fs))).
Proof.
  simpl. fold entry. rewrite sorted_entries, flat_map_map, last_ends_entries. unfold star_last, obj_body.
  f_equal. f_equal. destruct (last_field (isort fname fs)); reflexivity.
Qed.

Lemma hp_union nm vs :
  hp (TUnion nm vs) = (unionTypePrefix ++ nm ++ union_body (isort fname vs), (dash_last (isort fname vs), true)).
Proof.
  simpl. fold entry. rewrite sorted_entries, flat_map_map, last_ends_entries. unfold dash_last, union_body.
  f_equal. f_equal. destruct (last_field (isort fname vs)); reflexivity.
Qed.

Lemma last_field_cons f g L : last_field (f :: g :: L) = last_field (g :: L).
Proof.
  unfold last_field. simpl. destruct (rev L ++ [g]) as [|x r] eqn:E.
  - destruct (rev L); discriminate E.
  - reflexivity.
Qed.

(* ---- the context a hash may be followed by ---- *)
Definition starts_star (r : bytes) : Prop := exists r', r = 95%N :: 42%N :: 95%N :: r'.

Definition ctx (e : bool * bool) (r : bytes) : Prop :=
  r = [] \/ (exists r', r = 58%N :: r') \/ ((exists r', r = 45%N :: r') /\ fst e = false) \/ (starts_star r /\ snd e = false).

Lemma ctx_stops e r : ctx e r -> stops r.
Proof.
  intros [->|[(r' & ->)|[((r' & ->) & _)|((r' & ->) & _)]]]; simpl; unfold stop; auto.
Qed.

Lemma ctx_colon e r : ctx e (58%N :: r).
Proof. right. left. now exists r. Qed.

Lemma ctx_not_dash e r : ctx (true, e) (45%N :: r) -> False.
Proof.
  intros [H|[(r' & H)|[(_ & H)|((r' & H) & _)]]]; try discriminate H.
Qed.

Lemma ctx_not_star e r : ctx (e, true) (95%N :: 42%N :: 95%N :: r) -> False.
Proof.
  intros [H|[(r' & H)|[((r' & H) & _)|(_ & H)]]]; try discriminate H.
Qed.

Lemma ends_pair t : ends t = (dash t, star t).
Proof. unfold dash, star. now destruct (ends t). Qed.

Lemma ctx_last_obj t r : ctx (true, star t) r -> ctx (ends t) r.
Proof.
  rewrite ends_pair. intros [H|[H|[(_ & H)|(H1 & H2)]]]; [now left|right; now left|discriminate H|].
  right. right. right. split; [exact H1|exact H2].
Qed.

Lemma ctx_weaken_obj b r : ctx (true, b) r -> ctx (true, false) r.
Proof.
  intros [H|[H|[(_ & H)|(H1 & H2)]]]; [now left|right; now left|discriminate H|].
  right. right. right. split; [exact H1|reflexivity].
Qed.

Lemma ctx_last_union t r : ctx (dash t, true) r -> ctx (ends t) r.
Proof.
  rewrite ends_pair. intros [H|[H|[(H1 & H2)|(_ & H)]]]; [now left|right; now left| |discriminate H].
  right. right. left. split; [exact H1|exact H2].
Qed.

Lemma ctx_weaken_union b r : ctx (b, true) r -> ctx (false, true) r.
Proof.
  intros [H|[H|[(H1 & H2)|(_ & H)]]]; [now left|right; now left| |discriminate H].
  right. right. left. split; [exact H1|reflexivity].
Qed.

Lemma ctx_dash t r : dash t = false -> ctx (ends t) (45%N :: r).
Proof. intro H. rewrite ends_pair. right. right. left. split; [now exists r|exact H]. Qed.

Lemma ctx_star t r : star t = false -> ctx (ends t) (95%N :: 42%N :: 95%N :: r).
Proof. intro H. rewrite ends_pair. right. right. right. split; [now exists r|exact H]. Qed.

Lemma hpure_prim p : hpure (TPrim p) = prim_name p. Proof. reflexivity. Qed.
Lemma hpure_arr i e : hpure (TArr i e) = 95%N :: 97%N :: 95%N :: hpure e. Proof. reflexivity. Qed.
Lemma hpure_map ki k ei e : hpure (TMap ki k ei e) = 95%N :: 109%N :: 95%N :: hpure k ++ 58%N :: hpure e. Proof. reflexivity. Qed.
Lemma hpure_obj key fs : hpure (TObj key fs) = 95%N :: 111%N :: 95%N :: obj_body (isort fname fs).
Proof. unfold hpure. now rewrite hp_obj. Qed.
Lemma hpure_union nm vs : hpure (TUnion nm vs) = 95%N :: 117%N :: 95%N :: nm ++ union_body (isort fname vs).
Proof. unfold hpure. now rewrite hp_union. Qed.
Lemma ends_prim p : ends (TPrim p) = (false, false). Proof. reflexivity. Qed.
Lemma ends_arr i e : ends (TArr i e) = ends e. Proof. reflexivity. Qed.
Lemma ends_map ki k ei e : ends (TMap ki k ei e) = ends e. Proof. reflexivity. Qed.
Lemma ends_obj key fs : ends (TObj key fs) = (true, star_last (isort fname fs)).
Proof. unfold ends. now rewrite hp_obj. Qed.
Lemma ends_union nm vs : ends (TUnion nm vs) = (dash_last (isort fname vs), true).
Proof. unfold ends. now rewrite hp_union. Qed.

Lemma obj_body_cons f L :
  obj_body (f :: L) = 45%N :: fname f ++ 47%N :: hpure (ftype f) ++ obj_body L.
Proof. unfold obj_body. simpl. now rewrite <- !app_assoc. Qed.
Lemma union_body_cons f L :
  union_body (f :: L) = 95%N :: 42%N :: 95%N :: fname f ++ 95%N :: 124%N :: 95%N :: hpure (ftype f) ++ union_body L.
Proof. unfold union_body. simpl. now rewrite <- !app_assoc. Qed.

Definition Pty (t1 : ty) : Prop :=
  forall t2 r1 r2, cls t1 -> cls t2 -> ctx (ends t1) r1 -> ctx (ends t2) r2 ->
                   hpure t1 ++ r1 = hpure t2 ++ r2 -> tsim t1 t2 /\ r1 = r2.

Definition field_ok (c : N) (f : fld ty) : Prop := no_byte c (fname f) /\ cls (ftype f).
Definition frel (f f' : fld ty) : Prop := fname f = fname f' /\ tsim (ftype f) (ftype f').

Lemma obj_fields_parse L1 :
  Forall (fun f => Pty (ftype f)) L1 ->
  forall L2 r1 r2,
    Forall (field_ok 47) L1 -> Forall (field_ok 47) L2 ->
    all_but_last (fun f => dash (ftype f) = false) L1 -> all_but_last (fun f => dash (ftype f) = false) L2 ->
    ctx (true, star_last L1) r1 -> ctx (true, star_last L2) r2 ->
    obj_body L1 ++ r1 = obj_body L2 ++ r2 -> Forall2 frel L1 L2 /\ r1 = r2.
Proof.
  induction L1 as [|f1 L1 IH]; intros HP L2 r1 r2 Hok1 Hok2 Hab1 Hab2 Hc1 Hc2 H.
  - destruct L2 as [|f2 L2]; [split; [constructor|exact H]|].
    rewrite obj_body_cons in H. simpl in H. subst r1. exfalso. exact (ctx_not_dash _ _ Hc1).
  - destruct L2 as [|f2 L2].
    { rewrite obj_body_cons in H. simpl in H. subst r2. exfalso. exact (ctx_not_dash _ _ Hc2). }
    rewrite !obj_body_cons in H. cbn [app] in H. rewrite <- !app_assoc in H. cbn [app] in H.
    injection H as H.
    inversion Hok1 as [|? ? [Hn1 Hcl1] Hok1']; subst. inversion Hok2 as [|? ? [Hn2 Hcl2] Hok2']; subst.
    inversion HP as [|? ? HP1 HP']; subst.
    destruct (split_at 47%N _ _ _ _ Hn1 Hn2 H) as [Hname Hrest]. rewrite <- !app_assoc in Hrest.
    assert (Hctx1 : ctx (ends (ftype f1)) (obj_body L1 ++ r1)).
    { destruct L1 as [|g L1'].
      - simpl. apply ctx_last_obj. exact Hc1.
      - rewrite obj_body_cons. cbn [app]. apply ctx_dash. simpl in Hab1. tauto. }
    assert (Hctx2 : ctx (ends (ftype f2)) (obj_body L2 ++ r2)).
    { destruct L2 as [|g L2'].
      - simpl. apply ctx_last_obj. exact Hc2.
      - rewrite obj_body_cons. cbn [app]. apply ctx_dash. simpl in Hab2. tauto. }
    destruct (HP1 (ftype f2) _ _ Hcl1 Hcl2 Hctx1 Hctx2 Hrest) as [Hsim Hrest'].
    destruct (IH HP' L2 r1 r2 Hok1' Hok2') as [HF Hr]; try assumption.
    + destruct L1 as [|g L1']; [exact I|]. simpl in Hab1. tauto.
    + destruct L2 as [|g L2']; [exact I|]. simpl in Hab2. tauto.
    + destruct L1 as [|g L1']; [apply (ctx_weaken_obj _ _ Hc1)|]. unfold star_last in *. now rewrite last_field_cons in Hc1.
    + destruct L2 as [|g L2']; [apply (ctx_weaken_obj _ _ Hc2)|]. unfold star_last in *. now rewrite last_field_cons in Hc2.
    + split; [|exact Hr]. constructor; [split; assumption|exact HF].
Qed.

Lemma app_tail_inj {A} (a b : list A) x : a ++ [x] = b ++ [x] -> a = b.
Proof. intro H. now apply app_inj_tail in H as [H _]. Qed.

Lemma union_values_parse L1 :
  Forall (fun f => Pty (ftype f)) L1 ->
  forall L2 r1 r2,
    Forall (field_ok 124) L1 -> Forall (field_ok 124) L2 ->
    all_but_last (fun f => star (ftype f) = false) L1 -> all_but_last (fun f => star (ftype f) = false) L2 ->
    ctx (dash_last L1, true) r1 -> ctx (dash_last L2, true) r2 ->
    union_body L1 ++ r1 = union_body L2 ++ r2 -> Forall2 frel L1 L2 /\ r1 = r2.
Proof.
  induction L1 as [|f1 L1 IH]; intros HP L2 r1 r2 Hok1 Hok2 Hab1 Hab2 Hc1 Hc2 H.
  - destruct L2 as [|f2 L2]; [split; [constructor|exact H]|].
    rewrite union_body_cons in H. simpl in H. subst r1. exfalso. exact (ctx_not_star _ _ Hc1).
  - destruct L2 as [|f2 L2].
    { rewrite union_body_cons in H. simpl in H. subst r2. exfalso. exact (ctx_not_star _ _ Hc2). }
    rewrite !union_body_cons in H. cbn [app] in H. rewrite <- !app_assoc in H. cbn [app] in H.
    injection H as H.
    inversion Hok1 as [|? ? [Hn1 Hcl1] Hok1']; subst. inversion Hok2 as [|? ? [Hn2 Hcl2] Hok2']; subst.
    inversion HP as [|? ? HP1 HP']; subst.
    (* the name ends at the first '|' *)
    assert (H' : (fname f1 ++ [95%N]) ++ 124%N :: 95%N :: hpure (ftype f1) ++ union_body L1 ++ r1
               = (fname f2 ++ [95%N]) ++ 124%N :: 95%N :: hpure (ftype f2) ++ union_body L2 ++ r2).
    { rewrite <- !app_assoc in H. rewrite <- !app_assoc. cbn [app]. exact H. }
    assert (Hn1' : ~ In 124%N (fname f1 ++ [95%N])).
    { intro C. apply in_app_or in C as [C|[C|[]]]; [now apply Hn1|discriminate C]. }
    assert (Hn2' : ~ In 124%N (fname f2 ++ [95%N])).
    { intro C. apply in_app_or in C as [C|[C|[]]]; [now apply Hn2|discriminate C]. }
    destruct (split_at 124%N _ _ _ _ Hn1' Hn2' H') as [Hname Hrest]. apply app_tail_inj in Hname.
    injection Hrest as Hrest.
    assert (Hctx1 : ctx (ends (ftype f1)) (union_body L1 ++ r1)).
    { destruct L1 as [|g L1'].
      - simpl. apply ctx_last_union. exact Hc1.
      - rewrite union_body_cons. cbn [app]. apply ctx_star. simpl in Hab1. tauto. }
    assert (Hctx2 : ctx (ends (ftype f2)) (union_body L2 ++ r2)).
    { destruct L2 as [|g L2'].
      - simpl. apply ctx_last_union. exact Hc2.
      - rewrite union_body_cons. cbn [app]. apply ctx_star. simpl in Hab2. tauto. }
    destruct (HP1 (ftype f2) _ _ Hcl1 Hcl2 Hctx1 Hctx2 Hrest) as [Hsim Hrest'].
    destruct (IH HP' L2 r1 r2 Hok1' Hok2') as [HF Hr]; try assumption.
    + destruct L1 as [|g L1']; [exact I|]. simpl in Hab1. tauto.
    + destruct L2 as [|g L2']; [exact I|]. simpl in Hab2. tauto.
    + destruct L1 as [|g L1']; [apply (ctx_weaken_union _ _ Hc1)|]. unfold dash_last in *. now rewrite last_field_cons in Hc1.
    + destruct L2 as [|g L2']; [apply (ctx_weaken_union _ _ Hc2)|]. unfold dash_last in *. now rewrite last_field_cons in Hc2.
    + split; [|exact Hr]. constructor; [split; assumption|exact HF].
Qed.

Lemma all_but_last_map {A B} (g : A -> B) (P : B -> Prop) l : all_but_last P (map g l) <-> all_but_last (fun x => P (g x)) l.
Proof.
  induction l as [|x [|y r] IH]; simpl in *; tauto.
Qed.

Lemma fold_conj_Forall (P : fld ty -> Prop) fs : fold_right (fun f acc => P f /\ acc) True fs <-> Forall P fs.
Proof.
  induction fs as [|f r IH]; simpl.
  - split; [constructor|trivial].
  - split.
    + intros [H1 H2]. constructor; [exact H1|now apply IH].
    + intro H. inversion H; subst. split; [assumption|now apply IH].
Qed.

Lemma cls_obj key fs : cls (TObj key fs) ->
  Forall (field_ok 47) (isort fname fs) /\ all_but_last (fun f => dash (ftype f) = false) (isort fname fs).
Proof.
  intros (_ & Hf & Hab). split.
  - eapply Forall_perm; [apply isort_perm|]. apply (fold_conj_Forall (field_ok 47)). exact Hf.
  - fold entry in Hab. rewrite sorted_entries in Hab. apply all_but_last_map in Hab. exact Hab.
Qed.

Lemma cls_union nm vs : cls (TUnion nm vs) ->
  union_name_ok nm /\ Forall (field_ok 124) (isort fname vs) /\ all_but_last (fun f => star (ftype f) = false) (isort fname vs).
Proof.
  intros (Hn & _ & Hf & Hab). split; [exact Hn|]. split.
  - eapply Forall_perm; [apply isort_perm|]. apply (fold_conj_Forall (field_ok 124)). exact Hf.
  - fold entry in Hab. rewrite sorted_entries in Hab. apply all_but_last_map in Hab. exact Hab.
Qed.

Lemma union_name_no_stop nm : union_name_ok nm -> no_stop nm.
Proof. intros (H1 & H2 & H3) c Hc [E|[E|E]]; subst c; auto. Qed.

Lemma union_body_stops L r : ctx (dash_last L, true) r -> stops (union_body L ++ r).
Proof.
  destruct L as [|f L]; [simpl; apply ctx_stops|]. intros _. rewrite union_body_cons. simpl. unfold stop. auto.
Qed.

Lemma prim_not_composite p r1 x : prim_name p ++ r1 = 95%N :: x -> False.
Proof. destruct (prim_name_head p) as (c & s & -> & Hc). simpl. intros [= ->]. now apply Hc. Qed.

Theorem hpure_parse t1 : Pty t1.
Proof.
  induction t1 as [p|i e IH|ki k ei e IHk IHe|key fs IH|nm vs IH|id] using ty_ind';
    intros t2 r1 r2 Hc1 Hc2 Hx1 Hx2 H.
  - (* primitive *)
    destruct t2 as [q|i2 e2|ki2 k2 ei2 e2|key2 fs2|nm2 vs2|id2]; try (now destruct Hc2);
      rewrite ?hpure_prim, ?hpure_arr, ?hpure_map, ?hpure_obj, ?hpure_union in H;
      try (cbn [app] in H; exfalso; exact (prim_not_composite _ _ _ H)).
    destruct (prim_names_parse p q r1 r2 (ctx_stops _ _ Hx1) (ctx_stops _ _ Hx2) H) as [-> ->].
    split; [constructor|reflexivity].
  - (* array *)
    destruct t2 as [q|i2 e2|ki2 k2 ei2 e2|key2 fs2|nm2 vs2|id2]; try (now destruct Hc2);
      rewrite ?hpure_prim, ?hpure_arr, ?hpure_map, ?hpure_obj, ?hpure_union in H; cbn [app] in H;
      try (exfalso; symmetry in H; exact (prim_not_composite _ _ _ H)); try discriminate H.
    injection H as H. rewrite ends_arr in Hx1, Hx2.
    destruct (IH e2 r1 r2 Hc1 Hc2 Hx1 Hx2 H) as [Hs Hr]. split; [now constructor|exact Hr].
  - (* map *)
    destruct t2 as [q|i2 e2|ki2 k2 ei2 e2|key2 fs2|nm2 vs2|id2]; try (now destruct Hc2);
      rewrite ?hpure_prim, ?hpure_arr, ?hpure_map, ?hpure_obj, ?hpure_union in H; cbn [app] in H;
      try (exfalso; symmetry in H; exact (prim_not_composite _ _ _ H)); try discriminate H.
    injection H as H. rewrite <- !app_assoc in H. cbn [app] in H.
    destruct Hc1 as [Hck1 Hce1]. destruct Hc2 as [Hck2 Hce2]. rewrite ends_map in Hx1, Hx2.
    destruct (IHk k2 _ _ Hck1 Hck2 (ctx_colon _ _) (ctx_colon _ _) H) as [Hsk Hr].
    injection Hr as Hr.
    destruct (IHe e2 r1 r2 Hce1 Hce2 Hx1 Hx2 Hr) as [Hse Hr']. split; [now constructor|exact Hr'].
  - (* object *)
    destruct t2 as [q|i2 e2|ki2 k2 ei2 e2|key2 fs2|nm2 vs2|id2]; try (now destruct Hc2);
      rewrite ?hpure_prim, ?hpure_arr, ?hpure_map, ?hpure_obj, ?hpure_union in H; cbn [app] in H;
      try (exfalso; symmetry in H; exact (prim_not_composite _ _ _ H)); try discriminate H.
    injection H as H. rewrite ends_obj in Hx1, Hx2.
    destruct (cls_obj _ _ Hc1) as [Hok1 Hab1]. destruct (cls_obj _ _ Hc2) as [Hok2 Hab2].
    destruct (obj_fields_parse (isort fname fs)) with (L2 := isort fname fs2) (r1 := r1) (r2 := r2) as [HF Hr]; try assumption.
    + eapply Forall_perm; [apply isort_perm|exact IH].
    + split; [now constructor|exact Hr].
  - (* union *)
    destruct t2 as [q|i2 e2|ki2 k2 ei2 e2|key2 fs2|nm2 vs2|id2]; try (now destruct Hc2);
      rewrite ?hpure_prim, ?hpure_arr, ?hpure_map, ?hpure_obj, ?hpure_union in H; cbn [app] in H;
      try (exfalso; symmetry in H; exact (prim_not_composite _ _ _ H)); try discriminate H.
    injection H as H. rewrite <- !app_assoc in H. rewrite ends_union in Hx1, Hx2.
    destruct (cls_union _ _ Hc1) as (Hn1 & Hok1 & Hab1). destruct (cls_union _ _ Hc2) as (Hn2 & Hok2 & Hab2).
    destruct (split_stop _ _ _ _ (union_name_no_stop _ Hn1) (union_name_no_stop _ Hn2)
                         (union_body_stops _ _ Hx1) (union_body_stops _ _ Hx2) H) as [-> Hb].
    destruct (union_values_parse (isort fname vs)) with (L2 := isort fname vs2) (r1 := r1) (r2 := r2) as [HF Hr]; try assumption.
    + eapply Forall_perm; [apply isort_perm|exact IH].
    + split; [now constructor|exact Hr].
  - destruct Hc1.
Qed.

Corollary hpure_injective t1 t2 : cls t1 -> cls t2 -> hpure t1 = hpure t2 -> tsim t1 t2.
Proof.
  intros H1 H2 H. destruct (hpure_parse t1 t2 [] [] H1 H2) as [Hs _]; try (now left).
  - now rewrite !app_nil_r.
  - exact Hs.
Qed.

(* ---- for a type without user types and with pairwise distinct Object pointers the
        hasher returns hpure (the seen map never answers) ---- *)

Definition seen_spec (s s' : seen) (K : list nat) : Prop :=
  forall x, is_seen x s' = true <-> (is_seen x s = true \/ In x K).
Definition fresh (K : list nat) (s : seen) : Prop := forall x, In x K -> is_seen x s = false.

Lemma is_seen_cons k v s x : is_seen x ((k, v) :: s) = (Nat.eqb x k || is_seen x s)%bool.
Proof. unfold is_seen. simpl. destruct (Nat.eqb x k); reflexivity. Qed.

Lemma slookup_fresh k s : is_seen k s = false -> slookup k s = None.
Proof. unfold is_seen. destruct (slookup k s); [discriminate|reflexivity]. Qed.

Lemma NoDup_app_r {A} (a b : list A) : NoDup (a ++ b) -> NoDup b.
Proof. induction a as [|x a IH]; simpl; [trivial|]. intro H. inversion H; subst. now apply IH. Qed.
Lemma NoDup_app_l {A} (a b : list A) : NoDup (a ++ b) -> NoDup a.
Proof.
  induction a as [|x a IH]; simpl; [constructor|]. intro H. inversion H as [|? ? Hx Hr]; subst.
  constructor; [|now apply IH]. intro C. apply Hx. apply in_or_app. now left.
Qed.
Lemma NoDup_app_disj {A} (a b : list A) x : NoDup (a ++ b) -> In x a -> In x b -> False.
Proof.
  induction a as [|y a IH]; simpl; [easy|]. intro H. inversion H as [|? ? Hy Hr]; subst.
  intros [->|Hx] Hb; [apply Hy, in_or_app; now right|now apply IH].
Qed.

Definition pure_step (rec : ty -> seen -> hres) (t : ty) : Prop :=
  forall s, fresh (keys_ty t) s -> exists s', rec t s = Some (hpure t, s') /\ seen_spec s s' (keys_ty t).

Lemma hash_values_pure rec L :
  (forall f, In f L -> pure_step rec (ftype f)) ->
  NoDup (flat_map (fun f => keys_ty (ftype f)) L) ->
  forall acc s, fresh (flat_map (fun f => keys_ty (ftype f)) L) s ->
    exists s', hash_values rec L acc s = Some (acc ++ union_body L, s') /\
               seen_spec s s' (flat_map (fun f => keys_ty (ftype f)) L).
Proof.
  induction L as [|f L IH]; intros Hrec Hnd acc s Hf.
  - exists s. rewrite hash_values_nil, app_nil_r. split; [reflexivity|]. intro x. simpl. tauto.
  - simpl in Hnd, Hf. rewrite hash_values_cons.
    destruct (Hrec f (or_introl eq_refl) s) as (s1 & -> & Hs1).
    { intros x Hx. apply Hf. apply in_or_app. now left. }
    destruct (IH (fun g Hg => Hrec g (or_intror Hg))) with (acc := acc ++ unionAttributePrefix ++ fname f ++ unionAttributeTypePrefix ++ hpure (ftype f)) (s := s1)
      as (s2 & -> & Hs2).
    { exact (NoDup_app_r _ _ Hnd). }
    { intros x Hx. destruct (is_seen x s1) eqn:E1; [|reflexivity]. apply Hs1 in E1 as [E1|E1].
      - rewrite Hf in E1; [discriminate|apply in_or_app; now right].
      - exfalso. exact (NoDup_app_disj _ _ x Hnd E1 Hx). }
    exists s2. split.
    + assert (Hb : (acc ++ unionAttributePrefix ++ fname f ++ unionAttributeTypePrefix ++ hpure (ftype f)) ++ union_body L
                   = acc ++ union_body (f :: L)).
      { rewrite union_body_cons. unfold unionAttributePrefix, unionAttributeTypePrefix.
        rewrite <- !app_assoc. cbn [app]. rewrite <- ?app_assoc. reflexivity. }
      now rewrite Hb.
    + intro x. rewrite (Hs2 x), (Hs1 x). simpl. rewrite in_app_iff. tauto.
Qed.

Lemma hash_fields_pure rec k L :
  (forall f, In f L -> pure_step rec (ftype f)) ->
  NoDup (flat_map (fun f => keys_ty (ftype f)) L) -> ~ In k (flat_map (fun f => keys_ty (ftype f)) L) ->
  forall acc s, is_seen k s = true -> fresh (flat_map (fun f => keys_ty (ftype f)) L) s ->
    exists s', hash_fields rec k true L acc s = Some (acc ++ obj_body L, s') /\
               seen_spec s s' (flat_map (fun f => keys_ty (ftype f)) L).
Proof.
  induction L as [|f L IH]; intros Hrec Hnd Hk acc s Hks Hf.
  - exists s. rewrite hash_fields_nil, app_nil_r. split; [reflexivity|]. intro x. simpl. tauto.
  - simpl in Hnd, Hf, Hk. rewrite hash_fields_cons.
    destruct (Hrec f (or_introl eq_refl) s) as (s1 & -> & Hs1).
    { intros x Hx. apply Hf. apply in_or_app. now left. }
    cbv zeta.
    assert (Hks1 : is_seen k s1 = true) by (apply Hs1; now left).
    match goal with |- context [hash_fields rec k true L ?a ?st] =>
      destruct (IH (fun g Hg => Hrec g (or_intror Hg))) with (acc := a) (s := st) as (s2 & -> & Hs2) end.
    { exact (NoDup_app_r _ _ Hnd). }
    { intro C. apply Hk. apply in_or_app. now right. }
    { rewrite is_seen_cons, Nat.eqb_refl. reflexivity. }
    { intros x Hx. rewrite is_seen_cons.
      assert (Nat.eqb x k = false) as -> by (apply Nat.eqb_neq; intros ->; apply Hk, in_or_app; now right).
      simpl. destruct (is_seen x s1) eqn:E1; [|reflexivity]. apply Hs1 in E1 as [E1|E1].
      - rewrite Hf in E1; [discriminate|apply in_or_app; now right].
      - exfalso. exact (NoDup_app_disj _ _ x Hnd E1 Hx). }
    exists s2. split.
    + assert (Hb : (acc ++ attributePrefix ++ fname f ++ attributeTypePrefix ++ hpure (ftype f) ++ []) ++ obj_body L
                   = acc ++ obj_body (f :: L)).
      { rewrite obj_body_cons. unfold attributePrefix, attributeTypePrefix. rewrite app_nil_r.
        rewrite <- !app_assoc. cbn [app]. rewrite <- ?app_assoc. reflexivity. }
      now rewrite Hb.
    + intro x. rewrite (Hs2 x), is_seen_cons. simpl. rewrite in_app_iff.
      destruct (Nat.eqb x k) eqn:Ex.
      * apply Nat.eqb_eq in Ex. subst x. simpl. split; [intros _; left; exact Hks|]. intros _. now left.
      * simpl. rewrite (Hs1 x). tauto.
Qed.

Lemma cls_fields c fs : fold_right (fun f acc => (no_byte c (fname f) /\ cls (ftype f)) /\ acc) True fs ->
  forall f, In f fs -> cls (ftype f).
Proof. intros H f Hf. apply (fold_conj_Forall (field_ok c)) in H. rewrite Forall_forall in H. now destruct (H f Hf). Qed.

Lemma keys_field_sub (fs : list (fld ty)) f : In f fs -> incl (keys_ty (ftype f)) (flat_map (fun f => keys_ty (ftype f)) fs).
Proof. intros H x Hx. apply in_flat_map. now exists f. Qed.

Lemma NoDup_flat_map_in {A B} (g : A -> list B) l x : NoDup (flat_map g l) -> In x l -> NoDup (g x).
Proof.
  induction l as [|y r IH]; simpl; [easy|]. intros Hn [->|Hx]; [exact (NoDup_app_l _ _ Hn)|].
  apply IH; [exact (NoDup_app_r _ _ Hn)|exact Hx].
Qed.

Lemma hash_is_hpure E t : cls t -> NoDup (keys_ty t) ->
  forall fuel, fuel > depth t -> pure_step (hash fuel equal_flags E) t.
Proof.
  induction t as [p|i e IH|ki k ei e IHk IHe|key fs IH|nm vs IH|id] using ty_ind'; intros Hc Hn fuel Hfuel s Hfr;
    (destruct fuel as [|n]; [lia|]); simpl in Hfuel.
  - exists s. split; [reflexivity|]. intro x. simpl. tauto.
  - destruct (IH Hc Hn n ltac:(lia) s Hfr) as (s1 & H1 & Hs1). exists s1. simpl. rewrite H1. split; [reflexivity|exact Hs1].
  - destruct Hc as [Hck Hce]. simpl in Hn, Hfr.
    destruct (IHk Hck (NoDup_app_l _ _ Hn) n ltac:(lia) s) as (s1 & H1 & Hs1).
    { intros x Hx. apply Hfr, in_or_app. now left. }
    destruct (IHe Hce (NoDup_app_r _ _ Hn) n ltac:(lia) s1) as (s2 & H2 & Hs2).
    { intros x Hx. destruct (is_seen x s1) eqn:E1; [|reflexivity]. apply Hs1 in E1 as [E1|E1].
      - rewrite Hfr in E1; [discriminate|apply in_or_app; now right].
      - exfalso. exact (NoDup_app_disj _ _ x Hn E1 Hx). }
    exists s2. simpl. rewrite H1, H2. split; [reflexivity|].
    intro x. rewrite (Hs2 x), (Hs1 x). simpl. rewrite in_app_iff. tauto.
  - (* object *)
    destruct Hc as (Hnd & Hcf & Hab). simpl in Hn, Hfr.
    inversion Hn as [|? ? Hkey Hnk]; subst.
    assert (Hperm : Permutation (flat_map (fun f => keys_ty (ftype f)) fs) (flat_map (fun f => keys_ty (ftype f)) (isort fname fs)))
      by (apply Permutation_flat_map, isort_perm).
    simpl. rewrite (slookup_fresh key s (Hfr key (or_introl eq_refl))).
    destruct (hash_fields_pure (hash n equal_flags E) key (isort fname fs)) with (acc := objectPrefix) (s := (key, objectPrefix) :: s)
      as (s1 & H1 & Hs1).
    + intros f Hf. apply in_isort in Hf. rewrite Forall_forall in IH.
      apply IH; [exact Hf|exact (cls_fields _ _ Hcf f Hf)|exact (NoDup_flat_map_in _ _ f Hnk Hf)|].
      pose proof (depth_field f fs Hf). lia.
    + eapply Permutation_NoDup; [exact Hperm|exact Hnk].
    + intro C. apply Hkey. eapply Permutation_in; [apply Permutation_sym, Hperm|exact C].
    + rewrite is_seen_cons, Nat.eqb_refl. reflexivity.
    + intros x Hx. rewrite is_seen_cons.
      assert (Hx' : In x (flat_map (fun f => keys_ty (ftype f)) fs)) by (eapply Permutation_in; [apply Permutation_sym, Hperm|exact Hx]).
      assert (Nat.eqb x key = false) as -> by (apply Nat.eqb_neq; intros ->; contradiction).
      simpl. apply Hfr. now right.
    + exists s1. simpl in H1. rewrite H1. split; [now rewrite hpure_obj|].
      intro x. rewrite (Hs1 x), is_seen_cons. simpl.
      assert (Hiff : In x (flat_map (fun f => keys_ty (ftype f)) (isort fname fs)) <-> In x (flat_map (fun f => keys_ty (ftype f)) fs)).
      { split; intro Hx; [eapply Permutation_in; [apply Permutation_sym, Hperm|exact Hx]|eapply Permutation_in; [exact Hperm|exact Hx]]. }
      rewrite Hiff. destruct (Nat.eqb x key) eqn:Ex; simpl.
      * apply Nat.eqb_eq in Ex. subst. tauto.
      * apply Nat.eqb_neq in Ex. split; [tauto|]. intros [H|[H|H]]; [tauto|congruence|tauto].
  - (* union *)
    destruct Hc as (Hnm & Hnd & Hcf & Hab). simpl in Hn, Hfr.
    assert (Hperm : Permutation (flat_map (fun f => keys_ty (ftype f)) vs) (flat_map (fun f => keys_ty (ftype f)) (isort fname vs)))
      by (apply Permutation_flat_map, isort_perm).
    destruct (hash_values_pure (hash n equal_flags E) (isort fname vs)) with (acc := unionTypePrefix ++ nm) (s := s) as (s1 & H1 & Hs1).
    + intros f Hf. apply in_isort in Hf. rewrite Forall_forall in IH.
      apply IH; [exact Hf|exact (cls_fields _ _ Hcf f Hf)|exact (NoDup_flat_map_in _ _ f Hn Hf)|].
      pose proof (depth_field f vs Hf). lia.
    + eapply Permutation_NoDup; [exact Hperm|exact Hn].
    + intros x Hx. apply Hfr. eapply Permutation_in; [apply Permutation_sym, Hperm|exact Hx].
    + exists s1. simpl. unfold unionTypePrefix in H1. cbn [app] in H1. cbn [app]. rewrite H1.
      split; [rewrite hpure_union; now rewrite <- ?app_assoc|].
      intro x. rewrite (Hs1 x).
      split; (intros [H|H]; [now left|right]); [eapply Permutation_in; [apply Permutation_sym, Hperm|exact H]|eapply Permutation_in; [exact Hperm|exact H]].
  - destruct Hc.
Qed.

(* inside the class, equal hashes under the flags of Equal imply equal structure *)
Theorem hash_sound_partial_lemma E1 E2 t1 t2 f1 f2 h :
  cls t1 -> cls t2 -> NoDup (keys_ty t1) -> NoDup (keys_ty t2) ->
  Hash f1 equal_flags E1 t1 = Some h -> Hash f2 equal_flags E2 t2 = Some h -> tsim t1 t2.
Proof.
  intros Hc1 Hc2 Hn1 Hn2 H1 H2.
  assert (Hp : forall E t, cls t -> NoDup (keys_ty t) -> Hash (S (depth t)) equal_flags E t = Some (hpure t)).
  { intros E t Hc Hn. unfold Hash.
    destruct (hash_is_hpure E t Hc Hn (S (depth t)) ltac:(lia) []) as (s' & -> & _); [|reflexivity].
    intros x _. reflexivity. }
  pose proof (Hash_budget_irrelevant _ _ _ _ _ _ _ H1 (Hp E1 t1 Hc1 Hn1)) as ->.
  pose proof (Hash_budget_irrelevant _ _ _ _ _ _ _ H2 (Hp E2 t2 Hc2 Hn2)) as Heq.
  now apply hpure_injective.
Qed.

(* the class is not empty and excludes exactly the shapes of the recorded collision *)
Example cls_example :
  cls (TObj 0 [F [99%N] ai_none tInt; F [122%N] ai_none (TObj 1 [F [98%N] ai_none tInt])]) /\ ~ cls w_flat /\ cls w_nested.
Proof.
  split; [|split].
  - simpl. repeat split; try (repeat constructor; intro C; simpl in C; intuition discriminate); try (intro C; simpl in C; intuition discriminate).
  - intros (_ & _ & H). vm_compute in H. destruct H as [H _]. discriminate H.
  - simpl. repeat split; try (repeat constructor; intro C; simpl in C; intuition discriminate); try (intro C; simpl in C; intuition discriminate).
Qed.
