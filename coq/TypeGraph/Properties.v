(* C13 — property statements only. Every theorem is closed by a lemma of Lemmas.v and
   followed by Print Assumptions. hash / Hash / Equal / dup_* are the model of
   expr/hasher.go, expr/types.go and expr/dup.go in Model.v; teq / env_eq is structural
   equality under the documented rules of Hash for a flag vector. *)
From TypeGraph Require Import Model Lemmas Sound.
From Coq Require Import Permutation.

(* ---- declaration order is irrelevant ---- *)

(* attributes of an object: any permutation of a list with pairwise distinct names
   gives the same hash (and the same seen map), for every flag vector, every
   environment of user types (cyclic or not), every budget and every traversal state *)
Theorem hash_perm_invariant_obj fuel fl E k fs fs' s :
  Permutation fs fs' -> NoDup (map fname fs) ->
  hash fuel fl E (TObj k fs) s = hash fuel fl E (TObj k fs') s.
Proof. exact (hash_obj_perm fuel fl E k fs fs' s). Qed.
Print Assumptions hash_perm_invariant_obj.

(* values of a union (true since e87dbbd) *)
Theorem hash_perm_invariant_union fuel fl E nm vs vs' s :
  Permutation vs vs' -> NoDup (map fname vs) ->
  hash fuel fl E (TUnion nm vs) s = hash fuel fl E (TUnion nm vs') s.
Proof. exact (hash_union_perm fuel fl E nm vs vs' s). Qed.
Print Assumptions hash_perm_invariant_union.

(* meta entries (true since 67248c3): the hasher reads a meta map only through [tags],
   which does not depend on the order in which the entries of the map are supplied *)
Theorem hash_meta_order_invariant m m' :
  Permutation m m' -> NoDup (map fst m) -> tags m = tags m'.
Proof. exact (tags_perm m m'). Qed.
Print Assumptions hash_meta_order_invariant.

(* ... spelled out for the meta of an attribute of an object ... *)
Theorem hash_meta_order_invariant_attribute fuel fl E k fs1 n i t fs2 m m' h :
  Permutation m m' -> NoDup (map fst m) ->
  Hash fuel fl E (TObj k (fs1 ++ F n (set_meta i m) t :: fs2)) = Some h ->
  Hash fuel fl E (TObj k (fs1 ++ F n (set_meta i m') t :: fs2)) = Some h.
Proof. exact (hash_meta_order_field fuel fl E k fs1 n i t fs2 m m' h). Qed.
Print Assumptions hash_meta_order_invariant_attribute.

(* ... and for the meta of the attribute of a user type anywhere in the environment
   (this includes the struct:type:name entry that overrides the type name) *)
Theorem hash_meta_order_invariant_user_type fuel fl E1 id d E2 m m' t h :
  Permutation m m' -> NoDup (map fst m) ->
  Hash fuel fl (E1 ++ (id, set_user_meta d m) :: E2) t = Some h ->
  Hash fuel fl (E1 ++ (id, set_user_meta d m') :: E2) t = Some h.
Proof. exact (hash_meta_order_user fuel fl E1 id d E2 m m' t h). Qed.
Print Assumptions hash_meta_order_invariant_user_type.

(* ---- same input, same answer; the recursion ends ---- *)

(* Hash is a Gallina function of (flags, environment, type): repeated calls agree by
   construction. What needs proof is that the answer does not depend on the recursion
   budget the model is run with: *)
Theorem hash_deterministic fl E t n m h h' :
  Hash n fl E t = Some h -> Hash m fl E t = Some h' -> h = h'.
Proof. exact (Hash_budget_irrelevant fl E t n m h h'). Qed.
Print Assumptions hash_deterministic.

Theorem hash_budget_monotone fl E t n m h : n <= m -> Hash n fl E t = Some h -> Hash m fl E t = Some h.
Proof. exact (Hash_fuel_mono fl E t n m h). Qed.
Print Assumptions hash_budget_monotone.

(* Termination, for every environment in which each cycle of user types passes through
   an object (rank strictly decreases along references that do not cross an object),
   cyclic or not: the budget fuel_bound — computed from the number of objects, the
   depth of the bodies and the largest rank — always suffices. wf_ty / wf_env say: user
   type references resolve, ranks are bounded by R. *)
Theorem hash_terminates E rank R t fl :
  wf_env E rank (keys_ty t ++ env_keys E) (Nat.max (depth t) (env_depth E)) R ->
  wf_ty E rank (keys_ty t ++ env_keys E) (Nat.max (depth t) (env_depth E)) R t ->
  exists h, Hash (fuel_bound E t R) fl E t = Some h.
Proof. exact (hash_terminates_lemma E rank R t fl). Qed.
Print Assumptions hash_terminates.

(* ---- structurally equal => same hash (completeness), every flag vector ---- *)

(* Two graphs related by a correspondence of user type pointers (ru) and an injective
   correspondence of Object pointers (rk) under the documented rules — same kinds, same
   attribute / value names up to declaration order, same struct:field tags unless
   ignoreTags, same user type names unless ignoreNames, bodies compared unless
   ignoreFields — hash alike. A copy is such a graph, and so is any re-declaration. *)
Theorem hash_complete fl ru rk dom E E' t t' fuel h :
  (forall a b, rk a = rk b -> a = b) ->
  env_eq fl ru rk dom E E' -> teq fl ru rk dom t t' ->
  Hash fuel fl E t = Some h -> Hash fuel fl E' t' = Some h.
Proof. exact (hash_complete_top fl ru rk dom E E' t t' fuel h). Qed.
Print Assumptions hash_complete.

(* ---- same hash => structurally equal (soundness): FALSE, two recorded findings ---- *)

(* {a: {b: int}, c: int} and {a: {b: int, c: int}}: the attribute list of an object has
   no closing delimiter *)
Theorem hash_sound_refuted :
  exists t1 t2 h, Hash 8 equal_flags [] t1 = Some h /\ Hash 8 equal_flags [] t2 = Some h /\
                  forall ru rk dom, ~ teq equal_flags ru rk dom t1 t2.
Proof.
  exists w_flat, w_nested. destruct w_same_hash as [He Hn].
  destruct (Hash 8 equal_flags [] w_flat) as [h|] eqn:E1; [|congruence].
  exists h. repeat split; [now rewrite <- He|exact w_not_teq].
Qed.
Print Assumptions hash_sound_refuted.

(* T = {a: T} and T' = {a: U}, U = {}: a recursive reference contributes the prefix of
   the enclosing object's string built so far *)
Theorem hash_sound_recursive_refuted :
  exists E1 E2 t1 t2 h, Hash 8 equal_flags E1 t1 = Some h /\ Hash 8 equal_flags E2 t2 = Some h /\
    forall ru rk dom, ~ (teq equal_flags ru rk dom t1 t2 /\ env_eq equal_flags ru rk dom E1 E2).
Proof.
  exists e_rec, e_cut, (TUser 0), (TUser 0). destruct rec_same_hash as [He Hn].
  destruct (Hash 8 equal_flags e_rec (TUser 0)) as [h|] eqn:E1; [|congruence].
  exists h. repeat split; [now rewrite <- He|exact rec_not_teq].
Qed.
Print Assumptions hash_sound_recursive_refuted.

(* ... TRUE inside the class cls, which is the negation of the signatures of the two
   findings plus clean names: no user types (hence no recursive reference); attribute
   names without '/', union value names without '|', union type names without '-' ':'
   '_'; pairwise distinct names; and in every object (union) only the attribute (value)
   that sorts last may have a type whose hash ends in an open attribute (value) list.
   There, equal hashes under the flags of Equal imply equal structure up to declaration
   order (tsim): the string can be parsed back. The Object pointers of each type are
   pairwise distinct (a tree). *)
Theorem hash_sound_partial E1 E2 t1 t2 f1 f2 h :
  cls t1 -> cls t2 -> NoDup (keys_ty t1) -> NoDup (keys_ty t2) ->
  Hash f1 equal_flags E1 t1 = Some h -> Hash f2 equal_flags E2 t2 = Some h -> tsim t1 t2.
Proof. exact (hash_sound_partial_lemma E1 E2 t1 t2 f1 f2 h). Qed.
Print Assumptions hash_sound_partial.

(* ... and there the hash is the closed form hpure, whatever the budget above the depth *)
Theorem hash_closed_form E t :
  cls t -> NoDup (keys_ty t) -> Hash (S (depth t)) equal_flags E t = Some (hpure t).
Proof.
  intros Hc Hn. unfold Hash.
  destruct (hash_is_hpure E t Hc Hn (S (depth t)) (Nat.lt_succ_diag_r _) []) as (s' & -> & _); [|reflexivity].
  intros x _. reflexivity.
Qed.
Print Assumptions hash_closed_form.

(* ---- Equal on two types of one graph ----
   expr.Equal hashes each operand with a seen map of its own (Hash twice); the operands
   may live in the same environment and reach the same Object pointers. *)
Theorem equal_symmetric fuel E1 t1 E2 t2 : Equal fuel E1 t1 E2 t2 = Equal fuel E2 t2 E1 t1.
Proof. exact (Equal_sym fuel E1 t1 E2 t2). Qed.
Print Assumptions equal_symmetric.

Theorem equal_reflexive fuel E t h : Hash fuel equal_flags E t = Some h -> Equal fuel E t E t = Some true.
Proof. exact (Equal_refl fuel E t h). Qed.
Print Assumptions equal_reflexive.

(* ---- copies (expr.Dup) ----
   The copy of user type pointer id is named offu + id and the copy of Object pointer
   key is named offk + key; uid_inj: distinct user types have distinct ID() (the memo of
   the dupper is keyed by it); names_ok: attribute names of an object are pairwise
   distinct. *)

(* Copying ends, with the budget dup_fuel, for every environment, cyclic or not *)
Theorem dup_terminates E offu offk t :
  dwf_env E (Nat.max (depth t) (env_depth E)) -> dwf E (Nat.max (depth t) (env_depth E)) t ->
  exists E' t', Dup E offu offk (dup_fuel E t) t = Some (E', t').
Proof. exact (dup_terminates_lemma E offu offk t). Qed.
Print Assumptions dup_terminates.

(* The copy is the original with every pointer renamed: its root is shift_ty of the
   root, and every user type of the copy is shift_def of the user type it stands for
   (all fields kept except ContentType of a result type, see below). *)
Theorem dup_is_renaming E offu offk fuel t E' t' :
  (forall id id' d d', elookup id E = Some d -> elookup id' E = Some d' -> ut_id d = ut_id d' -> id = id') ->
  (forall id d, elookup id E = Some d -> names_ok (ut_type d)) ->
  names_ok t -> Dup E offu offk fuel t = Some (E', t') ->
  t' = shift_ty offu offk t /\
  exists dom : nat -> Prop,
    (forall v, In v (users_ty t) -> dom v) /\
    (forall id d, dom id -> elookup id E = Some d ->
       elookup (offu + id) E' = Some (shift_def offu offk d) /\ forall v, In v (users_ty (ut_type d)) -> dom v) /\
    (forall x d', In (x, d') E' -> exists id d, x = offu + id /\ elookup id E = Some d /\ d' = shift_def offu offk d).
Proof. intros H1 H2. exact (dup_result E offu offk H1 H2 fuel t E' t'). Qed.
Print Assumptions dup_is_renaming.

(* Hash(Dup t) = Hash(t): under every flag vector, for every environment (recursive
   and mutually recursive types included); the copy is hashed in its own environment E'
   alone — it does not point into the original *)
Theorem dup_equal E offu offk fl fuel f t E' t' h :
  (forall id id' d d', elookup id E = Some d -> elookup id' E = Some d' -> ut_id d = ut_id d' -> id = id') ->
  (forall id d, elookup id E = Some d -> names_ok (ut_type d)) ->
  names_ok t -> Dup E offu offk fuel t = Some (E', t') ->
  Hash f fl E t = Some h -> Hash f fl E' t' = Some h.
Proof. intros H1 H2. exact (dup_equal_lemma E offu offk H1 H2 fl fuel f t E' t' h). Qed.
Print Assumptions dup_equal.

(* Equal(a, b) = Equal(Dup a, Dup b) for two types a, b of one graph, each copied on its
   own: a copy is structurally equal to its original *)
Theorem equal_copy_invariant E offu offk offu' offk' fa fb fuel a b Ea a' Eb b' v :
  (forall id id' d d', elookup id E = Some d -> elookup id' E = Some d' -> ut_id d = ut_id d' -> id = id') ->
  (forall id d, elookup id E = Some d -> names_ok (ut_type d)) ->
  names_ok a -> names_ok b ->
  Dup E offu offk fa a = Some (Ea, a') -> Dup E offu' offk' fb b = Some (Eb, b') ->
  Equal fuel E a E b = Some v -> Equal fuel Ea a' Eb b' = Some v.
Proof. exact (Equal_copies E offu offk offu' offk' fa fb fuel a b Ea a' Eb b' v). Qed.
Print Assumptions equal_copy_invariant.

(* every user type pointer and every Object pointer of the copy is fresh *)
Theorem dup_fresh E offu offk fuel t E' t' :
  (forall id id' d d', elookup id E = Some d -> elookup id' E = Some d' -> ut_id d = ut_id d' -> id = id') ->
  (forall id d, elookup id E = Some d -> names_ok (ut_type d)) ->
  names_ok t -> Dup E offu offk fuel t = Some (E', t') ->
  (forall v, In v (users_ty t') -> offu <= v) /\ (forall k, In k (keys_ty t') -> offk <= k) /\
  (forall x d', In (x, d') E' ->
     offu <= x /\ (forall v, In v (users_ty (ut_type d')) -> offu <= v) /\ (forall k, In k (keys_ty (ut_type d')) -> offk <= k)).
Proof. intros H1 H2. exact (dup_fresh_lemma E offu offk H1 H2 fuel t E' t'). Qed.
Print Assumptions dup_fresh.

(* Independence at the level the model has pointers for (user types; every node below is
   a value of the model, and the absence of sharing there is established on the real code
   by the harness on every run): after any sequence of writes through the copy — each one
   rebinds a user type pointer the copy reaches, all of which are fresh by dup_fresh, or a
   pointer allocated later — every user type of the original reads what it read before. *)
Theorem dup_independent E offu offk fuel t E' t' :
  (forall id id' d d', elookup id E = Some d -> elookup id' E = Some d' -> ut_id d = ut_id d' -> id = id') ->
  (forall id d, elookup id E = Some d -> names_ok (ut_type d)) ->
  names_ok t -> Dup E offu offk fuel t = Some (E', t') ->
  (forall id d, elookup id E = Some d -> id < offu) ->
  forall ws, Forall (fun w => offu <= fst w) ws ->
  forall id d, elookup id E = Some d -> elookup id (apply_writes ws (E' ++ E)) = Some d.
Proof. exact (dup_writes_invisible E offu offk fuel t E' t'). Qed.
Print Assumptions dup_independent.

(* FALSE for views (recorded finding): the copy of a result type reaches the very view
   pointers of the original, so a write through the copy's view is a write to the
   original's view *)
Theorem dup_views_shared_refuted :
  exists E t offu offk E' t' v,
    Dup E offu offk (dup_fuel E t) t = Some (E', t') /\ In v (views_of E') /\ In v (views_of E).
Proof.
  destruct views_shared_example as (E' & t' & H1 & H2 & H3).
  exists e_views, (TUser 0), 1, 1, E', t', 0. auto.
Qed.
Print Assumptions dup_views_shared_refuted.

(* ... and nothing else: the views the copy reaches are views of the original, so a
   graph without views has a copy that shares nothing *)
Theorem dup_views_partial E offu offk fuel t E' t' :
  (forall id id' d d', elookup id E = Some d -> elookup id' E = Some d' -> ut_id d = ut_id d' -> id = id') ->
  (forall id d, elookup id E = Some d -> names_ok (ut_type d)) ->
  names_ok t -> Dup E offu offk fuel t = Some (E', t') ->
  incl (views_of E') (views_of E) /\ (views_of E = [] -> views_of E' = []).
Proof.
  intros H1 H2 H3 H4. pose proof (dup_views_lemma E offu offk H1 H2 fuel t E' t' H3 H4) as Hi.
  split; [exact Hi|]. intro Hn. rewrite Hn in Hi. destruct (views_of E') as [|v r]; [reflexivity|].
  exfalso. exact (Hi v (or_introl eq_refl)).
Qed.
Print Assumptions dup_views_partial.

(* The copy of an attribute keeps every field (Docs included, since the repair of
   DupAttribute): on the non-type part of an attribute Dup is the identity *)
Theorem dup_keeps_attribute_fields i : dup_info i = i.
Proof. exact (dup_info_id i). Qed.
Print Assumptions dup_keeps_attribute_fields.

(* The one field the copy of a result type loses (recorded finding): ResultTypeExpr.Dup
   does not copy ContentType; Identifier and Views are kept *)
Theorem dup_keeps_result_fields_refuted : exists r, dup_rt r <> r.
Proof. exact dup_rt_ctype_lost. Qed.
Print Assumptions dup_keeps_result_fields_refuted.

Theorem dup_keeps_result_fields_partial r : (forall x, r = Some x -> rt_ctype x = []) -> dup_rt r = r.
Proof. exact (dup_rt_id r). Qed.
Print Assumptions dup_keeps_result_fields_partial.

(* ---- the Required slice: the node where goa's own mutators write in place ----
   Go slices are modelled as (array, len, cap) over a store of arrays; AddRequired appends
   in place when there is spare capacity, RemoveRequired always shifts the cells of the
   array it was given. so: the original's slice, allocated before the copy (g_arr so <
   next0); A0: any store. *)

(* the copy reads the same names *)
Theorem required_dup_equal A0 next0 so :
  let (st, c) := required_dup (SS A0 next0) so in sread (ss_arrays st) c = sread A0 so.
Proof. exact (required_dup_reads A0 next0 so). Qed.
Print Assumptions required_dup_equal.

(* after ANY sequence of AddRequired / RemoveRequired calls on the copy, of any length,
   the original's Required reads exactly what it read before: the copy owns its array,
   and every array it moves to later is fresh *)
Theorem required_dup_independent A0 next0 so ops :
  g_arr so < next0 ->
  let (st1, c) := required_dup (SS A0 next0) so in
  let (st2, c') := run_rops ops st1 c in
  sread (ss_arrays st2) so = sread A0 so.
Proof. intro H. exact (required_independent A0 next0 so H ops). Qed.
Print Assumptions required_dup_independent.

(* the copy of the array is what makes this true: a second slice header over the same
   array (what a struct copy of the ValidationExpr gives) lets RemoveRequired change what
   the original reads. goa does copy (ValidationExpr.Dup); this is not a finding. *)
Theorem required_independence_needs_the_copy :
  exists A s x, let (st, _) := remove_required (SS A 1) s x in sread (ss_arrays st) s <> sread A s.
Proof. exact required_alias_leaks. Qed.
Print Assumptions required_independence_needs_the_copy.

(* ---- non-vacuity ---- *)

(* the hypotheses of hash_terminates hold for a mutually recursive pair T1 = {a: T2},
   T2 = {b: T1}, and the model computes the string the Go code returns for it *)
Example terminates_example :
  let E := [(0, UT [84;49]%N [] ai_none (TObj 0 [F [97%N] ai_none (TUser 1)]) None);
            (1, UT [84;50]%N [] ai_none (TObj 1 [F [98%N] ai_none (TUser 0)]) None)] in
  Hash (fuel_bound E (TUser 0) 0) (FL false false false) E (TUser 0)
  = Some ([95;116;95;84;49;33;95;111;95;45;97;47;95;116;95;84;50;33;95;111;95;45;98;47;95;116;95;84;49;33;95;111;95]%N).
Proof. vm_compute. reflexivity. Qed.

Example perm_example :
  let a := F [97%N] ai_none tInt in let b := F [98%N] ai_none (TPrim PString) in let c := F [99%N] ai_none tInt in
  Hash 4 equal_flags [] (TUnion [85%N] [c; a; b]) = Hash 4 equal_flags [] (TUnion [85%N] [a; b; c])
  /\ Hash 4 equal_flags [] (TUnion [85%N] [a; b; c]) <> None.
Proof. vm_compute. split; [reflexivity|discriminate]. Qed.

(* the hypotheses of dup_equal hold for the mutually recursive pair above, and the model
   computes a copy of it *)
Example dup_example :
  let E := [(0, UT [84;49]%N [] ai_none (TObj 0 [F [97%N] ai_none (TUser 1)]) None);
            (1, UT [84;50]%N [] ai_none (TObj 1 [F [98%N] ai_none (TUser 0)]) None)] in
  Dup E 2 2 (dup_fuel E (TUser 0)) (TUser 0)
  = Some ([(2, UT [84;49]%N [] ai_none (TObj 2 [F [97%N] ai_none (TUser 3)]) None);
           (3, UT [84;50]%N [] ai_none (TObj 3 [F [98%N] ai_none (TUser 2)]) None)], TUser 2).
Proof. vm_compute. reflexivity. Qed.

(* an attribute with Docs is copied with its Docs (regression witness of the repaired
   DupAttribute) *)
Example dup_docs_example :
  let i := AI [] None [] true [] in
  Dup [] 1 1 4 (TArr i tInt) = Some ([], TArr i tInt).
Proof. vm_compute. reflexivity. Qed.

(* the class of hash_sound_partial is inhabited, contains {a:{b:int,c:int}} and {c:int, z:{b:int}},
   and excludes {a:{b:int}, c:int} *)
Example sound_class_example :
  cls (TObj 0 [F [99%N] ai_none tInt; F [122%N] ai_none (TObj 1 [F [98%N] ai_none tInt])]) /\ ~ cls w_flat /\ cls w_nested.
Proof. exact cls_example. Qed.

(* the two members of A = {next: B}, B = {next: A} are Equal although each hash reads the
   partial string of the other's enclosing object: the two hashes do not share a seen map *)
Example equal_twins_example :
  let E := [(0, UT [65%N] [] ai_none (TObj 0 [F [110%N] ai_none (TUser 1)]) None);
            (1, UT [66%N] [] ai_none (TObj 1 [F [110%N] ai_none (TUser 0)]) None)] in
  Equal 8 E (TUser 0) E (TUser 1) = Some true.
Proof. vm_compute. reflexivity. Qed.

(* Required = [a; b; c] with capacity 4: on the copy, remove a, add d, add e (moves to a
   new array): the copy reads [b; c; d; e], the original still [a; b; c]; the same calls
   through an alias leave the original reading [b; c; d] *)
Example required_example :
  let A0 : arrays := [(0, [[97%N]; [98%N]; [99%N]; []])] in
  let so := GS 0 3 4 in
  let ops := [RRemove [97%N]; RAdd [100%N]; RAdd [101%N]] in
  (let (st1, c) := required_dup (SS A0 1) so in
   let (st2, c') := run_rops ops st1 c in
   (sread (ss_arrays st2) so, sread (ss_arrays st2) c')) = ([[97%N]; [98%N]; [99%N]], [[98%N]; [99%N]; [100%N]; [101%N]])
  /\ (let (st3, a') := run_rops ops (SS A0 1) so in sread (ss_arrays st3) so) = [[98%N]; [99%N]; [100%N]].
Proof. vm_compute. split; reflexivity. Qed.
