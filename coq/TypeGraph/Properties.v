From TypeGraph Require Import Model Lemmas.
